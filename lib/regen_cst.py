#!/usr/bin/env python3
"""Regenerate the cs_<field> setters of Container.v from the fields of [Record cst] (run after adding a field;
init_cst, simp_state in ContainerProofs.v and the OCaml driver's printers are edited by hand)."""
import re, sys
p = sys.argv[1] if len(sys.argv) > 1 else "/verif/coq/Container.v"
s = open(p).read()
m = re.search(r"Record cst := mkC \{\n(.*?)\n\}\.", s, re.S)
fields = [re.match(r"\s*(\w+)\s*:", l).group(1) for l in m.group(1).split("\n") if re.match(r"\s*\w+\s*:", l)]
lines = []
for f in fields:
    args = " ".join("v" if g == f else "(%s s)" % g for g in fields)
    lines.append("Definition cs_%s (s : cst) v : cst := mkC %s." % (f, args))
new = re.sub(r"(Definition cs_\w+ \(s : cst\) v : cst := mkC [^\n]*\n)+", "\n".join(lines) + "\n", s, count=1)
open(p, "w").write(new)
print(len(fields), "fields")
