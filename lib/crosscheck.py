# crosscheck.py — an independent (Python) reading of the frames-family trace lines into Coq terms; Coq evaluates
# Container.first_reject on them with vm_compute and the verdict is compared with the extracted model's (bin/mpbmodel):
# bounds the trust in the OCaml parsing glue and in extraction for the trace-acceptance tie.
import os, re
from vcheck import sh, COQ, read_lines


def z(x):
    x = str(x)
    return "(%s)" % x if x.startswith("-") else x


def b(x):
    return "true" if x != "0" else "false"


def bar(tok):
    return z(tok[1:])


def opt(x):
    return "None" if x is None else "(Some %s)" % z(x)


def item(tok):
    f = tok.split(":")
    bad = ["IText (-1) 0 0"]
    if f[0] == "r" and len(f) == 7:
        ok = (f[4], f[5]) in (("R", "run"), ("C", "DONE"), ("A", "ABRT"))
        return ["IRow %s %s %s %s %s" % (z(f[1]), z(f[2]), z(f[3]), "true" if f[4] == "C" else "false", "true" if f[4] == "A" else "false")] if ok else bad
    if f[0] == "x" and len(f) == 3:
        return ["IXRow %s %s" % (z(f[1]), z(f[2]))]
    if f[0] == "t" and len(f) == 4:
        return ["IText %s %s %s" % (z(f[1]), z(f[2]), z(f[3]))]
    if tok.startswith("cuu=") and len(tok) > 4:
        n = int(tok[4:])
        return ["ICuu %d" % n] if n > 0 else []
    return bad


IGNORED = {"CL_ADD", "RET_ADD", "RET_PRIO", "RET_WRITE", "CL_TICK", "RET_TICK", "CL_DELAYEND", "CL_WAIT", "RET_WAIT", "LS_DONE", "HM_ITER",
           "HM_ITERDROP", "HM_POPDROP", "BAR_TRIGGER", "EARLY_DECIDE", "EARLY_REQ", "EARLY_EXIT", "WC_SENT", "WC_GOT", "DIST_COLLECTED",
           "DIST_DROP", "DIST_DONE", "DBG", "END", "OUTERR", "SHUTDOWN", "LEAK", "FAULT", "RET_SHUTDOWN", "CL_HOLD", "CL_RELEASE",
           "LATE_WRITE", "LATE_ADD"}


def event(kind, a, cfgs):
    """one trace line -> Coq term of type ev, or None when the line is not an event of the acceptor"""
    n = len(a)
    if kind == "CL_OP":
        ops = {("Incr", 3): lambda: "IncrInt64 %s" % z(a[2]), ("SetTotal", 4): lambda: "SetTotal %s %s" % (z(a[2]), b(a[3])),
               ("Abort", 3): lambda: "Abort %s" % b(a[2]), ("SetCur", 3): lambda: "SetCurrent %s" % z(a[2]),
               ("SetRefill", 3): lambda: "SetRefill %s" % z(a[2]), ("Enable", 2): lambda: "EnableTriggerComplete"}
        return "CL_OP %s (%s)" % (bar(a[0]), ops[(a[1], n)]())
    if kind == "RET_OP" and n == 4:
        return "RET_GET %s %s %s %s" % (bar(a[0]), z(a[1]), b(a[2]), b(a[3]))
    if kind == "CL_PRIO" and n == 3:
        return "CL_PRIO %s %s %s" % (bar(a[0]), z(a[1]), b(a[2]))
    if kind == "CL_WRITE" and n == 3:
        return "CL_WRITE %s %s %s" % (z(a[0]), z(a[1]), z(a[2]))
    if kind in ("CL_CANCEL", "CT_OP", "CT_IO", "CT_DELAYEND", "CT_RENDERBEGIN", "CT_EXIT") and n == 0:
        return kind
    if kind == "CT_ADD" and n == 8:
        bi = int(a[0][1:])
        prio, xrows, xrev = cfgs.get(bi, (None, "0", "0"))
        after = int(a[1][6:])
        return "CT_ADD %d %s %s %s %s %s %s %s %s %s %s" % (bi, z(a[2]), z(a[3]), z(a[4]), opt(prio), opt(None if after < 0 else after),
                                                            b(a[5]), b(a[6]), b(a[7]), z(xrows), b(xrev))
    if kind == "CT_RENDERSIZE" and n == 4:
        return "CT_RENDERSIZE %s %s" % (z(a[0]), z(a[1]))
    if kind == "CT_FLUSHBAR" and n == 6:
        return "CT_FLUSHBAR %s %s %s %s %s %s" % (bar(a[0]), z(a[1]), z(a[2]), b(a[3]), b(a[4]), b(a[5]))
    if kind == "CT_RENDERERR":
        return "CT_RENDERERR"
    if kind == "FAULT" and n == 3 and a[0] == "fill":
        return "BAR_DRAWERR %s" % bar(a[1])
    if kind == "CT_FRAME" and n == 2:
        return "CT_FRAME %s %s" % (z(a[0]), z(a[1]))
    if kind == "OUT":
        its = [i for t in a for i in item(t)]
        return "OUT [%s]" % "; ".join(its)
    if kind == "CT_DONE":
        return "CT_DONE"
    if kind == "HM_REQ":
        if n == 6 and a[1] == "1":
            return "HM_PUSH %s %s %s %s %s" % (bar(a[0]), b(a[2]), z(a[3]), b(a[4]), z(a[5]))
        if n == 4 and a[0] == "0":
            return "HM_SYNC %s %s %s" % (z(a[1]), b(a[2]), z(a[3]))
        if n == 5 and a[0] == "2":
            return "HM_ITERREQ %s %s" % (b(a[1]), z(a[2]))
        if n == 8 and a[1] == "3":
            return "HM_FIX %s %s %s %s %s" % (bar(a[0]), z(a[2]), b(a[3]), z(a[4]), z(a[5]))
        if n == 4 and a[0] == "4":
            return "HM_STATE %s %s %s" % (z(a[1]), b(a[2]), z(a[3]))
        if n == 4 and a[0] == "5":
            return "HM_END %s" % z(a[1])
    if kind == "HM_POP" and n == 2:
        return "HM_POP %s %s" % (bar(a[0]), z(a[1]))
    if kind == "BAR_OP" and n == 8:
        return "BAR_OP %s %s %s %s %s %s %s %s" % (bar(a[0]), z(a[1]), z(a[2]), z(a[3]), b(a[4]), b(a[5]), b(a[6]), z(a[7]))
    if kind == "BAR_RENDER" and n == 8:
        return "BAR_RENDER %s %s %s %s %s %s %s" % (bar(a[0]), z(a[1]), z(a[2]), z(a[3]), b(a[4]), b(a[5]), z(a[6]))
    if kind == "BAR_EXIT" and n == 4:
        return "BAR_EXIT %s %s %s %s" % (bar(a[0]), z(a[1]), z(a[2]), b(a[3]))
    if kind == "FINAL" and n == 5:
        return "FINAL %s %s %s %s %s" % (bar(a[0]), z(a[1]), b(a[2]), b(a[3]), b(a[4]))
    if kind == "NOTIFY":
        ids = a[0].split(",") if n == 1 else []
        return "NOTIFY [%s]" % "; ".join(z(i) for i in ids)
    if kind in IGNORED or kind == "HANG":
        return None
    raise ValueError("unknown trace line kind %s %r" % (kind, a))


def frames_crosscheck(ctx, run, verdicts, limit):
    """returns (compared, disagreements) for up to [limit] cases of one frames-family run"""
    cases, cur = [], None
    for l in read_lines(os.path.join(run["dir"], "cases.txt")):
        f = l.split()
        if not f:
            continue
        if f[0] == "case":
            cur = {"k": int(f[1]), "init": "init_cst %s %s %s" % (b(f[5]), "true" if f[2] == "auto" else "false", b(f[6])), "cfgs": {}, "evs": [], "hang": False}
            cases.append(cur)
        elif cur is None:
            continue
        elif f[0] == "bar":
            cur["cfgs"][int(f[1])] = (None if f[3] == "-1000000" else f[3], f[7], f[8])
        elif f[0] == "t":
            if f[2] == "HANG":
                cur["hang"] = True
            e = event(f[2], f[3:], cur["cfgs"])
            if e is not None:
                cur["evs"].append(e)
    pick = [c for c in cases if not c["hang"] and c["k"] in verdicts and verdicts[c["k"]][0] in ("ACCEPT", "REJECT", "LATEBAD") and len(c["evs"]) < 4000][:limit]
    if not pick:
        return 0, []
    vf = os.path.join(COQ, "CrossFrames_%s.v" % ctx.prop)
    with open(vf, "w") as f:
        f.write("From MPB Require Import Base BarState Container.\n")
        for i, c in enumerate(pick):
            f.write("Definition evs%d : list ev := [\n  %s].\n" % (i, ";\n  ".join(c["evs"])))
        f.write("Eval vm_compute in [%s].\n" % "; ".join("first_reject (%s) evs%d 0" % (c["init"], i) for i, c in enumerate(pick)))
    rc, out = sh(["coqc", "-Q", ".", "MPB", os.path.basename(vf)], cwd=COQ, timeout=1800)
    base = vf[:-2]
    for ext in (".v", ".vo", ".vok", ".vos", ".glob"):
        try:
            os.remove(base + ext)
        except OSError:
            pass
    try:
        os.remove(os.path.join(COQ, "." + os.path.basename(base) + ".aux"))
    except OSError:
        pass
    if rc != 0:
        return 0, ["coqc failed: " + out[-600:]]
    res = re.findall(r"(None|Some\s*\(?-?\d+\)?)", out.split("=", 1)[1] if "=" in out else out)
    if len(res) != len(pick):
        return 0, ["could not read %d results from Coq's output (%d found)" % (len(pick), len(res))]
    bad = []
    for c, r in zip(pick, res):
        ocaml = verdicts[c["k"]][0]
        coq_accept = r == "None"
        if coq_accept != (ocaml in ("ACCEPT", "LATEBAD")):
            bad.append("case %d: Coq says %s, the extracted model said %s" % (c["k"], r, ocaml))
    return len(pick), bad
