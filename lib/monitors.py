# monitors.py — executable property monitors over the implementation's own event
# traces (frames / conc families). They use only what the hooks and the harness
# observed (never the model) and return (what, signature) or None.
import re


def ev(line):
    f = line.split()
    return int(f[1]), f[2], f[3:]


def events(case):
    return [ev(l) for l in case["trace"]]


def bar(tok):
    return int(tok[1:])


class Screen:
    """line-level ANSI terminal: lines above the cursor; CUU n + ED removes the last n lines
    (clamped), every item is one full line. Height H: lines beyond H scroll into the scrollback."""

    def __init__(self, height=None):
        self.lines = []          # all content, scrollback included, oldest first
        self.height = height
        self.stale = False

    def cuu_ed(self, n):
        visible = len(self.lines) if self.height is None else min(len(self.lines), self.height - 1)
        # the cursor is on the (empty) line below the last written line; it cannot move above the screen
        k = min(n, visible) if self.height is not None else min(n, len(self.lines))
        if k < n:
            self.stale = True    # rows meant to be erased are out of reach (scrolled away)
        if k:
            del self.lines[len(self.lines) - k:]

    def write(self, items):
        self.lines.extend(items)


def cycles(case):
    """split a trace into render cycles: list of dicts with begin seq, flushed [(bar, shutdown, nrows, rm, nopop)],
    pops [(bar, prio)], frame (nrows, popcount), out (cuu, items) or None"""
    out, cur = [], None
    for seq, k, a in events(case):
        if k == "CT_RENDERBEGIN":
            cur = {"begin": seq, "flushed": [], "pops": [], "frame": None, "out": None, "outseq": None, "lazy": False,
                   "clipped": False}
            out.append(cur)
        elif cur is None:
            continue
        elif k == "CT_RENDERSIZE":
            cur["height"] = int(a[1])
        elif k == "HM_POP":
            cur["pops"].append((bar(a[0]), int(a[1])))
        elif k == "CT_FLUSHBAR":
            cur["flushed"].append((bar(a[0]), int(a[1]), int(a[2]), a[3] == "1", a[4] == "1"))
        elif k == "CT_FRAME":
            cur["frame"] = (int(a[0]), int(a[1]))
            # rows hit the height limit: some row groups were clipped (outside the 'rows fit' domain)
            cur["clipped"] = int(a[0]) >= cur.get("height", 1 << 30)
        elif k == "OUT" and cur["frame"] is not None and cur["out"] is None:
            cuu, items = 0, []
            for t in a:
                if t.startswith("cuu="):
                    cuu = int(t[4:])
                else:
                    items.append(tuple(t.split(":")))
            cur["out"] = (cuu, items)
            cur["outseq"] = seq
    return out


def handovers(case):
    """[(seq, bar, cycle index)] of the flushes that really process a bar's second terminal frame (shutdown = 1): not the bar whose
    frame failed, and not the bars flush receives after a failed frame in the same cycle (they go back untouched)"""
    out, ci, failed = [], -1, False
    for seq, k, a in events(case):
        if k == "CT_RENDERBEGIN":
            ci += 1
            failed = False
        elif k == "CT_FLUSHBAR" and ci >= 0:
            err = len(a) >= 6 and a[5] == "1"
            if failed:
                continue
            if err:
                failed = True
                continue
            if int(a[1]) == 1:
                out.append((seq, bar(a[0]), ci))
    return out


def any_clipped(case):
    return any(c["clipped"] for c in cycles(case))


# ------------------------------------------------------------------ C06
def c06_monitor(case, frames):
    pending_lazy = False   # a lazy fix was processed since the last completed ordered iteration
    last_lazy = None       # the bar whose lazy fix broke an ordered heap, while nothing else has touched the heap since
    fixed = {}             # bar -> priority set by the last fix request applied
    explicit = {}
    for l in case["hdr"][1:]:
        f = l.split()
        explicit[int(f[1])] = None if f[3] == "-1000000" else int(f[3])
    cyc = None
    pops = []
    dirty_iter = False
    succ = {}
    for seq, k, a in events(case):
        if k == "CT_ADD":
            b, idv, prio = bar(a[0]), int(a[2]), int(a[3])
            if a[1] != "after=-1":
                succ[b] = int(a[1][6:])
            want = explicit.get(b)
            if (want is None and prio != idv) or (want is not None and prio != want):
                return ("bar %d created with priority %d (id %d, option %s)" % (b, prio, idv, want), "default-priority")
        elif k == "HM_REQ" and len(a) >= 2 and a[0].startswith("b") and a[1] == "3":
            b, p, lazy, idx = bar(a[0]), int(a[2]), a[3] == "1", int(a[4])
            if idx >= 0:
                fixed[b] = p
                if lazy:
                    # the first lazy change since the heap was last in order: an immediate change of the same bar right
                    # after it puts the heap back in order (heap.Fix at that bar)
                    last_lazy = b if not pending_lazy else None
                    pending_lazy = True
                else:
                    if last_lazy == b:
                        pending_lazy = False
                    last_lazy = None
        elif k == "HM_REQ" and len(a) >= 2 and a[0].startswith("b") and a[1] == "1":
            last_lazy = None
        elif k == "HM_REQ" and a[0] == "2" and a[1] == "1":
            pops = []
            dirty_iter = pending_lazy
            last_lazy = None
        elif k == "HM_POP":
            b, p = bar(a[0]), int(a[1])
            if b in fixed and fixed[b] != p:
                return ("bar %d popped with priority %d although its priority was set to %d" % (b, p, fixed[b]), "priority-change-lost")
            if pops and not dirty_iter and p > pops[-1][1]:
                return ("bars popped out of priority order at event %d: %s then (%d,%d)" % (seq, pops, b, p), "rows-out-of-priority-order")
            pops.append((b, p))
        elif k == "CT_FLUSHBAR":
            if int(a[1]) == 1:
                fixed.pop(bar(a[0]), None)   # flush may re-prioritise (pop mode / successor)
                for sx, ax in succ.items():  # a promoted successor takes the predecessor's priority
                    if ax == bar(a[0]):
                        fixed.pop(sx, None)
        elif k == "CT_FRAME":
            pending_lazy = False if pops or True else pending_lazy
    # every UpdateBarPriority / SetPriority call that returned reaches the heap manager before the next ordered iteration
    evs = events(case)
    down = min([seq for seq, k, a in evs if k in ("CT_DONE", "CT_RENDERERR", "CL_CANCEL")] or [1 << 60])
    for i, (seq, k, a) in enumerate(evs):
        if k != "CL_PRIO":
            continue
        b, p = a[0], a[1]
        ret = next((s2 for s2, k2, a2 in evs[i:] if k2 == "RET_PRIO" and a2[0] == b), None)
        if ret is None:
            continue
        nxt = next((s2 for s2, k2, a2 in evs if s2 > ret and k2 == "HM_REQ" and len(a2) >= 2 and a2[0] == "2" and a2[1] == "1"), None)
        if nxt is None or nxt > down:
            continue
        got = any(k2 == "HM_REQ" and len(a2) >= 3 and a2[0] == b and a2[1] == "3" and a2[2] == p and seq < s2 < nxt for s2, k2, a2 in evs)
        if not got:
            return ("UpdateBarPriority(%s, %s) returned at event %d but no fix request for it reached the heap manager before the next "
                    "ordered iteration (event %d)" % (b, p, ret, nxt), "priority-change-never-reached-heap")
    # "a bar that replaces a finished predecessor takes that predecessor's place" (shared with C17)
    q = c17_monitor(case, frames)
    if q is not None and q[1] == "successor-priority":
        return q
    # rows of every frame are the flushed bars in reverse flush order
    for c in cycles(case):
        if c["out"] is None or c["frame"] is None:
            continue
        ids = [int(i[1]) for i in c["out"][1] if i[0] == "r"]
        fl = [b for (b, sh, n, rm, np) in c["flushed"]]
        want = [b for b in reversed(fl) if b in ids]
        if ids != want:
            return ("rows of the frame at event %d are %s, reverse pop order is %s" % (c["outseq"], ids, want), "rows-not-in-pop-order")
    return None


# ------------------------------------------------------------------ C17
def c17_monitor(case, frames):
    """a bar queued after another: parked (in no frame) until the frame in which flush sees the predecessor's second
    terminal frame (the predecessor's release), in the next cycle with the priority the predecessor had then; a bar
    queued after a predecessor that is already released is in the first cycle that begins after its Add, with that
    priority; a predecessor that hands over to parked bars is not drawn again"""
    after, add_seq = {}, {}
    for seq, k, a in events(case):
        if k == "CT_ADD":
            add_seq[bar(a[0])] = seq
            if a[1] != "after=-1":
                after[bar(a[0])] = int(a[1][6:])
    if not after:
        return None
    cyc = cycles(case)
    # release of a bar: the first error-free flush of its frame with shutdown = 1
    rel = {}     # bar -> (cycle index, seq of the flush event, priority it was popped with in that cycle)
    evs = events(case)
    for seq, b0, ci in handovers(case):
        if b0 not in rel:
            pr = [p for (b, p) in cyc[ci]["pops"] if b == b0]
            rel[b0] = (ci, seq, pr[-1] if pr else None)
    refixed = set(bar(a[0]) for _, k, a in evs if k == "HM_REQ" and len(a) >= 2 and a[0].startswith("b") and a[1] == "3")
    for s, a in after.items():
        shown = [ci for ci, c in enumerate(cyc) if c["out"] is not None and s in [int(i[1]) for i in c["out"][1] if i[0] == "r"]]
        popped_in = [ci for ci, c in enumerate(cyc) if any(b == s for (b, p) in c["pops"])]
        if a not in rel:
            # the predecessor never handed over: the bar stays parked
            if shown:
                return ("queued bar %d is displayed (cycle %d) although its predecessor %d has not shown its final state twice yet"
                        % (s, shown[0], a), "successor-with-predecessor")
            continue
        rci, rseq, rprio = rel[a]
        early = add_seq[s] < rseq
        if early:
            if shown and shown[0] <= rci:
                return ("queued bar %d is displayed in cycle %d, its predecessor %d hands over in cycle %d (event %d)"
                        % (s, shown[0], a, rci, rseq), "successor-with-predecessor")
            # the predecessor is not drawn after it handed over to a parked bar
            later = [ci for ci, c in enumerate(cyc) if ci > rci and any(b == a for (b, p) in c["pops"])]
            if later:
                return ("bar %d is drawn again in cycle %d after it handed over to the bar(s) queued after it in cycle %d"
                        % (a, later[0], rci), "predecessor-drawn-after-handover")
            first = rci + 1
        else:
            # created after the hand-over: in the first cycle that begins after the Add
            first = next((ci for ci, c in enumerate(cyc) if c["begin"] > add_seq[s]), None)
            if first is None:
                continue
        if first < len(cyc) and cyc[first]["frame"] is not None:
            ps = [p for (b, p) in cyc[first]["pops"] if b == s]
            if not ps:
                return ("queued bar %d is not in cycle %d, the first one after %s" %
                        (s, first, "its predecessor %d's hand-over" % a if early else "it was created behind the finished bar %d" % a),
                        "successor-not-promoted")
            if rprio is not None and ps[0] != rprio and s not in refixed:
                return ("queued bar %d has priority %d, predecessor %d had %d when it handed over" % (s, ps[0], a, rprio), "successor-priority")
    return None


# ------------------------------------------------------------------ C18 / C04 (line level terminal)
def replay_screen(case, height=None):
    """feed every OUT to the line-level terminal; returns (screen, per-frame info, problem)"""
    scr = Screen(height)
    info = []
    for c in cycles(case):
        if c["out"] is None:
            continue
        cuu, items = c["out"]
        if any(i[0].startswith("?") for i in items):
            return scr, info, ("unparsable output at event %d: %s" % (c["outseq"], items), "unparsable-output")
        scr.cuu_ed(cuu)
        scr.write(items)
        info.append((c, list(scr.lines)))
    return scr, info, None


def c18_monitor(case, frames):
    if case["cfg"][5] != "1":   # not pop mode
        return None
    if any_clipped(case):
        # more rows than the height.  The rest of this monitor is for frames that fit (DESIGN 7a); one thing is decided here as
        # well: a bar whose third terminal frame (shutdown = 2) is flushed in a cycle that has no room for its rows leaves the
        # container without ever being drawn at the top — it is on the screen nowhere afterwards (D10, repaired in /repo: this is its regression check)
        for c in cycles(case):
            if not c["clipped"] or c["out"] is None:
                continue
            ids = [int(i[1]) for i in c["out"][1] if i[0] == "r"]
            for (b, sh, n, rm, np) in c["flushed"]:
                if sh == 2 and not np and b not in ids:
                    return ("popped bar %d left the container in the frame at event %d, which had no room for its rows (%d rows, "
                            "height %s): it was never drawn at the top and is nowhere on the screen" % (b, c["outseq"], c["frame"][0], c.get("height")),
                            "popped-bar-clipped-never-shown")
        return None
    scr, info, prob = replay_screen(case)
    if prob:
        return prob
    # bars popped: flushed with shutdown 2 and not noPop, in flush order
    popped, nopop_done = [], set()
    # outside the property: bars popped while a render delay discards the output, and bars whose
    # priority the client changed after they finished (that overrides the pop priority)
    delay_end = None
    refixed = set()
    term_at = {}
    for seq, k, a in events(case):
        if k == "CT_DELAYEND":
            delay_end = seq
        elif k == "CT_FLUSHBAR" and int(a[1]) >= 1:
            term_at.setdefault(bar(a[0]), seq)
        elif k == "HM_REQ" and len(a) >= 2 and a[0].startswith("b") and a[1] == "3" and int(a[4]) >= 0:
            if bar(a[0]) in term_at:
                refixed.add(bar(a[0]))
    if refixed:
        return None
    # order of finishing = order in which flush saw the bars' second terminal frame (shutdown = 1)
    finish_order = []
    was_popped = set()
    for c in cycles(case):
        for (b, sh, n, rm, np) in c["flushed"]:
            if sh == 1 and not np and b not in finish_order:
                finish_order.append(b)
            if sh == 2 and not np:
                if case["cfg"][6] == "1" and (delay_end is None or c["begin"] < delay_end):
                    continue
                was_popped.add(b)
    popped = [b for b in finish_order if b in was_popped]
    # every bar that finishes in pop mode and is not no-pop is popped out — remove-on-complete or not — unless it hands its place to
    # bars parked behind it: the cycle after the one that flushed its second terminal frame flushes its third (shutdown = 2)
    parked_behind, handed = set(), set()
    ho = dict((seq, b) for seq, b, ci in handovers(case))
    for seq, k, a in events(case):
        if k == "CT_ADD" and a[1] != "after=-1" and int(a[1][6:]) not in handed:
            parked_behind.add(int(a[1][6:]))
        elif k == "CT_FLUSHBAR" and seq in ho:
            handed.add(ho[seq])
    hand_cycle = dict((b, ci) for seq, b, ci in handovers(case))
    cyc_all = cycles(case)
    failed = any(k in ("CT_RENDERERR", "OUTERR") for _, k, _ in events(case))
    for b in finish_order:
        if b in parked_behind or b not in hand_cycle or failed:
            continue
        later = [c for c in cyc_all[hand_cycle[b] + 1:] if c["frame"] is not None]
        if later and not any(x == b and sh == 2 for (x, sh, n, rm, np) in later[0]["flushed"]):
            return ("bar %d finished in pop-completed mode (second terminal frame flushed in the cycle beginning at event %d, no bar parked "
                    "behind it, not no-pop) but the next cycle (event %d) does not pop it out: it left the container without its final row "
                    "being moved to the top" % (b, cyc_all[hand_cycle[b]]["begin"], later[0]["begin"]), "finished-bar-not-popped-out")
    final = scr.lines
    rows = [int(i[1]) for i in final if i[0] == "r"]
    for b in popped:
        if rows.count(b) != 1:
            return ("popped bar %d is on screen %d times at the end: %s" % (b, rows.count(b), rows), "popped-bar-count")
        it = [i for i in final if i[0] == "r" and int(i[1]) == b][0]
        if it[4] not in ("C", "A"):
            return ("popped bar %d is shown in a non-final state: %s" % (b, ":".join(it)), "popped-bar-not-final")
    order = [b for b in rows if b in popped]
    if order != popped:
        return ("popped bars are on screen in order %s, they finished in order %s" % (order, popped), "popped-order")
    # popped bars sit above every bar still displayed in the last frame
    live = set()
    cyc = [c for c in cycles(case) if c["out"] is not None]
    if cyc:
        lastids = [int(i[1]) for i in cyc[-1]["out"][1] if i[0] == "r"]
        live = set(b for b in lastids if b not in popped)
        if live and popped:
            first_live = min(i for i, x in enumerate(final) if x[0] == "r" and int(x[1]) in live)
            last_pop = max(i for i, x in enumerate(final) if x[0] == "r" and int(x[1]) in popped)
            if last_pop > first_live:
                return ("a popped bar is below a bar that is still displayed: %s" % rows, "popped-below-live")
    return None


def c04_monitor(case, frames):
    # nothing before the render delay ends
    if case["cfg"][6] == "1":
        for seq, k, a in events(case):
            if k == "CT_DELAYEND":
                break
            if k == "OUT":
                return ("output written at event %d before the render delay ended" % seq, "output-before-delay")
    # every frame redraws in place: cursor-up equals the number of live (non persisted) lines on screen
    scr = Screen(None)
    live = 0
    for c in cycles(case):
        if c["out"] is None or c["frame"] is None:
            continue
        cuu, items = c["out"]
        if any(i[0] == "?cuu0" for i in items):
            victim = ":".join(scr.lines[-1]) if scr.lines else "the line above the bars (not written by the container)"
            return ("the output written at event %d begins with 'cursor up 0' + 'erase below'; a terminal executes a zero parameter as the "
                    "default, one line up, so with %d live rows on the screen it erases %s" % (c["outseq"], live, victim), "cursor-up-zero")
        if any(i[0].startswith("?") for i in items):
            return ("unparsable output at event %d: %s" % (c["outseq"], items), "unparsable-output")
        if cuu != live:
            return ("frame at event %d moves the cursor up %d lines but %d live rows are on screen" % (c["outseq"], cuu, live), "cursor-up-mismatch")
        scr.cuu_ed(cuu)
        scr.write(items)
        nrows, popc = c["frame"]
        rowitems = [i for i in items if i[0] in ("r", "x")]
        if len(rowitems) != nrows:
            return ("frame at event %d reports %d rows, %d were written" % (c["outseq"], nrows, len(rowitems)), "row-count")
        # text lines come first, then rows
        kinds = [i[0] in ("r", "x") for i in items]
        if kinds != sorted(kinds):
            return ("text below a bar row in the frame at event %d" % c["outseq"], "text-inside-rows")
        live = nrows - popc
        width = int(case["cfg"][4])
        for i in items:
            if i[0] == "r" and int(i[-1][1:]) > width:
                return ("row wider (%s) than the width %d at event %d" % (i[-1], width, c["outseq"]), "row-too-wide")
    # at the end: persisted lines (text, popped bars) once each, in order, then the live rows of the last frame
    ids = [i for i in scr.lines if i[0] == "t"]
    if len(set(ids)) != len(ids):
        return ("a text line is on screen twice: %s" % ids, "text-duplicated-on-screen")
    # a bar that was popped out (pop mode, third terminal frame) stays with ALL its rows, each once: a later frame must not
    # have climbed into them (the counts come from the flush events, the screen from replaying the bytes)
    if case["cfg"][5] == "1" and case["cfg"][6] != "1":
        refixed = any(k == "HM_REQ" and len(a) >= 2 and a[0].startswith("b") and a[1] == "3" for _, k, a in events(case))
        if not refixed:
            for c in cycles(case):
                if c["out"] is None:
                    continue
                for (b, sh, n, rm, np) in c["flushed"]:
                    if sh == 2 and not np:
                        on = [i for i in scr.lines if i[0] in ("r", "x") and int(i[1]) == b]
                        if len(on) != n:
                            return ("bar %d was popped out with %d rows at event %d, %d of its rows are on the screen at the end: %s"
                                    % (b, n, c["outseq"], len(on), [":".join(i) for i in on]), "popped-rows-not-persisted")
    return None


# ------------------------------------------------------------------ C13
def c13_monitor(case, frames):
    delay = case["cfg"][6] == "1"
    started = not delay
    accepted = []       # (w, seq, lines) in call order, accepted after rendering started
    wait_ret = None
    outs = []
    for seq, k, a in events(case):
        if k == "CT_DELAYEND":
            started = True
        elif k == "CL_WRITE":
            cur = (int(a[0]), int(a[1]), int(a[2]), started)
        elif k == "RET_WRITE":
            w, sq, n, ok = int(a[0]), int(a[1]), int(a[2]), a[3] == "1"
            if ok and cur[3] and cur[:2] == (w, sq):
                accepted.append((w, sq, cur[2]))
        elif k == "OUT":
            outs.append((seq, a))
            if wait_ret is not None:
                return ("output written (event %d) after Wait returned (event %d)" % (seq, wait_ret), "output-after-wait")
        elif k == "RET_WAIT":
            wait_ret = seq
        elif k == "LATE_WRITE":
            if a != ["0", "1"]:
                return ("a Write after Wait returned %s, want (0, ErrDone)" % a, "late-write")
    stream = []
    for seq, a in outs:
        seen_row = False
        for t in a:
            if t.startswith("r:") or t.startswith("x:"):
                seen_row = True
            elif t.startswith("t:"):
                if seen_row:
                    return ("text line %s below a bar row in the frame at event %d" % (t, seq), "text-below-rows")
                w, sq, ln = [int(x) for x in t.split(":")[1:4]]
                stream.append((w, sq, ln))
    if case["cfg"][2] == "manual":
        # the library renders only when asked: text accepted after the last refresh request stays buffered
        last_tick = max([seq for seq, k, a in events(case) if k == "CL_TICK"] + [-1])
        acc_seq = {}
        for seq, k, a in events(case):
            if k == "CL_WRITE":
                acc_seq[(int(a[0]), int(a[1]))] = seq
        accepted = [x for x in accepted if acc_seq.get((x[0], x[1]), 0) < last_tick]
    want = [(w, sq, l) for (w, sq, n) in accepted for l in range(n)]
    # writes during a pending delay may or may not be dropped; compare the accepted ones only
    got = [x for x in stream if (x[0], x[1]) in set((w, sq) for (w, sq, n) in accepted)]
    if got != want:
        missing = [x for x in want if x not in got]
        dup = [x for x in got if got.count(x) > 1]
        sig = "text-missing" if missing else ("text-duplicated" if dup else "text-out-of-order")
        return ("accepted text lines %s, emitted %s" % (want[:12], got[:12]), sig)
    return None


# ------------------------------------------------------------------ C03
def abort_after_completion(case):
    """Abort has no effect on a completed bar: the state the bar's goroutine reports after serving an Abort that arrives when
    the bar is completed (triggered, not aborted, current = total) is the state before — in particular the drop flag, which
    decides whether the bar is in the last frame and in the notifier's list"""
    snap, pending = {}, {}
    for seq, k, a in events(case):
        if k == "CL_OP" and len(a) >= 2 and a[1] == "Abort":
            b = bar(a[0])
            st = snap.get(b)
            if st is not None and st[3] == "1" and st[4] == "0" and st[0] == st[1]:
                pending[b] = (seq, st, a[2] if len(a) > 2 else "?")
        elif k == "CL_OP":
            pending.pop(bar(a[0]), None) if a and a[0].startswith("b") else None
        elif k == "BAR_OP":
            b = bar(a[0])
            now = tuple(a[1:7])      # current, total, refill, triggered, aborted, remove-on-complete
            if b in pending:
                seq0, st, drop = pending.pop(b)
                if now != st:
                    names = ("current", "total", "refill", "triggered", "aborted", "remove-on-complete")
                    diff = ", ".join("%s %s -> %s" % (n, x, y) for n, x, y in zip(names, st, now) if x != y)
                    return ("bar %d was completed when Abort(%s) was called (event %d); the call changed the bar all the same (event %d): %s"
                            % (b, {"1": "true", "0": "false"}.get(drop, drop), seq0, seq, diff), "abort-after-completion-changes-bar")
            snap[b] = now
    return None


def c03_monitor(case, frames):
    mode = case["cfg"][2]
    evs = events(case)
    r = abort_after_completion(case)
    if r:
        return r
    wait_ret = None
    final = {}
    for seq, k, a in evs:
        if k == "RET_WAIT":
            wait_ret = seq
        elif k == "OUT" and wait_ret is not None:
            return ("output written (event %d) after Wait returned" % seq, "output-after-wait")
        elif k == "FINAL":
            final[bar(a[0])] = (int(a[1]), a[2] == "1", a[3] == "1")
    if wait_ret is None or mode != "auto":
        return None
    if any_clipped(case):
        return None
    if case["cfg"][6] == "1" and not any(k == "CT_DELAYEND" for _, k, _ in evs):
        return None
    cyc = [c for c in cycles(case) if c["frame"] is not None]
    if not cyc:
        return None
    last = cyc[-1]
    if last["out"] is None:
        # nothing to write in the last cycle: no bar may be left in the container
        if last["flushed"]:
            return ("last cycle flushed bars %s but wrote nothing" % last["flushed"], "last-frame-missing")
        return None
    rows = [i for i in last["out"][1] if i[0] == "r"]
    ids = [int(i[1]) for i in rows]
    if len(set(ids)) != len(ids):
        return ("a bar is twice in the last frame: %s" % ids, "bar-twice-in-last-frame")
    total_of = {}
    for i in rows:
        b, cur, tot, flag, deco = int(i[1]), int(i[2]), int(i[3]), i[4], i[5]
        if b not in final:
            continue
        fcur, fcomp, fab = final[b]
        if fcomp and not (flag == "C" and cur == tot and deco == "DONE" and cur == fcur):
            return ("bar %d completed (current %d) but the last frame shows %s" % (b, fcur, ":".join(i)), "completed-bar-not-final-in-last-frame")
        if fab and not (flag == "A" and deco == "ABRT"):
            explicit = any(k == "CL_OP" and a[0] == "b%d" % b and a[1] == "Abort" for _, k, a in evs)
            cancelled = any(k == "CL_CANCEL" for _, k, a in evs)
            sig = "aborted-bar-not-final-in-last-frame"
            cancel_seq = min([seq for seq, k, a in evs if k == "CL_CANCEL"] or [None]) if cancelled else None
            if cancelled and not explicit and flag == "R":
                if cancel_seq is not None and last["begin"] > cancel_seq:
                    # D9 / D9b (repaired in /repo): a cycle rendered AFTER the cancellation still draws the bar running
                    sig = "cancelled-bar-drawn-running-in-last-frame"
                else:
                    # no cycle at all was rendered after the cancellation: the last frame predates it
                    sig = "no-frame-rendered-after-cancellation"
            return ("bar %d was aborted but the last frame shows %s" % (b, ":".join(i)), sig)
    # bars that were dropped (flushed with shutdown 1 and rm, no successor) must be absent
    gone = set()
    # succ_of: bars that hand over to a bar parked behind them (queued before the flush of their second terminal frame);
    # a bar queued after that is pushed at once and the predecessor stays as any finished bar does
    succ_of = {}
    ho = dict((seq, b) for seq, b, ci in handovers(case))
    handed = set()
    for seq, k, a in evs:
        if k == "CT_ADD" and a[1] != "after=-1":
            if int(a[1][6:]) not in handed:
                succ_of[int(a[1][6:])] = bar(a[0])
        elif k == "CT_FLUSHBAR" and seq in ho:
            handed.add(ho[seq])
    for c in cyc:
        for (b, sh, n, rm, np) in c["flushed"]:
            if sh == 1 and (rm or b in succ_of) and not (case["cfg"][5] == "1" and not np and b not in succ_of):
                gone.add(b)
            if sh == 2 and case["cfg"][5] == "1" and not np:
                gone.add(b)
    for b in ids:
        if b in gone and b not in [x for (x, sh, n, rm, np) in last["flushed"] if sh <= 2 and x in gone and False]:
            # a bar leaves with the frame in which it is flushed; it must not be in a later one
            gone_at = max(ci for ci, c in enumerate(cyc) for (x, sh, n, rm, np) in c["flushed"] if x == b and sh >= 1)
            first_gone = min(ci for ci, c in enumerate(cyc) for (x, sh, n, rm, np) in c["flushed"]
                             if x == b and ((sh == 1 and (rm or b in succ_of)) or (sh == 2 and case["cfg"][5] == "1" and not np)))
            if len(cyc) - 1 > first_gone:
                return ("bar %d was removed in cycle %d but is in the last frame" % (b, first_gone), "removed-bar-in-last-frame")
            # removed WITH the last frame (second terminal frame, bar set to be removed or relieved by parked bars): the frame that
            # removes a bar still shows it, and a refreshing container draws another one, without it, before Wait returns
            removed_now = any(x == b and sh == 1 and (rm or b in succ_of) and not (case["cfg"][5] == "1" and not np and b not in succ_of)
                              for (x, sh, n, rm, np) in last["flushed"])
            failed = any(k in ("CT_RENDERERR", "OUTERR") for _, k, _ in evs)
            if removed_now and not failed:
                return ("bar %d is removed from the container by the last cycle (event %d), whose frame still shows it: no closing frame "
                        "without it was drawn before Wait returned" % (b, last["begin"]), "no-frame-after-last-removal")
    # every terminal bar still in the container is in the last frame
    for (b, sh, n, rm, np) in last["flushed"]:
        if b not in ids and n > 0:
            return ("bar %d was flushed in the last cycle but has no row in the last frame" % b, "bar-missing-from-last-frame")
    return None


# ------------------------------------------------------------------ C14 / C15 / C16
def c16_monitor(case, frames):
    for seq, k, a in events(case):
        if k == "LEAK" and a[0] != "0":
            return ("%s goroutine(s) with a library frame are still alive after Wait returned and a settle period" % a[0],
                    "goroutine-leak-after-render-error" if case["cfg"][8] != "-" else "goroutine-leak")
    return None


def c14_monitor(case, frames):
    evs = events(case)
    cancelled = any(k == "CL_CANCEL" for _, k, a in evs)
    waited = any(k == "RET_WAIT" for _, k, a in evs)
    if not waited:
        return None
    ops = {}
    for seq, k, a in evs:
        if k == "SHUTDOWN" and a[1] != "1":
            return ("shutdown listener of bar %s was notified %s times" % (a[0], a[1]), "shutdown-listener-count")
        if k == "FINAL":
            b, cur, comp, ab, run = a[0], int(a[1]), a[2] == "1", a[3] == "1", a[4] == "1"
            if run:
                return ("bar %s still reports IsRunning after Wait" % b, "running-after-wait")
            if comp == ab:
                return ("bar %s reports Completed=%s Aborted=%s after Wait" % (b, comp, ab), "not-exactly-one-after-wait")
    if case["cfg"][7] == "1":
        n = sum(1 for _, k, a in evs if k == "NOTIFY")
        if n != 1:
            return ("shutdown notifier delivered %d values" % n, "notifier-count")
    return None


def c15_monitor(case, frames):
    evs = events(case)
    fault = case["cfg"][8]
    if fault == "-":
        return None
    fired = [seq for seq, k, a in evs if k in ("FAULT", "OUTERR")]
    if not fired:
        return None
    t0 = fired[0]
    for seq, k, a in evs:
        if k == "HANG":
            # which goroutines are stuck is in the .stacks file; classify by what the scenario contains
            syncs = any(int(l.split()[9]) > 0 for l in case["hdr"][1:])
            sig = "hang-after-render-error-with-width-sync" if syncs else "hang-after-render-error"
            return ("hang (%s) after an injected render error" % " ".join(a), sig)
    dbg = [a for seq, k, a in evs if k == "DBG"]
    if len(dbg) != 1:
        return ("the render error was reported %d times to the debug output: %s" % (len(dbg), dbg), "error-report-count")
    if "injected" not in " ".join(dbg[0]):
        return ("debug output does not carry the error: %s" % dbg, "error-report-text")
    err_seq = [seq for seq, k, a in evs if k == "CT_RENDERERR"]
    done_seq = [seq for seq, k, a in evs if k == "CT_DONE"]
    if not err_seq and done_seq and done_seq[0] < t0:
        err_seq = [t0]      # the fault hit the final render at shutdown: reported there, nothing latched
    if not err_seq:
        return ("no render error was recorded by the container although a fault fired", "error-not-latched")
    for seq, k, a in evs:
        if seq > err_seq[0] and k in ("CT_RENDERBEGIN", "OUT"):
            return ("%s at event %d after the render error at event %d" % (k, seq, err_seq[0]), "frame-after-error")
    if not any(k == "RET_WAIT" for _, k, a in evs):
        return ("Wait did not return after the render error", "wait-after-error")
    for seq, k, a in evs:
        if k == "FINAL" and a[4] == "1":
            return ("bar %s still running after the error shut the container down" % a[0], "running-after-error")
    return None


# ------------------------------------------------------------------ C12
def c12_monitor(case, frames):
    """per render cycle: every synchronised decorator of a bar shown in the frame belongs to exactly one
    column = same side and same ordinal among the bar's synchronised decorators; the column's width is
    the maximum its members asked for, and every member got exactly that"""
    # layout from the scenario: bar -> (number of sync decorators on prepend side, on append side)
    lay = {}
    for l in case["hdr"][1:]:
        f = l.split()
        i = int(f[1])
        syncw = int(f[9])
        nsp = int(f[12]) if len(f) > 13 else 0
        nsa = int(f[13]) if len(f) > 13 else 0
        lay[i] = (1 if syncw > 0 else 0, nsp, nsa)
    tag_of = {}     # channel -> (bar, side, ordinal)
    cur = None
    cyclesx = []
    for seq, k, a in events(case):
        if k == "CT_RENDERBEGIN":
            cur = {"sent": {}, "got": {}, "cols": [], "flushed": [], "begin": seq, "err": False, "frame": False}
            cyclesx.append(cur)
        elif cur is None:
            continue
        elif k == "WC_SENT":
            w, ch, txt = int(a[0]), a[1], " ".join(a[2:]).strip('"')
            if ch not in tag_of:
                m = re.match(r"#(\d+):", txt)
                if m:
                    tag_of[ch] = (int(m.group(1)), "p", 0)
                else:
                    m = re.match(r"<(\d+)\.([pa])\.(\d+):", txt)
                    if m:
                        b = int(m.group(1))
                        off = lay.get(b, (0, 0, 0))[0] if m.group(2) == "p" else 0
                        tag_of[ch] = (b, m.group(2), int(m.group(3)) + off)
            if ch in cur["sent"]:
                return ("channel %s used twice in the cycle at event %d" % (ch, cur["begin"]), "double-exchange")
            cur["sent"][ch] = w
            # the width a decorator asks for includes its minimum width and its extra-space flag
            tg = tag_of.get(ch)
            if tg is not None and all(ord(x) < 128 for x in txt):
                b, side, o = tg
                if txt.startswith("#"):
                    W, extra = int([l for l in case["hdr"][1:] if int(l.split()[1]) == b][0].split()[9]), False
                else:
                    kk = int(txt.split(":")[0].split(".")[2])
                    W, extra = (b * 3 + kk * 5) % 13, (b + kk) % 3 == 0
                want = W if W > len(txt) else len(txt) + (1 if extra else 0)
                if w != want:
                    return ("decorator %s of bar %d asked for width %d, its text %r with minimum width %d and extra space %s needs %d"
                            % (tg[1:], b, w, txt, W, extra, want), "decorator-need-width")
        elif k == "WC_GOT":
            cur["got"][a[1]] = int(a[0])
        elif k == "DIST_COLLECTED":
            cur["cols"].append((int(a[0]), ["ch" + x for x in a[1].split(",")[1:]]))
        elif k == "CT_FLUSHBAR":
            cur["flushed"].append(bar(a[0]))
            if a[-1] == "1":
                cur["err"] = True
        elif k in ("CT_RENDERERR",):
            cur["err"] = True
        elif k == "CT_FRAME":
            cur["frame"] = True
    for c in cyclesx:
        if c["err"] or not c["frame"]:
            continue
        for ch, w in c["sent"].items():
            if ch not in c["got"]:
                return ("a width exchange was not answered in the cycle at event %d (%s)" % (c["begin"], ch), "exchange-unanswered")
        seen = set()
        for mx, chs in c["cols"]:
            ws = [c["sent"].get(ch) for ch in chs]
            if None in ws:
                return ("column %s collected a channel nobody sent on (cycle at event %d)" % (chs, c["begin"]), "column-foreign-channel")
            if mx != max(ws + [0]):
                return ("column %s distributed %d, its members asked for %s" % (chs, mx, ws), "column-width-not-max")
            for ch in chs:
                if c["got"].get(ch) != mx:
                    return ("decorator on %s was given width %s, its column's width is %d" % (ch, c["got"].get(ch), mx), "member-width-differs")
            tags = [tag_of.get(ch) for ch in chs]
            if None not in tags:
                pos = set((t[1], t[2]) for t in tags)
                if len(pos) != 1:
                    return ("column %s mixes positions %s" % (chs, sorted(pos)), "column-mixes-positions")
                bars_in = [t[0] for t in tags]
                if len(set(bars_in)) != len(bars_in):
                    return ("column %s holds two decorators of one bar" % (chs,), "column-two-of-one-bar")
                side, o = tags[0][1], tags[0][2]
                # every bar of this frame with a decorator at that position is in the column
                want = set()
                for b in c["flushed"]:
                    m0, nsp, nsa = lay.get(b, (0, 0, 0))
                    n = m0 + nsp if side == "p" else nsa
                    if o < n:
                        want.add(b)
                if set(bars_in) != want:
                    return ("column (%s,%d) of the cycle at event %d holds bars %s, the frame's bars with that position are %s"
                            % (side, o, c["begin"], sorted(bars_in), sorted(want)), "column-membership")
            seen |= set(chs)
        for ch in c["sent"]:
            if ch not in seen:
                return ("decorator on %s exchanged a width outside every column (cycle at event %d)" % (ch, c["begin"]), "exchange-outside-columns")
    return None


def c01_monitor(case, frames):
    """Wait was reached and returned; every bar has stopped"""
    evs = events(case)
    for seq, k, a in evs:
        if k == "HANG":
            return ("the scenario hung at '%s'" % " ".join(a), "hang-" + (a[0] if a else "unknown"))
    invoked = any(k == "CL_WAIT" for _, k, a in evs) or any("wait" == l.split()[1] for l in case.get("script", []) if len(l.split()) > 1)
    waited = any(k == "RET_WAIT" for _, k, a in evs)
    if invoked and not waited:
        return ("Progress.Wait was called and did not return", "wait-did-not-return")
    if waited:
        for seq, k, a in evs:
            if k == "FINAL" and a[4] == "1":
                return ("bar %s still reports IsRunning after Wait returned" % a[0], "running-after-wait")
    return None


def c02_monitor(case, frames):
    """late calls: prompt, documented values"""
    evs = events(case)
    final = {}
    for seq, k, a in evs:
        if k == "HANG":
            return ("the scenario hung at '%s'" % " ".join(a), "hang-" + (a[0] if a else "unknown"))
        if k == "LATE_WRITE" and (a[0] != "0" or a[1] != "1"):
            return ("Write after Wait returned (%s, ErrDone=%s)" % (a[0], a[1]), "late-write-result")
        if k == "LATE_ADD" and (a[0] != "1" or a[1] != "1"):
            return ("Add after Wait returned (bar nil=%s, ErrDone=%s)" % (a[0], a[1]), "late-add-result")
    return None


# ---------------------------------------------------------------- pty family (C04 on the terminal path)
def pty_replay(data, rows, upto=None):
    """interpret [data] as a terminal of [rows] lines would: returns (scrollback, window) as lists of strings"""
    window, scroll, r = [""], [], 0
    i, n = 0, len(data) if upto is None else min(upto, len(data))
    while i < n:
        ch = data[i]
        if ch == "\x1b" and i + 1 < n and data[i + 1] == "[":
            j = i + 2
            while j < n and (data[j].isdigit() or data[j] == ";"):
                j += 1
            arg, fin = data[i + 2:j], data[j] if j < n else ""
            if fin == "A":
                r = max(0, r - max(1, int(arg or "1")))   # ECMA-48: a zero parameter means the default, 1
            elif fin == "J":
                window[r] = ""
                del window[r + 1:]
            i = j + 1
            continue
        if ch == "\n":
            if r + 1 < len(window):
                r += 1
            elif len(window) < rows:
                window.append("")
                r += 1
            else:
                scroll.append(window.pop(0))
                window.append("")
            i += 1
            continue
        if ch == "\r":
            i += 1
            continue
        window[r] += ch
        i += 1
    return scroll, window


def c04_pty_monitor(hdr, marks, data):
    """hdr: case fields; marks: [(offset, label)]; data: the bytes seen by the terminal"""
    import re as _re
    rows, cols, pop = int(hdr[2]), int(hdr[3]), hdr[7] == "1"
    for off, label in marks:
        scroll, window = pty_replay(data, rows, off)
        tags = {}
        for where, lines in (("scrollback", scroll), ("screen", window)):
            for ln in lines:
                for t in _re.findall(r"<([BX]\d\d)>", ln):
                    tags.setdefault(t, []).append(where)
                if len(ln) > cols:
                    return ("a line of %d columns on a terminal of %d columns after '%s'" % (len(ln), cols, label), "pty-line-too-wide")
        for t, where in sorted(tags.items()):
            if len(where) > 1:
                return ("after '%s' the row of %s is on the terminal %d times (%s): a stale copy was left behind "
                        "(terminal %dx%d, %s bars)" % (label, t, len(where), ", ".join(where), rows, cols, hdr[4]), "pty-stale-row")
            if where == ["scrollback"] and not pop:
                return ("after '%s' the row of the running bar %s has been pushed into the scrollback (terminal %dx%d, %s bars)"
                        % (label, t, rows, cols, hdr[4]), "pty-row-in-scrollback")
    return None


def c07_frames_monitor(case, frames):
    """rows written by a container never exceed the width it was given, whatever happened to the bar before
    (clipped by the height for a while, re-prioritised, popped, promoted)"""
    width = int(case["cfg"][4])
    for seq, cuu, items in frames:
        for it in items:
            if it[0] == "r" and it[-1].startswith("w") and it[-1][1:].isdigit() and int(it[-1][1:]) > width:
                return ("the row of bar %s in the frame written at event %d is %s columns wide on a container of width %d"
                        % (it[1], seq, it[-1][1:], width), "container-row-wider-than-width")
    return None
