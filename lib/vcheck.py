# vcheck.py — shared machinery of ./check: builds (Coq theory, extracted model,
# harness from /repo's working tree), family runs, model/implementation
# comparison, verdicts, replay files, known findings, evidence.
import fcntl, hashlib, json, os, re, shutil, subprocess, sys, tempfile, time

VERIF = os.path.dirname(os.path.dirname(os.path.abspath(__file__)))
REPO = os.environ.get("VERIF_REPO", "/repo")
COQ = os.path.join(VERIF, "coq")
GOENV = dict(os.environ, GOFLAGS="-mod=mod", GOPROXY="off", GOSUMDB="off", GOTOOLCHAIN="local",
             CGO_ENABLED=os.environ.get("CGO_ENABLED", "1"), RUNEWIDTH_EASTASIAN="0")

TRUSTED_BASE = [
    "Coq 8.16.1 kernel (coqc; vm_compute used for finite facts, witnesses and obligations over generated tables; no native_compute); "
    "coqchk -o over all Props modules at the end of a round",
    "axioms: none, except for C07/C08/C20 whose proofs go through Flocq's real-number lemmas (standard library's "
    "ClassicalDedekindReals.sig_forall_dec, sig_not_dec, Classical_Prop.classic, FunctionalExtensionality.functional_extensionality_dep); "
    "the list printed by Print Assumptions is in the axioms field",
    "extraction to OCaml with ExtrOcamlBasic only (bool, option, list, prod, unit, sumbool mapped; Z/positive/nat inductive; no Extract Constant)",
    "OCaml glue ocaml/glue.ml + ocaml/driver.ml (line parsing/printing, zarith only for decimal I/O; the linearization search of the conc "
    "family is untrusted: its certificate is validated by the extracted checker)",
    "Go harness /verif/harness (generators, executors, observers, pseudo terminal driver), the verif-tagged hooks in /repo, the Go race "
    "detector, the Python driver and monitors (lib/), the Python terminal replay cross-checked against the extracted reader",
    "the self-checking families dec (built-in decorators) and opt (option layer) compare the library with its documentation and with "
    "formatters that the fmt family compares with the extracted model: they are tests that widen the tie, not theorems; wall-clock "
    "readings in them are bracketed, never modelled",
    "translator /verif/translator (go/parser based) for the regenerated tables coq/gen/*.v",
    "modelled, not verified: Go's channels, select, WaitGroup, context, scheduler and memory model; go-runewidth/uniseg (widths are "
    "measured); strconv, fmt, bytes.Buffer; the tty driver; user-supplied fillers, decorators and writers. container/heap's algorithms are "
    "transcribed in PQueue.v, proved and compared step by step with the real queue; bar_wait_group.go is modelled in WaitGroup.v, "
    "proved (no lost wake-up) and compared with the code (wg family, source-shape obligation), sync.Mutex / sync.Cond under it are assumed",
]


def sh(cmd, timeout=600, cwd=None, env=None, inp=None):
    """run a command under a timeout; returns (rc, stdout+stderr). rc 124 = timeout."""
    try:
        p = subprocess.run(cmd, cwd=cwd, env=env, input=inp, shell=isinstance(cmd, str),
                           stdout=subprocess.PIPE, stderr=subprocess.STDOUT, timeout=timeout, text=True,
                           errors="replace")
        return p.returncode, p.stdout
    except subprocess.TimeoutExpired as e:
        out = e.stdout if isinstance(e.stdout, str) else (e.stdout or b"").decode("utf8", "replace")
        return 124, out + "\n[timeout after %ss]" % timeout


class Lock:
    def __init__(self, name):
        self.path = os.path.join(VERIF, "." + name + ".lock")

    def __enter__(self):
        self.f = open(self.path, "w")
        fcntl.flock(self.f, fcntl.LOCK_EX)
        return self

    def __exit__(self, *a):
        fcntl.flock(self.f, fcntl.LOCK_UN)
        self.f.close()


def read_lines(path):
    if not os.path.exists(path):
        return []
    with open(path, errors="replace") as f:
        return [l.rstrip("\n") for l in f]


class Violation:
    def __init__(self, what, signature, replay, found_input):
        self.what, self.signature, self.replay, self.found_input = what, signature, replay, found_input


class Ctx:
    def __init__(self, prop, tier, seed, replay=None):
        self.prop, self.tier, self.seed, self.replay = prop, tier, seed, replay
        self.t0 = time.time()
        self.tmp = tempfile.mkdtemp(prefix="verif.%s." % prop)
        self.violations = []
        self.notes = []
        self.cov = {"evaluations": 0, "distinct_nontrivial": 0, "rule": "", "samples": [],
                    "traces_validated_against_impl": 0, "obligations": 0, "discharged": 0,
                    "checker_cmd": "", "trusted_base": list(TRUSTED_BASE), "histograms": {},
                    "axioms": [], "theorems": [], "families": {}}
        self.assumptions = []
        self.known = json.load(open(os.path.join(VERIF, "known_findings.json")))
        self.obligation_failures = []
        self.harness = None
        self._distinct = set()

    # ------------------------------------------------------------ builds
    def build_coq(self):
        """regenerate the tables from /repo, rebuild the theory (full .vo build)."""
        with Lock("build"):
            tr = os.path.join(VERIF, "translator")
            if os.path.exists(os.path.join(tr, "main.go")):
                rc, out = sh(["go", "run", ".", "-repo", REPO, "-out", os.path.join(COQ, "gen")],
                             cwd=tr, env=GOENV, timeout=300)
                if rc != 0:
                    self.obligation_failures.append(("translator", out[-2000:]))
                    return False
            if not os.path.exists(os.path.join(COQ, "Makefile")):
                sh("coq_makefile -f _CoqProject -o Makefile", cwd=COQ, timeout=60)
            rc, out = sh("make -j16 -k 2>&1", cwd=COQ, timeout=3000)
            self.make_log = out
            if rc != 0:
                for m in re.finditer(r'File "\./([^"]+)", line (\d+)[^\n]*\n((?:.*\n){0,12})', out):
                    self.obligation_failures.append((m.group(1), ("line %s: " % m.group(2)) + m.group(3)[:1500]))
                if not self.obligation_failures:
                    self.obligation_failures.append(("make", out[-2000:]))
            # the extracted model must be newer than every model .vo
            model = os.path.join(VERIF, "bin", "mpbmodel")
            vos = [os.path.join(COQ, f) for f in os.listdir(COQ) if f.endswith(".vo")]
            newest = max([os.path.getmtime(v) for v in vos] + [0])
            src = [os.path.join(VERIF, "ocaml", f) for f in ("driver.ml", "glue.ml", "build.sh")]
            newest = max([newest] + [os.path.getmtime(s) for s in src] + [os.path.getmtime(os.path.join(COQ, "Extract.v"))])
            if not os.path.exists(model) or os.path.getmtime(model) < newest:
                rc2, out2 = sh([os.path.join(VERIF, "ocaml", "build.sh")], timeout=900)
                if rc2 != 0:
                    self.obligation_failures.append(("extraction", out2[-2000:]))
                    return False
            return rc == 0

    def props_file(self, prop=None):
        return os.path.join(COQ, "Props", (prop or self.prop) + ".v")

    def check_props(self, extra_files=()):
        """re-check the property's theorem file against the current model and
        collect theorem names and axioms (Print Assumptions output)."""
        pf = self.props_file()
        files = [pf] + [os.path.join(COQ, f) for f in extra_files]
        names, axioms = [], set()
        ok = True
        for f in files:
            src = open(f).read()
            thms = re.findall(r'^(?:Theorem|Lemma|Example|Corollary)\s+(\w+)', src, re.M)
            rel = os.path.relpath(f, COQ)
            failed = [x for x in self.obligation_failures if x[0] == rel]
            rc, out = sh(["coqc", "-Q", ".", "MPB", rel], cwd=COQ, timeout=900)
            if rc != 0 or failed:
                ok = False
                if rc != 0 and not failed:
                    self.obligation_failures.append((rel, out[-1500:]))
                # which theorem? the first one after the failing line
                names += [(t, False) for t in thms]
            else:
                names += [(t, True) for t in thms]
            for m in re.finditer(r'^([A-Za-z_][\w.]*)\s*$|^([A-Za-z_][\w.]*) :', out, re.M):
                name = m.group(1) or m.group(2)
                if "." in name and name not in ("Axioms",):
                    axioms.add(name)
        self.cov["theorems"] = [t for t, _ in names]
        self.cov["obligations"] = len(names)
        self.cov["discharged"] = sum(1 for _, d in names if d)
        self.cov["axioms"] = sorted(axioms) if axioms else ["(none: every theorem is closed under the global context)"]
        self.cov["checker_cmd"] = "make -C coq (coqc 8.16.1, full .vo build) && coqc -Q . MPB Props/%s.v" % self.prop
        return ok

    def dependency_failures(self, deps):
        """obligation failures in files this property depends on"""
        return [x for x in self.obligation_failures
                if x[0] in deps or x[0] in ("translator", "make", "extraction") or x[0].startswith("gen/")]

    def harness_dir(self):
        """the harness module; when another source tree than /repo is checked (VERIF_REPO) a copy whose go.mod points there"""
        hdir = os.path.join(VERIF, "harness")
        if REPO != "/repo":
            cp = os.path.join(self.tmp, "harness_src")
            if not os.path.exists(cp):
                shutil.copytree(hdir, cp)
                gm = open(os.path.join(cp, "go.mod")).read().replace("=> /repo", "=> " + REPO)
                open(os.path.join(cp, "go.mod"), "w").write(gm)
            hdir = cp
        shutil.copy(os.path.join(REPO, "go.sum"), os.path.join(hdir, "go.sum"))
        return hdir

    def build_harness(self):
        out = os.path.join(self.tmp, "mpbh")
        hdir = self.harness_dir()
        cmd = ["go", "build", "-tags", "verif", "-o", out, "./cmd/mpbh"]
        rc, o = sh(cmd, cwd=hdir, env=GOENV, timeout=900)
        if rc != 0:
            self.harness_error = o
            return None
        self.harness = out
        return out

    def build_harness_race(self):
        """the same harness under the Go race detector"""
        out = os.path.join(self.tmp, "mpbh_race")
        hdir = self.harness_dir()
        cmd = ["go", "build", "-race", "-tags", "verif", "-o", out, "./cmd/mpbh"]
        rc, o = sh(cmd, cwd=hdir, env=dict(GOENV, CGO_ENABLED="1"), timeout=900)
        if rc != 0:
            self.harness_error = o
            return None
        return out

    # ------------------------------------------------------------ running
    def run_family(self, fam, n, seed=None, extra=None, tag="", timeout=1200, model=True, model_family=None, env=None, binary=None, expected_to_fail=False):
        seed = self.seed if seed is None else seed
        d = os.path.join(self.tmp, "%s%s.%d" % (fam, tag, seed))
        os.makedirs(d, exist_ok=True)
        cmd = [binary or self.harness, fam, "-seed", str(seed), "-n", str(n), "-tier", self.tier, "-out", d]
        if extra:
            cmd += ["-extra", extra]
        t = time.time()
        if getattr(self, "abort_runs", False) and not self.replay and not expected_to_fail:
            # an earlier run already panicked or hung: that is the report; do not spend a timeout per remaining run
            return {"dir": d, "rc": 0, "log": "", "family": fam, "seed": seed, "n": 0, "skipped": True, "stats": {}, "wall": 0}
        rc, out = sh(cmd, timeout=timeout, env={**GOENV, "MPBH_HANG_MS": "30000", **(env or {})})
        if rc != 0 and not expected_to_fail and ("hang" in out or "panic" in out or "fatal error" in out):
            self.abort_runs = True
        res = {"dir": d, "rc": rc, "log": out, "family": fam, "seed": seed, "n": n}
        if model:
            rc2, out2 = sh([os.path.join(VERIF, "bin", "mpbmodel"), model_family or fam, d], timeout=timeout)
            res["model_rc"], res["model_log"] = rc2, out2
        res["wall"] = time.time() - t
        res["stats"] = {}
        for l in read_lines(os.path.join(d, "stats.txt")):
            k, v = l.rsplit(" ", 1)
            res["stats"][k] = int(v)
        fs = self.cov["families"].setdefault(fam, {"runs": 0, "cases": 0})
        fs["runs"] += 1
        fs["cases"] += n
        for k, v in res["stats"].items():
            h = self.cov["histograms"].setdefault(fam, {})
            h[k] = h.get(k, 0) + v
        return res

    # ------------------------------------------------------------ verdicts
    def add_violation(self, what, signature, replay, found_input=True):
        rp = dict(replay)
        rp.update({"property": self.prop, "what": what, "signature": signature,
                   "found_input": found_input, "seed": self.seed, "tier": self.tier})
        h = hashlib.sha1(json.dumps(rp, sort_keys=True, default=str).encode()).hexdigest()[:10]
        os.makedirs(os.path.join(VERIF, "replays"), exist_ok=True)
        path = os.path.join(VERIF, "replays", "%s-%s.json" % (self.prop, h))
        with open(path, "w") as f:
            json.dump(rp, f, indent=1, default=str)
        self.violations.append(Violation(what, signature, path, found_input))

    def note(self, s):
        self.notes.append(s)

    def distinct(self, key):
        self._distinct.add(key)

    def sample(self, s):
        if len(self.cov["samples"]) < 6:
            self.cov["samples"].append(s)

    def finish(self):
        known_open = {(k["property"], k["signature"]): k for k in self.known.get("open", [])}
        real, printed = [], set()
        for v in self.violations:
            k = known_open.get((self.prop, v.signature))
            if k is not None:
                if v.signature not in printed:
                    print("KNOWN-FINDING: property=%s %s" % (self.prop, k["what"]))
                    printed.add(v.signature)
            else:
                real.append(v)
        self.cov["distinct_nontrivial"] = max(self.cov["distinct_nontrivial"], len(self._distinct))
        ev = {"property_id": self.prop, "tier": self.tier, "seed": self.seed, "level": "proof",
              "coverage": self.cov, "assumptions": self.assumptions, "wall_s": round(time.time() - self.t0, 2),
              "violations": len(real), "known_findings_reproduced": sorted(printed), "notes": self.notes}
        os.makedirs(os.path.join(VERIF, "evidence"), exist_ok=True)
        with open(os.path.join(VERIF, "evidence", self.prop + ".json"), "w") as f:
            json.dump(ev, f, indent=1, default=str)
        if os.environ.get("VERIF_KEEP_TMP"):
            print("kept " + self.tmp)
        else:
            shutil.rmtree(self.tmp, ignore_errors=True)
        seen = set()
        for v in real:
            if v.replay in seen:
                continue
            seen.add(v.replay)
            tail = "" if v.found_input else " no-failing-input-found"
            print("VIOLATION property=%s replay=%s%s" % (self.prop, v.replay, tail))
            print("  " + v.what.replace("\n", "\n  ")[:1200])
        if real:
            return 1
        if getattr(self, "internal_error", False):
            print("ERROR property=%s internal error in the check (see evidence notes)" % self.prop)
            return 2
        print("OK property=%s tier=%s seed=%d obligations=%d/%d evaluations=%d distinct_nontrivial=%d wall=%.1fs" % (
            self.prop, self.tier, self.seed, self.cov["discharged"], self.cov["obligations"],
            self.cov["evaluations"], self.cov["distinct_nontrivial"], time.time() - self.t0))
        return 0


# ---------------------------------------------------------------- comparison helpers
def group_cases(lines, header="case"):
    """split a cases.txt into {k: [lines]} using 'case <k> ...' headers"""
    out, cur = {}, None
    for l in lines:
        f = l.split()
        if not f:
            continue
        if f[0] == header:
            cur = int(f[1])
            out[cur] = [l]
        elif cur is not None:
            out[cur].append(l)
    return out


def group_obs(lines):
    """observation lines start with the case number"""
    out = {}
    for l in lines:
        f = l.split(" ", 1)
        try:
            k = int(f[0])
        except ValueError:
            continue
        out.setdefault(k, []).append(l)
    return out


def compare(res, project=lambda l: l):
    """returns list of (k, impl_lines, model_lines, first_diff_index)"""
    d = res["dir"]
    impl = group_obs(read_lines(os.path.join(d, "impl.txt")))
    model = group_obs(read_lines(os.path.join(d, "model.txt")))
    bad = []
    for k in sorted(set(impl) | set(model)):
        a = [project(x) for x in impl.get(k, [])]
        b = [project(x) for x in model.get(k, [])]
        if a != b:
            i = 0
            while i < min(len(a), len(b)) and a[i] == b[i]:
                i += 1
            bad.append((k, impl.get(k, []), model.get(k, []), i))
    return bad, impl, model


def shrink_case(ctx, fam, case_lines, still_fails, keep=lambda l: not l.startswith("o ")):
    """greedy: drop one droppable line at a time while the failure persists.
    still_fails(lines) -> bool re-runs the implementation and the model."""
    cur = list(case_lines)
    changed = True
    budget = 60
    while changed and budget > 0:
        changed = False
        for i in range(len(cur) - 1, 0, -1):
            if keep(cur[i]) or budget <= 0:
                continue
            cand = cur[:i] + cur[i + 1:]
            budget -= 1
            if still_fails(cand):
                cur = cand
                changed = True
    return cur


def write_script(ctx, name, lines):
    p = os.path.join(ctx.tmp, name)
    with open(p, "w") as f:
        f.write("\n".join(lines) + "\n")
    return p
