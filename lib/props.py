# props.py — one check function per property. Each: (1) rebuilds the Coq
# theory (regenerated tables included) and re-checks the property's theorem
# file, (2) builds the harness against /repo's working tree, (3) runs corpus
# scripts, directed witnesses and seeded generators through implementation and
# extracted model, (4) compares projected observables, evaluates the property's
# monitors on the implementation's own observations, (5) decides.
import json, os, re, sys
from vcheck import *

CHECKS = {}


def check(fn):
    CHECKS[fn.__name__.split("_")[1]] = fn
    return fn


def common_setup(ctx, deps):
    """steps 1-2; returns False when nothing can be run"""
    ctx.build_coq()
    props_ok = ctx.check_props()
    depfail = ctx.dependency_failures(deps)
    ctx.props_ok = props_ok and not depfail
    ctx.depfail = depfail
    if ctx.build_harness() is None:
        ctx.add_violation("the harness does not build against /repo's working tree:\n" + ctx.harness_error[-1500:],
                          "harness-build", {"log": ctx.harness_error[-4000:]}, found_input=False)
        return False
    return True


def report_broken_obligations(ctx, found_any_input):
    """a theorem (or a regenerated obligation) no longer checks"""
    if ctx.props_ok:
        return
    if found_any_input:
        return  # the concrete failing input is the report
    names = "; ".join("%s: %s" % (f, msg.strip().splitlines()[0] if msg.strip() else "") for f, msg in
                      (ctx.depfail or ctx.obligation_failures))
    ctx.add_violation("proof obligation no longer checks: " + names, "obligation",
                      {"failures": ctx.depfail or ctx.obligation_failures}, found_input=False)


def corpus_scripts(prop, fam):
    d = os.path.join(VERIF, "corpus", prop)
    if not os.path.isdir(d):
        return []
    return sorted(os.path.join(d, f) for f in os.listdir(d) if f.startswith(fam + "_") and f.endswith(".txt"))


# ---------------------------------------------------------------- bar family (C09, C11)
def bar_runs(ctx, n_quick, n_thorough, seeds_thorough=4):
    runs = []
    for sc in corpus_scripts(ctx.prop, "bar"):
        runs.append(ctx.run_family("bar", 0, extra=sc, tag=".corpus." + os.path.basename(sc)))
    if ctx.replay:
        rp = json.load(open(ctx.replay))
        if "case" in rp:
            sc = write_script(ctx, "replay.txt", rp["case"])
            runs.append(ctx.run_family("bar", 0, extra=sc, tag=".replay"))
            return runs
    if ctx.tier == "quick":
        runs.append(ctx.run_family("bar", n_quick))
    else:
        for i in range(seeds_thorough):
            runs.append(ctx.run_family("bar", n_thorough // seeds_thorough, seed=ctx.seed * 1000 + i))
    return runs


def bar_fields(line):
    f = line.split()
    # k step cur comp abrt ...
    return f


def c09_project_case(lines):
    """C09 speaks about bars that have not reached a terminal state (plus: Abort
    does nothing to a completed bar): keep every line up to and including the
    first terminal one; afterwards keep lines only while the bar is completed."""
    out, terminal = [], None
    for l in lines:
        f = l.split()
        if len(f) < 5 or not f[2].lstrip("-").isdigit():
            out.append(l)  # HANG / REFUSED / BADRENDER lines always count
            continue
        if terminal is None:
            out.append(l)
            if f[3] == "1":
                terminal = "c"
            elif f[4] == "1":
                terminal = "a"
        elif terminal == "c":
            out.append(" ".join(f[:5]))
    return out


def bar_mismatches(ctx, run, project_case):
    d = run["dir"]
    impl = group_obs(read_lines(os.path.join(d, "impl.txt")))
    model = group_obs(read_lines(os.path.join(d, "model.txt")))
    cases = group_cases(read_lines(os.path.join(d, "cases.txt")))
    bad = []
    for k in sorted(set(impl) | set(model)):
        a, b = project_case(impl.get(k, [])), project_case(model.get(k, []))
        if a != b:
            bad.append(k)
    return bad, impl, model, cases


def bar_shrink(ctx, case_lines, project_case, extra_pred=None):
    def fails(lines):
        sc = write_script(ctx, "shrink.txt", lines + ["end"])
        r = ctx.run_family("bar", 0, extra=sc, tag=".shrink")
        if r["rc"] != 0:
            return True
        bad, impl, model, _ = bar_mismatches(ctx, r, project_case)
        if bad:
            return True
        if extra_pred:
            return any(extra_pred(impl.get(k, [])) for k in impl)
        return False
    body = [l for l in case_lines if l != "end" and not l.startswith("e Exit") and not l.startswith("e Cancel")]
    return shrink_case(ctx, "bar", body, fails)


def bar_coverage(ctx, run):
    cases = group_cases(read_lines(os.path.join(run["dir"], "cases.txt")))
    impl = group_obs(read_lines(os.path.join(run["dir"], "impl.txt")))
    for k, lines in cases.items():
        ops = tuple(l.split()[1] for l in lines if l.startswith("o ") and l != "o Nop")
        ctx.cov["evaluations"] += 1
        ctx.cov["traces_validated_against_impl"] += 1
        last = impl.get(k, [""])[-1].split()
        if len(ops) >= 2:
            ctx.distinct((lines[0].split()[2], ops, tuple(last[3:5])))
        if k < 2:
            ctx.sample({"case": lines, "impl": impl.get(k, [])})


@check
def check_C09(ctx):
    ctx.cov["rule"] = ("cases = seeded operation scripts on one bar (3 container modes, 5 classes of initial total, "
                       "boundary-biased int64 arguments, EWMA recorder behind 0-3 wrappers); non-trivial = at least two "
                       "mutating operations; distinct = (mode, sequence of operation kinds, final flags)")
    ctx.assumptions = ["sequential client; getters are not observed between ctx cancellation and actor exit (both select branches ready)",
                       "int64 wrap of current+n is part of the model (theorem C09_wrap_faithful states when it is the identity)"]
    if not common_setup(ctx, {"Base.v", "BaseProofs.v", "BarState.v", "BarStateProofs.v", "Props/C09.v"}):
        return
    found = False
    for run in bar_runs(ctx, 1500, 60000):
        if run["rc"] != 0:
            ctx.add_violation("implementation run failed (hang or crash): " + run["log"][-800:], "bar-run-failed",
                              {"family": "bar", "seed": run["seed"], "n": run["n"], "log": run["log"][-3000:]})
            found = True
            continue
        bad, impl, model, cases = bar_mismatches(ctx, run, c09_project_case)
        bar_coverage(ctx, run)
        for k in bad[:3]:
            small = bar_shrink(ctx, cases[k], c09_project_case)
            ctx.add_violation("implementation and documented rules (model) disagree on a bar that has not reached a terminal state",
                              "bar-rule-mismatch",
                              {"family": "bar", "case": small + ["end"], "original_case": cases[k],
                               "impl": impl.get(k), "model": model.get(k), "run_seed": run["seed"]})
            found = True
    report_broken_obligations(ctx, found)


# ---------------------------------------------------------------- C11
I64MAX = (1 << 63) - 1


def c11_monitor(case_lines, obs_lines):
    """executable monitor over what a client can see; returns (what, signature) or None.
    obs_lines[i] is the observation after the i-th observed event of case_lines."""
    evs = [l for l in case_lines[1:] if l != "end" and l != "e Cancel"]
    # an op that cancels the bar and the following Exit share one observation
    merged = []
    for l in evs:
        if l == "e Exit" and merged and merged[-1][-1].startswith("o "):
            merged[-1].append(l)
        else:
            merged.append([l])
    rows = []
    for l in obs_lines:
        f = l.split()
        if len(f) >= 5 and f[2].lstrip("-").isdigit():
            rows.append((int(f[2]), f[3] == "1", f[4] == "1"))
        else:
            return None  # HANG etc. are reported elsewhere
    total = int(case_lines[0].split()[3])
    seen_c = seen_a = False
    exited = False
    terminal_op = False
    for i, (cur, comp, ab) in enumerate(rows):
        ev = merged[i] if i < len(merged) else ["?"]
        if comp and ab:
            return ("bar reported both completed and aborted after %s" % ev, "both-flags")
        f = ev[0].split()
        nondecr = True
        if f[0] == "o" and i > 0:
            prev = rows[i - 1][0]
            if f[1] in ("Incr", "EIncr"):
                n = int(f[2]); nondecr = n >= 0 and prev + n <= I64MAX
            elif f[1] in ("SetCur", "ESetCur"):
                c = int(f[2]); nondecr = c < 0 or c >= prev
        if seen_c and not comp and nondecr:
            return ("Completed went from true to false across %s" % ev, "completed-unstable")
        if seen_a and (not ab or comp) and nondecr:
            return ("Aborted bar changed its report across %s" % ev, "aborted-unstable")
        if not nondecr:
            seen_c = seen_a = False  # the property does not cover decreasing updates
        seen_c, seen_a = seen_c or comp, seen_a or ab
        if any(x == "e Exit" for x in ev):
            exited = True
        if f[0] == "o" and f[1] in ("Abort",):
            terminal_op = True
    if exited and rows:
        cur, comp, ab = rows[-1]
        if comp == ab:
            return ("after the bar's goroutine exited exactly one of Completed/Aborted must hold, got %s/%s" % (comp, ab),
                    "not-exactly-one")
    return None


def c11_project_case(lines):
    out = []
    for l in lines:
        f = l.split()
        # C11 is about the two flags only: k step completed aborted
        out.append(" ".join(f[:2] + f[3:5]) if len(f) >= 5 and f[2].lstrip("-").isdigit() else l)
    return out


@check
def check_C11(ctx):
    ctx.cov["rule"] = ("bar scripts as in C09, observed through Current/Completed/Aborted after every operation, "
                       "after the actor's exit and after Shutdown; monitor = exclusivity, stability under non-decreasing "
                       "updates, exactly-one after exit; non-trivial = reaches a terminal state and continues with at "
                       "least one more operation; distinct = (mode, op kinds, final flags)")
    ctx.assumptions = ["non-decreasing update = IncrInt64 n>=0 without int64 overflow, SetCurrent c>=current, any non-counter operation",
                       "getters are not observed between ctx cancellation and actor exit"]
    if not common_setup(ctx, {"Base.v", "BaseProofs.v", "BarState.v", "BarStateProofs.v", "Props/C11.v"}):
        return
    found = False
    for run in bar_runs(ctx, 2500, 80000):
        if run["rc"] != 0:
            ctx.add_violation("implementation run failed (hang or crash): " + run["log"][-800:], "bar-run-failed",
                              {"family": "bar", "seed": run["seed"], "n": run["n"], "log": run["log"][-3000:]})
            found = True
            continue
        bad, impl, model, cases = bar_mismatches(ctx, run, c11_project_case)
        bar_coverage(ctx, run)
        reported = set()
        for k in sorted(cases):
            mon = c11_monitor(cases[k], impl.get(k, []))
            if mon and mon[1] not in reported:
                reported.add(mon[1])
                pred = lambda obs, case=None: False
                def fails(lines, sig=mon[1]):
                    sc = write_script(ctx, "shrink.txt", lines + ["end"])
                    r = ctx.run_family("bar", 0, extra=sc, tag=".shrink")
                    cs = group_cases(read_lines(os.path.join(r["dir"], "cases.txt")))
                    im = group_obs(read_lines(os.path.join(r["dir"], "impl.txt")))
                    return any((c11_monitor(cs[j], im.get(j, [])) or (0, 0))[1] == sig for j in cs)
                body = [l for l in cases[k] if l != "end" and not l.startswith("e Exit") and not l.startswith("e Cancel")]
                small = shrink_case(ctx, "bar", body, fails)
                ctx.add_violation(mon[0], mon[1], {"family": "bar", "case": small + ["end"], "original_case": cases[k],
                                                   "impl": impl.get(k), "run_seed": run["seed"]})
                found = True
        if not reported:
            for k in bad[:2]:
                small = bar_shrink(ctx, cases[k], c11_project_case)
                ctx.add_violation("terminal-state flags differ between implementation and model (correspondence broken); "
                                  "the monitors found no failing history", "bar-flag-mismatch",
                                  {"family": "bar", "case": small + ["end"], "impl": impl.get(k), "model": model.get(k),
                                   "theorem": "correspondence bar-family/flags"}, found_input=False)
                found = True
    report_broken_obligations(ctx, found)
