# props.py — one check function per property. Each: (1) rebuilds the Coq
# theory (regenerated tables included) and re-checks the property's theorem
# file, (2) builds the harness against /repo's working tree, (3) runs corpus
# scripts, directed witnesses and seeded generators through implementation and
# extracted model, (4) compares projected observables, evaluates the property's
# monitors on the implementation's own observations, (5) decides.
import json, os, re, sys, time
from vcheck import *
import monitors as M

CHECKS = {}


def check(fn):
    CHECKS[fn.__name__.split("_")[1]] = fn
    return fn


def common_setup(ctx, deps):
    """steps 1-2; returns False when nothing can be run"""
    ctx.build_coq()
    props_ok = ctx.check_props()
    depfail = ctx.dependency_failures(deps)
    ctx.props_ok = props_ok and not depfail
    ctx.depfail = depfail
    if ctx.build_harness() is None:
        ctx.add_violation("the harness does not build against /repo's working tree:\n" + ctx.harness_error[-1500:],
                          "harness-build", {"log": ctx.harness_error[-4000:]}, found_input=False)
        return False
    return True


def report_broken_obligations(ctx, found_any_input):
    """a theorem (or a regenerated obligation) no longer checks"""
    if ctx.props_ok:
        return
    if found_any_input:
        return  # the concrete failing input is the report
    names = "; ".join("%s: %s" % (f, msg.strip().splitlines()[0] if msg.strip() else "") for f, msg in
                      (ctx.depfail or ctx.obligation_failures))
    ctx.add_violation("proof obligation no longer checks: " + names, "obligation",
                      {"failures": ctx.depfail or ctx.obligation_failures}, found_input=False)


def corpus_scripts(prop, fam):
    d = os.path.join(VERIF, "corpus", prop)
    if not os.path.isdir(d):
        return []
    return sorted(os.path.join(d, f) for f in os.listdir(d) if f.startswith(fam + "_") and f.endswith(".txt"))


# ---------------------------------------------------------------- bar family (C09, C11)
def bar_runs(ctx, n_quick, n_thorough, seeds_thorough=4):
    runs = []
    for sc in corpus_scripts(ctx.prop, "bar"):
        runs.append(ctx.run_family("bar", 0, extra=sc, tag=".corpus." + os.path.basename(sc)))
    if ctx.replay:
        rp = json.load(open(ctx.replay))
        if "case" in rp:
            sc = write_script(ctx, "replay.txt", rp["case"])
            runs.append(ctx.run_family("bar", 0, extra=sc, tag=".replay"))
            return runs
    if ctx.tier == "quick":
        runs.append(ctx.run_family("bar", n_quick))
    else:
        for i in range(seeds_thorough):
            runs.append(ctx.run_family("bar", n_thorough // seeds_thorough, seed=ctx.seed * 1000 + i))
    return runs


def bar_fields(line):
    f = line.split()
    # k step cur comp abrt ...
    return f


def c09_project_case(lines):
    """C09 speaks about bars that have not reached a terminal state (plus: Abort
    does nothing to a completed bar): keep every line up to and including the
    first terminal one; afterwards keep lines only while the bar is completed."""
    out, terminal = [], None
    for l in lines:
        f = l.split()
        if len(f) < 5 or not f[2].lstrip("-").isdigit():
            out.append(l)  # HANG / REFUSED / BADRENDER lines always count
            continue
        if terminal is None:
            out.append(l)
            if f[3] == "1":
                terminal = "c"
            elif f[4] == "1":
                terminal = "a"
        elif terminal == "c":
            out.append(" ".join(f[:5]))
    return out


def bar_mismatches(ctx, run, project_case):
    d = run["dir"]
    impl = group_obs(read_lines(os.path.join(d, "impl.txt")))
    model = group_obs(read_lines(os.path.join(d, "model.txt")))
    cases = group_cases(read_lines(os.path.join(d, "cases.txt")))
    bad = []
    for k in sorted(set(impl) | set(model)):
        a, b = project_case(impl.get(k, [])), project_case(model.get(k, []))
        if a != b:
            bad.append(k)
    return bad, impl, model, cases


def bar_shrink(ctx, case_lines, project_case, extra_pred=None):
    def fails(lines):
        sc = write_script(ctx, "shrink.txt", lines + ["end"])
        r = ctx.run_family("bar", 0, extra=sc, tag=".shrink")
        if r["rc"] != 0:
            return True
        bad, impl, model, _ = bar_mismatches(ctx, r, project_case)
        if bad:
            return True
        if extra_pred:
            return any(extra_pred(impl.get(k, [])) for k in impl)
        return False
    body = [l for l in case_lines if l != "end" and not l.startswith("e Exit") and not l.startswith("e Cancel")]
    return shrink_case(ctx, "bar", body, fails)


def bar_coverage(ctx, run):
    cases = group_cases(read_lines(os.path.join(run["dir"], "cases.txt")))
    impl = group_obs(read_lines(os.path.join(run["dir"], "impl.txt")))
    for k, lines in cases.items():
        ops = tuple(l.split()[1] for l in lines if l.startswith("o ") and l != "o Nop")
        ctx.cov["evaluations"] += 1
        ctx.cov["traces_validated_against_impl"] += 1
        last = impl.get(k, [""])[-1].split()
        if len(ops) >= 2:
            ctx.distinct((lines[0].split()[2], ops, tuple(last[3:5])))
        if k < 2:
            ctx.sample({"case": lines, "impl": impl.get(k, [])})


@check
def check_C09(ctx):
    ctx.cov["rule"] = ("cases = seeded operation scripts on one bar (3 container modes, 5 classes of initial total, "
                       "boundary-biased int64 arguments, EWMA recorder behind 0-3 wrappers); non-trivial = at least two "
                       "mutating operations; distinct = (mode, sequence of operation kinds, final flags)")
    ctx.assumptions = ["sequential client; getters are not observed between ctx cancellation and actor exit (both select branches ready)",
                       "int64 wrap of current+n is part of the model (theorem C09_wrap_faithful states when it is the identity)"]
    if not common_setup(ctx, {"Base.v", "BaseProofs.v", "BarState.v", "BarStateProofs.v", "Props/C09.v"}):
        return
    found = False
    for run in bar_runs(ctx, 1500, 60000):
        if run["rc"] != 0:
            ctx.add_violation("implementation run failed (hang or crash): " + run["log"][-800:], "bar-run-failed",
                              {"family": "bar", "seed": run["seed"], "n": run["n"], "log": run["log"][-3000:]})
            found = True
            continue
        bad, impl, model, cases = bar_mismatches(ctx, run, c09_project_case)
        bar_coverage(ctx, run)
        if run is not None and "crosschecked" not in ctx.cov:
            ctx.cov["crosschecked"] = True
            extraction_crosscheck(ctx, run, 60 if ctx.tier == "quick" else 400)
        for k in bad[:3]:
            small = bar_shrink(ctx, cases[k], c09_project_case)
            ctx.add_violation("implementation and documented rules (model) disagree on a bar that has not reached a terminal state",
                              "bar-rule-mismatch",
                              {"family": "bar", "case": small + ["end"], "original_case": cases[k],
                               "impl": impl.get(k), "model": model.get(k), "run_seed": run["seed"]})
            found = True
    report_broken_obligations(ctx, found)



def extraction_crosscheck(ctx, run, limit=150):
    """bound the trust in extraction + OCaml glue: the same cases are evaluated inside Coq (vm_compute over BarState.brun)
    and the final observation is compared with what bin/mpbmodel printed"""
    cases = group_cases(read_lines(os.path.join(run["dir"], "cases.txt")))
    model = group_obs(read_lines(os.path.join(run["dir"], "model.txt")))

    def zlit(x):
        return "(%s)" % x if x.startswith("-") else x

    def blit(x):
        return "true" if x == "1" else "false"

    terms, expect = [], []
    for k in sorted(cases)[:limit]:
        lines = cases[k]
        hdr = lines[0].split()
        if any("REFUSED" in l for l in model.get(k, [])) or not model.get(k):
            continue
        evs = []
        for l in lines[1:]:
            f = l.split()
            if f[0] == "o":
                op = {"Incr": lambda a: "IncrInt64 %s" % zlit(a[0]), "EIncr": lambda a: "EwmaIncrInt64 %s %s" % (zlit(a[0]), zlit(a[1])),
                      "SetCur": lambda a: "SetCurrent %s" % zlit(a[0]), "ESetCur": lambda a: "EwmaSetCurrent %s %s" % (zlit(a[0]), zlit(a[1])),
                      "SetTotal": lambda a: "SetTotal %s %s" % (zlit(a[0]), blit(a[1])), "Enable": lambda a: "EnableTriggerComplete",
                      "SetRefill": lambda a: "SetRefill %s" % zlit(a[0]), "Abort": lambda a: "Abort %s" % blit(a[0])}.get(f[1])
                if op:
                    evs.append("Op (%s)" % op(f[2:]))
            elif f[0] == "e" and f[1] in ("Render", "Cancel", "Exit"):
                evs.append({"Render": "Render", "Cancel": "CtxCancel", "Exit": "Exit"}[f[1]])
        last = model[k][-1].split()
        terms.append("(binit %s %s false false, [%s])" % (zlit(hdr[3]), "true" if hdr[2] == "0" else "false", "; ".join(evs)))
        expect.append((int(last[2]), last[3] == "1", last[4] == "1"))
    if not terms:
        return
    vf = os.path.join(COQ, "CrossCheck_%s.v" % ctx.prop)
    with open(vf, "w") as f:
        f.write("From MPB Require Import Base BarState.\n"
                "Definition fin (c : bst * list bev) : option (Z * bool * bool) := match brun (fst c) (snd c) with Some s => Some (obs s) | None => None end.\n"
                "Definition cases : list (bst * list bev) := [\n  " + ";\n  ".join(terms) + "].\n"
                "Eval vm_compute in map fin cases.\n")
    rc, out = sh(["coqc", "-Q", ".", "MPB", os.path.basename(vf)], cwd=COQ, timeout=900)
    for ext in (".v", ".vo", ".vok", ".vos", ".glob"):
        try:
            os.remove(vf[:-2] + ext)
        except OSError:
            pass
    try:
        os.remove(os.path.join(COQ, "." + os.path.basename(vf)[:-2] + ".aux"))
    except OSError:
        pass
    got = [(int(a.replace("(", "").replace(")", "")), b == "true", c == "true")
           for a, b, c in re.findall(r"Some\s*\(\s*(\(?-?\d+\)?),\s*(true|false),\s*(true|false)\)", out)]
    ctx.cov["extraction_crosscheck"] = {"cases": len(expect), "evaluated_in_coq": len(got)}
    if rc != 0 or len(got) != len(expect):
        ctx.note("extraction cross-check could not be evaluated (rc=%d, %d of %d results)" % (rc, len(got), len(expect)))
        ctx.internal_error = True
        return
    for i, (g, e) in enumerate(zip(got, expect)):
        if g != e:
            ctx.note("extraction cross-check: Coq evaluates case %d to %r, the extracted model printed %r" % (i, g, e))
            ctx.internal_error = True
            return


# ---------------------------------------------------------------- C11
I64MAX = (1 << 63) - 1


def c11_monitor(case_lines, obs_lines):
    """executable monitor over what a client can see; returns (what, signature) or None.
    obs_lines[i] is the observation after the i-th observed event of case_lines."""
    evs = [l for l in case_lines[1:] if l != "end" and l != "e Cancel"]
    # an op that cancels the bar and the following Exit share one observation
    merged = []
    for l in evs:
        if l == "e Exit" and merged and merged[-1][-1].startswith("o "):
            merged[-1].append(l)
        else:
            merged.append([l])
    rows = []
    for l in obs_lines:
        f = l.split()
        if len(f) >= 5 and f[2].lstrip("-").isdigit():
            rows.append((int(f[2]), f[3] == "1", f[4] == "1"))
        else:
            return None  # HANG etc. are reported elsewhere
    total = int(case_lines[0].split()[3])
    seen_c = seen_a = False
    exited = False
    terminal_op = False
    for i, (cur, comp, ab) in enumerate(rows):
        ev = merged[i] if i < len(merged) else ["?"]
        if comp and ab:
            return ("bar reported both completed and aborted after %s" % ev, "both-flags")
        f = ev[0].split()
        nondecr = True
        if f[0] == "o" and i > 0:
            prev = rows[i - 1][0]
            if f[1] in ("Incr", "EIncr"):
                n = int(f[2]); nondecr = n >= 0 and prev + n <= I64MAX
            elif f[1] in ("SetCur", "ESetCur"):
                c = int(f[2]); nondecr = c < 0 or c >= prev
        if seen_c and not comp and nondecr:
            return ("Completed went from true to false across %s" % ev, "completed-unstable")
        if seen_a and (not ab or comp) and nondecr:
            return ("Aborted bar changed its report across %s" % ev, "aborted-unstable")
        if not nondecr:
            seen_c = seen_a = False  # the property does not cover decreasing updates
        seen_c, seen_a = seen_c or comp, seen_a or ab
        if any(x == "e Exit" for x in ev):
            exited = True
        if f[0] == "o" and f[1] in ("Abort",):
            terminal_op = True
    if exited and rows:
        cur, comp, ab = rows[-1]
        if comp == ab:
            return ("after the bar's goroutine exited exactly one of Completed/Aborted must hold, got %s/%s" % (comp, ab),
                    "not-exactly-one")
    return None


def c11_project_case(lines):
    out = []
    for l in lines:
        f = l.split()
        # C11 is about the two flags only: k step completed aborted
        out.append(" ".join(f[:2] + f[3:5]) if len(f) >= 5 and f[2].lstrip("-").isdigit() else l)
    return out


@check
def check_C11(ctx):
    ctx.cov["rule"] = ("bar scripts as in C09, observed through Current/Completed/Aborted after every operation, "
                       "after the actor's exit and after Shutdown; monitor = exclusivity, stability under non-decreasing "
                       "updates, exactly-one after exit; non-trivial = reaches a terminal state and continues with at "
                       "least one more operation; distinct = (mode, op kinds, final flags)")
    ctx.assumptions = ["non-decreasing update = IncrInt64 n>=0 without int64 overflow, SetCurrent c>=current, any non-counter operation",
                       "getters are not observed between ctx cancellation and actor exit"]
    if not common_setup(ctx, {"Base.v", "BaseProofs.v", "BarState.v", "BarStateProofs.v", "Props/C11.v"}):
        return
    found = False
    for run in bar_runs(ctx, 2500, 80000):
        if run["rc"] != 0:
            ctx.add_violation("implementation run failed (hang or crash): " + run["log"][-800:], "bar-run-failed",
                              {"family": "bar", "seed": run["seed"], "n": run["n"], "log": run["log"][-3000:]})
            found = True
            continue
        bad, impl, model, cases = bar_mismatches(ctx, run, c11_project_case)
        bar_coverage(ctx, run)
        reported = set()
        for k in sorted(cases):
            mon = c11_monitor(cases[k], impl.get(k, []))
            if mon and mon[1] not in reported:
                reported.add(mon[1])
                pred = lambda obs, case=None: False
                def fails(lines, sig=mon[1]):
                    sc = write_script(ctx, "shrink.txt", lines + ["end"])
                    r = ctx.run_family("bar", 0, extra=sc, tag=".shrink")
                    cs = group_cases(read_lines(os.path.join(r["dir"], "cases.txt")))
                    im = group_obs(read_lines(os.path.join(r["dir"], "impl.txt")))
                    return any((c11_monitor(cs[j], im.get(j, [])) or (0, 0))[1] == sig for j in cs)
                body = [l for l in cases[k] if l != "end" and not l.startswith("e Exit") and not l.startswith("e Cancel")]
                small = shrink_case(ctx, "bar", body, fails)
                ctx.add_violation(mon[0], mon[1], {"family": "bar", "case": small + ["end"], "original_case": cases[k],
                                                   "impl": impl.get(k), "run_seed": run["seed"]})
                found = True
        if not reported:
            for k in bad[:2]:
                small = bar_shrink(ctx, cases[k], c11_project_case)
                ctx.add_violation("terminal-state flags differ between implementation and model (correspondence broken); "
                                  "the monitors found no failing history", "bar-flag-mismatch",
                                  {"family": "bar", "case": small + ["end"], "impl": impl.get(k), "model": model.get(k),
                                   "theorem": "correspondence bar-family/flags"}, found_input=False)
                found = True
    report_broken_obligations(ctx, found)


# ---------------------------------------------------------------- fill family (C07, C08)
def parse_runs(line):
    """'k i T c:w c:w | W n U b' -> (runs, W, U) or None for HANG etc."""
    f = line.split()
    if len(f) < 3 or f[2] != "T":
        return None
    runs = []
    j = 3
    while f[j] != "|":
        c, w = f[j].split(":")
        runs.append((int(c), int(w)))
        j += 1
    return runs, int(f[j + 2]), int(f[j + 4])


def crw(req, avail):
    return avail if (req < 1 or req > avail) else req


def exact_cells(total, current, width):
    """the property's reference: width*current/total rounded to nearest (halves up), exact integers"""
    if total <= 0 or current <= 0:
        return 0
    if current >= total:
        return width
    return (2 * width * current + total) // (2 * total)


def fill_cases(run):
    """yields (k, header_tokens, [(input_tokens, obs_line)])"""
    d = run["dir"]
    impl = group_obs(read_lines(os.path.join(d, "impl.txt")))
    model = group_obs(read_lines(os.path.join(d, "model.txt")))
    cur = None
    out = []
    for l in read_lines(os.path.join(d, "cases.txt")):
        f = l.split()
        if not f:
            continue
        if f[0] in ("F", "S", "D"):
            cur = {"k": int(f[1]), "hdr": f, "decs": [], "calls": [], "lines": [l]}
            out.append(cur)
        elif f[0] == "d":
            cur["decs"].append(f); cur["lines"].append(l)
        elif f[0] in ("c", "f"):
            cur["calls"].append(f); cur["lines"].append(l)
    for c in out:
        c["impl"] = impl.get(c["k"], [])
        c["model"] = model.get(c["k"], [])
    return out


def c07_monitor(case):
    """termination, UTF-8, width bounds; returns (what, signature) or None"""
    h = case["hdr"]
    for i, obs in enumerate(case["impl"]):
        if "HANG" in obs:
            zero = h[0] == "F" and (h[4] == "0" or h[5] == "0" or h[6] == "0")
            return ("drawing did not terminate: " + obs, "fill-nonterminating-zero-width-component" if zero else "fill-nonterminating")
        pr = parse_runs(obs)
        if pr is None:
            return ("unparsable observation " + obs, "fill-unparsable")
        runs, W, U = pr
        if U != 1:
            return ("row is not valid UTF-8: " + obs, "fill-invalid-utf8")
        if any(c == -1 for c, _ in runs):
            return ("row contains bytes of no component: " + obs, "fill-foreign-bytes")
        if i >= len(case["calls"]):
            continue
        call = case["calls"][i]
        if h[0] == "F":
            avail, req = int(call[1]), int(call[2])
            lbw, rbw = int(h[2]), int(h[3])
            allot = crw(req, avail)
            tips = [int(x) for x in h[9].split(",")]
            if allot - lbw - rbw < 0:
                if W != 0:
                    return ("bar body drawn although the brackets do not fit: " + obs, "fill-drawn-when-too-narrow")
            elif W != allot:
                inner = allot - lbw - rbw
                if max(tips) > inner and W > allot:
                    return ("bar body is %d wide, allotted %d (tip wider than the inner width): %s" % (W, allot, obs),
                            "fill-tip-wider-than-inner-width")
                return ("bar body is %d wide but was allotted %d: %s" % (W, allot, obs), "fill-width-not-exact")
        elif h[0] == "S":
            avail, req = int(call[1]), int(call[2])
            allot = crw(req, avail)
            if W not in (0, allot):
                return ("spinner is %d wide, allotted %d: %s" % (W, allot, obs), "spinner-width")
        else:
            tw = int(h[2])
            if W > tw:
                tipw = 0
                if h[5] == "B":
                    tipw = max(int(x) for x in h[13].split(","))
                sig = "row-overflow"
                return ("row is %d wide on a terminal of width %d: %s" % (W, tw, obs), sig)
    return None


def c08_monitor(case):
    h = case["hdr"]
    if h[0] != "F":
        return None
    lbw, rbw, fw, rw, pw = [int(x) for x in h[2:7]]
    tips = [int(x) for x in h[9].split(",")]
    prev = None
    for i, obs in enumerate(case["impl"]):
        pr = parse_runs(obs)
        if pr is None or i >= len(case["calls"]):
            continue
        runs, W, U = pr
        call = case["calls"][i]
        avail, req, total, cur, ref, comp = [int(x) for x in call[1:7]]
        inner = crw(req, avail) - lbw - rbw
        if inner <= 0 or fw <= 0 or (ref != 0 and rw <= 0):
            continue  # nothing to fill with: C07's business (termination), not proportionality
        filled = sum(w for c, w in runs if c in (2, 3) or 100 <= c < 1000)
        refilled = sum(w for c, w in runs if c == 2)
        want = exact_cells(total, cur, inner)
        tol = max([fw, rw] + tips)
        big = inner * max(cur, 0) >= (1 << 64)
        sig = "cells-product-overflow" if big else "cells"
        if (cur <= 0 or total <= 0) and filled != 0:
            return ("current<=0 or total<=0 but %d cells are filled: %s / %s" % (filled, " ".join(call), obs), sig + "-zero")
        if total > 0 and cur >= total and filled < inner - tol:
            return ("current reached total but only %d of %d cells are filled: %s / %s" % (filled, inner, " ".join(call), obs), sig + "-full")
        if abs(filled - want) > tol + (1 if (inner * max(cur, 1) > (1 << 53) or total > (1 << 53)) else 0):
            return ("filled %d cells, width*current/total rounds to %d (tolerance %d): %s / %s" % (filled, want, tol, " ".join(call), obs), sig + "-nearest")
        if refilled > filled:
            return ("refill segment %d exceeds filled segment %d: %s" % (refilled, filled, obs), "refill-exceeds")
        key = (avail, req, total)
        if prev and prev[0] == key and len(set(tips)) == 1 and ref == 0 and prev[3] == 0:
            if cur >= prev[1] and filled < prev[2] and not (comp and not int(h[7])):
                return ("filled cells went from %d to %d while current went from %d to %d: %s" % (prev[2], filled, prev[1], cur, obs), sig + "-monotone")
        prev = (key, cur, filled, ref)
    return None


def fill_check(ctx, monitor, n_quick, n_thorough, project, deps, kinds="FSD"):
    if not common_setup(ctx, deps):
        return
    found = False
    runs = []
    if ctx.replay:
        rp = json.load(open(ctx.replay))
        runs.append(ctx.run_family("fill", rp.get("n", 100), seed=rp.get("run_seed", ctx.seed)))
    elif ctx.tier == "quick":
        runs.append(ctx.run_family("fill", n_quick))
    else:
        for i in range(8):
            runs.append(ctx.run_family("fill", n_thorough // 8, seed=ctx.seed * 1000 + i))
    sigs = set()
    for run in runs:
        cases = fill_cases(run)
        if run["rc"] != 0:
            ctx.add_violation("implementation run failed: " + run["log"][-800:], "fill-run-failed",
                              {"family": "fill", "run_seed": run["seed"], "n": run["n"], "log": run["log"][-3000:]})
            found = True
        for c in cases:
            ctx.cov["evaluations"] += len(c["impl"])
            ctx.cov["traces_validated_against_impl"] += len(c["impl"])
            for o in c["impl"]:
                pr = parse_runs(o)
                if pr and len(pr[0]) >= 3:
                    ctx.distinct((c["hdr"][0], tuple(x for x, _ in pr[0]), pr[1]))
            if c["k"] < 3:
                ctx.sample({"case": c["lines"], "impl": c["impl"]})
            mon = monitor(c)
            if mon and mon[1] not in sigs:
                sigs.add(mon[1])
                ctx.add_violation(mon[0], mon[1], {"family": "fill", "run_seed": run["seed"], "n": run["n"], "k": c["k"],
                                                   "case": c["lines"], "impl": c["impl"], "model": c["model"]})
                found = True
        if not sigs:
            mism = [c for c in cases if c["hdr"][0] in kinds and
                    [project(x) for x in c["impl"]] != [project(x) for x in c["model"]]]
            for c in mism[:2]:
                ctx.add_violation("rendered output differs from the model (correspondence broken); no monitor fails on it",
                                  "fill-mismatch", {"family": "fill", "run_seed": run["seed"], "n": run["n"], "k": c["k"],
                                                    "case": c["lines"], "impl": c["impl"], "model": c["model"],
                                                    "theorem": "correspondence fill-family"}, found_input=False)
                found = True
    report_broken_obligations(ctx, found)


FILL_DEPS = {"Base.v", "BaseProofs.v", "F64.v", "Percent.v", "Filler.v", "Decor.v", "FillerProofs.v", "PercentProofs.v", "DecorProofs.v"}


def opt_check(ctx, kinds):
    """family opt: self-checking cases over the option layer (what a finished bar shows with the on-complete / on-abort filler
    options, filler middleware order, BarID, conditional option constructors, NopStyle, AddSpinner, MustAdd and its documented
    panic, WithWaitGroup); kinds = the case kinds this property owns"""
    if not ctx.harness:
        return
    if ctx.replay:
        rp = json.load(open(ctx.replay))
        if rp.get("family") != "opt":
            return
        runs = [ctx.run_family("opt", rp.get("n", 200), seed=rp.get("run_seed", ctx.seed), model=False)]
    elif ctx.tier == "quick":
        runs = [ctx.run_family("opt", 200, model=False)]
    else:
        runs = [ctx.run_family("opt", 3000, seed=ctx.seed * 1000 + i, model=False) for i in range(2)]
    seen = set()
    for run in runs:
        if run["rc"] != 0:
            ctx.add_violation("option-layer run failed (hang or panic): " + run["log"][-1500:], "opt-run-failed",
                              {"family": "opt", "run_seed": run["seed"], "n": run["n"]})
            continue
        cases = {}
        for l in read_lines(os.path.join(run["dir"], "cases.txt")):
            f = l.split()
            cases[int(f[1])] = l
        for l in read_lines(os.path.join(run["dir"], "impl.txt")):
            f = l.split(" ", 3)
            if f[1] not in kinds:
                continue
            ctx.cov["evaluations"] += 1
            if f[2] == "OK":
                ctx.cov["traces_validated_against_impl"] += 1
                ctx.distinct(("opt", cases.get(int(f[0]), "")))
            elif f[2] == "BAD":
                sig = "opt-" + f[1]
                if sig not in seen:
                    seen.add(sig)
                    ctx.add_violation("option layer: " + f[3], sig,
                                      {"family": "opt", "run_seed": run["seed"], "n": run["n"], "k": int(f[0]), "case": cases.get(int(f[0]))})


def dec_check(ctx, kind):
    """family dec: self-checking cases over the built-in decorators the fmt family does not reach (counters group, elapsed,
    average speed / ETA, spinner, name, conditional constructors, on-complete-or-on-abort); kind = "V" (printed value, C20)
    or "W" (reported width, C07)"""
    if not ctx.harness:
        return
    if ctx.replay:
        rp = json.load(open(ctx.replay))
        if rp.get("family") != "dec":
            return
        runs = [ctx.run_family("dec", rp.get("n", 1500), seed=rp.get("run_seed", ctx.seed), model=False)]
    elif ctx.tier == "quick":
        runs = [ctx.run_family("dec", 1500, model=False)]
    else:
        runs = [ctx.run_family("dec", 20000, seed=ctx.seed * 1000 + i, model=False) for i in range(4)]
    seen = set()
    for run in runs:
        if run["rc"] != 0:
            ctx.add_violation("decorator run failed (panic?): " + run["log"][-1500:], "dec-run-failed",
                              {"family": "dec", "run_seed": run["seed"], "n": run["n"]})
            continue
        cases = {}
        for l in read_lines(os.path.join(run["dir"], "cases.txt")):
            f = l.split()
            cases[int(f[1])] = l
        for l in read_lines(os.path.join(run["dir"], "impl.txt")):
            f = l.split(" ", 3)
            ctx.cov["evaluations"] += 1
            if f[2] == "OK":
                ctx.cov["traces_validated_against_impl"] += 1
                ctx.distinct(("dec", cases.get(int(f[0]), "")))
            elif f[2] == "BAD":
                for part in f[3].split(" ;; "):
                    if part.startswith(kind + " "):
                        sig = "dec-" + f[1] + "-" + kind
                        if sig not in seen:
                            seen.add(sig)
                            ctx.add_violation("built-in decorator: " + part[2:], sig,
                                              {"family": "dec", "run_seed": run["seed"], "n": run["n"], "k": int(f[0]),
                                               "case": cases.get(int(f[0]))})


@check
def check_C07(ctx):
    ctx.cov["rule"] = ("F = direct BarFiller.Fill calls (styles from ASCII / wide / multi-rune / empty / zero-width components, 1-3 tip "
                       "frames, reverse, tip-on-complete; widths 0..2200; int64 boundary progress values); S = spinner fillers; "
                       "D = whole rows of a manually refreshed container of width 1..70 with 0-4 decorators (W, extra space, indent, "
                       "0-3 wrappers, ANSI colour, wide/combining/zero-width graphemes). evaluation = one Fill call / one frame; "
                       "non-trivial = at least 3 class runs; distinct = (kind, class sequence, measured width)")
    ctx.assumptions = ["display width is measured with go-runewidth on the ANSI-stripped row (RUNEWIDTH_EASTASIAN=0)",
                       "user decorators are assumed to report their true width (built-in ones are proved to)"]
    fill_check(ctx, c07_monitor, 2500, 200000, c07_project, FILL_DEPS | {"Props/C07.v"})
    dec_check(ctx, "W")
    # rows as a container emits them (bars clipped by the height, popped, promoted, re-prioritised in between)
    if ctx.harness and not (ctx.replay and json.load(open(ctx.replay)).get("family") != "frames"):
        sigs = set()
        for run in frames_runs(ctx, 120, 3000, fam="frames", model=False):
            if run.get("rc", 0) != 0 and not run.get("skipped") and "hang" in run.get("log", "") and "render-hang" not in sigs:
                # "rendering always terminates": a frame that never comes is this property's business too
                sigs.add("render-hang")
                last = None
                try:
                    tr = split_traces(os.path.join(run["dir"], "cases.txt"))
                    last = tr[-1] if tr else None
                except Exception:
                    pass
                rep = {"family": "frames", "run_seed": run["seed"], "n": run["n"]}
                if last is not None:
                    mk = re.search(r"case (\d+):", run["log"])
                    kk = int(mk.group(1)) if mk else last["k"]
                    rep["k"], rep["script"] = kk, full_script(run, kk, last["hdr"] + script_of(last) + ["end"])
                ctx.add_violation("a container scenario hung while rendering: " + run["log"].strip()[-300:], "render-hang", rep)
            for c in split_traces(os.path.join(run["dir"], "cases.txt")):
                ctx.cov["evaluations"] += 1
                mon = M.c07_frames_monitor(c, frames_of(c))
                if mon and mon[1] not in sigs:
                    sigs.add(mon[1])
                    ctx.add_violation(mon[0], mon[1], {"family": "frames", "run_seed": run["seed"], "n": run["n"], "k": c["k"],
                                                       "script": c["hdr"] + script_of(c) + ["end"]})


def c08_project(line):
    """C08 is about the cells inside the bar body"""
    pr = parse_runs(line)
    if pr is None:
        return line
    f = line.split()
    return " ".join(f[:2]) + " " + " ".join("%d:%d" % (c, w) for c, w in pr[0] if c in (2, 3, 4, 5) or 100 <= c < 1000)


def c07_project(line):
    """C07 is about widths, cuts and termination: the split of the bar body into
    filler / refiller / tip / padding cells is C08's business, so those classes
    are merged into one 'body' run"""
    pr = parse_runs(line)
    if pr is None:
        return line
    f = line.split()
    runs = []
    for c, w in pr[0]:
        c2 = 9 if (c in (2, 3, 4, 5) or 100 <= c < 1000) else c
        if runs and runs[-1][0] == c2:
            runs[-1][1] += w
        else:
            runs.append([c2, w])
    return " ".join(f[:2]) + " " + " ".join("%d:%d" % (c, w) for c, w in runs) + " W %d U %d" % (pr[1], pr[2])


@check
def check_C08(ctx):
    ctx.cov["rule"] = ("same generator as C07; the monitor classifies cells by rune and compares the filled part with "
                       "width*current/total computed exactly; evaluation = one Fill call; non-trivial = at least 3 class runs")
    ctx.assumptions = ["'to within one rune': tolerance = widest of filler, refiller, tip frames",
                       "math.Round on the float64 quotient may differ from exact rounding by one cell only when width*current > 2^53"]
    fill_check(ctx, c08_monitor, 2500, 200000, c08_project, FILL_DEPS | {"Props/C08.v"}, kinds="F")


# ---------------------------------------------------------------- frames family (container level)
def split_traces(path):
    """cases.txt of the frames family -> list of dicts(k, header lines, script lines, trace lines)"""
    out, cur = [], None
    for l in read_lines(path):
        if l.startswith("case "):
            cur = {"k": int(l.split()[1]), "hdr": [l], "trace": [], "cfg": l.split()}
            out.append(cur)
        elif cur is None:
            continue
        elif l.startswith("bar "):
            cur["hdr"].append(l)
        elif l.startswith("t "):
            cur["trace"].append(l)
    return out


def full_script(run, k, fallback):
    """the complete script of scenario k as the harness wrote it before running it (scripts.txt); a scenario that hung or
    panicked has only the steps it got through in its trace"""
    try:
        cur, keep = [], False
        for l in read_lines(os.path.join(run["dir"], "scripts.txt")):
            if l.startswith("case "):
                cur, keep = [l], int(l.split()[1]) == k
            elif keep:
                cur.append(l)
                if l == "end":
                    return cur
    except Exception:
        pass
    return fallback


def script_of(case):
    """reconstruct the script (s lines) of a scenario from the client events of its trace"""
    s = []
    for l in case["trace"]:
        f = l.split()
        k = f[2]
        if k == "CL_ADD":
            s.append("s add %s" % f[3][1:])
        elif k == "CL_OP":
            op = {"Incr": "incr", "SetTotal": "settotal", "Abort": "abort"}[f[4]]
            s.append("s %s %s %s" % (op, f[3][1:], " ".join(f[5:])))
        elif k == "CL_PRIO":
            s.append("s prio %s %s %s" % (f[3][1:], f[4], f[5]))
        elif k == "CL_WRITE":
            s.append("s write %s %s" % (f[3], f[5]))
        elif k == "CL_TICK":
            s.append("s tick")
        elif k == "CL_DELAYEND":
            s.append("s delayend")
        elif k == "CL_CANCEL":
            s.append("s cancel")
        elif k == "RET_SHUTDOWN" and s and s[-1] == "s cancel":
            s[-1] = "s shutdown"
        elif k == "CL_HOLD":
            s.append("s hold %s" % f[3][1:])
        elif k == "CL_RELEASE":
            s.append("s release %s" % f[3][1:])
        elif k == "CL_WAIT":
            s.append("s wait")
    return s


def shrink_frames(ctx, fam, script, signature, monitor, relevant_kinds, budget=24, seconds=90):
    """greedy minimisation of a failing scenario: drop one step at a time (never the header, bar lines, adds or the
    final wait) while a re-run still fails with the same signature.  Scheduling-dependent failures may not shrink."""
    t0 = time.time()
    cur = list(script)

    def fails(lines):
        sc = write_script(ctx, "shrink.txt", lines)
        run = ctx.run_family(fam, 0, extra=sc, tag=".shrink%d" % int((time.time() - t0) * 1000), model=True, model_family="frames",
                             env={"MPBH_HANG_MS": "4000"}, expected_to_fail=True)
        if run["rc"] != 0:
            m = re.search(r"hang: ([\w-]+)", run["log"])
            got = "panic" if ("panic" in run["log"] or "fatal error" in run["log"]) else ("hang-" + m.group(1) if m else "frames-run-failed")
            return got == signature
        cases = split_traces(os.path.join(run["dir"], "cases.txt"))
        verd = frames_verdicts(run)
        for c in cases:
            mon = monitor(c, frames_of(c)) if monitor else None
            if mon and mon[1] == signature:
                return True
            v = verd.get(c["k"])
            if v and v[0] != "ACCEPT" and not mon:
                kind = reject_kind(v[1]) if v[0] == "REJECT" else v[0]
                if "trace-rejected-at-" + kind == signature:
                    return True
        return False

    changed = True
    while changed and budget > 0 and time.time() - t0 < seconds:
        changed = False
        for i in range(len(cur) - 1, 0, -1):
            l = cur[i]
            if not l.startswith("s ") or l.startswith("s add") or l.startswith("s wait") or budget <= 0 or time.time() - t0 > seconds:
                continue
            cand = cur[:i] + cur[i + 1:]
            budget -= 1
            if fails(cand):
                cur = cand
                changed = True
    return cur


def frames_of(case):
    """parsed OUT events: list of (seq, cuu, [items]) with items as tuples"""
    fr = []
    for l in case["trace"]:
        f = l.split()
        if f[2] != "OUT":
            continue
        cuu, items = 0, []
        for tok in f[3:]:
            if tok.startswith("cuu="):
                cuu = int(tok[4:])
            else:
                items.append(tuple(tok.split(":")))
        fr.append((int(f[1]), cuu, items))
    return fr


FOCUS = {"C18": "pop", "C17": "queue", "C12": "sync"}


def frames_runs(ctx, n_quick, n_thorough, fam="frames", model=True):
    runs = []
    fenv = {"MPBH_FOCUS": FOCUS[ctx.prop]} if ctx.prop in FOCUS else None
    for sc in corpus_scripts(ctx.prop, fam):
        for rep in range(3 if ctx.tier == "quick" else 10):
            runs.append(ctx.run_family(fam, 0, extra=sc, tag=".corpus%d." % rep + os.path.basename(sc), model=model, model_family="frames"))
    if ctx.replay:
        rp = json.load(open(ctx.replay))
        if "script" in rp:
            sc = write_script(ctx, "replay.txt", rp["script"])
            runs.append(ctx.run_family(fam, 0, extra=sc, tag=".replay", model=model, model_family="frames"))
            return runs
    if ctx.tier == "quick":
        runs.append(ctx.run_family(fam, n_quick, model=model, model_family="frames", env=fenv))
    else:
        for i in range(8):
            runs.append(ctx.run_family(fam, n_thorough // 8, seed=ctx.seed * 1000 + i, model=model, model_family="frames", env=fenv))
    return runs


def frames_verdicts(run):
    v = {}
    for l in read_lines(os.path.join(run["dir"], "model.txt")):
        f = l.split(" ", 2)
        v[int(f[0])] = (f[1], f[2] if len(f) > 2 else "")
    return v


def reject_kind(detail):
    m = re.search(r"sub=(\w+)", detail)
    if m:
        return m.group(1)
    m = re.search(r"line=\[t \d+ (\w+)((?: [^\]\s]+)*)", detail)
    if not m:
        return "?"
    kind = m.group(1)
    if kind == "HM_REQ":
        # the heap manager's request hook logs the command number (after the bar, for push and fix): name it as the model does
        f = m.group(2).split()
        cmd = (f[1] if f and f[0].startswith("b") and len(f) > 1 else (f[0] if f else ""))
        kind = {"0": "HM_SYNC", "1": "HM_PUSH", "2": "HM_ITERREQ", "3": "HM_FIX", "4": "HM_STATE", "5": "HM_END"}.get(cmd, "HM_REQ")
    return kind


def frames_check(ctx, relevant_kinds, monitor, n_quick, n_thorough, deps, nontrivial=lambda case, frames: len(frames) >= 2,
                 fams=None):
    """relevant_kinds: kinds of rejected event that concern this property; monitor(case, frames) ->
    (what, signature) or None is evaluated on the implementation's own trace.
    fams: list of (family, share of the case budget, replayed by the model?)"""
    if not common_setup(ctx, deps):
        return
    found = False
    sigs = set()
    allruns = []
    for fam, share, model in (fams or [("frames", 1.0, True)]):
        allruns += frames_runs(ctx, max(1, int(n_quick * share)), max(8, int(n_thorough * share)), fam=fam, model=model)
    for run in allruns:
        cases = split_traces(os.path.join(run["dir"], "cases.txt"))
        verdicts = frames_verdicts(run)
        # once per check: an independent reading of the trace lines, evaluated inside Coq, against the extracted model's verdicts
        if ctx.prop == "C05" and "frames_crosscheck" not in ctx.cov and run.get("n", 0) > 0 and not run.get("skipped"):
            import crosscheck
            try:
                ncmp, bad = crosscheck.frames_crosscheck(ctx, run, verdicts, 25 if ctx.tier == "quick" else 150)
            except Exception as e:
                ncmp, bad = 0, ["cross-check failed: %r" % e]
            ctx.cov["frames_crosscheck"] = {"cases_evaluated_in_coq": ncmp, "disagreements": len(bad)}
            if bad:
                ctx.note("trace cross-check: " + "; ".join(bad[:3]))
                ctx.internal_error = True
        if run["rc"] != 0:
            what = "implementation run failed (panic, hang or livelock): " + run["log"][-1500:]
            sig = "frames-run-failed"
            m = re.search(r"hang: ([\w-]+)", run["log"])
            if "panic" in run["log"] or "fatal error" in run["log"]:
                sig = "panic"
            elif m:
                sig = "hang-" + m.group(1)
            last = cases[-1] if cases else {"hdr": [], "trace": []}
            if sig not in sigs:
                sigs.add(sig)
                mk = re.search(r"case (\d+):", run["log"])
                kk = int(mk.group(1)) if mk else last.get("k", -1)
                extra = {}
                try:   # a hang leaves the goroutine stacks and the trace so far: keep them with the replay
                    sp = os.path.join(run["dir"], "hang_%d.stacks" % kk)
                    if os.path.exists(sp):
                        stacks = open(sp, errors="replace").read().split("\n\n")
                        extra["library_goroutines_at_hang"] = [g for g in stacks if "vbauerster/mpb" in g][:40]
                    extra["trace_tail_at_hang"] = last["trace"][-120:]
                except Exception as e:
                    extra["hang_details_error"] = repr(e)
                ctx.add_violation(what, sig, dict({"family": "frames", "run_seed": run["seed"], "n": run["n"],
                                                   "script": full_script(run, kk, last["hdr"] + script_of(last) + ["end"]),
                                                   "log": run["log"][-4000:]}, **extra))
            found = True
        for c in cases:
            fr = frames_of(c)
            ctx.cov["evaluations"] += 1
            if c["k"] in verdicts and verdicts[c["k"]][0] == "ACCEPT":
                ctx.cov["traces_validated_against_impl"] += 1
            if nontrivial(c, fr):
                ctx.distinct((tuple(c["cfg"][2:]), tuple(script_of(c))))
            if c["k"] < 1 and run["n"] > 0:
                ctx.sample({"scenario": c["hdr"] + script_of(c), "frames": [" ".join(":".join(i) for i in f[2]) for f in fr][:6]})
            # a livelocked run logs hundreds of thousands of events: it is reported as such (run failed); the monitors,
            # written for scenario-sized traces, are not run on it
            mon = monitor(c, fr) if monitor and len(c["trace"]) <= 30000 else None
            if mon and mon[1] not in sigs:
                sigs.add(mon[1])
                full = c["hdr"] + script_of(c) + ["end"]
                small = full
                known_sig = any(k.get("property") == ctx.prop and k.get("signature") == mon[1] for k in ctx.known.get("open", []))
                if not ctx.replay and len(sigs) <= 2 and not known_sig:   # a recorded finding has its witness already
                    try:
                        small = shrink_frames(ctx, run["family"], full, mon[1], monitor, relevant_kinds)
                    except Exception as e:  # shrinking is a convenience: never let it hide the violation
                        ctx.note("shrink failed: %r" % e)
                ctx.add_violation(mon[0], mon[1], {"family": "frames", "run_seed": run["seed"], "n": run["n"], "k": c["k"],
                                                   "script": small, "script_before_shrinking": full if small != full else None,
                                                   "trace_tail": c["trace"][-60:]})
                found = True
            v = verdicts.get(c["k"])
            if v and v[0] != "ACCEPT" and not mon:
                kind = reject_kind(v[1]) if v[0] == "REJECT" else v[0]
                if kind in relevant_kinds or v[0] in ("HANG", "LATEBAD"):
                    sig = "trace-rejected-at-" + kind
                    if sig not in sigs:
                        sigs.add(sig)
                        ctx.add_violation("the implementation's event trace is not accepted by the model (correspondence broken) and "
                                          "no monitor of this property fails on it: " + v[1][:600], sig,
                                          {"family": "frames", "run_seed": run["seed"], "n": run["n"], "k": c["k"],
                                           "script": c["hdr"] + script_of(c) + ["end"], "model": v[1],
                                           "theorem": "correspondence frames-family (Container.step accepts the trace)"},
                                          found_input=False)
                    found = True
    report_broken_obligations(ctx, found)


CONT_DEPS = {"Base.v", "BaseProofs.v", "BarState.v", "BarStateProofs.v", "Container.v", "ContainerProofs.v"}
COVER_DEPS = {"ContainerLife.v", "ContainerProgress.v", "ContainerMatrix.v", "ContainerFlush.v", "ContainerCover.v"}


def c05_monitor(case, frames):
    """every displayed bar exactly once per frame; never vanishes and comes back"""
    clipped = M.any_clipped(case)
    seen_before = set()
    absent_since = {}
    for seq, cuu, items in frames:
        ids = [int(i[1]) for i in items if i[0] == "r"]
        if len(set(ids)) != len(ids):
            return ("a bar appears twice in the frame written at event %d: %s" % (seq, ids), "bar-twice-in-frame")
        if clipped:
            continue   # rows that do not fit the height are clipped: presence is not required (DESIGN 7a)
        for b in ids:
            if b in absent_since:
                return ("bar %d was absent from the frame at event %d and is back at event %d" % (b, absent_since[b], seq),
                        "bar-vanishes-and-returns")
        for b in seen_before:
            if b not in ids and b not in absent_since:
                absent_since[b] = seq
        seen_before |= set(ids)
    # a bar whose Add returned before a cycle began and that is not queued must be in that cycle's frame
    # (queued = parked behind a bar that has not handed over yet; a bar queued after a bar whose second terminal frame has
    # already been flushed is pushed at once and must be in the next frame like any other bar)
    add_ret, queued, handed = {}, set(), set()
    ho5 = dict((seq, b) for seq, b, ci in M.handovers(case))
    cyc_begin = None
    for l in case["trace"]:
        f = l.split()
        if f[2] == "CT_ADD" and f[4] != "after=-1":
            pre = int(f[4][7:]) if f[4].startswith("after=b") else int(f[4][6:])
            if pre not in handed:
                queued.add(int(f[3][1:]))
        elif f[2] == "CT_FLUSHBAR" and int(f[1]) in ho5:
            handed.add(ho5[int(f[1])])
        elif f[2] == "RET_ADD" and f[4] == "1":
            add_ret[int(f[3][1:])] = int(f[1])
        elif f[2] == "CT_RENDERBEGIN":
            cyc_begin = int(f[1])
        elif f[2] == "OUT" and cyc_begin is not None and not clipped:
            ids = set(int(t.split(":")[1]) for t in f[3:] if t.startswith("r:"))
            for b, s_ret in add_ret.items():
                if s_ret < cyc_begin and b not in queued and b not in seen_gone(case, b, cyc_begin) and b not in ids:
                    return ("bar %d was added (event %d) before the cycle at event %d began but is not in its frame" % (b, s_ret, cyc_begin),
                            "added-bar-missing-from-frame")
    # the list handed to the shutdown notifier is the set of bars still in the container: every bar that was added, minus the bars
    # that left legitimately (failed frame, replaced by a queued bar or removed on completion, popped out) and the bars still parked
    # behind a bar that never handed over
    for l in case["trace"]:
        f = l.split()
        if f[2] != "NOTIFY":
            continue
        listed = sorted(int(x) for x in (f[3].split(",") if len(f) > 3 and f[3] else []))
        upto = int(f[1])
        want = sorted(b for b in add_ret if b not in queued_still(case) and not left_container(case, b, upto))
        if len(set(listed)) != len(listed):
            return ("the shutdown notifier lists a bar twice: %s" % listed, "notifier-list")
        if listed != want:
            return ("the shutdown notifier lists bars %s, the bars still in the container are %s" % (listed, want), "notifier-list")
    return None


def left_container(case, b, upto):
    """bar b was not pushed back by flush before event upto: its frame failed, or it handed over to parked bars / was removed on
    completion (flush with shutdown 1), or it was popped out (shutdown 2 in pop mode without no-pop); in the rest of a cycle in which
    another bar's frame failed every bar goes back untouched"""
    pop = case["cfg"][5] == "1"
    parked_behind = set()
    cycle_failed = False
    for l in case["trace"]:
        f = l.split()
        if int(f[1]) >= upto:
            break
        if f[2] == "CT_RENDERBEGIN":
            cycle_failed = False
        elif f[2] == "CT_ADD" and f[4] != "after=-1":
            parked_behind.add(int(f[4][7:]) if f[4].startswith("after=b") else int(f[4][6:]))
        elif f[2] == "CT_FLUSHBAR":
            x, sh, rm, np, err = int(f[3][1:]), int(f[4]), f[6] == "1", f[7] == "1", (len(f) > 8 and f[8] == "1")
            if cycle_failed:
                continue
            if err:
                cycle_failed = True
                if x == b:
                    return True
                continue
            if x != b:
                continue
            if sh == 1 and (b in parked_behind or (rm and not (pop and not np))):
                return True
            if sh == 2 and pop and not np:
                return True
    return False


def queued_still(case):
    """bars parked behind a predecessor that never handed over (they never entered the heap)"""
    ho = dict((seq, b) for seq, b, ci in M.handovers(case))
    parked, handed = {}, set()
    for l in case["trace"]:
        f = l.split()
        if f[2] == "CT_ADD" and f[4] != "after=-1":
            pre = int(f[4][7:]) if f[4].startswith("after=b") else int(f[4][6:])
            if pre not in handed:
                parked[int(f[3][1:])] = pre
        elif f[2] == "CT_FLUSHBAR" and int(f[1]) in ho:
            handed.add(ho[int(f[1])])
    return set(b for b, pre in parked.items() if pre not in handed)


def seen_gone(case, b, upto):
    """{b} if the trace shows bar b leaving the display legitimately before event upto: its frame failed, it was
    replaced by a queued successor or removed on completion (flush with shutdown 1), or popped out (shutdown 2 in
    pop mode without no-pop)"""
    pop = case["cfg"][5] == "1"
    has_succ = set()
    for l in case["trace"]:
        f = l.split()
        if int(f[1]) >= upto:
            break
        if f[2] == "CT_ADD" and f[4] != "after=-1":
            has_succ.add(int(f[4][7:]) if f[4].startswith("after=b") else int(f[4][6:]))
        if f[2] == "CT_FLUSHBAR" and int(f[3][1:]) == b:
            sh, rm, np, err = int(f[4]), f[6] == "1", f[7] == "1", (len(f) > 8 and f[8] == "1")
            if err:
                return {b}
            if sh == 1 and (b in has_succ or (rm and not (pop and not np))):
                return {b}
            if sh == 2 and pop and not np:
                return {b}
            if sh >= 1 and case["cfg"][8] != "-":
                return {b}     # fault-injected scenarios: the container is shutting down
    return set()


@check
def check_C05(ctx):
    ctx.cov["rule"] = ("scenario = seeded script for a sequential client (adds, increments, completions, aborts with/without drop, "
                       "priority changes, writes, ticks, delay, cancel) on a container with 1-5 (thorough 1-12) bars, queue length "
                       "below/at/above the bar count, pop mode, removal, queued bars, extender rows, width-synchronised markers; "
                       "non-trivial = at least 2 frames; distinct = (configuration, script)")
    ctx.assumptions = ["height clipping: when the rows do not fit, the bottom-most are drawn (C05 is stated for frames that fit); on an "
                       "output that is not a terminal the width stands in for the height (GenTerm.nonterminal_height_is_the_width)",
                       "queued bars: any number per predecessor, created before or after the predecessor's hand-over"]
    frames_check(ctx, {"CT_FLUSHBAR", "HM_PUSH", "HM_POP", "OUT_ROWS", "OUT_UNEXPECTED", "CT_FRAME", "NOTIFY", "HM_SYNC",
                       "HM_ITERREQ", "CT_ADD", "HM_STATE", "HM_END"},
                 c05_monitor, 150, 4000, CONT_DEPS | COVER_DEPS | {"GenConst.v", "GenTerm.v", "gen/GenApi.v", "Props/C05.v"},
                 fams=[("frames", 0.7, True), ("faults", 0.3, True)])   # the notifier's list is owed on the error path too
    ctx.cov["rule"] += ("; opt family (manybars): 68-139 one-row bars on a non-terminal output of width 0 (default 80) or 81-140, fewer bars "
                        "than columns: every frame shows every bar once")
    opt_check(ctx, {"manybars"})


import monitors as M

FRAME_RULE = ("scenario = seeded script for a sequential client (adds, increments, completions, aborts with/without drop, "
              "priority changes, writes, ticks, delay, cancel) on a container with 1-5 (thorough 1-12) bars, queue length "
              "below/at/above the bar count, auto (injected ticks) or manual refresh, pop mode, removal, queued bars, extender "
              "rows, width-synchronised markers; every hook event, client call/return and output write is logged and replayed "
              "by Container.step; non-trivial = at least 2 frames; distinct = (configuration, script)")


@check
def check_C06(ctx):
    ctx.cov["rule"] = FRAME_RULE
    ctx.assumptions = ["order among equal priorities is unspecified (container/heap): the monitor checks non-increasing pop priorities",
                       "the frame after a lazy change is unspecified"]
    ctx.cov["rule"] += ("; pq family: random pushes / pops / immediate and lazy fixes on the heap manager's priority queue, slice order "
                        "and index fields compared with the model after every operation (priorities from a small range: many ties)")
    frames_check(ctx, {"HM_POP", "HM_FIX", "CT_ADD", "OUT_ORDER", "CT_FLUSHBAR"}, M.c06_monitor, 200, 6000,
                 CONT_DEPS | PQ_DEPS | {"Props/C06.v"})
    if ctx.harness:
        pq_check(ctx, set())


@check
def check_C17(ctx):
    ctx.cov["rule"] = FRAME_RULE + "; scenarios with queued bars only count as non-trivial"
    ctx.assumptions = ["successors are created at any point of the script, before or after the predecessor's hand-over, any number "
                       "per predecessor, chains included; the former D7 witnesses (late successor, second successor) and four "
                       "directed variants run first from corpus/C17"]
    frames_check(ctx, {"CT_FLUSHBAR", "HM_PUSH", "OUT_ROWS", "CT_ADD", "HM_POP"}, M.c17_monitor, 300, 6000, CONT_DEPS | COVER_DEPS | {"ContainerFlush.v", "Props/C17.v"},
                 nontrivial=lambda case, frames: any("after=" in l and "after=-1" not in l for l in case["trace"]) and len(frames) >= 2)


@check
def check_C18(ctx):
    ctx.cov["rule"] = FRAME_RULE + "; pop-mode scenarios with at least one popped bar count as non-trivial"
    ctx.assumptions = ["user priorities above MinInt32 + number of bars",
                       "the screen replay is for frames whose rows fit the height (non-terminal output: height = width); in cycles that "
                       "do not fit, one pattern is decided: a bar popped out must be in the frame (D10, repaired in /repo)"]
    frames_check(ctx, {"CT_FLUSHBAR", "CT_FRAME", "OUT_ROWS", "OUT_CUU", "OUT_ORDER", "HM_PUSH", "HM_POP"}, M.c18_monitor, 300, 6000,
                 CONT_DEPS | {"ContainerFlush.v", "ContainerOut.v", "Term.v", "Props/C18.v"},
                 nontrivial=lambda case, frames: case["cfg"][5] == "1" and any(" CT_FLUSHBAR " in l and l.split()[4] == "2" for l in case["trace"]))


@check
def check_C03(ctx):
    ctx.cov["rule"] = FRAME_RULE
    ctx.assumptions = ["refreshing container = auto refresh; in manual mode only 'no output after Wait' is checked (the library "
                       "renders only when asked)"]
    frames_check(ctx, {"OUT_CONTENT", "OUT_ROWS", "BAR_RENDER", "BAR_OP", "FINAL", "CT_FLUSHBAR", "HM_STATE", "HM_END", "CT_EXIT", "OUT_UNEXPECTED", "RET_GET"},
                 M.c03_monitor, 200, 6000, CONT_DEPS | {"ContainerLife.v", "ContainerFlush.v", "Props/C03.v"})
    ctx.cov["rule"] += ("; opt family: what a finished bar shows with the on-complete / on-abort filler options (messages, clear), "
                        "filler middleware order, BarID, conditional bar and container option constructors, NopStyle, AddSpinner; containers of "
                        "30-80 bars whose parent context is cancelled: no bar running in the last frame")
    opt_check(ctx, {"final", "middleware", "conditional", "spinner", "cancelmany"})


@check
def check_C13(ctx):
    ctx.cov["rule"] = FRAME_RULE + "; scenarios with at least one accepted Write count as non-trivial"
    ctx.assumptions = ["text = whole newline-terminated lines", "writes accepted while a render delay is pending are outside the property"]
    frames_check(ctx, {"CT_IO", "OUT_TEXT", "OUT_UNEXPECTED", "CT_FRAME"}, M.c13_monitor, 300, 6000, CONT_DEPS | {"ContainerLife.v", "ContainerFlush.v", "ContainerOut.v", "Term.v", "Props/C13.v"},
                 nontrivial=lambda case, frames: any(" RET_WRITE " in l for l in case["trace"]))
    ctx.cov["rule"] += ("; opt family (textonly): 1-4 lines written through an auto-refreshing container that never had a bar, then "
                        "Wait / Shutdown / cancel: the output holds exactly those lines")
    opt_check(ctx, {"textonly"})


@check
def check_C04(ctx):
    ctx.cov["rule"] = FRAME_RULE + ("; pty family: the container writes to a pseudo terminal of 4-11 rows x 40-79 columns with fewer, one fewer, "
                                    "exactly as many and more bar row groups than rows (extender rows, pop mode, text lines; every third case: the "
                                    "window is resized between the creation of the container and its first frame), and the bytes are replayed "
                                    "on a terminal of that size with scrollback, 'cursor up 0' executed as 'cursor up 1'")
    ctx.assumptions = ["non-terminal output: the library assumes height = width", "the pty replay interprets CR LF, ESC[nA and ESC[J only "
                       "(the only controls the library emits); lines never wrap because C07/C09 bound their width"]
    frames_check(ctx, {"OUT_CUU", "CT_FRAME", "OUT_ROWS", "OUT_UNEXPECTED", "CT_DELAYEND", "OUT_TEXT"}, M.c04_monitor, 200, 6000,
                 CONT_DEPS | {"ContainerFlush.v", "ContainerOut.v", "Term.v", "Vt.v", "VtProofs.v", "GenTerm.v", "gen/GenApi.v", "Props/C04.v"})
    if ctx.harness:
        pty_check(ctx)
        # each frame fits in columns (spinner fillers with frames of unequal width); a container that was not asked to refresh draws
        # nothing on an output that is not a terminal
        opt_check(ctx, {"spinner", "norefresh"})


def pty_check(ctx):
    import ast
    runs = []
    if ctx.replay:
        rp = json.load(open(ctx.replay))
        if rp.get("family") != "pty":
            return
        sc = write_script(ctx, "replay_pty.txt", rp["case"])
        runs.append(ctx.run_family("pty", 0, extra=sc, tag=".replay"))
    elif ctx.tier == "quick":
        runs.append(ctx.run_family("pty", 60))
    else:
        for i in range(4):
            runs.append(ctx.run_family("pty", 400, seed=ctx.seed * 1000 + i))
    sigs = set()
    for run in runs:
        if run["rc"] != 0:
            ctx.add_violation("pty run failed: " + run["log"][-1200:], "pty-run-failed", {"family": "pty", "run_seed": run["seed"], "n": run["n"]})
            continue
        cur = None
        cases = []
        for l in read_lines(os.path.join(run["dir"], "cases.txt")):
            if l.startswith("case "):
                cur = {"hdr": l.split(), "line": l, "marks": [], "data": None}
                cases.append(cur)
            elif cur is None:
                continue
            elif l.startswith("mark "):
                f = l.split(" ", 2)
                cur["marks"].append((int(f[1]), f[2]))
            elif l.startswith("bytes "):
                cur["data"] = ast.literal_eval(l[6:])
            elif l.startswith("NOPTY"):
                ctx.note("no pseudo terminal available: " + l)
        # the same bytes read by the extracted, proved reader (Vt.lex / Vt.tok_step): lines left on the terminal
        coq_screen = {}
        for l in read_lines(os.path.join(run["dir"], "model.txt")):
            f = l.split(" ", 2)
            k = int(f[0])
            coq_screen.setdefault(k, {"lines": [], "status": "ok"})
            if f[1] in ("L", "B"):
                coq_screen[k]["lines"].append("".join(chr(int(x)) for x in f[2].split(",")) if len(f) > 2 and f[2] else "")
            elif f[1] in ("OUTSIDE", "PARTIAL"):
                coq_screen[k]["status"] = f[1]
        for c in cases:
            if c["data"] is None:
                continue
            ctx.cov["evaluations"] += 1
            ctx.distinct(("pty",) + tuple(c["hdr"][2:]))
            k = int(c["hdr"][1])
            cs = coq_screen.get(k)
            if cs is not None:
                ctx.cov["traces_validated_against_impl"] += 1
                if cs["status"] != "ok" and "pty-bytes-outside-fragment" not in sigs:
                    sigs.add("pty-bytes-outside-fragment")
                    ctx.add_violation("the bytes written to the terminal are not whole lines, CSI n A and CSI J only (%s): %r"
                                      % (cs["status"], c["data"][:300]), "pty-bytes-outside-fragment",
                                      {"family": "pty", "run_seed": run["seed"], "n": run["n"], "case": [c["line"]]})
                sc_, win_ = M.pty_replay(c["data"], int(c["hdr"][2]))
                py = [x for x in sc_ + win_]
                while py and py[-1] == "":
                    py.pop()
                if cs["status"] == "ok" and py != cs["lines"]:
                    ctx.note("the Python terminal replay and the extracted reader disagree on case %d" % k)
                    ctx.internal_error = True
            # frame boundaries: after every cursor-up sequence's frame, i.e. before each ESC[ and at the end
            cuts = [m.start() for m in re.finditer("\x1b\\[", c["data"])] + [None]
            mon = M.c04_pty_monitor(c["hdr"], [(o, "frame %d" % i) for i, o in enumerate(cuts)], c["data"])
            if mon and mon[1] not in sigs:
                sigs.add(mon[1])
                ctx.add_violation(mon[0], mon[1], {"family": "pty", "run_seed": run["seed"], "n": run["n"], "case": [c["line"]],
                                                   "bytes": c["data"][:3000]})
ALLFAMS = [("frames", 0.4, True), ("sched", 0.3, True), ("faults", 0.3, True)]


@check
def check_C14(ctx):
    ctx.cov["rule"] = FRAME_RULE + "; cancel / Shutdown placed by the script at any step; shutdown listeners wrapped 0-4 deep on both sides"
    ctx.assumptions = ["cancellation placement is explored by the scripted position plus scheduling perturbation at the hook points"]
    frames_check(ctx, {"BAR_EXIT", "BAR_OP", "FINAL", "NOTIFY", "HM_END", "CT_DONE", "CT_EXIT"}, M.c14_monitor, 300, 8000,
                 CONT_DEPS | {"ContainerLife.v", "Listen.v", "Props/C14.v"}, fams=[("frames", 0.5, True), ("sched", 0.5, True)])


@check
def check_C15(ctx):
    ctx.cov["rule"] = ("scenarios of the frames family with one injected fault: k-th Fill of a bar, k-th extender call, k-th Write of "
                       "the output (k = 1..4), half of them under scheduling perturbation; non-trivial = the fault fired")
    ctx.assumptions = ["terminal-size query faults need a pty and are exercised by the pty sweep (thorough tier)"]
    frames_check(ctx, {"CT_FLUSHBAR", "CT_RENDERERR", "BAR_DRAWERR", "CT_RENDERBEGIN", "CT_FRAME", "OUT_UNEXPECTED", "HM_PUSH", "CT_EXIT", "BAR_EXIT"},
                 M.c15_monitor, 200, 6000, CONT_DEPS | {"ContainerLife.v", "Sync.v", "SyncProofs.v", "Props/C15.v"},
                 nontrivial=lambda case, frames: any(" FAULT " in l or " OUTERR " in l for l in case["trace"]),
                 fams=[("faults", 1.0, True)])


@check
def check_C16(ctx):
    ctx.cov["rule"] = FRAME_RULE + "; after every scenario (normal, cancel, render error, pop, queued, n>q, perturbed) the worker waits up to 1 s and lists goroutines with a library frame"
    ctx.assumptions = ["leak = goroutine with a frame of github.com/vbauerster/mpb/v8 still alive after the settle period"]
    frames_check(ctx, set(), M.c16_monitor, 300, 8000, CONT_DEPS | {"ContainerLife.v", "GenChecks.v", "gen/GenApi.v", "Props/C16.v"}, fams=ALLFAMS)


@check
def check_C12(ctx):
    ctx.cov["rule"] = FRAME_RULE + ("; bars carry 0-3 synchronised decorators per side (minimum widths, extra space, indent, "
                                    "wrapped in on-complete / on-abort / meta wrappers, text width varying with progress); "
                                    "non-trivial = a cycle with a column of at least two bars")
    ctx.assumptions = ["one decorator instance per bar (documented usage)"]
    frames_check(ctx, {"HM_SYNC", "HM_PUSH"}, M.c12_monitor, 300, 8000,
                 {"Base.v", "Sync.v", "SyncProofs.v", "Decor.v", "DecorProofs.v", "Container.v", "ContainerProofs.v", "ContainerLife.v",
                  "ContainerProgress.v", "ContainerMatrix.v", "Props/C12.v"},
                 nontrivial=lambda case, frames: any(" DIST_COLLECTED " in l and l.count(",") >= 2 for l in case["trace"]),
                 fams=[("frames", 0.5, True), ("sched", 0.5, True)])


# ---------------------------------------------------------------- line-diff families (proxy, fmt)
def diff_check(ctx, fam, n_quick, n_thorough, deps, monitor=None, classify=None):
    if not common_setup(ctx, deps):
        return
    found = False
    runs = []
    if ctx.tier == "quick":
        runs.append(ctx.run_family(fam, n_quick))
    else:
        for i in range(8):
            runs.append(ctx.run_family(fam, n_thorough // 8, seed=ctx.seed * 1000 + i))
    sigs = set()
    for run in runs:
        if run["rc"] != 0:
            ctx.add_violation("implementation run failed (panic or hang): " + run["log"][-1200:], fam + "-run-failed",
                              {"family": fam, "run_seed": run["seed"], "n": run["n"], "log": run["log"][-3000:]})
            found = True
            continue
        d = run["dir"]
        impl = group_obs(read_lines(os.path.join(d, "impl.txt")))
        model = group_obs(read_lines(os.path.join(d, "model.txt")))
        cases = {}
        cur = None
        for l in read_lines(os.path.join(d, "cases.txt")):
            f = l.split()
            if f and f[0] in ("P", "Z", "Q", "T", "V", "E"):
                cur = int(f[1]); cases[cur] = [l]
            elif cur is not None:
                cases[cur].append(l)
        for k in sorted(cases):
            ctx.cov["evaluations"] += 1
            ctx.cov["traces_validated_against_impl"] += 1
            ctx.distinct(tuple(cases[k][0].split()[:1] + cases[k][0].split()[2:]))
            if k < 3:
                ctx.sample({"case": cases[k], "impl": impl.get(k, [])})
            mon = monitor(cases[k], impl.get(k, [])) if monitor else None
            if mon and mon[1] not in sigs:
                sigs.add(mon[1])
                ctx.add_violation(mon[0], mon[1], {"family": fam, "run_seed": run["seed"], "n": run["n"], "k": k,
                                                   "case": cases[k], "impl": impl.get(k), "model": model.get(k)})
                found = True
            elif impl.get(k, []) != model.get(k, []):
                sig = fam + "-mismatch" + ("-" + classify(cases[k]) if classify else "")
                if sig not in sigs:
                    sigs.add(sig)
                    ctx.add_violation("implementation and model disagree: impl %s / model %s" % (impl.get(k), model.get(k)), sig,
                                      {"family": fam, "run_seed": run["seed"], "n": run["n"], "k": k, "case": cases[k],
                                       "impl": impl.get(k), "model": model.get(k)})
                found = True
    report_broken_obligations(ctx, found)


def c19_monitor(case, obs):
    """transparency and accounting, independent of the model"""
    hdr = case[0].split()
    is_reader, has_close, has_fast, ewma, total = hdr[2] == "1", hdr[3] == "1", hdr[4] == "1", int(hdr[5]), int(hdr[6])
    calls = [l.split() for l in case[1:] if l.startswith("c ")]
    rows = [l.split() for l in obs]
    if not rows:
        return None
    if rows[0][2] == "offers" and (rows[0][3] == "1") != has_fast:
        return ("proxy offers the fast path: %s, wrapped value has it: %s" % (rows[0][3], has_fast), "fast-path-mismatch")
    cur = 0
    capped = total > 0
    for c, r in zip(calls, rows[1:]):
        if "REFUSED" in r or "NEGDUR" in r:
            return ("bad observation %s" % r, "proxy-bad-observation")
        n, err, fwd, bcur, data = int(r[2]), int(r[3]), r[4] == "1", int(r[5]), r[6] == "1"
        if c[1] == "T":
            wn, werr = int(c[3]), int(c[4])
            if (n, err) != (wn, werr) or not fwd:
                return ("transfer returned (%d, err %d), the wrapped value returned (%d, err %d)" % (n, err, wn, werr), "not-transparent")
            if not data:
                return ("data was altered in transit", "data-altered")
            cur = cur + wn
            if capped and cur >= total:
                cur = total
            if bcur != cur:
                return ("bar is at %d after transfers that sum (capped) to %d" % (bcur, cur), "bytes-not-accounted")
            smp = [int(r[i + 1]) for i in range(len(r) - 1) if r[i] == "S"]
            if ewma >= 0 and not (capped and False) and smp != [wn] and not (capped and bcur == total and smp == []):
                return ("moving-average decorators received %s for a transfer of %d bytes" % (smp, wn), "sample-missing")
        else:
            werr = int(c[2])
            if fwd != has_close or (has_close and err != werr) or (not has_close and err != 0):
                return ("Close: forwarded=%s err=%d, wrapped value has Close=%s and returns %d" % (fwd, err, has_close, werr), "close-not-forwarded")
    return None


@check
def check_C19(ctx):
    ctx.cov["rule"] = ("case = a scripted wrapped reader or writer (with/without Close, with/without WriteTo/ReadFrom), a bar with "
                       "known / zero / negative total and 0-3-deep wrapped moving-average recorder or none, 1-10 calls with short "
                       "transfers, zero lengths and errors at any call; distinct = whole case")
    ctx.assumptions = ["durations handed to the moving average are only required to be non-negative"]
    diff_check(ctx, "proxy", 1500, 60000, {"Base.v", "BarState.v", "BarStateProofs.v", "Proxy.v", "ProxyProofs.v", "Props/C19.v"},
               monitor=c19_monitor)


def c20_monitor(case, obs):
    hdr = case[0].split()
    for l in obs:
        if "NaN" in l or "Inf" in l:
            return ("a decorator printed NaN or an infinity: %s" % l, "nan-or-inf")
        if " OTHER " in l and l.rstrip().split()[-1] == "0":
            return ("output of a non-'f' verb does not read back: %s" % l, "other-verb-readback")
    return None


@check
def check_C20(ctx):
    ctx.cov["rule"] = ("case = one of: SizeB1024/SizeB1000 value (unit boundaries, int64 extremes, random) x verb x flag x precision; "
                       "percentage decorator for 0<=current<=total; time styles for 0<=d<60h through the moving-average ETA; speed "
                       "producer; sample sequences (n<=0, zero durations) through the estimators' zero-progress carry; the model "
                       "predicts the exact string for the verbs rendered as 'f' and the exact float handed to the moving average")
    ctx.assumptions = ["verbs e,E,g,G,b,x,X are only checked to carry the right unit and to read back",
                       "elapsed / average-speed / average-ETA decorators read the wall clock: the dec family brackets the reading and "
                       "skips a case whose expectation differs between the two ends of the bracket"]
    ctx.cov["rule"] += ("; dec family: counters group, elapsed, average speed / ETA, spinner, name, conditional constructors, "
                        "on-complete-or-on-abort, the 3-sample median, the two time normalizers of the ETA decorators (they only smooth: the answer "
                        "is the estimate or the previous answer counted down by wall time), self-checked against the model-compared "
                        "size / time / speed formatters")
    diff_check(ctx, "fmt", 3000, 200000, {"Base.v", "F64.v", "Percent.v", "SizeFmt.v", "SizeFmtProofs.v", "Props/C20.v"},
               monitor=c20_monitor, classify=lambda case: case[0].split()[0])
    dec_check(ctx, "V")
    opt_check(ctx, {"adjust"})   # DecoratorAverageAdjust reaches wrapped average decorators
    # every sample reaches the moving-average decorator however deeply it is wrapped: the bar family's
    # recorder sits behind 0-3 wrappers; only the samples are compared here
    def samples_only(lines):
        out = []
        for l in lines:
            f = l.split()
            out.append(" ".join(f[:2] + [t for i, t in enumerate(f) if t == "S" or (i > 0 and f[i - 1] == "S") or (i > 1 and f[i - 2] == "S")]))
        return out
    for run in bar_runs(ctx, 600, 20000):
        if run["rc"] != 0:
            continue
        bad, impl, model, cases = bar_mismatches(ctx, run, samples_only)
        for k in bad[:1]:
            ctx.add_violation("moving-average samples differ from the model: impl %s / model %s" % (samples_only(impl.get(k, [])), samples_only(model.get(k, []))),
                              "ewma-samples", {"family": "bar", "case": cases[k], "impl": impl.get(k), "model": model.get(k)})

# ---------------------------------------------------------------- C10
ACTOR_DEPS = {"Base.v", "BaseProofs.v", "BarState.v", "BarStateProofs.v", "Proxy.v", "ProxyProofs.v", "Actor.v", "ActorProofs.v"}


def race_reports(log):
    """split the race detector's output into reports that involve the library"""
    out = []
    for blk in log.split("==================\n"):
        if "WARNING: DATA RACE" in blk and "github.com/vbauerster/mpb/v8" in blk:
            locs = re.findall(r"/repo/([\w/\.]+:\d+)", blk)
            funcs = re.findall(r"github.com/vbauerster/mpb/v8[\w/\.]*\.\(?\*?(\w+)\)?\.(\w+)", blk)
            key = "-".join(sorted({"%s.%s" % f for f in funcs[:1] + funcs[-1:]})) or "unknown"
            out.append((key, blk[:2500], locs[:4]))
    return out


@check
def check_C10(ctx):
    ctx.cov["rule"] = ("case = 2-4 goroutines each running 1-4 (thorough: 1-6) calls on one bar (increments, set/abort/total/refill, getters) "
                       "in an auto, manual or non-refreshing container that keeps rendering, then quiescent reads, Shutdown, reads; "
                       "distinct = the per-client programs and configuration; the same family is re-run under the race detector")
    ctx.assumptions = ["one decorator instance per bar", "a history is at most 60 calls (the linearization search is exhaustive with memoisation)",
                       "freedom from data races is decided by the Go race detector on the schedules that occurred, not by a theorem"]
    if not common_setup(ctx, ACTOR_DEPS | {"Props/C10.v"}):
        return
    found = False
    runs = []
    if ctx.replay:
        rp = json.load(open(ctx.replay))
        if "case" in rp:
            sc = write_script(ctx, "replay.txt", rp["case"])
            for rep in range(20):
                runs.append(ctx.run_family("conc", 0, extra=sc, tag=".replay%d" % rep))
    elif ctx.tier == "quick":
        runs.append(ctx.run_family("conc", 200))
    else:
        for i in range(8):
            runs.append(ctx.run_family("conc", 1500, seed=ctx.seed * 1000 + i))
    sigs = set()
    for run in runs:
        cases = group_cases(read_lines(os.path.join(run["dir"], "cases.txt")))
        if run["rc"] != 0:
            sig = "conc-hang" if "hang" in run["log"] else ("panic" if "panic" in run["log"] else "conc-run-failed")
            last = cases[max(cases)] if cases else []
            if sig not in sigs:
                sigs.add(sig)
                ctx.add_violation("implementation run failed: " + run["log"][-1500:], sig,
                                  {"family": "conc", "run_seed": run["seed"], "n": run["n"], "case": [l for l in last if not l.startswith("h ")]})
            found = True
        verdict = {}
        for l in read_lines(os.path.join(run["dir"], "model.txt")):
            f = l.split(" ", 2)
            verdict[int(f[0])] = (f[1], f[2] if len(f) > 2 else "")
        for k in sorted(cases):
            if k not in verdict:
                continue
            ctx.cov["evaluations"] += 1
            ctx.cov["traces_validated_against_impl"] += 1
            prog = tuple(l for l in cases[k] if l.startswith("p ") or l.startswith("case"))
            ctx.distinct((prog[0].split()[2:], prog[1:]).__repr__())
            if k < 2:
                ctx.sample({"case": cases[k][:40], "verdict": verdict[k]})
            if verdict[k][0] != "ACCEPT":
                sig = "not-linearizable" if "no-linearization" in verdict[k][1] else "conc-" + verdict[k][1].split()[0]
                if sig not in sigs:
                    sigs.add(sig)
                    ctx.add_violation("the recorded concurrent history has no linearization under the sequential rules (%s):\n%s"
                                      % (verdict[k][1], "\n".join(cases[k][:60])), sig,
                                      {"family": "conc", "run_seed": run["seed"], "n": run["n"], "k": k,
                                       "case": [l for l in cases[k] if not l.startswith("h ")], "history": cases[k]})
                found = True
    # ---- the race detector
    if not ctx.replay or True:
        rb = ctx.build_harness_race()
        if rb is None:
            ctx.add_violation("the harness does not build with -race:\n" + ctx.harness_error[-1500:], "harness-race-build",
                              {"log": ctx.harness_error[-3000:]}, found_input=False)
        else:
            plan = [("conc", 150), ("frames", 60), ("sched", 40), ("faults", 40), ("late", 120), ("bar", 100), ("proxy", 200)] if ctx.tier == "quick" else \
                   [("conc", 3000), ("frames", 1500), ("sched", 1000), ("faults", 1000), ("late", 3000), ("bar", 2000), ("proxy", 4000)]
            if ctx.replay:
                rp = json.load(open(ctx.replay))
                plan = [(rp.get("family", "conc"), rp.get("n", 150))] if "race" in rp.get("signature", "") else []
            for fam, n in plan:
                run = ctx.run_family(fam, n, tag=".race", model=False, binary=rb, timeout=3000,
                                     env={"GORACE": "halt_on_error=0 exitcode=66", "MPBH_HANG_MS": "240000"})
                ctx.cov["evaluations"] += n
                ctx.cov["families"].setdefault(fam + "(race)", {"runs": 0, "cases": 0})
                ctx.cov["families"][fam + "(race)"]["runs"] += 1
                ctx.cov["families"][fam + "(race)"]["cases"] += n
                reps = race_reports(run["log"])
                for key, blk, locs in reps:
                    sig = "data-race-" + key
                    if sig not in sigs:
                        sigs.add(sig)
                        ctx.add_violation("data race in the library (family %s, seed %d): %s\n%s" % (fam, run["seed"], ", ".join(locs), blk), sig,
                                          {"family": fam, "run_seed": run["seed"], "n": n, "race": True, "report": blk})
                    found = True
                if run["rc"] not in (0, 66) and not reps:
                    sig = "race-run-failed-" + fam
                    if sig not in sigs:
                        sigs.add(sig)
                        ctx.add_violation("run under the race detector failed (family %s): %s" % (fam, run["log"][-1500:]), sig,
                                          {"family": fam, "run_seed": run["seed"], "n": n, "race": True})
                    found = True
    report_broken_obligations(ctx, found)



# ---------------------------------------------------------------- C01 / C02
LIFE_DEPS = CONT_DEPS | {"ContainerLife.v", "ContainerProgress.v", "ContainerMeasure.v", "ContainerMatrix.v", "GenChecks.v", "gen/GenApi.v", "Sync.v", "SyncProofs.v"}


def late_runs(ctx, n_quick, n_thorough):
    runs = []
    reps = 2 if ctx.tier == "quick" else 10
    if ctx.replay:
        rp = json.load(open(ctx.replay))
        if rp.get("family") == "late" and "case" in rp:
            sc = write_script(ctx, "replay_late.txt", rp["case"])
            for rep in range(30):
                runs.append(ctx.run_family("late", 0, extra=sc, tag=".replay%d" % rep, model=False))
        return runs
    for sc in corpus_scripts("C02", "late"):
        for rep in range(reps):
            runs.append(ctx.run_family("late", 0, extra=sc, tag=".corpus%d." % rep + os.path.basename(sc), model=False))
    if ctx.tier == "quick":
        runs.append(ctx.run_family("late", n_quick, model=False))
    else:
        for i in range(8):
            runs.append(ctx.run_family("late", n_thorough // 8, seed=ctx.seed * 1000 + i, model=False))
    return runs


def late_check(ctx, want_values, sigs):
    """the late family: panics and hangs always count; the values of the late calls when want_values"""
    found = False
    for run in late_runs(ctx, 400, 24000):
        lines = read_lines(os.path.join(run["dir"], "cases.txt"))
        cases = group_cases(lines)
        if run["rc"] != 0:
            log = run["log"]
            m = re.search(r"hang: ([\w-]+)", log)
            pm = re.search(r"^(panic: .*|fatal error: .*)$", log, re.M)
            if pm:
                sig = "panic-" + re.sub(r"[^a-zA-Z]+", "-", pm.group(1))[:60].strip("-")
                what = "the library panicked: " + pm.group(1) + "\n" + log[:1500]
            elif m:
                sig, what = "hang-" + m.group(1), "a call did not return within the timeout: " + m.group(1) + "\n" + log[-800:]
            else:
                sig, what = "late-run-failed", "the run failed: " + log[-1500:]
            last = cases[max(cases)][:1] if cases else []
            if sig not in sigs:
                sigs.add(sig)
                ctx.add_violation(what, sig, {"family": "late", "run_seed": run["seed"], "n": run["n"], "case": last,
                                              "note": "scheduling dependent: the replay repeats the case 30 times"})
            found = True
        for k in sorted(cases):
            body = cases[k]
            if body[-1].strip() != "end":
                continue
            ctx.cov["evaluations"] += 1
            ctx.distinct(("late",) + tuple(body[0].split()[3:]))
            if k < 1:
                ctx.sample({"late_case": body[:8]})
            if not want_values:
                continue
            bad = None
            for l in body[1:]:
                f = l.split()
                if f[0] == "late" and f[1] == "add" and l != "late add nilbar=1 errdone=1":
                    bad = ("Add after Wait: " + l, "late-add-result")
                elif f[0] == "late" and f[1] == "write" and l != "late write n=0 errdone=1":
                    bad = ("Write after Wait: " + l, "late-write-result")
                elif f[0] == "late" and f[1] == "bar" and (f[3] != "same=1" or f[5] != "running=0"):
                    bad = ("late bar calls changed what the getters return or the bar still runs: " + l, "late-bar-result")
                elif f[0] == "late" and f[1] == "bar" and f[4] != "one=1":
                    bad = ("after Wait a bar is neither exactly completed nor exactly aborted: " + l, "late-bar-not-exactly-one")
                elif f[0] == "storm" and ("add_other=0" not in l or "write_other=0" not in l):
                    bad = ("a racing Add / Write returned neither success nor ErrDone: " + l, "racing-call-result")
                elif f[0] == "BAD":
                    bad = (l, "late-bad")
            if bad and bad[1] not in sigs:
                sigs.add(bad[1])
                ctx.add_violation(bad[0], bad[1], {"family": "late", "run_seed": run["seed"], "n": run["n"], "k": k, "case": body[:1]})
                found = True
            elif bad:
                found = True
    return found


@check
def check_C02(ctx):
    ctx.cov["rule"] = ("late family: 1-4 goroutines issue 3-12 (thorough: up to 32) random API calls each (Add, Write, priority, increments, "
                       "totals, abort, getters, traversals) on a container of 1-5 bars with scheduling perturbation at the hook points while "
                       "the container is ended by Wait, Shutdown, cancellation or a Wait racing with Add, then every call is repeated after "
                       "Wait; plus the container scenario families (panic / hang / late results); distinct = configuration of the case")
    ctx.assumptions = ["of the documented panics only MustAdd after done is exercised (opt family: it must panic with ErrDone); nil reader/writer to a proxy and an uninitialised WC are not",
                       "a panic or a hang is observed, not excluded by proof; the theorems cover the select shapes, the exited bar and the "
                       "heap manager's end"]
    sigs = set()
    frames_check(ctx, {"LATE_WRITE", "LATE_ADD", "HM_END", "HM_PUSH", "CT_OP", "CT_RENDERSIZE", "CL_OP"}, M.c02_monitor, 200, 6000,
                 LIFE_DEPS | PQ_DEPS | {"Props/C02.v"}, fams=ALLFAMS)
    if ctx.harness:
        if late_check(ctx, True, sigs):
            ctx.notes.append("late family reported")
        pq_check(ctx, sigs)
        opt_check(ctx, {"mustadd"})


@check
def check_C01(ctx):
    ctx.cov["rule"] = (FRAME_RULE + "; every scenario ends with Wait under a hang timeout (frames / sched with perturbation / faults), and the late "
                       "family ends containers by Wait, Shutdown, cancellation and Wait racing with Add under concurrent API calls")
    ctx.assumptions = ["fairness of the Go scheduler", "a hang is a wait of the harness on the library that exceeds 30 s"]
    sigs = set()
    frames_check(ctx, {"HM_END", "HM_STATE", "CT_DONE", "CT_EXIT", "BAR_EXIT", "CT_RENDERBEGIN", "HM_ITERREQ"}, M.c01_monitor, 300, 8000,
                 LIFE_DEPS | WG_DEPS | {"Props/C01.v"}, fams=ALLFAMS)
    if ctx.harness:
        late_check(ctx, False, sigs)
        wg_check(ctx, sigs)
        opt_check(ctx, {"waitgroup", "earlyrefresh"})   # + the last running bar draws itself out without the ticker



# ---------------------------------------------------------------- the wait group Progress.Wait blocks on (C01)
WG_DEPS = {"WaitGroup.v", "WaitGroupProofs.v", "GenWaitGroup.v"}


def wg_check(ctx, sigs):
    """differential: after every Add / Done / Wait call on bar_wait_group.go, the set of waiters that have returned"""
    runs = []
    if ctx.replay:
        rp = json.load(open(ctx.replay))
        if rp.get("family") != "wg":
            return False
        sc = write_script(ctx, "replay_wg.txt", rp["case"])
        runs.append(ctx.run_family("wg", 0, extra=sc, tag=".replay"))
    elif ctx.tier == "quick":
        runs.append(ctx.run_family("wg", 150))
    else:
        for i in range(4):
            runs.append(ctx.run_family("wg", 1500, seed=ctx.seed * 1000 + i))
    found = False
    for run in runs:
        if run["rc"] != 0:
            rep = {"family": "wg", "run_seed": run["seed"], "n": run["n"]}
            mk = re.search(r"case (\d+): hang", run["log"])
            try:
                allc = group_cases(read_lines(os.path.join(run["dir"], "cases.txt")))
                if mk and int(mk.group(1)) in allc:
                    rep["k"], rep["case"] = int(mk.group(1)), allc[int(mk.group(1))]
            except Exception:
                pass
            ctx.add_violation("wait group run failed (a waiter not released at count zero, or a panic): " + run["log"][-1500:],
                              "wg-run-failed", rep)
            found = True
            continue
        impl = group_obs(read_lines(os.path.join(run["dir"], "impl.txt")))
        model = group_obs(read_lines(os.path.join(run["dir"], "model.txt")))
        cases = group_cases(read_lines(os.path.join(run["dir"], "cases.txt")))
        for k in sorted(cases):
            ctx.cov["evaluations"] += 1
            ctx.cov["traces_validated_against_impl"] += 1
            ctx.distinct(("wg",) + tuple(cases[k][1:]))
            if impl.get(k, []) != model.get(k, []):
                a, b = impl.get(k, []), model.get(k, [])
                first = next((i for i in range(min(len(a), len(b))) if a[i] != b[i]), min(len(a), len(b)))
                sig = "wg-mismatch"
                if sig not in sigs:
                    sigs.add(sig)
                    ctx.add_violation("wait group: implementation and model differ at step %d: impl %s / model %s"
                                      % (first, a[first] if first < len(a) else None, b[first] if first < len(b) else None), sig,
                                      {"family": "wg", "run_seed": run["seed"], "n": run["n"], "k": k, "case": cases[k]})
                found = True
    return found


# ---------------------------------------------------------------- priority queue (C06, C02)
PQ_DEPS = {"Base.v", "PQueue.v", "PQueueProofs.v", "ContainerQueue.v"}


def pq_check(ctx, sigs):
    """differential: slice order and index fields after every heap operation"""
    runs = []
    if ctx.replay:
        rp = json.load(open(ctx.replay))
        if rp.get("family") != "pq":
            return False
        sc = write_script(ctx, "replay_pq.txt", rp["case"])
        runs.append(ctx.run_family("pq", 0, extra=sc, tag=".replay"))
    elif ctx.tier == "quick":
        runs.append(ctx.run_family("pq", 400))
    else:
        for i in range(4):
            runs.append(ctx.run_family("pq", 5000, seed=ctx.seed * 1000 + i))
    found = False
    for run in runs:
        if run["rc"] != 0:
            ctx.add_violation("pq run failed (panic in the queue?): " + run["log"][-1500:], "pq-run-failed",
                              {"family": "pq", "run_seed": run["seed"], "n": run["n"]})
            found = True
            continue
        impl = group_obs(read_lines(os.path.join(run["dir"], "impl.txt")))
        model = group_obs(read_lines(os.path.join(run["dir"], "model.txt")))
        cases = group_cases(read_lines(os.path.join(run["dir"], "cases.txt")))
        for k in sorted(cases):
            ctx.cov["evaluations"] += 1
            ctx.cov["traces_validated_against_impl"] += 1
            ctx.distinct(("pq",) + tuple(cases[k][1:]))
            if impl.get(k, []) != model.get(k, []):
                a, b = impl.get(k, []), model.get(k, [])
                first = next((i for i in range(min(len(a), len(b))) if a[i] != b[i]), min(len(a), len(b)))
                sig = "pq-mismatch"
                if sig not in sigs:
                    sigs.add(sig)
                    ctx.add_violation("priority queue: implementation and model differ at step %d: impl %s / model %s"
                                      % (first, a[first] if first < len(a) else None, b[first] if first < len(b) else None), sig,
                                      {"family": "pq", "run_seed": run["seed"], "n": run["n"], "k": k, "case": cases[k]})
                found = True
    return found
