# props.py — one check function per property. Each: (1) rebuilds the Coq
# theory (regenerated tables included) and re-checks the property's theorem
# file, (2) builds the harness against /repo's working tree, (3) runs corpus
# scripts, directed witnesses and seeded generators through implementation and
# extracted model, (4) compares projected observables, evaluates the property's
# monitors on the implementation's own observations, (5) decides.
import json, os, re, sys
from vcheck import *

CHECKS = {}


def check(fn):
    CHECKS[fn.__name__.split("_")[1]] = fn
    return fn


def common_setup(ctx, deps):
    """steps 1-2; returns False when nothing can be run"""
    ctx.build_coq()
    props_ok = ctx.check_props()
    depfail = ctx.dependency_failures(deps)
    ctx.props_ok = props_ok and not depfail
    ctx.depfail = depfail
    if ctx.build_harness() is None:
        ctx.add_violation("the harness does not build against /repo's working tree:\n" + ctx.harness_error[-1500:],
                          "harness-build", {"log": ctx.harness_error[-4000:]}, found_input=False)
        return False
    return True


def report_broken_obligations(ctx, found_any_input):
    """a theorem (or a regenerated obligation) no longer checks"""
    if ctx.props_ok:
        return
    if found_any_input:
        return  # the concrete failing input is the report
    names = "; ".join("%s: %s" % (f, msg.strip().splitlines()[0] if msg.strip() else "") for f, msg in
                      (ctx.depfail or ctx.obligation_failures))
    ctx.add_violation("proof obligation no longer checks: " + names, "obligation",
                      {"failures": ctx.depfail or ctx.obligation_failures}, found_input=False)


def corpus_scripts(prop, fam):
    d = os.path.join(VERIF, "corpus", prop)
    if not os.path.isdir(d):
        return []
    return sorted(os.path.join(d, f) for f in os.listdir(d) if f.startswith(fam + "_") and f.endswith(".txt"))


# ---------------------------------------------------------------- bar family (C09, C11)
def bar_runs(ctx, n_quick, n_thorough, seeds_thorough=4):
    runs = []
    for sc in corpus_scripts(ctx.prop, "bar"):
        runs.append(ctx.run_family("bar", 0, extra=sc, tag=".corpus." + os.path.basename(sc)))
    if ctx.replay:
        rp = json.load(open(ctx.replay))
        if "case" in rp:
            sc = write_script(ctx, "replay.txt", rp["case"])
            runs.append(ctx.run_family("bar", 0, extra=sc, tag=".replay"))
            return runs
    if ctx.tier == "quick":
        runs.append(ctx.run_family("bar", n_quick))
    else:
        for i in range(seeds_thorough):
            runs.append(ctx.run_family("bar", n_thorough // seeds_thorough, seed=ctx.seed * 1000 + i))
    return runs


def bar_fields(line):
    f = line.split()
    # k step cur comp abrt ...
    return f


def c09_project_case(lines):
    """C09 speaks about bars that have not reached a terminal state (plus: Abort
    does nothing to a completed bar): keep every line up to and including the
    first terminal one; afterwards keep lines only while the bar is completed."""
    out, terminal = [], None
    for l in lines:
        f = l.split()
        if len(f) < 5 or not f[2].lstrip("-").isdigit():
            out.append(l)  # HANG / REFUSED / BADRENDER lines always count
            continue
        if terminal is None:
            out.append(l)
            if f[3] == "1":
                terminal = "c"
            elif f[4] == "1":
                terminal = "a"
        elif terminal == "c":
            out.append(" ".join(f[:5]))
    return out


def bar_mismatches(ctx, run, project_case):
    d = run["dir"]
    impl = group_obs(read_lines(os.path.join(d, "impl.txt")))
    model = group_obs(read_lines(os.path.join(d, "model.txt")))
    cases = group_cases(read_lines(os.path.join(d, "cases.txt")))
    bad = []
    for k in sorted(set(impl) | set(model)):
        a, b = project_case(impl.get(k, [])), project_case(model.get(k, []))
        if a != b:
            bad.append(k)
    return bad, impl, model, cases


def bar_shrink(ctx, case_lines, project_case, extra_pred=None):
    def fails(lines):
        sc = write_script(ctx, "shrink.txt", lines + ["end"])
        r = ctx.run_family("bar", 0, extra=sc, tag=".shrink")
        if r["rc"] != 0:
            return True
        bad, impl, model, _ = bar_mismatches(ctx, r, project_case)
        if bad:
            return True
        if extra_pred:
            return any(extra_pred(impl.get(k, [])) for k in impl)
        return False
    body = [l for l in case_lines if l != "end" and not l.startswith("e Exit") and not l.startswith("e Cancel")]
    return shrink_case(ctx, "bar", body, fails)


def bar_coverage(ctx, run):
    cases = group_cases(read_lines(os.path.join(run["dir"], "cases.txt")))
    impl = group_obs(read_lines(os.path.join(run["dir"], "impl.txt")))
    for k, lines in cases.items():
        ops = tuple(l.split()[1] for l in lines if l.startswith("o ") and l != "o Nop")
        ctx.cov["evaluations"] += 1
        ctx.cov["traces_validated_against_impl"] += 1
        last = impl.get(k, [""])[-1].split()
        if len(ops) >= 2:
            ctx.distinct((lines[0].split()[2], ops, tuple(last[3:5])))
        if k < 2:
            ctx.sample({"case": lines, "impl": impl.get(k, [])})


@check
def check_C09(ctx):
    ctx.cov["rule"] = ("cases = seeded operation scripts on one bar (3 container modes, 5 classes of initial total, "
                       "boundary-biased int64 arguments, EWMA recorder behind 0-3 wrappers); non-trivial = at least two "
                       "mutating operations; distinct = (mode, sequence of operation kinds, final flags)")
    ctx.assumptions = ["sequential client; getters are not observed between ctx cancellation and actor exit (both select branches ready)",
                       "int64 wrap of current+n is part of the model (theorem C09_wrap_faithful states when it is the identity)"]
    if not common_setup(ctx, {"Base.v", "BaseProofs.v", "BarState.v", "BarStateProofs.v", "Props/C09.v"}):
        return
    found = False
    for run in bar_runs(ctx, 1500, 60000):
        if run["rc"] != 0:
            ctx.add_violation("implementation run failed (hang or crash): " + run["log"][-800:], "bar-run-failed",
                              {"family": "bar", "seed": run["seed"], "n": run["n"], "log": run["log"][-3000:]})
            found = True
            continue
        bad, impl, model, cases = bar_mismatches(ctx, run, c09_project_case)
        bar_coverage(ctx, run)
        for k in bad[:3]:
            small = bar_shrink(ctx, cases[k], c09_project_case)
            ctx.add_violation("implementation and documented rules (model) disagree on a bar that has not reached a terminal state",
                              "bar-rule-mismatch",
                              {"family": "bar", "case": small + ["end"], "original_case": cases[k],
                               "impl": impl.get(k), "model": model.get(k), "run_seed": run["seed"]})
            found = True
    report_broken_obligations(ctx, found)


# ---------------------------------------------------------------- C11
I64MAX = (1 << 63) - 1


def c11_monitor(case_lines, obs_lines):
    """executable monitor over what a client can see; returns (what, signature) or None.
    obs_lines[i] is the observation after the i-th observed event of case_lines."""
    evs = [l for l in case_lines[1:] if l != "end" and l != "e Cancel"]
    # an op that cancels the bar and the following Exit share one observation
    merged = []
    for l in evs:
        if l == "e Exit" and merged and merged[-1][-1].startswith("o "):
            merged[-1].append(l)
        else:
            merged.append([l])
    rows = []
    for l in obs_lines:
        f = l.split()
        if len(f) >= 5 and f[2].lstrip("-").isdigit():
            rows.append((int(f[2]), f[3] == "1", f[4] == "1"))
        else:
            return None  # HANG etc. are reported elsewhere
    total = int(case_lines[0].split()[3])
    seen_c = seen_a = False
    exited = False
    terminal_op = False
    for i, (cur, comp, ab) in enumerate(rows):
        ev = merged[i] if i < len(merged) else ["?"]
        if comp and ab:
            return ("bar reported both completed and aborted after %s" % ev, "both-flags")
        f = ev[0].split()
        nondecr = True
        if f[0] == "o" and i > 0:
            prev = rows[i - 1][0]
            if f[1] in ("Incr", "EIncr"):
                n = int(f[2]); nondecr = n >= 0 and prev + n <= I64MAX
            elif f[1] in ("SetCur", "ESetCur"):
                c = int(f[2]); nondecr = c < 0 or c >= prev
        if seen_c and not comp and nondecr:
            return ("Completed went from true to false across %s" % ev, "completed-unstable")
        if seen_a and (not ab or comp) and nondecr:
            return ("Aborted bar changed its report across %s" % ev, "aborted-unstable")
        if not nondecr:
            seen_c = seen_a = False  # the property does not cover decreasing updates
        seen_c, seen_a = seen_c or comp, seen_a or ab
        if any(x == "e Exit" for x in ev):
            exited = True
        if f[0] == "o" and f[1] in ("Abort",):
            terminal_op = True
    if exited and rows:
        cur, comp, ab = rows[-1]
        if comp == ab:
            return ("after the bar's goroutine exited exactly one of Completed/Aborted must hold, got %s/%s" % (comp, ab),
                    "not-exactly-one")
    return None


def c11_project_case(lines):
    out = []
    for l in lines:
        f = l.split()
        # C11 is about the two flags only: k step completed aborted
        out.append(" ".join(f[:2] + f[3:5]) if len(f) >= 5 and f[2].lstrip("-").isdigit() else l)
    return out


@check
def check_C11(ctx):
    ctx.cov["rule"] = ("bar scripts as in C09, observed through Current/Completed/Aborted after every operation, "
                       "after the actor's exit and after Shutdown; monitor = exclusivity, stability under non-decreasing "
                       "updates, exactly-one after exit; non-trivial = reaches a terminal state and continues with at "
                       "least one more operation; distinct = (mode, op kinds, final flags)")
    ctx.assumptions = ["non-decreasing update = IncrInt64 n>=0 without int64 overflow, SetCurrent c>=current, any non-counter operation",
                       "getters are not observed between ctx cancellation and actor exit"]
    if not common_setup(ctx, {"Base.v", "BaseProofs.v", "BarState.v", "BarStateProofs.v", "Props/C11.v"}):
        return
    found = False
    for run in bar_runs(ctx, 2500, 80000):
        if run["rc"] != 0:
            ctx.add_violation("implementation run failed (hang or crash): " + run["log"][-800:], "bar-run-failed",
                              {"family": "bar", "seed": run["seed"], "n": run["n"], "log": run["log"][-3000:]})
            found = True
            continue
        bad, impl, model, cases = bar_mismatches(ctx, run, c11_project_case)
        bar_coverage(ctx, run)
        reported = set()
        for k in sorted(cases):
            mon = c11_monitor(cases[k], impl.get(k, []))
            if mon and mon[1] not in reported:
                reported.add(mon[1])
                pred = lambda obs, case=None: False
                def fails(lines, sig=mon[1]):
                    sc = write_script(ctx, "shrink.txt", lines + ["end"])
                    r = ctx.run_family("bar", 0, extra=sc, tag=".shrink")
                    cs = group_cases(read_lines(os.path.join(r["dir"], "cases.txt")))
                    im = group_obs(read_lines(os.path.join(r["dir"], "impl.txt")))
                    return any((c11_monitor(cs[j], im.get(j, [])) or (0, 0))[1] == sig for j in cs)
                body = [l for l in cases[k] if l != "end" and not l.startswith("e Exit") and not l.startswith("e Cancel")]
                small = shrink_case(ctx, "bar", body, fails)
                ctx.add_violation(mon[0], mon[1], {"family": "bar", "case": small + ["end"], "original_case": cases[k],
                                                   "impl": impl.get(k), "run_seed": run["seed"]})
                found = True
        if not reported:
            for k in bad[:2]:
                small = bar_shrink(ctx, cases[k], c11_project_case)
                ctx.add_violation("terminal-state flags differ between implementation and model (correspondence broken); "
                                  "the monitors found no failing history", "bar-flag-mismatch",
                                  {"family": "bar", "case": small + ["end"], "impl": impl.get(k), "model": model.get(k),
                                   "theorem": "correspondence bar-family/flags"}, found_input=False)
                found = True
    report_broken_obligations(ctx, found)


# ---------------------------------------------------------------- fill family (C07, C08)
def parse_runs(line):
    """'k i T c:w c:w | W n U b' -> (runs, W, U) or None for HANG etc."""
    f = line.split()
    if len(f) < 3 or f[2] != "T":
        return None
    runs = []
    j = 3
    while f[j] != "|":
        c, w = f[j].split(":")
        runs.append((int(c), int(w)))
        j += 1
    return runs, int(f[j + 2]), int(f[j + 4])


def crw(req, avail):
    return avail if (req < 1 or req > avail) else req


def exact_cells(total, current, width):
    """the property's reference: width*current/total rounded to nearest (halves up), exact integers"""
    if total <= 0 or current <= 0:
        return 0
    if current >= total:
        return width
    return (2 * width * current + total) // (2 * total)


def fill_cases(run):
    """yields (k, header_tokens, [(input_tokens, obs_line)])"""
    d = run["dir"]
    impl = group_obs(read_lines(os.path.join(d, "impl.txt")))
    model = group_obs(read_lines(os.path.join(d, "model.txt")))
    cur = None
    out = []
    for l in read_lines(os.path.join(d, "cases.txt")):
        f = l.split()
        if not f:
            continue
        if f[0] in ("F", "S", "D"):
            cur = {"k": int(f[1]), "hdr": f, "decs": [], "calls": [], "lines": [l]}
            out.append(cur)
        elif f[0] == "d":
            cur["decs"].append(f); cur["lines"].append(l)
        elif f[0] in ("c", "f"):
            cur["calls"].append(f); cur["lines"].append(l)
    for c in out:
        c["impl"] = impl.get(c["k"], [])
        c["model"] = model.get(c["k"], [])
    return out


def c07_monitor(case):
    """termination, UTF-8, width bounds; returns (what, signature) or None"""
    h = case["hdr"]
    for i, obs in enumerate(case["impl"]):
        if "HANG" in obs:
            zero = h[0] == "F" and (h[4] == "0" or h[5] == "0" or h[6] == "0")
            return ("drawing did not terminate: " + obs, "fill-nonterminating-zero-width-component" if zero else "fill-nonterminating")
        pr = parse_runs(obs)
        if pr is None:
            return ("unparsable observation " + obs, "fill-unparsable")
        runs, W, U = pr
        if U != 1:
            return ("row is not valid UTF-8: " + obs, "fill-invalid-utf8")
        if any(c == -1 for c, _ in runs):
            return ("row contains bytes of no component: " + obs, "fill-foreign-bytes")
        if i >= len(case["calls"]):
            continue
        call = case["calls"][i]
        if h[0] == "F":
            avail, req = int(call[1]), int(call[2])
            lbw, rbw = int(h[2]), int(h[3])
            allot = crw(req, avail)
            tips = [int(x) for x in h[9].split(",")]
            if allot - lbw - rbw < 0:
                if W != 0:
                    return ("bar body drawn although the brackets do not fit: " + obs, "fill-drawn-when-too-narrow")
            elif W != allot:
                inner = allot - lbw - rbw
                if max(tips) > inner and W > allot:
                    return ("bar body is %d wide, allotted %d (tip wider than the inner width): %s" % (W, allot, obs),
                            "fill-tip-wider-than-inner-width")
                return ("bar body is %d wide but was allotted %d: %s" % (W, allot, obs), "fill-width-not-exact")
        elif h[0] == "S":
            avail, req = int(call[1]), int(call[2])
            allot = crw(req, avail)
            if W not in (0, allot):
                return ("spinner is %d wide, allotted %d: %s" % (W, allot, obs), "spinner-width")
        else:
            tw = int(h[2])
            if W > tw:
                tipw = 0
                if h[5] == "B":
                    tipw = max(int(x) for x in h[13].split(","))
                sig = "row-overflow"
                return ("row is %d wide on a terminal of width %d: %s" % (W, tw, obs), sig)
    return None


def c08_monitor(case):
    h = case["hdr"]
    if h[0] != "F":
        return None
    lbw, rbw, fw, rw, pw = [int(x) for x in h[2:7]]
    tips = [int(x) for x in h[9].split(",")]
    prev = None
    for i, obs in enumerate(case["impl"]):
        pr = parse_runs(obs)
        if pr is None or i >= len(case["calls"]):
            continue
        runs, W, U = pr
        call = case["calls"][i]
        avail, req, total, cur, ref, comp = [int(x) for x in call[1:7]]
        inner = crw(req, avail) - lbw - rbw
        if inner <= 0 or fw <= 0 or (ref != 0 and rw <= 0):
            continue  # nothing to fill with: C07's business (termination), not proportionality
        filled = sum(w for c, w in runs if c in (2, 3) or 100 <= c < 1000)
        refilled = sum(w for c, w in runs if c == 2)
        want = exact_cells(total, cur, inner)
        tol = max([fw, rw] + tips)
        big = inner * max(cur, 0) >= (1 << 64)
        sig = "cells-product-overflow" if big else "cells"
        if (cur <= 0 or total <= 0) and filled != 0:
            return ("current<=0 or total<=0 but %d cells are filled: %s / %s" % (filled, " ".join(call), obs), sig + "-zero")
        if total > 0 and cur >= total and filled < inner - tol:
            return ("current reached total but only %d of %d cells are filled: %s / %s" % (filled, inner, " ".join(call), obs), sig + "-full")
        if abs(filled - want) > tol + (1 if (inner * max(cur, 1) > (1 << 53) or total > (1 << 53)) else 0):
            return ("filled %d cells, width*current/total rounds to %d (tolerance %d): %s / %s" % (filled, want, tol, " ".join(call), obs), sig + "-nearest")
        if refilled > filled:
            return ("refill segment %d exceeds filled segment %d: %s" % (refilled, filled, obs), "refill-exceeds")
        key = (avail, req, total)
        if prev and prev[0] == key and len(set(tips)) == 1 and ref == 0 and prev[3] == 0:
            if cur >= prev[1] and filled < prev[2] and not (comp and not int(h[7])):
                return ("filled cells went from %d to %d while current went from %d to %d: %s" % (prev[2], filled, prev[1], cur, obs), sig + "-monotone")
        prev = (key, cur, filled, ref)
    return None


def fill_check(ctx, monitor, n_quick, n_thorough, project, deps, kinds="FSD"):
    if not common_setup(ctx, deps):
        return
    found = False
    runs = []
    if ctx.replay:
        rp = json.load(open(ctx.replay))
        runs.append(ctx.run_family("fill", rp.get("n", 100), seed=rp.get("run_seed", ctx.seed)))
    elif ctx.tier == "quick":
        runs.append(ctx.run_family("fill", n_quick))
    else:
        for i in range(8):
            runs.append(ctx.run_family("fill", n_thorough // 8, seed=ctx.seed * 1000 + i))
    sigs = set()
    for run in runs:
        cases = fill_cases(run)
        if run["rc"] != 0:
            ctx.add_violation("implementation run failed: " + run["log"][-800:], "fill-run-failed",
                              {"family": "fill", "run_seed": run["seed"], "n": run["n"], "log": run["log"][-3000:]})
            found = True
        for c in cases:
            ctx.cov["evaluations"] += len(c["impl"])
            ctx.cov["traces_validated_against_impl"] += len(c["impl"])
            for o in c["impl"]:
                pr = parse_runs(o)
                if pr and len(pr[0]) >= 3:
                    ctx.distinct((c["hdr"][0], tuple(x for x, _ in pr[0]), pr[1]))
            if c["k"] < 3:
                ctx.sample({"case": c["lines"], "impl": c["impl"]})
            mon = monitor(c)
            if mon and mon[1] not in sigs:
                sigs.add(mon[1])
                ctx.add_violation(mon[0], mon[1], {"family": "fill", "run_seed": run["seed"], "n": run["n"], "k": c["k"],
                                                   "case": c["lines"], "impl": c["impl"], "model": c["model"]})
                found = True
        if not sigs:
            mism = [c for c in cases if c["hdr"][0] in kinds and
                    [project(x) for x in c["impl"]] != [project(x) for x in c["model"]]]
            for c in mism[:2]:
                ctx.add_violation("rendered output differs from the model (correspondence broken); no monitor fails on it",
                                  "fill-mismatch", {"family": "fill", "run_seed": run["seed"], "n": run["n"], "k": c["k"],
                                                    "case": c["lines"], "impl": c["impl"], "model": c["model"],
                                                    "theorem": "correspondence fill-family"}, found_input=False)
                found = True
    report_broken_obligations(ctx, found)


FILL_DEPS = {"Base.v", "BaseProofs.v", "F64.v", "Percent.v", "Filler.v", "Decor.v", "FillerProofs.v", "PercentProofs.v", "DecorProofs.v"}


@check
def check_C07(ctx):
    ctx.cov["rule"] = ("F = direct BarFiller.Fill calls (styles from ASCII / wide / multi-rune / empty / zero-width components, 1-3 tip "
                       "frames, reverse, tip-on-complete; widths 0..2200; int64 boundary progress values); S = spinner fillers; "
                       "D = whole rows of a manually refreshed container of width 1..70 with 0-4 decorators (W, extra space, indent, "
                       "0-3 wrappers, ANSI colour, wide/combining/zero-width graphemes). evaluation = one Fill call / one frame; "
                       "non-trivial = at least 3 class runs; distinct = (kind, class sequence, measured width)")
    ctx.assumptions = ["display width is measured with go-runewidth on the ANSI-stripped row (RUNEWIDTH_EASTASIAN=0)",
                       "user decorators are assumed to report their true width (built-in ones are proved to)"]
    fill_check(ctx, c07_monitor, 2500, 200000, c07_project, FILL_DEPS | {"Props/C07.v"})


def c08_project(line):
    """C08 is about the cells inside the bar body"""
    pr = parse_runs(line)
    if pr is None:
        return line
    f = line.split()
    return " ".join(f[:2]) + " " + " ".join("%d:%d" % (c, w) for c, w in pr[0] if c in (2, 3, 4, 5) or 100 <= c < 1000)


def c07_project(line):
    """C07 is about widths, cuts and termination: the split of the bar body into
    filler / refiller / tip / padding cells is C08's business, so those classes
    are merged into one 'body' run"""
    pr = parse_runs(line)
    if pr is None:
        return line
    f = line.split()
    runs = []
    for c, w in pr[0]:
        c2 = 9 if (c in (2, 3, 4, 5) or 100 <= c < 1000) else c
        if runs and runs[-1][0] == c2:
            runs[-1][1] += w
        else:
            runs.append([c2, w])
    return " ".join(f[:2]) + " " + " ".join("%d:%d" % (c, w) for c, w in runs) + " W %d U %d" % (pr[1], pr[2])


@check
def check_C08(ctx):
    ctx.cov["rule"] = ("same generator as C07; the monitor classifies cells by rune and compares the filled part with "
                       "width*current/total computed exactly; evaluation = one Fill call; non-trivial = at least 3 class runs")
    ctx.assumptions = ["'to within one rune': tolerance = widest of filler, refiller, tip frames",
                       "math.Round on the float64 quotient may differ from exact rounding by one cell only when width*current > 2^53"]
    fill_check(ctx, c08_monitor, 2500, 200000, c08_project, FILL_DEPS | {"Props/C08.v"}, kinds="F")
