#!/usr/bin/env python3
# regenerates MANIFEST.json from the table below (kept in one place so that the
# manifest stays valid while checks are added)
import json, os, sys
V = os.path.dirname(os.path.dirname(os.path.abspath(__file__)))
sys.path.insert(0, os.path.join(V, "lib"))
CONT = "Coq invariants over every event list accepted by the container/heap-manager acceptor (Container.step) + acceptance of the hooked library's event traces (sequential, perturbed, fault-injected scenarios) + executable monitor on the implementation's own trace"
CLAIMED = {
 "C03": (CONT, "Acceptor checks every frame's content against the model (rows carry the bar's snapshot at render time); monitor: last frame shows every remaining bar in its final state, dropped bars absent, no output after Wait. Theorems in Props/C03.v (no output after Wait for every continuation; rows carry the render snapshot; cancelled only after a terminal frame; every bar once; removed bars never drawn again; with auto refresh the container returns only after a cycle that ended after done). Defect D9 (a bar cancelled while its actor is busy drawn running in the last frame) was found by a directed hold/release witness and is fixed in /repo.", "0.3 (D9), 0.7, 7 (C03)"),
 "C04": (CONT, "Theorems in Props/C04.v over the line terminal Term.v: every frame replaces exactly the live rows of the one before, cursor-up = live rows, rows <= height, nothing before the delay ends, redraw exact on a window with a spare row (and refuted without), render keeps height-1 rows (constant re-read from the source). Tie: acceptor's exact frame prediction + line-level replay monitor + the pty family (real pseudo terminal 4-11 rows, bytes replayed on a VT of that size with scrollback). Defect D6 found by the pty family is fixed in /repo.", "0.3 (D6), 0.7, 7 (C04)"),
 "C05": (CONT, "Theorems Props/C05.v: a bar is in exactly one place or gone for good (NoDup over heap/queue/pushes/popped/parked/retired) for every accepted trace; every bar ever added is in exactly one of them (conservation: a step moves bars, loses none); when a cycle's ordered iteration begins nothing is in flight, so every bar that is not parked behind another and has not left for good is in the heap of that and of every later iteration; a frame's bars are the heap at that cycle's iteration; requests are received in the order sent; every heap request is one blocking send (re-read from the source). Monitor: no bar twice, none vanishing and returning, bars present unless they left legitimately.", "0.3 (D5), 0.7, 7 (C05)"),
 "C06": (CONT, "Theorems Props/C06.v: pops of a clean cycle are in non-increasing priority, flush order = pop order, immediate/lazy fix semantics, every iteration restores order; the priority queue itself (priority_queue.go under container/heap, PQueue.v) keeps heap order, multiset and index fields in every run, Pop returns a maximum, Fix restores order, tied to the code by the differential pq family (exact slice order incl. ties). Monitor on HM_POP priorities, row order and priority changes reaching the heap.", "7 (C06)"),
 "C07": ("Coq theorems (termination of the fill loops for every component width incl. zero; exact width of the bar body; Format reports its true width for every wrapper tree; truncation; row width <= terminal width for every decorator list) + differential correspondence of the extracted model on direct Fill calls and whole rows + width/UTF-8/termination monitor",
         "Theorems in coq/Props/C07.v over Filler.v/Decor.v for all widths, styles and int64 progress values; tie: 2500+ Fill calls and rows per quick run classified rune by rune and measured with go-runewidth.",
         "7 (C07), 8 (D2)"),
 "C08": ("Coq theorems through Flocq's binary64 semantics (zero, full, range, monotone in current, nearest cell of the exact quotient, for all int64 values and widths < 2^31, refill <= filled, segments add up) + differential correspondence + exact-arithmetic monitor of the filled cells",
         "Theorems in coq/Props/C08.v over Percent.v (float64 product and quotient, math.Round) for every int64 total/current; the nearest-cell bound (within 1/2 + 7*2^-53 relative of the exact quotient) is proved too and also monitored with exact arithmetic.",
         "7 (C08), 8 (D3)"),
 "C09": ("Coq theorems over the bar state machine (every operation, every int64 argument, every history) + differential correspondence of the extracted model against the library on seeded operation scripts",
         "Theorems in coq/Props/C09.v quantify over all states/arguments/histories of the model BarState.v; the model is tied to bar.go by running both on the same scripts (3 container modes) and comparing Current/Completed/Aborted/Statistics after every step.",
         "7 (C09), 2, 6"),
 "C11": ("Coq theorems (exclusivity in every state; stability by induction over event lists; exactly-one after exit) + differential correspondence + executable monitor on the implementation's own observations",
         "Theorems in coq/Props/C11.v; the same bar-family correspondence projected to the two flags; the monitor (never both, stable under non-decreasing updates, exactly one after exit) runs on what the real getters returned.",
         "7 (C11), 8 (D1)"),
 "C12": ("Coq theorems on the width rendezvous as a transition system (never stuck, 2 steps per channel, common column width = maximum need) for every layout and interleaving + trace monitor on the library's width-exchange events",
         "Props/C12.v over Sync.v for any number of bars/decorators, plus ContainerMatrix: the heap manager's cached sync matrices are built from exactly the heap whenever a cycle's sync request has been served (never stale). Monitor checks each cycle's columns (membership by side and ordinal, distributed maximum, each member's received width, each decorator's needed width incl. W and extra space) on hooked traces with 0-3 synchronised decorators per side under perturbation; the acceptor checks the cache fields of every HM_SYNC.", "0.7, 7 (C12)"),
 "C13": (CONT, "Theorems in Props/C13.v: accepted text = text written ++ text waiting, once and in order, in every state of every accepted trace; each Write call is [cursor-up] text* row*; nothing after Wait; with auto refresh and no write error everything accepted has been written when the container returns. Tie: the acceptor predicts the text items of every frame; the harness reuses one scratch buffer for all writes (a Write that returns before copying is seen); monitor: every accepted write emitted once, in order, above rows, before Wait returns, late Write = (0, ErrDone).", "0.7, 7 (C13)"),
 "C14": (CONT, "Theorems in Props/C14.v: cancelled bar reports aborted, completed stays completed, the actor exits once, each shutdown listener is called once under any number of wrappers (Listen.v), the heap manager ends once, the notifier lists exactly the heap, cancellation is sticky. Tie: traces with cancel/Shutdown at every script position and under perturbation; acceptor checks BAR_EXIT/FINAL/NOTIFY against the model; monitor on stops, listener counts (0-4 wrappers deep) and the notifier.", "0.7, 7 (C14)"),
 "C15": ("fault injection at k-th Fill / extender call / output Write on hooked scenarios + monitor (error reported once, no frame afterwards, Wait returns, no hang, no leak); width-rendezvous theorems (Sync.v) for the mid-sync case",
         "Theorems in Props/C15.v over the acceptor: the error latches, cancels and no cycle begins again; no further frame in any continuation; reported at most once; the failing cycle is drained; width sync cannot wedge. Tie: faults family (k-th Fill / extender / Write fails; half perturbed; a second manual refresh pending during the failing cycle) replayed by the model + monitor (error line exactly once, no frame afterwards, Wait returns, no leak). Defect D8 is fixed in /repo.", "0.3 (D8), 0.7, 7 (C15)"),
 "C16": (CONT, "Theorems in Props/C16.v: once the container goroutine has returned, the heap manager was ended and every actor has exited, only answers to client calls are possible, for ever (Dead states); each stop is final; the `go` statements of the library are exactly the 13 of GenChecks.expected_spawns and every service loop watches a done channel (tables regenerated from the source on every run). Tie: goroutine probe (runtime.Stack) after every scenario of the frames, sched, faults and late families.", "0.7, 7 (C16)"),
 "C17": (CONT, "Theorems in Props/C17.v: a parked bar is in none of the places rows are drawn from; it stays parked until the flush of the predecessor's shutdown-1 frame and no other Add disturbs it; that flush releases EVERY bar parked behind the predecessor (any number), in order, with the predecessor's priority, pushed with sync, and retires the predecessor; nobody is parked behind a released bar (invariant over all accepted traces); a bar queued after a released bar is pushed at once with the priority the predecessor had at its release; a bar that is no longer parked is in the heap of every ordered iteration that begins afterwards until it leaves through its own last frame. Tie: acceptor models queueBars / relieved / lastPriority; monitor on frames (hidden while parked, in the next cycle after the hand-over or after a late Add, with the predecessor's priority, predecessor not drawn again); generator creates successors before and after the hand-over, several per predecessor, chains. Defects D7a (late successor) and D7b (second successor) were found by directed witnesses, are fixed in /repo (b0086b9) and their witnesses run first from corpus/C17.", "0.3 (D7), 0.7, 7 (C17)"),
 "C18": (CONT, "Theorems in Props/C18.v: next pop priority at the shutdown-1 flush, rows counted and bar retired at shutdown-2, never drawn again, popped rows persist on the line terminal, pop priorities monotone, no-pop bars keep their place, rows in priority order. Tie: acceptor checks popCount / pop priorities; monitor replays the output on a line-level terminal (every popped bar on screen exactly once, final, above live bars, in finishing order).", "0.7, 7 (C18)"),
 "C19": ("Coq theorems over the proxy model (transparency, Close forwarding, fast path iff, bytes accounted = capped sum for every chunking, every sample delivered) + differential correspondence on scripted readers/writers + independent monitor",
         "Props/C19.v; 1500 scripted cases per quick run over all 16 shapes of wrapped value x ewma depth x total class.", "7 (C19)"),
 "C20": ("Coq theorems (largest fitting unit, printed digits = nearest decimal of the float, finite quotient for every int64, h/m/s exact below 60 h, estimators conserve time, positive samples always delivered) + differential correspondence with exact string prediction",
         "Props/C20.v over SizeFmt.v (Flocq binary64); the extracted model predicts the exact output string for f/d/s/v verbs and the exact float handed to the moving average; other verbs are checked to read back. The decorators built on those formatters but not driven by the fmt family (counters group, elapsed, average speed / ETA, spinner, name, conditional constructors, on-complete-or-on-abort) are exercised by the self-checking dec family: composition of the model-compared formatters, wall-clock readings bracketed, freezing after completion / abort observed across a unit boundary.", "7 (C20)"),
}
CLAIMED["C01"] = ("Coq progress theorem over the container/heap-manager acceptor (no reachable state inside a render cycle is wedged) and over the width-sync protocol (progress, 2n-step bound, never stuck) + select-shape obligations regenerated from the Go source by the translator + acceptance of hooked traces + hang detection on every scenario family and on the concurrent 'late' family + a proved model of the wait group Progress.Wait blocks on (no lost wake-up), tied to bar_wait_group.go by a differential family and by source-shape obligations",
  "Props/C01.v: cycle_progress / Flow invariant for every accepted trace, Sync.v progress theorems, GenChecks (every hand-over select has a done clause; service loops watch done). WaitGroup.v / WaitGroupProofs.v: whenever the count is zero after any sequence of Add / Done / Wait calls every Wait call made so far returns once the notified waiters have run, and a Wait returns only at count zero (family wg: returned waiters after every call; GenChecks.wait_group_as_modelled: critical sections, broadcast condition, re-check loop read from the source). The Go scheduler's fairness, sync.Mutex / sync.Cond and the container's sync.WaitGroup (pwg) are outside the model: hangs are decided by timeouts on every scenario (sequential, perturbed, fault-injected, concurrent API storms ended by Wait / Shutdown / cancel / Wait racing Add).",
  "7 (C01), 8 (D5, D8, D11)")
CLAIMED["C02"] = ("Coq theorems over translator-generated select tables (late calls cannot block, take the done branch, return the documented values), over the bar state machine (exited bar frozen) and over the acceptor (nothing sent to the heap manager after its end; container inert after return) + panic / hang / late-result monitors on every family incl. the concurrent 'late' family",
  "Props/C02.v; gen/GenApi.v is regenerated from /repo on every run, so a select that loses its done clause or changes what it returns breaks an obligation; run-time panics in general cannot be excluded by the model and are observed (every family runs with panics fatal).",
  "7 (C02), 8 (D5, D11)")
CLAIMED["C10"] = ("Coq definition of linearizability w.r.t. the sequential bar rules with a proved-sound executable certificate checker (Actor.check_lin), quiescent-value theorem (capped sum for every order) + concurrent histories recorded from the library (2-4 goroutines, renders in between) each linearized by an untrusted search and validated by the extracted checker + the same families under the Go race detector",
  "Props/C10.v; data-race freedom is a property of the compiled program's memory accesses and is decided by the race detector on conc/frames/sched/faults/bar/proxy runs, not by a theorem (stated as partial). Defect D4 found this way is fixed in /repo.",
  "7 (C10), 8 (D4)")
NOT_YET = {}
props = [json.loads(l) for l in open(os.path.join(V, "properties.jsonl"))]
checks, na = [], []
for p in props:
    i = p["id"]
    if i in CLAIMED:
        tech, text, ref = CLAIMED[i]
        checks.append({
            "property_id": i,
            "quick_cmd": "./check %s --tier quick" % i,
            "thorough_cmd": "./check %s --tier thorough" % i,
            "evidence_file": "/verif/evidence/%s.json" % i,
            "replay_cmd_template": "./check %s --replay {path}" % i,
            "engine": "coq-model+correspondence",
            "level_claimed": {"category": "proof", "text": text, "design_ref": "DESIGN.md section " + ref},
            "level_note": "Trusted: Coq 8.16.1 kernel, extraction (ExtrOcamlBasic only), OCaml glue, Go harness, verif-tagged hooks, translator; the Go source itself is tied to the model by differential runs, not by proof. See DESIGN.md section 6.",
            "technique": tech,
        })
    else:
        na.append({"property_id": i, "reason": NOT_YET.get(i, "check not built yet in this round (the design in DESIGN.md section 7 applies; no technique switch)")})
m = {
 "version": 1,
 "setup_cmd": "./setup.sh",
 "hooks": {"guard": "verif", "enable": "go build -tags verif (the harness module replaces github.com/vbauerster/mpb/v8 by /repo)",
           "baseline_off_cmd": "cd /repo && GOFLAGS=-mod=mod GOPROXY=off GOSUMDB=off go test -vet=off -count=1 ./...",
           "source_commits": json.load(open(os.path.join(V, "hooks_commits.json"))) if os.path.exists(os.path.join(V, "hooks_commits.json")) else [],
           "add_only": True},
 "engines": [{"name": "coq-model+correspondence", "path": "/verif/check",
              "serves_properties": sorted(CLAIMED),
              "kind_free_text": "Coq 8.16 theory MPB (coq/), extracted OCaml model (bin/mpbmodel), Go harness built against /repo (harness/), Python driver (check, lib/)"}],
 "checks": checks,
 "not_applicable": na,
 "notes": "Every check rebuilds the Coq theory (make, full .vo), the extracted model if stale, and the harness from /repo's working tree. Known findings: known_findings.json.",
}
json.dump(m, open(os.path.join(V, "MANIFEST.json"), "w"), indent=1)
print("claimed", len(checks), "not claimed", len(na))
