#!/usr/bin/env python3
# regenerates MANIFEST.json from the table below (kept in one place so that the
# manifest stays valid while checks are added)
import json, os, sys
V = os.path.dirname(os.path.dirname(os.path.abspath(__file__)))
sys.path.insert(0, os.path.join(V, "lib"))
CLAIMED = {
 "C09": ("Coq theorems over the bar state machine (every operation, every int64 argument, every history) + differential correspondence of the extracted model against the library on seeded operation scripts",
         "Theorems in coq/Props/C09.v quantify over all states/arguments/histories of the model BarState.v; the model is tied to bar.go by running both on the same scripts (3 container modes) and comparing Current/Completed/Aborted/Statistics after every step.",
         "7 (C09), 2, 6"),
 "C07": ("Coq theorems (termination of the fill loops for every component width incl. zero; exact width of the bar body; Format reports its true width for every wrapper tree; truncation; row width <= terminal width for every decorator list) + differential correspondence of the extracted model on direct Fill calls and whole rows + width/UTF-8/termination monitor",
         "Theorems in coq/Props/C07.v over Filler.v/Decor.v for all widths, styles and int64 progress values; tie: 2500+ Fill calls and rows per quick run classified rune by rune and measured with go-runewidth.",
         "7 (C07), 8 (D2)"),
 "C08": ("Coq theorems through Flocq's binary64 semantics (zero, full, range, monotone in current for all int64 values and widths < 2^31, refill <= filled, segments add up) + differential correspondence + exact-arithmetic monitor of the filled cells",
         "Theorems in coq/Props/C08.v over Percent.v (float64 product and quotient, math.Round) for every int64 total/current; the nearest-cell error bound is monitored, not proved (stated as partial).",
         "7 (C08), 8 (D3)"),
 "C11": ("Coq theorems (exclusivity in every state; stability by induction over event lists; exactly-one after exit) + differential correspondence + executable monitor on the implementation's own observations",
         "Theorems in coq/Props/C11.v; the same bar-family correspondence projected to the two flags; the monitor (never both, stable under non-decreasing updates, exactly one after exit) runs on what the real getters returned.",
         "7 (C11), 8 (D1)"),
}
NOT_YET = {}
props = [json.loads(l) for l in open(os.path.join(V, "properties.jsonl"))]
checks, na = [], []
for p in props:
    i = p["id"]
    if i in CLAIMED:
        tech, text, ref = CLAIMED[i]
        checks.append({
            "property_id": i,
            "quick_cmd": "./check %s --tier quick" % i,
            "thorough_cmd": "./check %s --tier thorough" % i,
            "evidence_file": "/verif/evidence/%s.json" % i,
            "replay_cmd_template": "./check %s --replay {path}" % i,
            "engine": "coq-model+correspondence",
            "level_claimed": {"category": "proof", "text": text, "design_ref": "DESIGN.md section " + ref},
            "level_note": "Trusted: Coq 8.16.1 kernel, extraction (ExtrOcamlBasic only), OCaml glue, Go harness, verif-tagged hooks, translator; the Go source itself is tied to the model by differential runs, not by proof. See DESIGN.md section 6.",
            "technique": tech,
        })
    else:
        na.append({"property_id": i, "reason": NOT_YET.get(i, "check not built yet in this round (the design in DESIGN.md section 7 applies; no technique switch)")})
m = {
 "version": 1,
 "setup_cmd": "./setup.sh",
 "hooks": {"guard": "verif", "enable": "go build -tags verif (the harness module replaces github.com/vbauerster/mpb/v8 by /repo)",
           "baseline_off_cmd": "cd /repo && GOFLAGS=-mod=mod GOPROXY=off GOSUMDB=off go test -vet=off -count=1 ./...",
           "source_commits": json.load(open(os.path.join(V, "hooks_commits.json"))) if os.path.exists(os.path.join(V, "hooks_commits.json")) else [],
           "add_only": True},
 "engines": [{"name": "coq-model+correspondence", "path": "/verif/check",
              "serves_properties": sorted(CLAIMED),
              "kind_free_text": "Coq 8.16 theory MPB (coq/), extracted OCaml model (bin/mpbmodel), Go harness built against /repo (harness/), Python driver (check, lib/)"}],
 "checks": checks,
 "not_applicable": na,
 "notes": "Every check rebuilds the Coq theory (make, full .vo), the extracted model if stale, and the harness from /repo's working tree. Known findings: known_findings.json.",
}
json.dump(m, open(os.path.join(V, "MANIFEST.json"), "w"), indent=1)
print("claimed", len(checks), "not claimed", len(na))
