#!/bin/bash
# regen_evidence.sh — rewrite every evidence file from a quick run of every check on /repo as it is (must be clean).
set -u
cd "$(dirname "$0")"
if [ -n "$(git -C /repo status --short)" ]; then echo "/repo has uncommitted changes"; exit 2; fi
rc=0
for i in 01 02 03 04 05 06 07 08 09 10 11 12 13 14 15 16 17 18 19 20; do
  out=$(./check C$i --tier quick 2>&1 | grep -E "^(VIOLATION|OK|ERROR|KNOWN)"); echo "$out" | cut -c1-160
  echo "$out" | grep -q "^OK" || rc=1
done
python3-vt - <<'PY'
import json, jsonschema, glob
sch = json.load(open('/root/.vp/EVIDENCE.schema.json'))
for f in sorted(glob.glob('/verif/evidence/C*.json')):
    jsonschema.validate(json.load(open(f)), sch)
jsonschema.validate(json.load(open('/verif/MANIFEST.json')), json.load(open('/root/.vp/MANIFEST.schema.json')))
print("evidence and manifest validate")
PY
exit $rc
