(* GenTerm.v — the terminal-height adjustment regenerated from /repo (C04). *)
From Coq Require Import String List ZArith Bool.
From MPB Require Import Base BarState Container.
From MPB.gen Require Import GenApi.
Import ListNotations.
Open Scope string_scope.

(* ---------- terminal height ---------- *)
(* pState.render keeps one row fewer than the terminal is high: the cursor rests below the last row *)
Theorem terminal_keeps_a_spare_row : gen_terminal_height_adjust = (-1)%Z.
Proof. reflexivity. Qed.

(* an output that is not a terminal has no height: the width (requested, or 80) stands in for it, so a frame of fewer rows
   than columns is never clipped there (assumption of C05 and C04 about non-terminal outputs) *)
Theorem nonterminal_height_is_the_width : gen_nonterminal_height = "width".
Proof. reflexivity. Qed.
