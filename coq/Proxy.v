(* Proxy.v — proxyreader.go / proxywriter.go over a scripted underlying value.
   The proxy forwards the call, returns exactly what the underlying value returned
   and advances the bar by the number of bytes the call transferred. *)
From MPB Require Import Base BarState.

Record pcfg := mkPC {
  is_reader : bool;
  has_close : bool;     (* the wrapped value has Close *)
  has_fast : bool;      (* the wrapped value has WriteTo (reader) / ReadFrom (writer) *)
  has_ewma : bool       (* the bar collected at least one moving-average decorator *)
}.

Inductive pcall :=
| PTransfer (fast : bool)    (* Read / Write, or the WriteTo / ReadFrom fast path *)
| PClose.

Record presp := mkPR { rn : Z; rerr : Z }.   (* bytes, error code (0 = nil) of the underlying call *)

Record pout := mkPO {
  on : Z; oerr : Z;              (* what the proxy returns *)
  oforwarded : bool;             (* the call reached the wrapped value *)
  osample : option Z             (* bytes handed to the moving-average decorators *)
}.

(* which wrapper newProxyReader / newProxyWriter picks: the fast path is offered iff the wrapped value has it *)
Definition offers_fast (c : pcfg) : bool := has_fast c.
(* Close is always offered; it reaches the wrapped value iff that has Close *)
Definition close_forwarded (c : pcfg) : bool := has_close c.

Definition pstep (c : pcfg) (s : bst) (call : pcall) (r : presp) : option (bst * pout) :=
  match call with
  | PTransfer fast =>
      if fast && negb (has_fast c) then None else        (* not offered: cannot be called *)
      let o := if has_ewma c then EwmaIncrInt64 (rn r) 0 else IncrInt64 (rn r) in
      match bstep s o with
      | Some (s', out) =>
          let smp := match out with OSample n _ => Some n | _ => None end in
          Some (s', mkPO (rn r) (rerr r) true (if has_ewma c then smp else None))
      | None => None
      end
  | PClose =>
      Some (s, mkPO 0 (if has_close c then rerr r else 0) (has_close c) None)
  end.

Fixpoint prun (c : pcfg) (s : bst) (calls : list (pcall * presp)) : option (bst * list pout) :=
  match calls with
  | [] => Some (s, [])
  | (call, r) :: rest =>
      match pstep c s call r with
      | Some (s', o) => match prun c s' rest with Some (s'', os) => Some (s'', o :: os) | None => None end
      | None => None
      end
  end.

Definition transferred (calls : list (pcall * presp)) : Z :=
  sumZ (map (fun cr => match fst cr with PTransfer _ => rn (snd cr) | PClose => 0 end) calls).
