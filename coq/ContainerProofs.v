(* ContainerProofs.v — invariants of the container/heap-manager acceptor over
   every accepted event list (C05, C06, C17, C18, C03, C13). *)
From Coq Require Import Permutation Sorted.
From MPB Require Import Base BaseProofs BarState BarStateProofs Container.

(* ---------- association lists ---------- *)
Lemma lookup_update_same {A} k (v : A) m : lookup k (update k v m) = Some v.
Proof.
  induction m as [|[k' v'] m IH]; cbn; [rewrite Z.eqb_refl; reflexivity|].
  destruct (Z.eqb_spec k k'); cbn; [rewrite Z.eqb_refl; reflexivity|].
  destruct (Z.eqb_spec k k'); [contradiction|exact IH].
Qed.

Lemma lookup_update_other {A} k k2 (v : A) m : k2 <> k -> lookup k2 (update k v m) = lookup k2 m.
Proof.
  intros H. induction m as [|[k' v'] m IH]; cbn.
  - destruct (Z.eqb_spec k2 k); [contradiction|reflexivity].
  - destruct (Z.eqb_spec k k'); cbn.
    + subst. destruct (Z.eqb_spec k2 k'); [contradiction|reflexivity].
    + destruct (Z.eqb_spec k2 k'); [reflexivity|exact IH].
Qed.

Lemma lookup_update_known {A} k k2 (v : A) m : lookup k2 m <> None -> lookup k2 (update k v m) <> None.
Proof.
  intros H. destruct (Z.eq_dec k2 k) as [->|N]; [rewrite lookup_update_same; discriminate|].
  rewrite lookup_update_other by exact N. exact H.
Qed.

Lemma memZ_In k l : memZ k l = true <-> In k l.
Proof.
  induction l as [|x l IH]; cbn; [split; [discriminate|tauto]|].
  rewrite orb_true_iff, IH, Z.eqb_eq. split; intros [H|H]; auto.
Qed.

Lemma memZ_false k l : memZ k l = false <-> ~ In k l.
Proof. rewrite <- memZ_In. destruct (memZ k l); split; congruence. Qed.

Lemma removeZ_perm k l : In k l -> Permutation l (k :: removeZ k l).
Proof.
  induction l as [|x l IH]; cbn; [tauto|]. intros [->|H].
  - rewrite Z.eqb_refl. reflexivity.
  - destruct (Z.eqb_spec k x); [subst; reflexivity|].
    rewrite (IH H) at 1. apply perm_swap.
Qed.

Lemma update_keys_nodup {A} k (v : A) m : NoDup (map fst m) -> NoDup (map fst (update k v m)).
Proof.
  induction m as [|[k' v'] m IH]; cbn; intros H; [constructor; [tauto|constructor]|].
  inversion H as [|? ? Hn Hd]; subst.
  destruct (Z.eqb_spec k k'); cbn; [subst; constructor; assumption|].
  constructor; [|apply IH; assumption].
  intros Hin. apply Hn. clear - Hin n.
  induction m as [|[k2 v2] m IH]; cbn in *; [destruct Hin as [E|[]]; congruence|].
  destruct (Z.eqb_spec k k2); cbn in *; [destruct Hin as [E|Hin]; [congruence|auto]|].
  destruct Hin as [E|Hin]; auto.
Qed.

Lemma in_update_values {A} k (v : A) m x : In x (map snd (update k v m)) -> x = v \/ In x (map snd m).
Proof.
  induction m as [|[k' v'] m IH]; cbn; [intros [E|[]]; auto|].
  destruct (Z.eqb_spec k k'); cbn; intros [E|H]; auto. destruct (IH H); auto.
Qed.

Lemma update_values_nodup k (v : Z) m :
  NoDup (map snd m) -> ~ In v (map snd m) -> NoDup (map snd (update k v m)).
Proof.
  induction m as [|[k' v'] m IH]; cbn; intros H Hv; [constructor; [tauto|constructor]|].
  inversion H as [|? ? Hn Hd]; subst.
  destruct (Z.eqb_spec k k'); cbn.
  - constructor; [tauto|assumption].
  - constructor; [|apply IH; tauto].
    intros Hin. apply in_update_values in Hin as [E|Hin]; [subst; tauto|contradiction].
Qed.

Lemma remove_key_values {A} k (m : list (Z * A)) x : In x (map snd (remove_key k m)) -> In x (map snd m).
Proof.
  induction m as [|[k' v'] m IH]; cbn; [tauto|].
  destruct (Z.eqb_spec k k'); cbn; [auto|]. intros [E|H]; auto.
Qed.

Lemma remove_key_values_nodup k (m : list (Z * Z)) : NoDup (map snd m) -> NoDup (map snd (remove_key k m)).
Proof.
  induction m as [|[k' v'] m IH]; cbn; intros H; [constructor|].
  inversion H as [|? ? Hn Hd]; subst.
  destruct (Z.eqb_spec k k'); cbn; [auto|].
  constructor; [|auto]. intros Hin. apply Hn. eapply remove_key_values; eauto.
Qed.

Lemma remove_key_lookup_value k (m : list (Z * Z)) v :
  NoDup (map snd m) -> lookup k m = Some v -> ~ In v (map snd (remove_key k m)).
Proof.
  induction m as [|[k' v'] m IH]; cbn; [discriminate|]. intros H.
  inversion H as [|? ? Hn Hd]; subst.
  destruct (Z.eqb_spec k k'); cbn.
  - intros E; inversion E; subst. intros Hin. apply Hn. eapply remove_key_values; eauto.
  - intros E [E2|Hin]; [|eapply IH; eauto].
    subst v'. apply Hn. clear - E. induction m as [|[k2 v2] m IH]; cbn in *; [discriminate|].
    destruct (k =? k2); [inversion E; auto|auto].
Qed.

Lemma remove_key_keys_nodup {A} k (m : list (Z * A)) : NoDup (map fst m) -> NoDup (map fst (remove_key k m)).
Proof.
  induction m as [|[k' v'] m IH]; cbn; intros H; [constructor|].
  inversion H as [|? ? Hn Hd]; subst.
  destruct (Z.eqb_spec k k'); cbn; [auto|].
  constructor; [|auto]. intros Hin. apply Hn. clear - Hin.
  induction m as [|[k2 v2] m IH]; cbn in *; [tauto|].
  destruct (k =? k2); cbn in *; [auto|]. destruct Hin; auto.
Qed.

(* ---------- counting occurrences ---------- *)
Fixpoint cnt (x : Z) (l : list Z) : nat :=
  match l with [] => 0 | y :: r => (if Z.eqb x y then 1 else 0) + cnt x r end%nat.

Lemma cnt_app x a b : cnt x (a ++ b) = (cnt x a + cnt x b)%nat.
Proof. induction a as [|y a IH]; cbn; [reflexivity|]. rewrite IH. lia. Qed.

Lemma cnt_In x l : (0 < cnt x l)%nat <-> In x l.
Proof.
  induction l as [|y l IH]; cbn; [split; [lia|tauto]|].
  destruct (Z.eqb_spec x y); [subst; split; [auto|lia]|].
  rewrite <- IH. split; [intros H; right; lia|intros [E|H]; [congruence|lia]].
Qed.

Lemma cnt_le1_nodup l : (forall x, (cnt x l <= 1)%nat) -> NoDup l.
Proof.
  induction l as [|y l IH]; intros H; [constructor|]. constructor.
  - intros Hin. apply cnt_In in Hin. specialize (H y). cbn in H. rewrite Z.eqb_refl in H. lia.
  - apply IH. intros x. specialize (H x). cbn in H. lia.
Qed.

Lemma cnt_removeZ x k l : In k l -> (cnt x (removeZ k l) + (if Z.eqb x k then 1 else 0) = cnt x l)%nat.
Proof.
  induction l as [|y l IH]; cbn; [tauto|]. intros [->|H].
  - rewrite Z.eqb_refl. lia.
  - destruct (Z.eqb_spec k y); [subst; lia|]. cbn. rewrite <- (IH H). lia.
Qed.

Lemma cnt_update_values x k v (m : list (Z * Z)) :
  (cnt x (map snd (update k v m)) <= cnt x (map snd m) + (if Z.eqb x v then 1 else 0))%nat.
Proof.
  induction m as [|[k' v'] m IH]; cbn; [lia|].
  destruct (Z.eqb_spec k k'); cbn; lia.
Qed.

Lemma cnt_remove_key x k (m : list (Z * Z)) v :
  lookup k m = Some v ->
  (cnt x (map snd (remove_key k m)) + (if Z.eqb x v then 1 else 0) <= cnt x (map snd m))%nat.
Proof.
  induction m as [|[k' v'] m IH]; cbn; [discriminate|].
  destruct (Z.eqb_spec k k'); cbn.
  - intros E; inversion E; subst.
    assert (cnt x (map snd (remove_key k' m)) <= cnt x (map snd m))%nat; [|lia].
    clear. induction m as [|[k2 v2] m IH]; cbn; [lia|]. destruct (k' =? k2); cbn; lia.
  - intros E. specialize (IH E). lia.
Qed.

(* the bars parked behind b and the rest of the queue *)
Lemma cnt_successors x b (m : list (Z * Z)) :
  cnt x (map snd m) = (cnt x (successors b m) + cnt x (map snd (remove_key b m)))%nat.
Proof.
  induction m as [|[k v] m IH]; cbn [map snd successors remove_key cnt]; [reflexivity|].
  destruct (b =? k); cbn [map snd cnt]; lia.
Qed.

Lemma map_fst_pair (l : list Z) (y : bool) : map fst (map (fun qb : Z => (qb, y)) l) = l.
Proof. induction l as [|a l IH]; cbn; [reflexivity|]. rewrite IH. reflexivity. Qed.

Lemma promote_bars_known x qbs p : forall bs, lookup x bs <> None -> lookup x (promote_bars bs qbs p) <> None.
Proof.
  induction qbs as [|qb qbs IH]; intros bs L; cbn [promote_bars]; [exact L|].
  apply IH. destruct (lookup qb bs); [apply lookup_update_known; exact L|exact L].
Qed.

Lemma promote_bars_other x qbs p : forall bs, ~ In x qbs -> lookup x (promote_bars bs qbs p) = lookup x bs.
Proof.
  induction qbs as [|qb qbs IH]; intros bs N; cbn [promote_bars]; [reflexivity|].
  rewrite IH by (intros I; apply N; right; exact I).
  destruct (lookup qb bs); [|reflexivity]. apply lookup_update_other. intros ->. apply N. left. reflexivity.
Qed.

Lemma In_successors x b q : In x (successors b q) -> In x (map snd q).
Proof.
  induction q as [|[k v] q IH]; cbn [successors map snd]; [auto|].
  destruct (b =? k); [intros [->|I]; [left; reflexivity|right; auto]|intros I; right; auto].
Qed.

Lemma cnt_tl x l : (cnt x (tl l) <= cnt x l)%nat.
Proof. destruct l; cbn; lia. Qed.

(* ---------- where the bars are ---------- *)
Fixpoint fifo_pushes (f : list qreq) : list Z :=
  match f with
  | [] => []
  | QPush b _ :: r => b :: fifo_pushes r
  | _ :: r => fifo_pushes r
  end.
Definition ph_pushes (p : phase) : list Z :=
  match p with Rendering _ _ _ _ _ pu => map fst pu | _ => [] end.

(* every place a displayed or parked bar can be, and the bars gone for good *)
Definition places (s : cst) : list Z :=
  heap s ++ fifo_pushes (fifo s) ++ ph_pushes (ph s) ++ popped s ++ map snd (queue s) ++ retired s.

Lemma fifo_pushes_app a b : fifo_pushes (a ++ b) = fifo_pushes a ++ fifo_pushes b.
Proof. induction a as [|[] a IH]; cbn; rewrite ?IH; reflexivity. Qed.

Lemma fifo_pushes_map pu : fifo_pushes (map (fun p : Z * bool => QPush (fst p) (snd p)) pu) = map fst pu.
Proof. induction pu as [|[b y] pu IH]; cbn; [reflexivity|]. rewrite IH. reflexivity. Qed.

Lemma replace_last_op_pushes f by_ f' :
  replace_last_op f by_ = Some f' -> fifo_pushes f' = fifo_pushes f ++ fifo_pushes by_.
Proof.
  revert f'. induction f as [|q f IH]; cbn; [discriminate|]. intros f'.
  destruct q; try (destruct (replace_last_op f by_) eqn:E; [|discriminate]; intros H; inversion H; subst; cbn;
                   rewrite (IH _ eq_refl); reflexivity).
  destruct f as [|q2 f2].
  - intros H; inversion H; subst. reflexivity.
  - destruct (replace_last_op (q2 :: f2) by_) eqn:E; [|discriminate]. intros H; inversion H; subst. cbn [fifo_pushes].
    apply IH. reflexivity.
Qed.

Lemma fifo_pop_spec s want s' :
  fifo_pop s want = Some s' -> exists q rest, fifo s = q :: rest /\ want q = true /\ s' = cs_fifo s rest.
Proof.
  unfold fifo_pop. destruct (fifo s) as [|q rest]; [discriminate|].
  destruct (want q) eqn:W; [|discriminate]. intros E; inversion E; subst. eauto.
Qed.

Lemma is_push_spec b sy q : is_push b sy q = true -> q = QPush b sy.
Proof.
  destruct q; cbn; try discriminate. intros H. apply andb_prop in H as [H1 H2].
  apply Z.eqb_eq in H1. apply Bool.eqb_prop in H2. subst. reflexivity.
Qed.

Lemma is_q_not_push k q : is_q k q = true -> fifo_pushes [q] = [].
Proof. destruct q; cbn; try reflexivity. destruct k; discriminate. Qed.

(* ---------- case analysis on one step ---------- *)
Ltac break_step H :=
  unfold step, serving, idle_ph in H;
  repeat match type of H with
  | context [match ?x with _ => _ end] => destruct x eqn:?
  end; try discriminate; inversion H; subst; clear H.

Ltac use_fifo_pop :=
  repeat match goal with
  | H : fifo_pop ?s ?w = Some ?s' |- _ =>
      let q := fresh "q" in let rest := fresh "rest" in let Hf := fresh "Hf" in let Hw := fresh "Hw" in
      destruct (fifo_pop_spec _ _ _ H) as (q & rest & Hf & Hw & ->); clear H
  end.

(* ---------- C05: a bar is in at most one place, and a bar gone for good never comes back ---------- *)
Definition Uniq (s : cst) : Prop := forall x, (cnt x (places s) <= 1)%nat.
Definition Known (s : cst) : Prop := forall x, In x (places s) -> lookup x (bars s) <> None.

Lemma places_cnt s x :
  cnt x (places s) = (cnt x (heap s) + cnt x (fifo_pushes (fifo s)) + cnt x (ph_pushes (ph s)) + cnt x (popped s)
                      + cnt x (map snd (queue s)) + cnt x (retired s))%nat.
Proof. unfold places. rewrite !cnt_app. lia. Qed.

Lemma Uniq_init p a d : Uniq (init_cst p a d).
Proof. intros x. cbn. lia. Qed.

Lemma fresh_cnt s b x : Known s -> lookup b (bars s) = None -> x = b -> cnt x (places s) = 0%nat.
Proof.
  intros K L ->. destruct (cnt b (places s)) eqn:E; [reflexivity|].
  exfalso. apply (K b); [apply cnt_In; lia|exact L].
Qed.

Ltac simp_state :=
  cbn [bars heap fifo ph popped queue retired upd_bar cs_bars cs_heap cs_hsync cs_hlen cs_hdirty
    cs_iterating cs_popped cs_fifo cs_queue cs_pop_prio cs_id_count cs_ph cs_cwbuf cs_delayed cs_pend_writes cs_pend_fix
    cs_outframes cs_cancelled cs_done_seen cs_ended cs_errored cs_cycle_pops cs_cycle_flushed cs_iter_heap cs_iter_dirty
    cs_retired cs_ct_exited cs_wlog cs_cycle_err cs_out_pending cs_matrix cs_final_done cs_released cs_last_lazy cs_state_answer state_answer last_lazy promote released final_done matrix out_pending ph_pushes hsync hlen hdirty iterating pop_prio id_count pop_mode auto_mode cwbuf delayed pend_writes
    pend_fix outframes cancelled done_seen ended errored ct_exited wlog cycle_err cycle_pops cycle_flushed iter_heap iter_dirty] in *.

Ltac norm_places :=
  repeat match goal with
  | H : is_push _ _ ?q = true |- _ => apply is_push_spec in H; subst q
  | H : is_q _ ?q = true |- _ => destruct q; cbn in H; try discriminate H; clear H
  | H : negb _ = false |- _ => apply negb_false_iff in H
  | H : _ && _ = true |- _ => let A := fresh "Ha" in let B := fresh "Hb" in apply andb_prop in H as [A B]
  | H : (_ =? _) = true |- _ => apply Z.eqb_eq in H; subst
  | H : replace_last_op _ _ = Some _ |- _ => apply replace_last_op_pushes in H
  end;
  repeat match goal with
  | H : fifo ?s = _ |- _ => rewrite H in *; clear H
  | H : ph ?s = _ |- _ => rewrite H in *; clear H
  | H : popped ?s = _ :: _ |- _ => rewrite H in *; clear H
  | H : fifo_pushes ?l = _ |- _ => rewrite H in *; clear H
  end;
  simp_state;
  rewrite ?map_app, ?fifo_pushes_app, ?fifo_pushes_map, ?map_fst_pair, ?cnt_app in *;
  cbn [fifo_pushes cnt map fst snd tl app ph_pushes] in *;
  rewrite ?map_fst_pair in *.

Ltac split_popped :=
  repeat match goal with
  | H : context [match popped ?s with _ => _ end] |- _ =>
      let E := fresh "Epop" in destruct (popped s) eqn:E; cbn in H; try discriminate H
  end.

Ltac use_facts x :=
  repeat match goal with
  | H : memZ ?b (heap ?s) = true |- _ =>
      apply memZ_In in H; pose proof (cnt_removeZ x b (heap s) H); clear H
  | H : lookup ?b (queue ?s) = Some ?v |- _ =>
      pose proof (cnt_remove_key x b (queue s) v H); clear H
  | H : successors ?b (queue ?s) = _ |- _ =>
      let C := fresh "Csucc" in pose proof (cnt_successors x b (queue s)) as C; rewrite H in C; clear H; cbn [cnt] in C
  end.

Lemma step_Uniq s e s' : step s e = Some s' -> Known s -> Uniq s -> Uniq s'.
Proof.
  intros H K U x. pose proof (U x) as Ux. rewrite places_cnt in *.
  destruct e; break_step H; use_fifo_pop; simp_state; try lia; split_popped; norm_places; try lia; use_facts x; try lia.
  (* CT_ADD: pushed at once behind a released bar, parked, pushed *)
  all: match goal with L : lookup ?b0 (bars ?s0) = None |- _ =>
         destruct (Z.eqb_spec x b0) as [->|N]; [|lia]; pose proof (fresh_cnt s0 b0 b0 K L eq_refl) as F end.
  all: rewrite places_cnt in F; lia.
Qed.

Definition added (e : ev) (x : Z) : nat :=
  match e with CT_ADD b _ _ _ _ _ _ _ _ _ _ => if Z.eqb x b then 1 else 0 | _ => 0 end%nat.

Lemma step_places_mono s e s' x :
  step s e = Some s' -> (cnt x (places s') <= cnt x (places s) + added e x)%nat.
Proof.
  intros H. rewrite !places_cnt.
  destruct e; break_step H; use_fifo_pop; simp_state; cbn [added]; try lia; split_popped; norm_places; try lia;
    use_facts x; try lia.
Qed.

Lemma step_bars_mono s e s' x :
  step s e = Some s' -> lookup x (bars s) <> None -> lookup x (bars s') <> None.
Proof.
  intros H L.
  destruct e; break_step H; use_fifo_pop; simp_state; auto; try apply promote_bars_known; repeat apply lookup_update_known; auto.
Qed.

Lemma step_added_known s e s' x :
  step s e = Some s' -> added e x = 1%nat -> lookup x (bars s') <> None.
Proof.
  intros H A. destruct e; cbn in A; try discriminate.
  destruct (Z.eqb_spec x b); [subst|discriminate].
  break_step H; simp_state; rewrite lookup_update_same; discriminate.
Qed.

Lemma step_Known s e s' : step s e = Some s' -> Known s -> Known s'.
Proof.
  intros H K x Hin. apply cnt_In in Hin.
  pose proof (step_places_mono s e s' x H) as M.
  destruct (added e x) eqn:A.
  - eapply step_bars_mono; eauto. apply K. apply cnt_In. lia.
  - destruct n; [eapply step_added_known; eauto|].
    exfalso. destruct e; cbn in A; try discriminate. destruct (Z.eqb x b); discriminate.
Qed.

Lemma Known_init p a d : Known (init_cst p a d).
Proof. intros x H. cbn in H. contradiction. Qed.

Theorem reachable_Uniq_Known p a d evs s :
  run (init_cst p a d) evs = Some s -> Uniq s /\ Known s.
Proof.
  unfold run. generalize (Uniq_init p a d) (Known_init p a d). generalize (init_cst p a d).
  induction evs as [|e evs IH]; cbn; intros s0 U K H.
  - inversion H; subst; auto.
  - destruct (step s0 e) as [s1|] eqn:E; [|discriminate].
    apply (IH s1); auto; [eapply step_Uniq; eauto|eapply step_Known; eauto].
Qed.

(* ---------- the request queue between container and heap manager ---------- *)
Definition plain (q : qreq) : bool := match q with QSync | QIter => false | _ => true end.

(* shape of the queue: a cycle's sync and iter requests are the last two entries
   until the heap manager has taken them; nothing is sent behind them during the cycle *)
Definition QShape (s : cst) : Prop :=
  if rendering s
  then (exists pre, forallb plain pre = true /\ fifo s = pre ++ [QSync; QIter]) \/ fifo s = [QIter] \/ fifo s = []
  else forallb plain (fifo s) = true.

Lemma forallb_plain_replace f by_ f' :
  replace_last_op f by_ = Some f' -> forallb plain f = true -> forallb plain by_ = true -> forallb plain f' = true.
Proof.
  revert f'. induction f as [|q f IH]; cbn; [discriminate|]. intros f' H P B.
  apply andb_prop in P as [P1 P2].
  destruct q; try (destruct (replace_last_op f by_) eqn:E; [|discriminate]; inversion H; subst; cbn;
                   rewrite (IH _ eq_refl P2 B); reflexivity); try discriminate.
  destruct f as [|q2 f2]; [inversion H; subst; exact B|].
  destruct (replace_last_op (q2 :: f2) by_) eqn:E; [|discriminate]. inversion H; subst. cbn [forallb plain andb].
  apply IH; auto.
Qed.

Lemma forallb_plain_pushes (pu : list (Z * bool)) : forallb plain (map (fun p => QPush (fst p) (snd p)) pu) = true.
Proof. induction pu as [|[? ?] pu IH]; cbn; auto. Qed.

Lemma QShape_init p a d : QShape (init_cst p a d).
Proof. reflexivity. Qed.

Lemma QShape_same s s' : rendering s' = rendering s -> fifo s' = fifo s -> QShape s -> QShape s'.
Proof. unfold QShape. intros -> ->. auto. Qed.

Lemma QShape_pop s s' q rest :
  rendering s' = rendering s -> fifo s = q :: rest -> fifo s' = rest -> QShape s -> QShape s'.
Proof.
  unfold QShape. intros -> E ->. rewrite E. destruct (rendering s).
  - intros [(pre & P & F)|[F|F]]; try discriminate.
    + destruct pre as [|q0 pre]; cbn in F; inversion F; subst; [right; left; reflexivity|].
      left. exists pre. cbn in P. apply andb_prop in P as [_ P]. auto.
    + inversion F; subst. right; right; reflexivity.
  - cbn. intros H. apply andb_prop in H as [_ H]. exact H.
Qed.

Lemma is_idle_ph s : is_idle s = true -> ph s = Idle.
Proof. unfold is_idle. destruct (ph s); try discriminate. reflexivity. Qed.

Lemma rendering_ph s a b c d e f : ph s = Rendering a b c d e f -> rendering s = true.
Proof. unfold rendering. intros ->. reflexivity. Qed.

Ltac ph_facts :=
  repeat match goal with
  | H : is_idle ?s = true |- _ => apply is_idle_ph in H
  | H : _ && _ = true |- _ => let A := fresh "Ha" in let B := fresh "Hb" in apply andb_prop in H as [A B]
  end.

Lemma step_QShape s e s' : step s e = Some s' -> QShape s -> QShape s'.
Proof.
  intros H Q.
  destruct e; break_step H; use_fifo_pop;
    try (eapply QShape_pop; [| eassumption | reflexivity | exact Q]; reflexivity);
    try (eapply QShape_same; [| | exact Q]; reflexivity); ph_facts.
  all: unfold QShape, rendering in *; simp_state.
  all: repeat match goal with H : ph ?s = _ |- _ => rewrite H in *; clear H end.
  all: cbn [nil_b] in *.
  all: try (rewrite forallb_app; cbn; rewrite Q; reflexivity).
  all: try (eapply forallb_plain_replace; eauto; reflexivity).
  all: try (left; eexists; split; [exact Q|reflexivity]).
  all: try exact Q.
  all: repeat match goal with H : nil_b (fifo ?s0) = true |- _ => apply (fun l => match l as l0 return nil_b l0 = true -> l0 = [] with [] => fun _ => eq_refl | _ => fun E => ltac:(discriminate E) end) in H end.
  all: repeat match goal with H : fifo ?s0 = [] |- _ => rewrite H in *; clear H end.
  all: cbn [app]; try apply forallb_plain_pushes; auto.
Qed.

(* ---------- one render cycle ---------- *)
Definition in_window (s : cst) : bool := rendering s && nil_b (fifo s).

Record Cyc (s : cst) : Prop := {
  cyc_flush : cycle_flushed s ++ popped s = map fst (cycle_pops s);
  cyc_dirty : iterating s = true -> hdirty s = iter_dirty s;
  cyc_done : in_window s = true -> (iterating s = false <-> heap s = []);
  cyc_heap : in_window s = true ->
             forall x, cnt x (iter_heap s) = (cnt x (map fst (cycle_pops s)) + cnt x (heap s))%nat
}.

Lemma Cyc_init p a d : Cyc (init_cst p a d).
Proof. constructor; cbn; auto; try discriminate. Qed.

Lemma nil_b_true {A} (l : list A) : nil_b l = true -> l = [].
Proof. destruct l; [reflexivity|discriminate]. Qed.

Lemma map_fst_app_one (l : list (Z * Z)) b p : map fst (l ++ [(b, p)]) = map fst l ++ [b].
Proof. rewrite map_app. reflexivity. Qed.

Lemma QShape_window_pop s q rest :
  QShape s -> rendering s = true -> fifo s = q :: rest -> rest = [] -> q = QIter.
Proof.
  unfold QShape. intros Q I F ->. rewrite I, F in Q.
  destruct Q as [(pre & P & E)|[E|E]]; try discriminate.
  - exfalso. apply (f_equal (@length qreq)) in E. rewrite app_length in E. cbn in E. lia.
  - inversion E. reflexivity.
Qed.

(* a step that leaves the cycle bookkeeping alone and does not open the window *)
Lemma Cyc_frame s s' :
  cycle_flushed s' = cycle_flushed s -> popped s' = popped s -> cycle_pops s' = cycle_pops s ->
  iterating s' = iterating s -> (iterating s = true -> hdirty s' = hdirty s) -> iter_dirty s' = iter_dirty s ->
  (in_window s' = true -> in_window s = true /\ heap s' = heap s /\ iter_heap s' = iter_heap s) ->
  Cyc s -> Cyc s'.
Proof.
  intros E1 E2 E3 E4 E5 E6 W [C1 C2 C3 C4]. constructor.
  - rewrite E1, E2, E3. exact C1.
  - rewrite E4, E6. intros I. rewrite (E5 I). auto.
  - intros Hw. destruct (W Hw) as (W1 & W2 & W3). rewrite E4, W2. auto.
  - intros Hw. destruct (W Hw) as (W1 & W2 & W3). rewrite E3, W2, W3. auto.
Qed.

Lemma in_window_idle s : rendering s = false -> in_window s = false.
Proof. unfold in_window. intros ->. reflexivity. Qed.

Lemma in_window_fifo s q r : fifo s = q :: r -> in_window s = false.
Proof. unfold in_window. intros ->. apply andb_false_r. Qed.

Ltac window_closed :=
  let W := fresh "W" in intros W; exfalso; unfold in_window, rendering in W; simp_state;
  repeat match goal with H : ph ?s = _ |- _ => rewrite H in W end; cbn in W;
  rewrite ?andb_false_r in W; try discriminate W;
  try (match type of W with context [nil_b (?a ++ ?b)] => destruct a; cbn in W; rewrite ?andb_false_r in W; discriminate W end).

Ltac prep :=
  repeat match goal with
  | H : is_idle ?s = true |- _ => apply is_idle_ph in H
  | H : _ && _ = true |- _ => let A := fresh "Ha" in let B := fresh "Hb" in apply andb_prop in H as [A B]
  | H : negb _ = true |- _ => apply negb_true_iff in H
  | H : negb _ = false |- _ => apply negb_false_iff in H
  | H : _ || _ = false |- _ => let A := fresh "Ha" in let B := fresh "Hb" in apply orb_false_iff in H as [A B]
  end.

(* the heap manager took a request that is not the cycle's iter request: the window stays shut *)
Ltac win_contra Q :=
  let W := fresh "W" in intros W; exfalso; unfold in_window in W; simp_state;
  apply andb_prop in W as [W1 W2]; apply nil_b_true in W2;
  match goal with
  | Hf : fifo ?s = ?q :: ?rest |- _ =>
      pose proof (QShape_window_pop s q rest Q W1 Hf W2) as Eq; subst q
  end;
  match goal with
  | Hw : is_push _ _ QIter = true |- _ => discriminate Hw
  | Hw : is_q _ QIter = true |- _ => discriminate Hw
  end.

Lemma Cyc_flush s s' b rest :
  popped s = b :: rest -> popped s' = rest -> cycle_flushed s' = cycle_flushed s ++ [b] ->
  cycle_pops s' = cycle_pops s -> iterating s' = iterating s -> hdirty s' = hdirty s ->
  iter_dirty s' = iter_dirty s -> heap s' = heap s -> iter_heap s' = iter_heap s ->
  in_window s' = in_window s -> Cyc s -> Cyc s'.
Proof.
  intros P P' F E1 E2 E3 E4 E5 E6 W [C1 C2 C3 C4]. constructor.
  - rewrite F, P', E1, <- C1, P, <- app_assoc. reflexivity.
  - rewrite E2, E3, E4. exact C2.
  - rewrite W, E2, E5. exact C3.
  - rewrite W, E1, E5, E6. exact C4.
Qed.

Lemma Cyc_flush_close s s' b rest :
  popped s = b :: rest -> popped s' = rest -> cycle_flushed s' = cycle_flushed s ++ [b] ->
  cycle_pops s' = cycle_pops s -> iterating s' = iterating s -> hdirty s' = hdirty s ->
  iter_dirty s' = iter_dirty s -> in_window s' = false -> Cyc s -> Cyc s'.
Proof.
  intros P P' F E1 E2 E3 E4 W [C1 C2 C3 C4]. constructor.
  - rewrite F, P', E1, <- C1, P, <- app_assoc. reflexivity.
  - rewrite E2, E3, E4. exact C2.
  - rewrite W. discriminate.
  - rewrite W. discriminate.
Qed.

Lemma Cyc_pop s s' b p :
  In b (heap s) -> heap s' = removeZ b (heap s) -> popped s' = popped s ++ [b] ->
  cycle_pops s' = cycle_pops s ++ [(b, p)] -> cycle_flushed s' = cycle_flushed s ->
  iterating s' = negb (nil_b (heap s')) -> iterating s = true ->
  (iterating s' = true -> hdirty s' = hdirty s) ->
  iter_dirty s' = iter_dirty s -> iter_heap s' = iter_heap s -> in_window s' = in_window s ->
  Cyc s -> Cyc s'.
Proof.
  intros Hin Eh Ep Ec Ef Ei Is Ed E4 E6 W [C1 C2 C3 C4]. constructor.
  - rewrite Ef, Ep, Ec, map_fst_app_one, <- C1, app_assoc. reflexivity.
  - intros I. rewrite (Ed I), E4. auto.
  - intros _. rewrite Ei. destruct (heap s'); cbn; split; intros; congruence.
  - rewrite W. intros Hw x. rewrite Ec, map_fst_app_one, cnt_app, Eh, E6, (C4 Hw x). cbn [cnt].
    pose proof (cnt_removeZ x b (heap s) Hin). lia.
Qed.

Lemma step_Cyc s e s' : step s e = Some s' -> QShape s -> Cyc s -> Cyc s'.
Proof.
  intros H Q C.
  destruct e; break_step H; use_fifo_pop; try assumption; prep;
    try (apply (Cyc_frame s); simp_state; auto; fail);
    try (apply (Cyc_frame s); simp_state; auto; try congruence; window_closed; fail);
    try (apply (Cyc_frame s); simp_state; auto; try discriminate; try congruence; win_contra Q; fail).
  all: try (apply (Cyc_frame s); simp_state; auto;
            unfold in_window, rendering; simp_state; repeat match goal with H : ph _ = _ |- _ => rewrite H end; auto; fail).
  all: try (split_popped; prep;
            repeat match goal with H : (_ =? _) = true |- _ => apply Z.eqb_eq in H end; subst;
            eapply Cyc_flush; simp_state; try eassumption; try reflexivity;
            unfold in_window, rendering; simp_state;
            repeat match goal with H : ph _ = _ |- _ => rewrite H end; reflexivity).
  all: try (split_popped; prep;
            repeat match goal with H : (_ =? _) = true |- _ => apply Z.eqb_eq in H end; subst;
            eapply Cyc_flush_close; simp_state; try eassumption; try reflexivity;
            unfold in_window, rendering; simp_state; reflexivity).
  - (* HM_ITERREQ with ordered iteration: the window opens *)
    destruct C as [C1 C2 C3 C4]. constructor; simp_state; auto.
    intros _. destruct (heap s); cbn; split; intros; congruence.
  - (* HM_POP, last bar *)
    eapply (Cyc_pop s _ b prio); simp_state; try reflexivity; auto.
    + apply memZ_In; assumption.
    + match goal with H : nil_b _ = true |- _ => rewrite H end. reflexivity.
    + discriminate.
  - (* HM_POP *)
    eapply (Cyc_pop s _ b prio); simp_state; try reflexivity; auto.
    + apply memZ_In; assumption.
    + match goal with H : nil_b _ = false |- _ => rewrite H end. reflexivity.
Qed.

(* ---------- C06: pops come in non-increasing priority (rows are written in reverse pop order) ---------- *)
Definition prio_of (s : cst) (m : Z) : Z :=
  match lookup m (bars s) with Some r => br_prio r | None => 0 end.

Definition ge_rel (a b : Z) : Prop := b <= a.

Definition Srt (s : cst) : Prop :=
  iter_dirty s = false ->
  StronglySorted ge_rel (map snd (cycle_pops s)) /\
  (iterating s = true ->
   forall p, In p (map snd (cycle_pops s)) -> forall m, In m (heap s) -> prio_of s m <= p).

Lemma Srt_init p a d : Srt (init_cst p a d).
Proof. intros _. split; [constructor|]. intros _ q []. Qed.

Lemma sorted_snoc l x : StronglySorted ge_rel l -> (forall y, In y l -> x <= y) -> StronglySorted ge_rel (l ++ [x]).
Proof.
  induction l as [|a l IH]; cbn; intros S H; [repeat constructor|].
  inversion S as [|? ? S' F]; subst. constructor.
  - apply IH; auto.
  - apply Forall_app. split; [exact F|]. constructor; [|constructor]. apply H. auto.
Qed.

Lemma max_prio_spec bs members p :
  max_prio bs members p = true ->
  forall m, In m members -> match lookup m bs with Some r => br_prio r <= p | None => False end.
Proof.
  induction members as [|x ms IH]; cbn; [tauto|]. intros H m Hin.
  destruct (lookup x bs) as [rx|] eqn:Lx; [|discriminate]. apply andb_prop in H as [H1 H2].
  destruct Hin as [->|Hin]; [rewrite Lx; apply Z.leb_le; exact H1|apply IH; assumption].
Qed.

Lemma In_removeZ k x l : In x (removeZ k l) -> In x l.
Proof.
  induction l as [|y l IH]; cbn; [tauto|]. destruct (k =? y); [auto|]. intros [E|H]; auto.
Qed.

Lemma prio_of_upd_same s b r r' :
  lookup b (bars s) = Some r -> br_prio r' = br_prio r -> forall m, prio_of (upd_bar s b r') m = prio_of s m.
Proof.
  intros L E m. unfold prio_of, upd_bar. cbn [bars cs_bars].
  destruct (Z.eq_dec m b) as [->|N]; [rewrite lookup_update_same, L; exact E|].
  rewrite lookup_update_other by exact N. reflexivity.
Qed.

Lemma prio_of_upd_other s b r' m : m <> b -> prio_of (upd_bar s b r') m = prio_of s m.
Proof.
  intros N. unfold prio_of, upd_bar. cbn [bars cs_bars]. rewrite lookup_update_other by exact N. reflexivity.
Qed.

(* steps that leave the pops alone and, while an ordered iteration runs, the heap and its priorities *)
Lemma Srt_frame s s' :
  iter_dirty s' = iter_dirty s -> cycle_pops s' = cycle_pops s ->
  (iterating s' = true -> iterating s = true /\ heap s' = heap s /\
                          forall m, In m (heap s) -> prio_of s' m = prio_of s m) ->
  Srt s -> Srt s'.
Proof.
  intros E1 E2 E4 S D. rewrite E1 in D. destruct (S D) as [S1 S2]. rewrite E2. split; [exact S1|].
  intros I p Hp m Hm. destruct (E4 I) as (I' & Eh & Ep). rewrite Eh in Hm. rewrite (Ep m Hm). apply S2; auto.
Qed.

Lemma not_in_heap_popped s x : Uniq s -> In x (popped s) -> ~ In x (heap s).
Proof.
  intros U Hp Hh. specialize (U x). rewrite places_cnt in U.
  apply cnt_In in Hp. apply cnt_In in Hh. lia.
Qed.

Lemma not_in_heap_queued s a x : Uniq s -> lookup a (queue s) = Some x -> ~ In x (heap s).
Proof.
  intros U L Hh. specialize (U x). rewrite places_cnt in U.
  pose proof (cnt_remove_key x a (queue s) x L) as K. rewrite Z.eqb_refl in K.
  apply cnt_In in Hh. lia.
Qed.

Lemma not_in_heap_successor s b x : Uniq s -> In x (successors b (queue s)) -> ~ In x (heap s).
Proof.
  intros U L Hh. specialize (U x). rewrite places_cnt in U.
  apply In_successors in L. apply cnt_In in L. apply cnt_In in Hh. lia.
Qed.

Lemma bar_op_prio r c t f tr ab rmf sh r' : bar_op r c t f tr ab rmf sh = Some r' -> br_prio r' = br_prio r.
Proof.
  unfold bar_op. destruct (br_after_render r).
  - destruct (snap_matches _ _ _ _ _ _ _ _); intros E; inversion E; reflexivity.
  - destruct (br_pending r).
    + destruct (snap_matches _ _ _ _ _ _ _ _); intros E; inversion E; reflexivity.
    + destruct (snap_matches _ _ _ _ _ _ _ _); [intros E; inversion E; reflexivity|].
      destruct (snap_matches _ _ _ _ _ _ _ _); intros E; inversion E; reflexivity.
Qed.

Lemma bar_render_prio r c t f ab comp sh r' : bar_render r c t f ab comp sh = Some r' -> br_prio r' = br_prio r.
Proof.
  unfold bar_render. destruct (_ && _); [|discriminate].
  destruct (brender (br_st r)) as [s1 [k|]]; intros E; inversion E; reflexivity.
Qed.

Lemma Srt_bars s s' :
  iter_dirty s' = iter_dirty s -> cycle_pops s' = cycle_pops s -> iterating s' = iterating s ->
  heap s' = heap s -> (forall m, In m (heap s) -> prio_of s' m = prio_of s m) -> Srt s -> Srt s'.
Proof. intros E1 E2 E3 E4 E5. apply Srt_frame; auto. rewrite E3. auto. Qed.

Ltac srt_same s :=
  apply (Srt_frame s); simp_state; auto;
  intros; repeat split; auto.

Ltac srt_flush :=
  split_popped; repeat match goal with H : (_ =? _) = true |- _ => apply Z.eqb_eq in H end; subst;
  match goal with
  | Hp : popped ?s0 = ?b0 :: _, U : Uniq ?s0 |- _ =>
      apply (Srt_bars s0); simp_state; auto;
      let m := fresh "m" in let Hm := fresh "Hm" in
      intros m Hm; unfold prio_of; simp_state;
      assert (m <> b0) by (intros ->; eapply (not_in_heap_popped s0 b0); eauto; rewrite Hp; left; reflexivity);
      try match goal with
          | Hq : successors b0 (queue s0) = ?qs |- _ =>
              assert (~ In m qs) by (intros I; eapply (not_in_heap_successor s0 b0 m); eauto; rewrite Hq; exact I)
          end;
      rewrite ?promote_bars_other by assumption;
      rewrite ?lookup_update_other by assumption; reflexivity
  end.

Ltac srt_closure :=
  match goal with
  | U : Uniq ?s0 |- _ =>
      apply (Srt_bars s0); simp_state; auto; intros ? _; eapply prio_of_upd_same; eauto;
      first [eapply bar_op_prio; eauto | eapply bar_render_prio; eauto | reflexivity]
  end.

(* the heart of C06: the heap manager pops a maximal bar, so priorities come out non-increasing *)
Lemma srt_pop s b prio r it dirty' :
  Cyc s -> Srt s -> lookup b (bars s) = Some r -> iterating s = true -> memZ b (heap s) = true ->
  (br_prio r =? prio) = true -> hdirty s || max_prio (bars s) (heap s) prio = true ->
  Srt (cs_iterating (cs_hdirty (cs_cycle_pops (cs_popped (cs_heap s (removeZ b (heap s))) (popped s ++ [b]))
                                              (cycle_pops s ++ [(b, prio)])) dirty') it).
Proof.
  intros C S L I M P X D. simp_state.
  destruct (S D) as [S1 S2]. specialize (S2 I).
  apply Z.eqb_eq in P. apply memZ_In in M.
  assert (Hd : hdirty s = false) by (rewrite (cyc_dirty s C I); exact D).
  rewrite Hd in X. cbn in X. pose proof (max_prio_spec _ _ _ X) as MX.
  rewrite map_app. cbn [map snd]. split.
  - apply sorted_snoc; [exact S1|]. intros q Hq.
    specialize (S2 q Hq b M). unfold prio_of in S2. rewrite L in S2. lia.
  - intros _ q Hq m Hm. apply In_removeZ in Hm.
    assert (Ep : prio_of (cs_iterating (cs_hdirty (cs_cycle_pops (cs_popped (cs_heap s (removeZ b (heap s))) (popped s ++ [b]))
                                              (cycle_pops s ++ [(b, prio)])) dirty') it) m = prio_of s m) by reflexivity.
    rewrite Ep. apply in_app_or in Hq as [Hq|[<-|[]]]; [apply S2; auto|].
    specialize (MX m Hm). unfold prio_of. destruct (lookup m (bars s)); [exact MX|contradiction].
Qed.

Lemma step_Srt s e s' : step s e = Some s' -> Known s -> Uniq s -> Cyc s -> Srt s -> Srt s'.
Proof.
  intros H K U C S.
  destruct e; break_step H; use_fifo_pop; try assumption;
    try (srt_same s; fail); prep; try (srt_same s; try congruence; fail);
    try (srt_flush; fail); try (srt_closure; fail).
  1-3: (* CT_ADD: pushed behind a released bar, parked, pushed *)
    apply (Srt_bars s); simp_state; auto; intros m Hm;
    assert (m <> b) by (intros ->; apply (K b); [unfold places; apply in_or_app; auto|assumption]);
    unfold prio_of; simp_state; rewrite !lookup_update_other by assumption; reflexivity.
  - (* HM_ITERREQ, ordered: a fresh iteration *)
    intros D. simp_state. split; [constructor|]. intros _ p [].
  - (* HM_POP, last bar *) eapply srt_pop; eauto.
  - (* HM_POP *) eapply srt_pop; eauto.
  (* BAR_RENDER (with and without the render-time abort mark) *)
  - apply (Srt_bars s); simp_state; auto; intros m _; eapply prio_of_upd_same; eauto;
       match goal with Hr : bar_render _ _ _ _ _ _ _ = Some _ |- _ => rewrite (bar_render_prio _ _ _ _ _ _ _ _ Hr) end;
       try reflexivity; match goal with |- context [if ?c then _ else _] => destruct c end; reflexivity.
Qed.

(* ---------- all invariants, for every accepted event list ---------- *)
Record Inv (s : cst) : Prop := {
  inv_uniq : Uniq s; inv_known : Known s; inv_qshape : QShape s; inv_cyc : Cyc s; inv_srt : Srt s
}.

Lemma Inv_init p a d : Inv (init_cst p a d).
Proof. constructor; [apply Uniq_init|apply Known_init|apply QShape_init|apply Cyc_init|apply Srt_init]. Qed.

Lemma step_Inv s e s' : step s e = Some s' -> Inv s -> Inv s'.
Proof.
  intros H [U K Q C S]. constructor.
  - eapply step_Uniq; eauto.
  - eapply step_Known; eauto.
  - eapply step_QShape; eauto.
  - eapply step_Cyc; eauto.
  - eapply step_Srt; eauto.
Qed.

Theorem reachable_Inv p a d evs s : run (init_cst p a d) evs = Some s -> Inv s.
Proof.
  unfold run. generalize (Inv_init p a d). generalize (init_cst p a d).
  induction evs as [|e evs IH]; cbn; intros s0 I H.
  - inversion H; subst; exact I.
  - destruct (step s0 e) as [s1|] eqn:E; [|discriminate].
    apply (IH s1); auto. eapply step_Inv; eauto.
Qed.

(* C05: a bar is never in two places, and never returns once it left for good *)
Theorem places_nodup p a d evs s : run (init_cst p a d) evs = Some s -> NoDup (places s).
Proof. intros H. apply cnt_le1_nodup. apply (inv_uniq s (reachable_Inv _ _ _ _ _ H)). Qed.

(* C05: when a frame is written, the bars flushed in that cycle are exactly the bars that
   were in the heap when the ordered iteration began, each once *)
Theorem frame_bars_are_iter_heap p a d evs s n pc s' :
  run (init_cst p a d) evs = Some s -> step s (CT_FRAME n pc) = Some s' ->
  forall x, cnt x (cycle_flushed s) = cnt x (iter_heap s).
Proof.
  intros R H x. destruct (reachable_Inv _ _ _ _ _ R) as [U K Q C S].
  unfold step in H. destruct (ph s) eqn:P; [discriminate| |discriminate].
  destruct (_ && _) eqn:G in H; [|discriminate]. prep.
  match goal with Hx : nil_b (fifo s) = true |- _ => apply nil_b_true in Hx; rename Hx into Ff end.
  match goal with Hx : nil_b (popped s) = true |- _ => apply nil_b_true in Hx; rename Hx into Fp end.
  assert (W : in_window s = true) by (unfold in_window, rendering; rewrite P, Ff; reflexivity).
  pose proof (cyc_heap s C W x) as E. pose proof (cyc_flush s C) as F. rewrite Fp, app_nil_r in F.
  assert (Hh : heap s = []) by (apply (cyc_done s C W); assumption).
  rewrite Hh in E. cbn in E. rewrite <- F in E. lia.
Qed.

(* C06: within a cycle that began with a clean heap, bars are popped in non-increasing priority,
   i.e. the rows (written in reverse pop order) go top to bottom in non-decreasing priority *)
Theorem pops_sorted p a d evs s :
  run (init_cst p a d) evs = Some s -> iter_dirty s = false ->
  StronglySorted ge_rel (map snd (cycle_pops s)).
Proof. intros R D. destruct (inv_srt s (reachable_Inv _ _ _ _ _ R) D) as [S _]. exact S. Qed.

(* C06: flush receives bars in pop order *)
Theorem flush_in_pop_order p a d evs s :
  run (init_cst p a d) evs = Some s -> cycle_flushed s ++ popped s = map fst (cycle_pops s).
Proof. intros R. exact (cyc_flush s (inv_cyc s (reachable_Inv _ _ _ _ _ R))). Qed.

(* ---------- C06 / C17 / C18: what one flush does to the flushed bar ---------- *)
Lemma fix_dirty s b p lazy idx hl s' :
  step s (HM_FIX b p lazy idx hl) = Some s' -> 0 <= idx ->
  hdirty s' = (if lazy then true else hdirty s && negb (eqo (last_lazy s) (Some b))) /\ prio_of s' b = p /\
  last_lazy s' = (if lazy && negb (hdirty s) then Some b else None).
Proof.
  intros H I. break_step H; use_fifo_pop; prep; simp_state; try lia.
  all: repeat split; try reflexivity; try (unfold prio_of; simp_state; rewrite lookup_update_same; reflexivity).
  all: match goal with Hd : hdirty _ = _ |- _ => rewrite Hd; reflexivity end.
Qed.

Lemma iterreq_records_dirty s hl s' :
  step s (HM_ITERREQ true hl) = Some s' -> iter_dirty s' = hdirty s /\ cycle_pops s' = [] /\ iter_heap s' = heap s.
Proof. intros H. break_step H; use_fifo_pop; simp_state. auto. Qed.

Lemma last_pop_cleans s b p s' :
  step s (HM_POP b p) = Some s' -> heap s' = [] -> hdirty s' = false /\ iterating s' = false.
Proof.
  intros H E. break_step H; simp_state; auto.
  rewrite E in *. discriminate.
Qed.

