(* PQueue.v — the heap manager's priority queue: priority_queue.go (Len, Less, Swap, Push,
   Pop on a slice of bars, with the index bookkeeping) under container/heap's algorithms
   (Push, Pop, Fix, up, down — transcribed from the Go standard library).  Executable;
   proofs in PQueueProofs.v; tied to the code by the differential family "pq". *)
From MPB Require Import Base.

Definition elt := (Z * Z)%type.            (* bar, priority *)
Definition dflt : elt := (0, 0).
Definition get (a : list elt) (i : nat) : elt := nth i a dflt.
Definition pr (a : list elt) (i : nat) : Z := snd (get a i).

Fixpoint set (a : list elt) (i : nat) (x : elt) : list elt :=
  match a, i with
  | [], _ => []
  | _ :: r, O => x :: r
  | y :: r, S k => y :: set r k x
  end.

(* the bars' index fields: bar -> index; 0 for a bar never pushed (Go's zero value), -1 once popped *)
Definition imap := Z -> Z.
Definition iset (m : imap) (b : Z) (v : Z) : imap := fun x => if x =? b then v else m x.

Record pq := mkPQ { arr : list elt; idx : imap }.

(* priorityQueue.Less(i, j): greater priority pops first *)
Definition less (a : list elt) (i j : nat) : bool := pr a j <? pr a i.

(* priorityQueue.Swap *)
Definition swap (q : pq) (i j : nat) : pq :=
  let a := arr q in
  let a' := set (set a i (get a j)) j (get a i) in
  mkPQ a' (iset (iset (idx q) (fst (get a' i)) (Z.of_nat i)) (fst (get a' j)) (Z.of_nat j)).

Definition parent (j : nat) : nat := (j - 1) / 2.

(* heap.up *)
Fixpoint up (fuel : nat) (q : pq) (j : nat) : pq :=
  match fuel with
  | O => q
  | S f =>
      let i := parent j in
      if Nat.eqb i j || negb (less (arr q) j i) then q else up f (swap q i j) i
  end.

(* heap.down: returns the queue and the final position (Go returns i > i0) *)
Fixpoint down (fuel : nat) (q : pq) (i n : nat) : pq * nat :=
  match fuel with
  | O => (q, i)
  | S f =>
      let j1 := (2 * i + 1)%nat in
      if (n <=? j1)%nat then (q, i) else
      let j := if ((j1 + 1 <? n)%nat && less (arr q) (j1 + 1) j1) then (j1 + 1)%nat else j1 in
      if negb (less (arr q) j i) then (q, i) else down f (swap q i j) j n
  end.

(* heap.Push = priorityQueue.Push then up *)
Definition push (q : pq) (x : elt) : pq :=
  let n := length (arr q) in
  up (S n) (mkPQ (arr q ++ [x]) (iset (idx q) (fst x) (Z.of_nat n))) n.

(* heap.Pop = Swap(0, n); down(0, n); priorityQueue.Pop *)
Definition pop (q : pq) : option (elt * pq) :=
  match arr q with
  | [] => None
  | _ =>
      let n := (length (arr q) - 1)%nat in
      let q1 := swap q 0 n in
      let q2 := fst (down (length (arr q)) q1 0 n) in
      let x := get (arr q2) n in
      Some (x, mkPQ (firstn n (arr q2)) (iset (idx q2) (fst x) (-1)))
  end.

(* heap.Fix *)
Definition fix_at (q : pq) (i : nat) : pq :=
  let n := length (arr q) in
  let '(q1, i1) := down n q i n in
  if (i <? i1)%nat then q1 else up (S n) q i.

(* heap manager, h_fix: bar.priority = p; if !lazy { heap.Fix(&bHeap, bar.index) } — for a bar whose index is >= 0 *)
Definition set_priority (q : pq) (i : nat) (p : Z) : pq :=
  mkPQ (set (arr q) i (fst (get (arr q) i), p)) (idx q).

Definition init_pq : pq := mkPQ [] (fun _ => 0).

(* ---------- the heap manager's use of the queue ---------- *)
Inductive qop :=
| QOPush (b p : Z)                 (* h_push *)
| QOPop                            (* one step of the ordered iteration *)
| QOFix (b p : Z) (lazy : bool).   (* h_fix: ignored when the bar's index is negative *)

Fixpoint find_pos (a : list elt) (b : Z) (k : nat) : option nat :=
  match a with
  | [] => None
  | (b', _) :: r => if b =? b' then Some k else find_pos r b (S k)
  end.

Definition qstep (q : pq) (o : qop) : pq * option elt :=
  match o with
  | QOPush b p => (push q (b, p), None)
  | QOPop => match pop q with Some (x, q') => (q', Some x) | None => (q, None) end
  | QOFix b p lazy =>
      let i := idx q b in
      if i <? 0 then (q, None) else
      (* bar.priority = p: the bar's own field; it is in the slice iff it sits at its index *)
      let q1 := match find_pos (arr q) b 0 with Some k => set_priority q k p | None => q end in
      if lazy then (q1, None) else (fix_at q1 (Z.to_nat i), None)
  end.

Fixpoint qrun (q : pq) (ops : list qop) : pq * list elt :=
  match ops with
  | [] => (q, [])
  | o :: r => let '(q1, out) := qstep q o in let '(q2, outs) := qrun q1 r in
              (q2, match out with Some x => x :: outs | None => outs end)
  end.
