(* ContainerMeasure.v — a render cycle ends (C01): inside a cycle every step of the heap manager,
   of flush and of a bar's render strictly decreases a measure, so a cycle consists of boundedly
   many such steps; with ContainerProgress.cycle_progress (some step is always enabled) a cycle
   that is scheduled fairly reaches its end.  Client calls may add work (pending closures). *)
From MPB Require Import Base BaseProofs BarState Container ContainerProofs ContainerLife ContainerProgress.

(* sums over the bars *)
Fixpoint sumb (f : brec -> nat) (m : list (Z * brec)) : nat :=
  match m with [] => 0 | (_, r) :: t => f r + sumb f t end.

Lemma sumb_update f b r r' m : lookup b m = Some r -> (sumb f (update b r' m) + f r = sumb f m + f r')%nat.
Proof.
  induction m as [|[k v] m IH]; cbn [lookup update sumb]; [discriminate|].
  destruct (Z.eqb_spec b k) as [->|N].
  - intros E; inversion E; subst. cbn [sumb]. lia.
  - intros E. specialize (IH E). cbn [sumb]. lia.
Qed.

Definition w_frame (r : brec) : nat := match br_frame r with None => 2 | Some _ => 0 end.
Definition w_work (r : brec) : nat := length (br_pending r) + (if br_after_render r then 1 else 0) + (if exited (br_st r) then 0 else 1).

(* what is left to do in the cycle *)
Definition mu (s : cst) : nat :=
  5 * length (fifo s) + 4 * length (heap s) + 3 * length (popped s) + sumb w_frame (bars s) + sumb w_work (bars s).

(* the steps of a cycle *)
Definition cycle_step (e : ev) : bool :=
  match e with
  | HM_PUSH _ _ _ _ _ | HM_SYNC _ _ _ | HM_ITERREQ _ _ | HM_FIX _ _ _ _ _ | HM_POP _ _
  | BAR_RENDER _ _ _ _ _ _ _ | CT_FLUSHBAR _ _ _ _ _ _ | BAR_EXIT _ _ _ _ => true
  | _ => false
  end.

Lemma removeZ_length k l : In k l -> length l = S (length (removeZ k l)).
Proof.
  induction l as [|x l IH]; cbn; [tauto|]. intros [->|H].
  - rewrite Z.eqb_refl. reflexivity.
  - destruct (Z.eqb_spec k x); [reflexivity|]. cbn. rewrite (IH H). reflexivity.
Qed.

Lemma bar_render_weights r c t f ab comp sh r' :
  bar_render r c t f ab comp sh = Some r' ->
  br_frame r = None /\ (exists fi, br_frame r' = Some fi) /\ br_pending r' = br_pending r /\
  exited (br_st r') = exited (br_st r) /\ br_after_render r' = negb (exited (br_st r)).
Proof.
  unfold bar_render. destruct (_ && _) eqn:G; [|discriminate].
  apply andb_prop in G as [_ G]. destruct (br_frame r) eqn:Fr; [discriminate|].
  unfold brender. destruct (terminal (br_st r)); intros E; inversion E; subst; cbn; repeat split; eauto.
Qed.

Lemma update_update_same {A} k (x y : A) m : update k x (update k y m) = update k x m.
Proof.
  induction m as [|[k' v] m IH]; cbn; [rewrite Z.eqb_refl; reflexivity|].
  destruct (Z.eqb_spec k k'); cbn; [rewrite Z.eqb_refl; reflexivity|].
  destruct (Z.eqb_spec k k'); [contradiction|]. rewrite IH. reflexivity.
Qed.

Lemma sumb_promote f qbs p : (forall r, f (set_prio r p) = f r) -> forall bs, sumb f (promote_bars bs qbs p) = sumb f bs.
Proof.
  intros Hf. induction qbs as [|q qbs IH]; intros bs; cbn [promote_bars]; [reflexivity|].
  rewrite IH. destruct (lookup q bs) as [rq|] eqn:L; [|reflexivity].
  pose proof (sumb_update f q rq (set_prio rq p) bs L) as E. rewrite Hf in E. lia.
Qed.

Ltac sum_facts :=
  repeat match goal with
  | L : lookup ?b (bars ?s0) = Some ?r |- context [sumb ?f (update ?b ?r' (bars ?s0))] =>
      let F := fresh "F" in pose proof (sumb_update f b r r' (bars s0) L) as F;
      generalize dependent (sumb f (update b r' (bars s0))); intros
  end.

Theorem cycle_step_decreases s e s' :
  cycle_step e = true -> step s e = Some s' -> rendering s = true -> rendering s' = true -> (mu s' < mu s)%nat.
Proof.
  intros C H R R'.
  destruct e; try discriminate C; clear C; break_step H; use_fifo_pop; unfold mu; simp_state.
  (* CT_FLUSHBAR releasing parked bars: only priorities change *)
  all: rewrite ?sumb_promote by (intros; reflexivity).
  all: repeat match goal with
    | Hi : _ && _ = true |- _ => apply andb_prop in Hi as [? ?]
    | Hi : negb _ = true |- _ => apply negb_true_iff in Hi
    | Hi : negb _ = false |- _ => apply negb_false_iff in Hi
    | Hf : fifo ?s0 = _ :: _ |- _ => rewrite Hf in *; clear Hf
    end; cbn [length] in *.
  all: try lia.
  all: try (unfold rendering in R'; simp_state; discriminate R').
  all: split_popped; cbn [tl length] in *.
  all: sum_facts.
  all: unfold w_frame, w_work in *; cbn [br_frame br_pending br_after_render br_st set_frame set_st set_prio set_pending set_after_render
                                        exited set_cancelled length] in *.
  all: repeat match goal with Hf : br_frame ?r = _ |- _ => rewrite Hf in * end.
  all: try lia.
  all: try (match goal with Hm : memZ ?b (heap ?s0) = true |- _ => apply memZ_In in Hm; pose proof (removeZ_length b (heap s0) Hm) end;
            rewrite ?app_length; cbn [length]; lia).
  (* BAR_RENDER *)
  all: try (match goal with Hr : bar_render ?r1 _ _ _ _ _ _ = Some ?b1 |- _ =>
              destruct (bar_render_weights _ _ _ _ _ _ _ _ Hr) as (W1 & (fi & W2) & W3 & W4 & W5);
              rewrite W2, W3, W4, W5 in *;
              match type of W1 with context [if ?c then _ else _] => destruct c end;
              cbn [br_frame br_pending br_after_render br_st set_st exited] in *; rewrite ?W1 in *;
              destruct (exited (br_st _)), (br_after_render _); cbn [negb] in *; lia end).
  (* BAR_EXIT *)
  all: match goal with He : bev_step ?st Exit = Some ?b1, Lr : lookup _ (bars _) = Some ?r0 |- _ =>
         assert (Ex : exited st = false /\ exited b1 = true) by
           (cbn [bev_step] in He; destruct (BarState.cancelled st && negb (exited st)) eqn:G; [|discriminate He];
            apply andb_prop in G as [_ G]; apply negb_true_iff in G; inversion He; subst; split; [exact G|reflexivity]);
         destruct Ex as [Ex1 Ex2]; rewrite Ex2 in *;
         assert (Ex0 : exited (br_st r0) = false) by (destruct (cancelled _); exact Ex1);
         rewrite Ex0 in *; lia end.
Qed.

Lemma bapply_exited st o : exited (fst (bapply st o)) = exited st.
Proof.
  destruct o; cbn [bapply fst]; unfold clamp, trigger, set_trig, set_current, set_total, set_refill, set_abort, set_cancelled, bump_early;
    repeat match goal with |- context [if ?c then _ else _] => destruct c end; reflexivity.
Qed.

Lemma bar_op_weights r c t f tr ab rmf sh r' : bar_op r c t f tr ab rmf sh = Some r' ->
  br_frame r' = br_frame r /\ (w_work r' <= w_work r)%nat.
Proof.
  unfold bar_op, w_work. destruct (br_after_render r) eqn:AR.
  - destruct (snap_matches _ _ _ _ _ _ _ _); [|discriminate]. intros E; inversion E; subst; cbn. split; [reflexivity|lia].
  - destruct (br_pending r) as [|o rest] eqn:P.
    + destruct (snap_matches _ _ _ _ _ _ _ _); [|discriminate]. intros E; inversion E; subst. rewrite AR, P. split; [reflexivity|lia].
    + destruct (snap_matches (fst (bapply (br_st r) o)) _ _ _ _ _ _ _).
      * intros E; inversion E; subst; cbn. rewrite AR, bapply_exited. split; [reflexivity|lia].
      * destruct (snap_matches (br_st r) _ _ _ _ _ _ _); [|discriminate]. intros E; inversion E; subst. rewrite AR, P. split; [reflexivity|cbn; lia].
Qed.

(* a cycle consists of at most [mu] steps of the heap manager, flush, the bars' renders and exits: along any run
   that stays inside the cycle, the number of such steps plus what is left never exceeds what was left at the start,
   as long as the client adds no work *)
Definition adds_work (e : ev) : bool := match e with CL_OP _ _ => true | _ => false end.

Lemma step_mu_other s e s' : step s e = Some s' -> rendering s = true -> rendering s' = true ->
  cycle_step e = false -> adds_work e = false -> (mu s' <= mu s)%nat.
Proof.
  intros H R R' C A.
  destruct e; try discriminate C; try discriminate A; break_step H; use_fifo_pop; unfold mu; simp_state; try lia.
  all: try (unfold rendering in *; simp_state; repeat match goal with E : ph _ = _ |- _ => rewrite E in * end;
            repeat match goal with Hi : is_idle _ = true |- _ => apply is_idle_facts in Hi; destruct Hi as (Hi & _ & _); rewrite Hi in * end;
            repeat match goal with Hi : _ && _ = true |- _ => apply andb_prop in Hi as [? ?] end;
            repeat match goal with Hi : is_idle _ = true |- _ => apply is_idle_facts in Hi; destruct Hi as (Hi & _ & _); rewrite Hi in * end;
            discriminate).
  - (* BAR_OP *)
    match goal with Hb : bar_op _ _ _ _ _ _ _ _ = Some _ |- _ => destruct (bar_op_weights _ _ _ _ _ _ _ _ _ Hb) as [W1 W2] end.
    sum_facts. unfold w_frame in *. rewrite W1 in *. lia.
  - (* BAR_DRAWERR on a terminal bar *)
    sum_facts. unfold w_frame, w_work in *. cbn [br_frame br_pending br_after_render br_st set_frame set_st exited] in *.
    repeat match goal with Hf : br_frame ?r = _ |- _ => rewrite Hf in * end. lia.
  - sum_facts. unfold w_frame, w_work in *. cbn [br_frame br_pending br_after_render br_st set_frame set_st exited] in *.
    repeat match goal with Hf : br_frame ?r = _ |- _ => rewrite Hf in * end. lia.
Qed.

(* a run that stays inside the cycle *)
Fixpoint run_in_cycle (s : cst) (evs : list ev) : option cst :=
  match evs with
  | [] => Some s
  | e :: r => match step s e with
              | Some s' => if rendering s' then run_in_cycle s' r else None
              | None => None
              end
  end.

Theorem cycle_bounded evs : forall s s',
  rendering s = true -> forallb (fun e => negb (adds_work e)) evs = true -> run_in_cycle s evs = Some s' ->
  (length (filter cycle_step evs) + mu s' <= mu s)%nat.
Proof.
  induction evs as [|e evs IH]; intros s s' R A H; cbn [run_in_cycle filter length forallb] in *.
  - inversion H; subst. lia.
  - apply andb_prop in A as [Ae A]. apply negb_true_iff in Ae.
    destruct (step s e) as [s1|] eqn:E; [|discriminate]. destruct (rendering s1) eqn:R1; [|discriminate].
    specialize (IH s1 s' R1 A H). destruct (cycle_step e) eqn:C; cbn [length].
    + pose proof (cycle_step_decreases s e s1 C E R R1). lia.
    + pose proof (step_mu_other s e s1 E R R1 C Ae). lia.
Qed.
