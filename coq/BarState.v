(* BarState.v — the bar actor's state machine, transcribed from bar.go.
   Every definition is executable; proofs live in BarStateProofs.v.

   bar.go line references are to the pinned tree (+ "fix:" commits).        *)
From MPB Require Import Base.

Record bst := mkB {
  total     : Z;      (* bState.total   (int64) *)
  current   : Z;      (* bState.current (int64) *)
  refill    : Z;      (* bState.refill  (int64) *)
  trig      : bool;   (* bState.triggerComplete *)
  aborted   : bool;   (* bState.aborted *)
  rm        : bool;   (* bState.rmOnComplete *)
  nopop     : bool;   (* bState.noPop *)
  auto      : bool;   (* bState.autoRefresh (copied from the container at creation) *)
  shutdown  : Z;      (* bState.shutdown: terminal renders so far *)
  cancelled : bool;   (* the bar's ctx is done *)
  exited    : bool;   (* Bar.serve has returned: state published, bsOk closed *)
  early     : Z       (* early-refresh goroutines spawned so far *)
}.

(* progress.go makeBarState: triggerComplete := total > 0 *)
Definition binit (tot : Z) (autoRefresh rmOnComplete noPop : bool) : bst :=
  mkB tot 0 0 (0 <? tot) false rmOnComplete noPop autoRefresh 0 false false 0.

(* bar.go  func (s bState) completed(): an aborted bar is not completed *)
Definition completed (s : bst) : bool :=
  negb (aborted s) && (trig s && (current s =? total s)).

Definition terminal (s : bst) : bool := aborted s || completed s.

Definition set_current (s : bst) (c : Z) : bst :=
  mkB (total s) c (refill s) (trig s) (aborted s) (rm s) (nopop s) (auto s)
      (shutdown s) (cancelled s) (exited s) (early s).
Definition set_total (s : bst) (t : Z) : bst :=
  mkB t (current s) (refill s) (trig s) (aborted s) (rm s) (nopop s) (auto s)
      (shutdown s) (cancelled s) (exited s) (early s).
Definition set_refill (s : bst) (r : Z) : bst :=
  mkB (total s) (current s) r (trig s) (aborted s) (rm s) (nopop s) (auto s)
      (shutdown s) (cancelled s) (exited s) (early s).
Definition set_trig (s : bst) : bst :=
  mkB (total s) (current s) (refill s) true (aborted s) (rm s) (nopop s) (auto s)
      (shutdown s) (cancelled s) (exited s) (early s).
Definition set_abort (s : bst) (drop : bool) : bst :=
  mkB (total s) (current s) (refill s) (trig s) true drop (nopop s) (auto s)
      (shutdown s) (cancelled s) (exited s) (early s).
Definition set_cancelled (s : bst) : bst :=
  mkB (total s) (current s) (refill s) (trig s) (aborted s) (rm s) (nopop s) (auto s)
      (shutdown s) true (exited s) (early s).
Definition bump_shutdown (s : bst) : bst :=
  mkB (total s) (current s) (refill s) (trig s) (aborted s) (rm s) (nopop s) (auto s)
      (shutdown s + 1) (cancelled s) (exited s) (early s).
Definition bump_early (s : bst) : bst :=
  mkB (total s) (current s) (refill s) (trig s) (aborted s) (rm s) (nopop s) (auto s)
      (shutdown s) (cancelled s) (exited s) (early s + 1).

(* bar.go triggerCompletion: set the flag; auto-refresh ⇒ spawn an early-refresh
   goroutine, otherwise cancel the bar's own context *)
Definition trigger (s : bst) : bst :=
  let s := set_trig s in
  if auto s then bump_early s else set_cancelled s.

(* the clamp-and-trigger block repeated in every increment/set path *)
Definition clamp (s : bst) : bst :=
  if trig s && (total s <=? current s) then trigger (set_current s (total s)) else s.

Inductive bop :=
| IncrInt64 (n : Z)                 (* also Increment, IncrBy *)
| SetCurrent (c : Z)
| EwmaIncrInt64 (n d : Z)           (* also EwmaIncrement, EwmaIncrBy *)
| EwmaSetCurrent (c d : Z)
| SetTotal (t : Z) (complete : bool)
| EnableTriggerComplete
| SetRefill (a : Z)
| Abort (drop : bool)
| GetCurrent | GetCompleted | GetAborted.

Inductive bout :=
| ONone
| OInt (z : Z)
| OBool (b : bool)
| OSample (n d : Z).   (* what every collected EWMA decorator is handed *)

Definition is_getter (o : bop) : bool :=
  match o with GetCurrent | GetCompleted | GetAborted => true | _ => false end.

(* the closure each public method hands to the actor *)
Definition bapply (s : bst) (o : bop) : bst * bout :=
  match o with
  | IncrInt64 n => (clamp (set_current s (wrap64 (current s + n))), ONone)
  | EwmaIncrInt64 n d => (clamp (set_current s (wrap64 (current s + n))), OSample n d)
  | SetCurrent c => if c <? 0 then (s, ONone) else (clamp (set_current s c), ONone)
  | EwmaSetCurrent c d =>
      if c <? 0 then (s, ONone)
      else (clamp (set_current s c), OSample (wrap64 (c - current s)) d)
  | SetTotal t complete =>
      if trig s then (s, ONone) else
      let s := set_total s (if t <? 0 then current s else t) in
      if complete then (trigger (set_current s (total s)), ONone) else (s, ONone)
  | EnableTriggerComplete =>
      if trig s then (s, ONone) else
      if total s <=? current s then (trigger (set_current s (total s)), ONone)
      else (set_trig s, ONone)
  | SetRefill a => (set_refill s (if a <? current s then a else current s), ONone)
  | Abort drop =>
      if aborted s || completed s then (s, ONone)
      else (trigger (set_abort s drop), ONone)
  | GetCurrent => (s, OInt (current s))
  | GetCompleted => (s, OBool (completed s))
  | GetAborted => (s, OBool (aborted s))
  end.

(* A public call on a live or exited bar.
   - actor alive and ctx not done: the closure is executed;
   - exited: mutators take the ctx.Done branch and do nothing, getters read the
     published state;
   - ctx done but not yet exited: both select branches are ready — the model
     refuses (None) and the harness never issues a call in that window without
     first waiting for the exit. *)
Definition bstep (s : bst) (o : bop) : option (bst * bout) :=
  if exited s then
    if is_getter o then Some (bapply s o) else Some (s, ONone)
  else if cancelled s then
    if is_getter o then Some (bapply s o) else None
  else Some (bapply s o).

(* internal events *)
Inductive bev :=
| Op (o : bop)
| Render            (* one execution of the render closure *)
| CtxCancel         (* flush (shutdown = 1), container cancel, Shutdown *)
| Exit.             (* Bar.serve takes the ctx.Done branch *)

(* bar.go render: a terminal bar hands frame.shutdown := shutdown, then shutdown++ *)
Definition brender (s : bst) : bst * option Z :=
  if terminal s then (bump_shutdown s, Some (shutdown s)) else (s, None).

(* bar.go serve, ctx.Done branch: aborted := !completed; publish; close bsOk *)
Definition bexit (s : bst) : bst :=
  mkB (total s) (current s) (refill s) (trig s) (negb (completed s)) (rm s) (nopop s)
      (auto s) (shutdown s) (cancelled s) true (early s).

Definition bev_step (s : bst) (e : bev) : option bst :=
  match e with
  | Op o => match bstep s o with Some (s', _) => Some s' | None => None end
  | Render => Some (fst (brender s))
  | CtxCancel => Some (set_cancelled s)
  | Exit => if cancelled s && negb (exited s) then Some (bexit s) else None
  end.

Definition brun (s : bst) (evs : list bev) : option bst := fold_left_opt bev_step evs s.

(* what a client reads *)
Definition obs (s : bst) : Z * bool * bool := (current s, completed s, aborted s).
