(* PQueueProofs.v — container/heap over priority_queue.go keeps the heap order, the multiset of
   bars and the bars' index fields; Pop returns a bar of the greatest priority (C06, C02). *)
From Coq Require Import Permutation Sorted.
From MPB Require Import Base PQueue.
#[local] Open Scope nat_scope.
Arguments parent : simpl never.

(* ---------- arrays ---------- *)
Lemma set_length a i x : length (set a i x) = length a.
Proof. revert i; induction a as [|y a IH]; intros [|i]; cbn; auto. Qed.

Lemma get_set_same a i x : i < length a -> get (set a i x) i = x.
Proof. revert i; induction a as [|y a IH]; intros [|i] H; cbn in *; try lia; auto. apply IH. lia. Qed.

Lemma get_set_other a i k x : k <> i -> get (set a i x) k = get a k.
Proof.
  revert i k; induction a as [|y a IH]; intros [|i] [|k] H; cbn; auto; try lia. apply IH. lia.
Qed.

Lemma set_get_id a i : set a i (get a i) = a.
Proof. revert i; induction a as [|y a IH]; intros [|i]; cbn; auto. f_equal. apply IH. Qed.

Lemma perm_head_swap l : forall j y, j < length l -> Permutation (get l j :: set l j y) (y :: l).
Proof.
  induction l as [|z l IH]; intros j y H; cbn in H; [lia|]. destruct j as [|j]; cbn [get nth set].
  - apply perm_swap.
  - eapply perm_trans; [apply perm_swap|]. eapply perm_trans; [|apply perm_swap].
    apply perm_skip. apply IH. lia.
Qed.

Lemma perm_swap_lt a : forall i j, i < j -> j < length a -> Permutation (set (set a i (get a j)) j (get a i)) a.
Proof.
  induction a as [|y a IH]; intros i j Hij Hj; cbn in Hj; [lia|].
  destruct j as [|j]; [lia|]. destruct i as [|i]; cbn [set get nth].
  - apply perm_head_swap. lia.
  - apply perm_skip. apply IH; lia.
Qed.

Lemma set_set_comm a : forall i j x y, i <> j -> set (set a i x) j y = set (set a j y) i x.
Proof. induction a as [|z a IH]; intros [|i] [|j] x y H; cbn; auto; try lia. f_equal. apply IH. lia. Qed.

Lemma perm_set2 a i j : i < length a -> j < length a -> Permutation (set (set a i (get a j)) j (get a i)) a.
Proof.
  intros Hi Hj. destruct (Nat.lt_trichotomy i j) as [H|[->|H]].
  - apply perm_swap_lt; auto.
  - rewrite !set_get_id. reflexivity.
  - rewrite set_set_comm by lia. apply perm_swap_lt; auto.
Qed.

(* ---------- positions ---------- *)
Lemma parent_lt k : 0 < k -> parent k < k.
Proof. intros H. unfold parent. apply Nat.div_lt_upper_bound; lia. Qed.

Lemma parent_zero : parent 0 = 0.
Proof. reflexivity. Qed.

Lemma parent_left i : parent (2 * i + 1) = i.
Proof. unfold parent. replace (2 * i + 1 - 1) with (i * 2) by lia. apply Nat.div_mul. lia. Qed.

Lemma parent_right i : parent (2 * i + 1 + 1) = i.
Proof.
  unfold parent. replace (2 * i + 1 + 1 - 1) with (1 + i * 2) by lia.
  rewrite Nat.div_add by lia. cbn. reflexivity.
Qed.

Lemma child_cases k i : 0 < k -> parent k = i -> k = 2 * i + 1 \/ k = 2 * i + 1 + 1.
Proof.
  intros H E. unfold parent in E. pose proof (Nat.div_mod (k - 1) 2 ltac:(lia)) as D.
  pose proof (Nat.mod_upper_bound (k - 1) 2 ltac:(lia)). rewrite E in D. lia.
Qed.

(* ---------- Swap ---------- *)
Lemma swap_length q i j : length (arr (swap q i j)) = length (arr q).
Proof. unfold swap; cbn. rewrite !set_length. reflexivity. Qed.

Lemma get_swap q i j k : i < length (arr q) -> j < length (arr q) ->
  get (arr (swap q i j)) k = if Nat.eqb k j then get (arr q) i else if Nat.eqb k i then get (arr q) j else get (arr q) k.
Proof.
  intros Hi Hj. unfold swap; cbn [arr].
  destruct (Nat.eqb_spec k j) as [->|Nj].
  - apply get_set_same. rewrite set_length. exact Hj.
  - rewrite get_set_other by exact Nj. destruct (Nat.eqb_spec k i) as [->|Ni].
    + apply get_set_same. exact Hi.
    + apply get_set_other. exact Ni.
Qed.

Lemma pr_swap q i j k : i < length (arr q) -> j < length (arr q) ->
  pr (arr (swap q i j)) k = if Nat.eqb k j then pr (arr q) i else if Nat.eqb k i then pr (arr q) j else pr (arr q) k.
Proof.
  intros Hi Hj. unfold pr. rewrite get_swap by assumption.
  destruct (Nat.eqb k j); [reflexivity|]. destruct (Nat.eqb k i); reflexivity.
Qed.

Lemma swap_perm q i j : i < length (arr q) -> j < length (arr q) -> Permutation (arr (swap q i j)) (arr q).
Proof. intros Hi Hj. unfold swap; cbn [arr]. apply perm_set2; assumption. Qed.

(* ---------- heap order on a prefix ---------- *)
Definition hp (a : list elt) (n : nat) : Prop := forall k, 0 < k < n -> (pr a k <= pr a (parent k))%Z.

Lemma root_max a n : hp a n -> forall k, k < n -> (pr a k <= pr a 0)%Z.
Proof.
  intros H k. induction k as [k IH] using lt_wf_ind. intros Hk.
  destruct (Nat.eq_dec k 0) as [->|N]; [lia|].
  pose proof (parent_lt k ltac:(lia)) as P. specialize (H k ltac:(lia)).
  specialize (IH (parent k) P ltac:(lia)). lia.
Qed.

(* ---------- up ---------- *)
Lemma up_length fuel : forall q j, j < length (arr q) -> length (arr (up fuel q j)) = length (arr q).
Proof.
  induction fuel as [|f IH]; intros q j Hj; cbn [up]; [reflexivity|].
  destruct (Nat.eqb (parent j) j || negb (less (arr q) j (parent j))) eqn:C; [reflexivity|].
  apply orb_false_iff in C as [C _]. apply Nat.eqb_neq in C.
  assert (0 < j) by (destruct j; [rewrite parent_zero in C; lia|lia]).
  pose proof (parent_lt j H). rewrite IH; rewrite swap_length; [reflexivity|lia].
Qed.

Lemma up_perm fuel : forall q j, j < length (arr q) -> Permutation (arr (up fuel q j)) (arr q).
Proof.
  induction fuel as [|f IH]; intros q j Hj; cbn [up]; [reflexivity|].
  destruct (Nat.eqb (parent j) j || negb (less (arr q) j (parent j))) eqn:C; [reflexivity|].
  apply orb_false_iff in C as [C _]. apply Nat.eqb_neq in C.
  assert (0 < j) by (destruct j; [rewrite parent_zero in C; lia|lia]).
  pose proof (parent_lt j H).
  eapply perm_trans; [apply IH; rewrite swap_length; lia|]. apply swap_perm; lia.
Qed.

(* sift-up: every edge is in order except possibly (j, parent j), and the children of j do not exceed j's parent *)
Lemma up_ok fuel : forall q j, j < fuel -> j < length (arr q) ->
  (forall k, 0 < k < length (arr q) -> k <> j -> (pr (arr q) k <= pr (arr q) (parent k))%Z) ->
  (forall c, 0 < c < length (arr q) -> parent c = j -> 0 < j -> (pr (arr q) c <= pr (arr q) (parent j))%Z) ->
  hp (arr (up fuel q j)) (length (arr q)).
Proof.
  induction fuel as [|f IH]; intros q j Hf Hj E1 E2; [lia|]. cbn [up].
  destruct (Nat.eqb_spec (parent j) j) as [Pj|Pj]; cbn [orb].
  - (* j = 0 *) intros k Hk. apply E1; [exact Hk|]. destruct j; [lia|]. pose proof (parent_lt (S j) ltac:(lia)). lia.
  - assert (J0 : 0 < j) by (destruct j; [rewrite parent_zero in Pj; lia|lia]).
    pose proof (parent_lt j J0) as PL.
    destruct (less (arr q) j (parent j)) eqn:L; cbn [negb].
    + (* swap with the parent and continue there *)
      unfold less in L. apply Z.ltb_lt in L.
      set (i := parent j) in *. set (q' := swap q i j).
      assert (Hl : length (arr q') = length (arr q)) by apply swap_length.
      assert (PR : forall k, pr (arr q') k = if Nat.eqb k j then pr (arr q) i else if Nat.eqb k i then pr (arr q) j else pr (arr q) k)
        by (intros k; apply pr_swap; lia).
      rewrite <- Hl. apply IH; try lia.
      * (* edges away from i *)
        rewrite Hl. intros k Hk Nk. rewrite !PR.
        destruct (Nat.eqb_spec k j) as [->|Nj].
        -- (* the edge (j, i): old parent value under the moved value *)
           fold i. destruct (Nat.eqb_spec i j); [lia|]. rewrite Nat.eqb_refl. lia.
        -- destruct (Nat.eqb_spec k i); [lia|].
           destruct (Nat.eqb_spec (parent k) j) as [Pk|Pk].
           ++ (* a child of j now sits under the old parent value *) apply E2; auto.
           ++ destruct (Nat.eqb_spec (parent k) i) as [Pi|Pi].
              ** (* the sibling of j *) specialize (E1 k Hk Nj). rewrite Pi in E1. lia.
              ** apply E1; auto.
      * (* children of i do not exceed i's parent *)
        rewrite Hl. intros c Hc Pc I0. rewrite !PR.
        assert (NPi : parent i <> i) by (pose proof (parent_lt i I0); lia).
        assert (NPj : parent i <> j) by (pose proof (parent_lt i I0); lia).
        destruct (Nat.eqb_spec (parent i) j); [lia|]. destruct (Nat.eqb_spec (parent i) i); [lia|].
        assert (Ei : (pr (arr q) i <= pr (arr q) (parent i))%Z) by (apply E1; lia).
        destruct (Nat.eqb_spec c j) as [->|Nj]; [exact Ei|].
        destruct (Nat.eqb_spec c i) as [->|Ni]; [pose proof (parent_lt i I0); lia|].
        specialize (E1 c Hc Nj). rewrite Pc in E1. lia.
    + (* in order already *)
      unfold less in L. apply Z.ltb_ge in L. intros k Hk.
      destruct (Nat.eq_dec k j) as [->|N]; [exact L|apply E1; auto].
Qed.

(* ---------- down ---------- *)
Lemma down_length fuel : forall q i n, n <= length (arr q) -> length (arr (fst (down fuel q i n))) = length (arr q).
Proof.
  induction fuel as [|f IH]; intros q i n Hn; cbn [down]; [reflexivity|].
  destruct (n <=? 2 * i + 1) eqn:B; [reflexivity|]. apply Nat.leb_gt in B.
  set (j := if (2 * i + 1 + 1 <? n) && less (arr q) (2 * i + 1 + 1) (2 * i + 1) then 2 * i + 1 + 1 else 2 * i + 1).
  assert (Jn : j < n) by (unfold j; destruct (2 * i + 1 + 1 <? n) eqn:B2; cbn; [apply Nat.ltb_lt in B2; destruct (less _ _ _); lia|lia]).
  destruct (negb (less (arr q) j i)); [reflexivity|].
  rewrite IH; rewrite swap_length; [reflexivity|lia].
Qed.

Lemma down_perm fuel : forall q i n, n <= length (arr q) -> Permutation (arr (fst (down fuel q i n))) (arr q).
Proof.
  induction fuel as [|f IH]; intros q i n Hn; cbn [down]; [reflexivity|].
  destruct (n <=? 2 * i + 1) eqn:B; [reflexivity|]. apply Nat.leb_gt in B.
  set (j := if (2 * i + 1 + 1 <? n) && less (arr q) (2 * i + 1 + 1) (2 * i + 1) then 2 * i + 1 + 1 else 2 * i + 1).
  assert (Jn : j < n) by (unfold j; destruct (2 * i + 1 + 1 <? n) eqn:B2; cbn; [apply Nat.ltb_lt in B2; destruct (less _ _ _); lia|lia]).
  destruct (negb (less (arr q) j i)); [reflexivity|].
  eapply perm_trans; [apply IH; rewrite swap_length; lia|]. apply swap_perm; lia.
Qed.

(* positions from n on are not touched *)
Lemma down_outside fuel : forall q i n k, n <= length (arr q) -> i < n -> n <= k ->
  get (arr (fst (down fuel q i n))) k = get (arr q) k.
Proof.
  induction fuel as [|f IH]; intros q i n k Hn Hi Hk; cbn [down]; [reflexivity|].
  destruct (n <=? 2 * i + 1) eqn:B; [reflexivity|]. apply Nat.leb_gt in B.
  set (j := if (2 * i + 1 + 1 <? n) && less (arr q) (2 * i + 1 + 1) (2 * i + 1) then 2 * i + 1 + 1 else 2 * i + 1).
  assert (Jn : j < n) by (unfold j; destruct (2 * i + 1 + 1 <? n) eqn:B2; cbn; [apply Nat.ltb_lt in B2; destruct (less _ _ _); lia|lia]).
  destruct (negb (less (arr q) j i)); [reflexivity|].
  rewrite IH by (rewrite ?swap_length; lia). rewrite get_swap by lia.
  destruct (Nat.eqb_spec k j); [lia|]. destruct (Nat.eqb_spec k i); [lia|]. reflexivity.
Qed.

Lemma down_pos fuel : forall q i n, i <= snd (down fuel q i n).
Proof.
  induction fuel as [|f IH]; intros q i n; cbn [down]; [cbn; lia|].
  destruct (n <=? 2 * i + 1); [cbn; lia|].
  set (j := if (2 * i + 1 + 1 <? n) && less (arr q) (2 * i + 1 + 1) (2 * i + 1) then 2 * i + 1 + 1 else 2 * i + 1).
  assert (i < j) by (unfold j; destruct (_ && _); lia).
  destruct (negb (less (arr q) j i)); [cbn; lia|]. specialize (IH (swap q i j) j n). lia.
Qed.

(* not moved: nothing changed *)
Lemma down_stay fuel q i n : snd (down fuel q i n) = i -> fst (down fuel q i n) = q.
Proof.
  destruct fuel as [|f]; cbn [down]; [reflexivity|].
  destruct (n <=? 2 * i + 1); [reflexivity|].
  set (j := if (2 * i + 1 + 1 <? n) && less (arr q) (2 * i + 1 + 1) (2 * i + 1) then 2 * i + 1 + 1 else 2 * i + 1).
  assert (i < j) by (unfold j; destruct (_ && _); lia).
  destruct (negb (less (arr q) j i)); [reflexivity|]. pose proof (down_pos f (swap q i j) j n). lia.
Qed.

(* sift-down on the prefix n: every edge is in order except possibly those from i's children to i,
   i is in order with its own parent, and the children of i do not exceed i's parent *)
Lemma down_ok fuel : forall q i n, n <= i + fuel -> n <= length (arr q) ->
  (forall k, 0 < k < n -> parent k <> i -> (pr (arr q) k <= pr (arr q) (parent k))%Z) ->
  (forall c, 0 < c < n -> parent c = i -> 0 < i -> (pr (arr q) c <= pr (arr q) (parent i))%Z) ->
  hp (arr (fst (down fuel q i n))) n.
Proof.
  induction fuel as [|f IH]; intros q i n Hf Hn E1 E2; cbn [down].
  - cbn. intros k Hk. apply E1; [exact Hk|]. pose proof (parent_lt k ltac:(lia)). lia.
  - destruct (n <=? 2 * i + 1) eqn:B.
    + (* no child inside the prefix *)
      apply Nat.leb_le in B. cbn. intros k Hk. apply E1; [exact Hk|]. intros Pk.
      destruct (child_cases k i ltac:(lia) Pk); lia.
    + apply Nat.leb_gt in B.
      set (j1 := 2 * i + 1) in *. set (j2 := j1 + 1).
      set (j := if (j2 <? n) && less (arr q) j2 j1 then j2 else j1).
      assert (Jc : j = j1 \/ j = j2 /\ j2 < n) by (unfold j; destruct (j2 <? n) eqn:B2; cbn; [apply Nat.ltb_lt in B2; destruct (less _ _ _); auto|auto]).
      assert (Jn : j < n) by (destruct Jc as [->|[-> ?]]; lia).
      assert (Pj : parent j = i) by (destruct Jc as [->|[-> ?]]; [apply parent_left|apply parent_right]).
      (* j is the greater child *)
      assert (Big : forall c, 0 < c < n -> parent c = i -> (pr (arr q) c <= pr (arr q) j)%Z).
      { intros c Hc Pc. destruct (child_cases c i ltac:(lia) Pc) as [Ec|Ec]; fold j1 in Ec; fold j2 in Ec; subst c; unfold j.
        - destruct (j2 <? n) eqn:B2; cbn [andb]; [|lia].
          destruct (less (arr q) j2 j1) eqn:L; [unfold less in L; apply Z.ltb_lt in L; lia|lia].
        - assert (B2 : (j2 <? n) = true) by (apply Nat.ltb_lt; lia). rewrite B2. cbn [andb].
          destruct (less (arr q) j2 j1) eqn:L; [lia|unfold less in L; apply Z.ltb_ge in L; lia]. }
      destruct (less (arr q) j i) eqn:L; cbn [negb].
      * unfold less in L. apply Z.ltb_lt in L.
        set (q' := swap q i j).
        assert (Hl : length (arr q') = length (arr q)) by apply swap_length.
        assert (PR : forall k, pr (arr q') k = if Nat.eqb k j then pr (arr q) i else if Nat.eqb k i then pr (arr q) j else pr (arr q) k)
          by (intros k; apply pr_swap; lia).
        apply IH; try lia.
        -- (* edges not into j *)
           intros k Hk Pk. rewrite !PR.
           destruct (Nat.eqb_spec k j) as [->|Nj].
           ++ (* (j, i) *) rewrite Pj. destruct (Nat.eqb_spec i j); [lia|]. rewrite Nat.eqb_refl. lia.
           ++ destruct (Nat.eqb_spec (parent k) j); [contradiction|].
              destruct (Nat.eqb_spec k i) as [->|Ni].
              ** (* (i, parent i): the greater child moved up *)
                 destruct (Nat.eq_dec i 0) as [I0|I0]; [lia|].
                 destruct (Nat.eqb_spec (parent i) i); [pose proof (parent_lt i ltac:(lia)); lia|].
                 apply E2; auto; lia.
              ** destruct (Nat.eqb_spec (parent k) i) as [Pi|Pi].
                 --- (* the sibling of j *) apply Big; auto.
                 --- apply E1; auto.
        -- (* children of j do not exceed the value now at i *)
           intros c Hc Pc J0. rewrite !PR. rewrite Pj, Nat.eqb_refl.
           destruct (Nat.eqb_spec i j); [lia|].
           destruct (Nat.eqb_spec c j); [pose proof (parent_lt c ltac:(lia)); lia|].
           destruct (Nat.eqb_spec c i); [pose proof (parent_lt c ltac:(lia)); lia|].
           specialize (E1 c Hc ltac:(lia)). rewrite Pc in E1. exact E1.
      * (* both children are in order with i *)
        unfold less in L. apply Z.ltb_ge in L. cbn. intros k Hk.
        destruct (Nat.eq_dec (parent k) i) as [Pk|Pk]; [|apply E1; auto].
        rewrite Pk. specialize (Big k Hk Pk). lia.
Qed.

Lemma down_nochild fuel q i n : n <= 2 * i + 1 -> down fuel q i n = (q, i).
Proof. intros H. destruct fuel; cbn [down]; [reflexivity|]. apply Nat.leb_le in H. rewrite H. reflexivity. Qed.

Lemma nth_firstn_lt (l : list elt) n k : k < n -> nth k (firstn n l) dflt = nth k l dflt.
Proof.
  revert n k. induction l as [|y l IH]; intros [|n] [|k] H; cbn; auto; try lia. apply IH. lia.
Qed.

(* ---------- Push ---------- *)
Lemma get_app_l (a : list elt) x k : k < length a -> get (a ++ [x]) k = get a k.
Proof. intros H. unfold get. apply app_nth1. exact H. Qed.
Lemma get_app_last (a : list elt) x : get (a ++ [x]) (length a) = x.
Proof. unfold get. rewrite app_nth2, Nat.sub_diag by lia. reflexivity. Qed.

Theorem push_ok q x : hp (arr q) (length (arr q)) ->
  hp (arr (push q x)) (S (length (arr q))) /\ Permutation (arr (push q x)) (x :: arr q) /\
  length (arr (push q x)) = S (length (arr q)).
Proof.
  intros H. unfold push. set (n := length (arr q)). set (q0 := mkPQ (arr q ++ [x]) _).
  assert (L0 : length (arr q0) = S n) by (unfold q0; cbn; rewrite app_length; cbn; lia).
  split; [|split].
  - rewrite <- L0. apply up_ok; try lia.
    + rewrite L0. intros k Hk Nk. unfold q0, pr; cbn [arr].
      pose proof (parent_lt k ltac:(lia)). rewrite !get_app_l by (fold n; lia). apply H. fold n. lia.
    + rewrite L0. intros c Hc Pc _. pose proof (parent_lt c ltac:(lia)). lia.
  - eapply perm_trans; [apply up_perm; lia|]. unfold q0; cbn [arr].
    apply Permutation_sym, Permutation_cons_append.
  - rewrite up_length by lia. exact L0.
Qed.

(* ---------- Pop ---------- *)
Theorem pop_ok q x q' : hp (arr q) (length (arr q)) -> pop q = Some (x, q') ->
  hp (arr q') (length (arr q')) /\ Permutation (arr q) (x :: arr q') /\
  (forall y, In y (arr q) -> (snd y <= snd x)%Z).
Proof.
  intros H. unfold pop. destruct (arr q) as [|e0 rest] eqn:Ea; [discriminate|].
  rewrite <- Ea in *. set (len := length (arr q)). set (n := len - 1).
  assert (Ln : len = S n) by (unfold n, len; rewrite Ea; cbn; lia).
  set (q1 := swap q 0 n). set (q2 := fst (down len q1 0 n)).
  intros E; inversion E; subst x q'; clear E. cbn [arr].
  assert (L1 : length (arr q1) = len) by apply swap_length.
  assert (L2 : length (arr q2) = len) by (unfold q2; rewrite down_length; lia).
  assert (PR : forall k, pr (arr q1) k = if Nat.eqb k n then pr (arr q) 0 else if Nat.eqb k 0 then pr (arr q) n else pr (arr q) k)
    by (intros k; apply pr_swap; fold len; lia).
  assert (H2 : hp (arr q2) n).
  { apply down_ok; try lia.
    - intros k Hk Pk. rewrite !PR.
      destruct (Nat.eqb_spec k n); [lia|]. destruct (Nat.eqb_spec k 0); [lia|].
      pose proof (parent_lt k ltac:(lia)).
      destruct (Nat.eqb_spec (parent k) n); [lia|]. destruct (Nat.eqb_spec (parent k) 0); [lia|].
      apply H. fold len. lia. }
  assert (Last : get (arr q2) n = get (arr q) 0).
  { destruct (Nat.eq_dec n 0) as [N0|N0].
    - (* a single bar *) unfold q2. rewrite down_nochild by lia. cbn [fst].
      unfold q1. rewrite get_swap by (fold len; lia). rewrite Nat.eqb_refl. reflexivity.
    - unfold q2. rewrite down_outside by lia. unfold q1. rewrite get_swap by (fold len; lia). rewrite Nat.eqb_refl. reflexivity. }
  assert (Split : arr q2 = firstn n (arr q2) ++ [get (arr q2) n]).
  { rewrite <- (firstn_skipn n (arr q2)) at 1. f_equal.
    assert (Ls : length (skipn n (arr q2)) = 1) by (rewrite skipn_length; lia).
    destruct (skipn n (arr q2)) as [|z [|z2 r]] eqn:Es; cbn in Ls; try lia.
    f_equal. unfold get. rewrite <- (firstn_skipn n (arr q2)) at 1.
    rewrite app_nth2 by (rewrite firstn_length; lia). rewrite firstn_length, Nat.min_l, Nat.sub_diag by lia.
    rewrite Es. reflexivity. }
  assert (Lf : length (firstn n (arr q2)) = n) by (rewrite firstn_length; lia).
  split; [|split].
  - rewrite Lf. intros k Hk. pose proof (parent_lt k ltac:(lia)).
    unfold pr, get. rewrite !(nth_firstn_lt) by lia. apply H2. exact Hk.
  - assert (P2 : Permutation (arr q2) (arr q)).
    { eapply perm_trans; [apply down_perm; lia|]. apply swap_perm; fold len; lia. }
    rewrite Split in P2. eapply perm_trans; [apply Permutation_sym; exact P2|].
    apply Permutation_sym, Permutation_cons_append.
  - intros y Hy. rewrite Last. apply In_nth with (d := dflt) in Hy as (k & Hk & <-).
    apply (root_max (arr q) len H k). exact Hk.
Qed.

(* ---------- Fix ---------- *)
Lemma up_keeps fuel q j : j < fuel -> j < length (arr q) -> hp (arr q) (length (arr q)) ->
  hp (arr (up fuel q j)) (length (arr q)).
Proof.
  intros Hf Hj H. apply up_ok; [exact Hf|exact Hj| |].
  - intros k Hk Nk. apply H. exact Hk.
  - intros c Hc Pc J0. pose proof (H c Hc) as Hc1. rewrite Pc in Hc1.
    pose proof (H j ltac:(lia)). lia.
Qed.

Lemma down_stop fuel q i n :
  (forall c, c < n -> parent c = i -> 0 < c -> (pr (arr q) c <= pr (arr q) i)%Z) -> down fuel q i n = (q, i).
Proof.
  intros H. destruct fuel as [|f]; cbn [down]; [reflexivity|].
  destruct (n <=? 2 * i + 1) eqn:B; [reflexivity|]. apply Nat.leb_gt in B.
  set (j := if (2 * i + 1 + 1 <? n) && less (arr q) (2 * i + 1 + 1) (2 * i + 1) then 2 * i + 1 + 1 else 2 * i + 1).
  assert (Jn : j < n /\ parent j = i /\ 0 < j).
  { unfold j. destruct (2 * i + 1 + 1 <? n) eqn:B2; cbn [andb].
    - apply Nat.ltb_lt in B2. destruct (less _ _ _); repeat split; try lia; [apply parent_right|apply parent_left].
    - repeat split; try lia. apply parent_left. }
  destruct Jn as (J1 & J2 & J3). specialize (H j J1 J2 J3).
  assert (L : less (arr q) j i = false) by (unfold less; apply Z.ltb_ge; exact H).
  rewrite L. reflexivity.
Qed.

Lemma pr_set_priority q i p k : i < length (arr q) ->
  pr (arr (set_priority q i p)) k = if Nat.eqb k i then p else pr (arr q) k.
Proof.
  intros Hi. unfold set_priority, pr; cbn [arr]. destruct (Nat.eqb_spec k i) as [->|N].
  - rewrite get_set_same by exact Hi. reflexivity.
  - rewrite get_set_other by exact N. reflexivity.
Qed.

Lemma fix_down_case q0 i p : hp (arr q0) (length (arr q0)) -> i < length (arr q0) ->
  (i = 0 \/ (p <= pr (arr q0) (parent i))%Z) ->
  let q := set_priority q0 i p in
  hp (arr (fix_at q i)) (length (arr q0)) /\ Permutation (arr (fix_at q i)) (arr q) /\
  length (arr (fix_at q i)) = length (arr q0).
Proof.
  intros H Hi Ord q. set (n := length (arr q0)).
  assert (Lq : length (arr q) = n) by (unfold q, set_priority; cbn; apply set_length).
  assert (PR : forall k, pr (arr q) k = if Nat.eqb k i then p else pr (arr q0) k) by (intros k; apply pr_set_priority; exact Hi).
  assert (Kids : forall c, 0 < c < n -> parent c = i -> (pr (arr q0) c <= pr (arr q0) i)%Z).
  { intros c Hc Pc. pose proof (H c Hc) as Hc1. rewrite Pc in Hc1. exact Hc1. }
  assert (D : hp (arr (fst (down n q i n))) n).
  { apply down_ok; [lia|lia| |].
    - intros k Hk Pk. rewrite !PR. pose proof (parent_lt k ltac:(lia)).
      destruct (Nat.eqb_spec (parent k) i); [contradiction|].
      destruct (Nat.eqb_spec k i) as [->|Nk]; [destruct Ord; [lia|assumption]|apply H; fold n; lia].
    - intros c Hc Pc I1. rewrite !PR. pose proof (parent_lt c ltac:(lia)). pose proof (parent_lt i I1).
      destruct (Nat.eqb_spec c i); [lia|]. destruct (Nat.eqb_spec (parent i) i); [lia|].
      specialize (Kids c Hc Pc). pose proof (H i ltac:(fold n; lia)). lia. }
  unfold fix_at. rewrite Lq.
  destruct (down n q i n) as [q1 i1] eqn:Ed. cbn [fst] in D.
  pose proof (down_pos n q i n) as Dp. rewrite Ed in Dp. cbn [snd] in Dp.
  assert (Eq1 : q1 = fst (down n q i n)) by (rewrite Ed; reflexivity).
  destruct (i <? i1) eqn:Mv.
  - split; [exact D|split]; rewrite Eq1; [apply down_perm; lia|rewrite down_length; lia].
  - apply Nat.ltb_ge in Mv. assert (i1 = i) by lia. subst i1.
    assert (Eq : q1 = q) by (rewrite Eq1; apply down_stay; rewrite Ed; reflexivity). rewrite Eq in D. clear Eq1.
    split; [|split; [apply up_perm; lia|rewrite up_length; lia]].
    rewrite <- Lq. apply up_keeps; rewrite ?Lq; try lia. exact D.
Qed.

Theorem fix_ok q0 i p : hp (arr q0) (length (arr q0)) -> i < length (arr q0) ->
  let q := set_priority q0 i p in
  hp (arr (fix_at q i)) (length (arr q0)) /\ Permutation (arr (fix_at q i)) (arr q) /\
  length (arr (fix_at q i)) = length (arr q0).
Proof.
  intros H Hi q. set (n := length (arr q0)).
  assert (Lq : length (arr q) = n) by (unfold q, set_priority; cbn; apply set_length).
  assert (PR : forall k, pr (arr q) k = if Nat.eqb k i then p else pr (arr q0) k) by (intros k; apply pr_set_priority; exact Hi).
  assert (Kids : forall c, 0 < c < n -> parent c = i -> (pr (arr q0) c <= pr (arr q0) i)%Z).
  { intros c Hc Pc. pose proof (H c Hc) as Hc1. rewrite Pc in Hc1. exact Hc1. }
  destruct (Nat.eq_dec i 0) as [I0|I0]; [apply fix_down_case; auto|].
  destruct (Z_le_gt_dec p (pr (arr q0) (parent i))) as [Le|Gt]; [apply fix_down_case; auto|].
  (* the new priority exceeds the parent's: nothing below moves, sift up *)
  unfold fix_at. rewrite Lq.
  assert (St : down n q i n = (q, i)).
  { apply down_stop. intros c Hc Pc C0. rewrite !PR. rewrite Nat.eqb_refl.
    pose proof (parent_lt c C0). destruct (Nat.eqb_spec c i); [lia|].
    specialize (Kids c ltac:(lia) Pc). specialize (H i ltac:(fold n; lia)). lia. }
  rewrite St. rewrite Nat.ltb_irrefl. split; [|split; [apply up_perm; lia|rewrite up_length; lia]].
  rewrite <- Lq. apply up_ok; rewrite ?Lq; try lia.
  - intros k Hk Nk. rewrite !PR. destruct (Nat.eqb_spec k i); [lia|].
    destruct (Nat.eqb_spec (parent k) i) as [Pk|Pk].
    + specialize (Kids k Hk Pk). specialize (H i ltac:(fold n; lia)). lia.
    + apply H. exact Hk.
  - intros c Hc Pc I1. rewrite !PR. pose proof (parent_lt c ltac:(lia)). pose proof (parent_lt i I1).
    destruct (Nat.eqb_spec c i); [lia|]. destruct (Nat.eqb_spec (parent i) i); [lia|].
    specialize (Kids c Hc Pc). specialize (H i ltac:(fold n; lia)). lia.
Qed.

(* ---------- the bars' index fields ---------- *)
Definition ids (a : list elt) : list Z := map fst a.
Definition IdxOk (q : pq) : Prop :=
  NoDup (ids (arr q)) /\ forall k, k < length (arr q) -> idx q (fst (get (arr q) k)) = Z.of_nat k.

Lemma get_in a k : k < length a -> In (fst (get a k)) (ids a).
Proof. intros H. unfold ids, get. apply in_map. apply nth_In. exact H. Qed.

Lemma nodup_get a k1 k2 : NoDup (ids a) -> k1 < length a -> k2 < length a ->
  fst (get a k1) = fst (get a k2) -> k1 = k2.
Proof.
  intros N H1 H2 E. unfold ids in N. rewrite NoDup_nth with (d := fst dflt) in N.
  apply N; rewrite ?map_length; auto. unfold get in E. rewrite !map_nth. exact E.
Qed.

Lemma perm_ids a b : Permutation a b -> Permutation (ids a) (ids b).
Proof. apply Permutation_map. Qed.

Lemma swap_idx q i j : IdxOk q -> i < length (arr q) -> j < length (arr q) ->
  IdxOk (swap q i j) /\ (forall b, ~ In b (ids (arr q)) -> idx (swap q i j) b = idx q b).
Proof.
  intros [N I] Hi Hj.
  assert (Ge : forall k, get (arr (swap q i j)) k = if Nat.eqb k j then get (arr q) i else if Nat.eqb k i then get (arr q) j else get (arr q) k)
    by (intros k; apply get_swap; assumption).
  split; [split|].
  - eapply Permutation_NoDup; [apply Permutation_sym, perm_ids, swap_perm; assumption|exact N].
  - rewrite swap_length. intros k Hk. unfold swap at 1. cbn [idx]. fold (swap q i j).
    rewrite !Ge. unfold iset.
    repeat match goal with |- context [Nat.eqb ?x ?y] => destruct (Nat.eqb_spec x y); try lia; subst end.
    all: repeat match goal with
         | |- context [Z.eqb (fst (get ?a ?x)) (fst (get ?a ?y))] =>
             destruct (Z.eqb_spec (fst (get a x)) (fst (get a y))) as [E|E]; [apply nodup_get in E; auto; try lia; subst|]
         end.
    all: rewrite ?Z.eqb_refl.
    all: repeat match goal with
         | |- context [Z.eqb (fst (get ?a ?x)) (fst (get ?a ?y))] =>
             destruct (Z.eqb_spec (fst (get a x)) (fst (get a y))) as [E'|E']; [apply nodup_get in E'; auto; try lia; subst|]
         end.
    all: rewrite ?Z.eqb_refl; try reflexivity; try (apply I; assumption); try lia; try congruence.
  - intros b Hb. unfold swap. cbn [idx]. fold (swap q i j). rewrite !Ge. unfold iset.
    repeat match goal with |- context [Nat.eqb ?x ?y] => destruct (Nat.eqb_spec x y); try lia; subst end.
    all: repeat match goal with Hb' : ~ In ?bb _ |- context [Z.eqb ?bb ?x] => destruct (Z.eqb_spec bb x) as [->|?]; [exfalso; apply Hb'; apply get_in; assumption|] end; reflexivity.
Qed.

Lemma up_idx fuel : forall q j, IdxOk q -> j < length (arr q) ->
  IdxOk (up fuel q j) /\ (forall b, ~ In b (ids (arr q)) -> idx (up fuel q j) b = idx q b).
Proof.
  induction fuel as [|f IH]; intros q j I Hj; cbn [up]; [auto|].
  destruct (Nat.eqb (parent j) j || negb (less (arr q) j (parent j))) eqn:C; [auto|].
  apply orb_false_iff in C as [C _]. apply Nat.eqb_neq in C.
  assert (0 < j) by (destruct j; [rewrite parent_zero in C; lia|lia]).
  pose proof (parent_lt j H) as PL.
  assert (Hp : parent j < length (arr q)) by lia.
  destruct (swap_idx q (parent j) j I Hp Hj) as [I1 O1].
  assert (Hp' : parent j < length (arr (swap q (parent j) j))) by (rewrite swap_length; exact Hp).
  destruct (IH (swap q (parent j) j) (parent j) I1 Hp') as [I2 O2].
  split; [exact I2|]. intros b Hb. rewrite O2, O1; auto.
  intros Hin. apply Hb. eapply Permutation_in; [apply perm_ids; apply swap_perm; [exact Hp|exact Hj]|exact Hin].
Qed.

Lemma down_idx fuel : forall q i n, IdxOk q -> n <= length (arr q) ->
  IdxOk (fst (down fuel q i n)) /\ (forall b, ~ In b (ids (arr q)) -> idx (fst (down fuel q i n)) b = idx q b).
Proof.
  induction fuel as [|f IH]; intros q i n I Hn; cbn [down]; [auto|].
  destruct (n <=? 2 * i + 1) eqn:B; [auto|]. apply Nat.leb_gt in B.
  set (j := if (2 * i + 1 + 1 <? n) && less (arr q) (2 * i + 1 + 1) (2 * i + 1) then 2 * i + 1 + 1 else 2 * i + 1).
  assert (Jn : j < n) by (unfold j; destruct (2 * i + 1 + 1 <? n) eqn:B2; cbn; [apply Nat.ltb_lt in B2; destruct (less _ _ _); lia|lia]).
  destruct (negb (less (arr q) j i)); [auto|].
  assert (Hi' : i < length (arr q)) by lia. assert (Hj' : j < length (arr q)) by lia.
  destruct (swap_idx q i j I Hi' Hj') as [I1 O1].
  assert (Hn' : n <= length (arr (swap q i j))) by (rewrite swap_length; exact Hn).
  destruct (IH (swap q i j) j n I1 Hn') as [I2 O2].
  split; [exact I2|]. intros b Hb. rewrite O2, O1; auto.
  intros Hin. apply Hb. eapply Permutation_in; [apply perm_ids; apply swap_perm; [exact Hi'|exact Hj']|exact Hin].
Qed.

Lemma ids_app a x : ids (a ++ [x]) = ids a ++ [fst x].
Proof. unfold ids. rewrite map_app. reflexivity. Qed.

Theorem push_idx q b p : IdxOk q -> ~ In b (ids (arr q)) ->
  IdxOk (push q (b, p)) /\ (forall c, c <> b -> ~ In c (ids (arr q)) -> idx (push q (b, p)) c = idx q c).
Proof.
  intros [N I] Hb. unfold push. set (n := length (arr q)). set (q0 := mkPQ (arr q ++ [(b, p)]) (iset (idx q) b (Z.of_nat n))).
  assert (I0 : IdxOk q0).
  { split; unfold q0; cbn [arr idx].
    - rewrite ids_app. cbn [fst].
      apply Permutation_NoDup with (l := b :: ids (arr q)); [apply Permutation_cons_append|constructor; assumption].
    - rewrite app_length. cbn [length]. intros k Hk. unfold iset.
      destruct (Nat.eq_dec k n) as [->|Nk].
      + unfold n. rewrite get_app_last. cbn [fst]. rewrite Z.eqb_refl. reflexivity.
      + rewrite get_app_l by (fold n; lia).
        destruct (Z.eqb_spec (fst (get (arr q) k)) b) as [E|E]; [exfalso; apply Hb; rewrite <- E; apply get_in; fold n; lia|].
        apply I. fold n. lia. }
  assert (L0 : n < length (arr q0)) by (unfold q0; cbn; rewrite app_length; cbn; fold n; lia).
  destruct (up_idx (S n) q0 n I0 L0) as [I1 O1]. split; [exact I1|].
  intros c Nc Hc. rewrite O1.
  - unfold q0, iset; cbn [idx]. destruct (Z.eqb_spec c b); [contradiction|reflexivity].
  - unfold q0; cbn [arr]. rewrite ids_app. cbn [fst]. intros Hin. apply in_app_or in Hin as [Hin|[E|[]]]; [contradiction|congruence].
Qed.

Theorem pop_idx q x q' : IdxOk q -> pop q = Some (x, q') ->
  IdxOk q' /\ idx q' (fst x) = (-1)%Z /\ ~ In (fst x) (ids (arr q')) /\
  (forall c, ~ In c (ids (arr q)) -> idx q' c = idx q c).
Proof.
  intros I. unfold pop. destruct (arr q) as [|e0 rest] eqn:Ea; [discriminate|].
  rewrite <- Ea in *. set (len := length (arr q)). set (n := len - 1).
  assert (Ln : len = S n) by (unfold n, len; rewrite Ea; cbn; lia).
  set (q1 := swap q 0 n). set (q2 := fst (down len q1 0 n)).
  intros E; inversion E; subst x q'; clear E. cbn [arr idx].
  destruct (swap_idx q 0 n I ltac:(fold len; lia) ltac:(fold len; lia)) as [I1 O1]. fold q1 in I1, O1.
  assert (L1 : length (arr q1) = len) by apply swap_length.
  destruct (down_idx len q1 0 n I1 ltac:(lia)) as [[N2 I2] O2]. fold q2 in N2, I2, O2.
  assert (L2 : length (arr q2) = len) by (unfold q2; rewrite down_length; lia).
  assert (Split : arr q2 = firstn n (arr q2) ++ [get (arr q2) n]).
  { rewrite <- (firstn_skipn n (arr q2)) at 1. f_equal.
    assert (Ls : length (skipn n (arr q2)) = 1) by (rewrite skipn_length; lia).
    destruct (skipn n (arr q2)) as [|z [|z2 r]] eqn:Es; cbn in Ls; try lia.
    f_equal. unfold get. rewrite <- (firstn_skipn n (arr q2)) at 1.
    rewrite app_nth2 by (rewrite firstn_length; lia). rewrite firstn_length, Nat.min_l, Nat.sub_diag by lia.
    rewrite Es. reflexivity. }
  assert (Lf : length (firstn n (arr q2)) = n) by (rewrite firstn_length; lia).
  assert (Nd : NoDup (ids (firstn n (arr q2)) ++ [fst (get (arr q2) n)])).
  { rewrite <- ids_app, <- Split. exact N2. }
  assert (Nlast : ~ In (fst (get (arr q2) n)) (ids (firstn n (arr q2)))).
  { apply NoDup_remove_2 in Nd. rewrite app_nil_r in Nd. exact Nd. }
  split; [split|split; [|split]]; cbn [arr idx].
  - apply NoDup_remove_1 in Nd. rewrite app_nil_r in Nd. exact Nd.
  - rewrite Lf. intros k Hk. unfold iset.
    assert (Gk : get (firstn n (arr q2)) k = get (arr q2) k) by (unfold get; apply nth_firstn_lt; exact Hk).
    rewrite Gk. destruct (Z.eqb_spec (fst (get (arr q2) k)) (fst (get (arr q2) n))) as [E|E];
      [apply nodup_get in E; auto; lia|]. apply I2. lia.
  - unfold iset. rewrite Z.eqb_refl. reflexivity.
  - exact Nlast.
  - intros c Hc. unfold iset.
    assert (Hc1 : ~ In c (ids (arr q1))).
    { intros Hin. apply Hc. assert (H0 : 0 < length (arr q)) by (fold len; lia). assert (Hn : n < length (arr q)) by (fold len; lia).
      eapply Permutation_in; [apply perm_ids; apply swap_perm; [exact H0|exact Hn]|exact Hin]. }
    destruct (Z.eqb_spec c (fst (get (arr q2) n))) as [->|Nc].
    + exfalso. apply Hc1. assert (Hn1 : n <= length (arr q1)) by lia.
      eapply Permutation_in; [apply perm_ids; apply down_perm; exact Hn1|]. apply get_in. fold q2. lia.
    + rewrite O2, O1; auto.
Qed.

Lemma set_priority_idx q i p : IdxOk q -> i < length (arr q) -> IdxOk (set_priority q i p) /\ ids (arr (set_priority q i p)) = ids (arr q).
Proof.
  intros [N I] Hi.
  assert (E : ids (arr (set_priority q i p)) = ids (arr q)).
  { unfold set_priority; cbn [arr]. unfold ids. clear N I. revert i Hi. induction (arr q) as [|y a IH]; intros [|i] Hi; cbn in *; try lia; auto.
    f_equal. apply IH. lia. }
  split; [|exact E]. split; [rewrite E; exact N|].
  intros k Hk. assert (Hk' : k < length (arr q)) by (unfold set_priority in Hk; cbn [arr] in Hk; rewrite set_length in Hk; exact Hk).
  clear Hk. rename Hk' into Hk. unfold set_priority; cbn [arr idx].
  destruct (Nat.eq_dec k i) as [->|Nk].
  - rewrite get_set_same by exact Hi. cbn [fst]. apply I. exact Hi.
  - rewrite get_set_other by exact Nk. apply I. exact Hk.
Qed.

Theorem fix_idx q i : IdxOk q -> i < length (arr q) ->
  IdxOk (fix_at q i) /\ (forall c, ~ In c (ids (arr q)) -> idx (fix_at q i) c = idx q c).
Proof.
  intros I Hi. unfold fix_at. set (n := length (arr q)).
  destruct (down_idx n q i n I ltac:(lia)) as [I1 O1].
  destruct (down n q i n) as [q1 i1] eqn:Ed. cbn [fst] in I1, O1.
  destruct (i <? i1); [auto|]. apply up_idx; [exact I|exact Hi].
Qed.

(* ---------- every run of the heap manager's operations ---------- *)
Definition OutOk (q : pq) (seen : list Z) : Prop :=
  forall b, ~ In b (ids (arr q)) -> (In b seen -> idx q b = (-1)%Z) /\ (~ In b seen -> idx q b = 0%Z).

Record QInv (q : pq) (seen : list Z) : Prop := {
  qi_hp : hp (arr q) (length (arr q));
  qi_idx : IdxOk q;
  qi_out : OutOk q seen;
  qi_seen : incl (ids (arr q)) seen
}.

Lemma QInv_init : QInv init_pq [].
Proof.
  constructor; cbn.
  - intros k Hk; lia.
  - split; [constructor|intros k Hk; cbn in Hk; lia].
  - intros b _. split; [intros []|reflexivity].
  - intros b [].
Qed.

Lemma find_pos_spec a b : forall k0 k, find_pos a b k0 = Some k -> k0 <= k /\ k - k0 < length a /\ fst (get a (k - k0)) = b.
Proof.
  induction a as [|[b' p'] a IH]; intros k0 k; cbn [find_pos]; [discriminate|].
  destruct (Z.eqb_spec b b') as [->|N].
  - intros E; inversion E; subst. rewrite Nat.sub_diag. cbn. repeat split; lia.
  - intros E. destruct (IH _ _ E) as (A & B & C). repeat split; try (cbn; lia).
    replace (k - k0) with (S (k - S k0)) by lia. exact C.
Qed.

Lemma find_pos_none a b : forall k0, find_pos a b k0 = None -> ~ In b (ids a).
Proof.
  induction a as [|[b' p'] a IH]; intros k0; cbn [find_pos]; [intros _ []|].
  destruct (Z.eqb_spec b b') as [->|N]; [discriminate|]. intros E [H|H]; [cbn in H; congruence|eapply IH; eauto].
Qed.

Lemma set_priority_same q i : set_priority q i (pr (arr q) i) = q.
Proof.
  unfold set_priority, pr. destruct q as [a m]; cbn [arr idx]. f_equal.
  rewrite <- surjective_pairing. apply set_get_id.
Qed.

Lemma fix_keeps q i : hp (arr q) (length (arr q)) -> i < length (arr q) ->
  hp (arr (fix_at q i)) (length (arr q)) /\ Permutation (arr (fix_at q i)) (arr q) /\ length (arr (fix_at q i)) = length (arr q).
Proof.
  intros H Hi. pose proof (fix_ok q i (pr (arr q) i) H Hi) as F. cbv zeta in F. rewrite set_priority_same in F. exact F.
Qed.

Lemma fix_empty q i : arr q = [] -> fix_at q i = q.
Proof.
  intros E. unfold fix_at. rewrite E. cbn [length down]. rewrite Nat.ltb_irrefl.
  cbn [up]. destruct (Nat.eqb (parent i) i || negb (less (arr q) i (parent i))) eqn:C; [reflexivity|].
  exfalso. apply orb_false_iff in C as [_ C]. apply negb_false_iff in C. unfold less, pr, get in C. rewrite E in C.
  destruct i, (parent _); cbn in C; discriminate.
Qed.

(* a valid operation: a pushed bar is not in the queue (the container never pushes a bar twice) *)
Definition op_ok (q : pq) (o : qop) : Prop :=
  match o with QOPush b _ => ~ In b (ids (arr q)) | QOFix _ _ lazy => lazy = false | QOPop => True end.

Definition seen_after (seen : list Z) (o : qop) : list Z :=
  match o with QOPush b _ => b :: seen | _ => seen end.

Theorem qstep_inv q seen o : QInv q seen -> op_ok q o ->
  QInv (fst (qstep q o)) (seen_after seen o) /\
  (forall x, snd (qstep q o) = Some x -> In x (arr q) /\ forall y, In y (arr q) -> (snd y <= snd x)%Z).
Proof.
  intros [H I O S] V. destruct o as [b p| |b p lazy]; cbn [qstep seen_after op_ok fst snd] in *.
  - (* push *)
    destruct (push_ok q (b, p) H) as (H1 & P1 & L1). destruct (push_idx q b p I V) as (I1 & O1).
    split; [|intros x E; discriminate]. constructor.
    + rewrite L1. exact H1.
    + exact I1.
    + intros c Hc. assert (Nc : c <> b) by (intros ->; apply Hc; eapply Permutation_in; [apply Permutation_sym, perm_ids; exact P1|left; reflexivity]).
      assert (Hc0 : ~ In c (ids (arr q))) by (intros Hin; apply Hc; eapply Permutation_in; [apply Permutation_sym, perm_ids; exact P1|right; exact Hin]).
      rewrite (O1 c Nc Hc0). destruct (O c Hc0) as [A B]. split.
      * intros [E|Hs]; [congruence|auto].
      * intros Ns. apply B. intros Hs. apply Ns. right. exact Hs.
    + intros c Hc. apply (Permutation_in _ (perm_ids _ _ P1)) in Hc. cbn in Hc. destruct Hc as [<-|Hc]; [left; reflexivity|right; apply S; exact Hc].
  - (* pop *)
    destruct (pop q) as [[x q']|] eqn:E; cbn [fst snd].
    + destruct (pop_ok q x q' H E) as (H1 & P1 & M1). destruct (pop_idx q x q' I E) as (I1 & X1 & N1 & O1).
      split.
      * constructor; auto.
        -- intros c Hc. destruct (Z.eq_dec c (fst x)) as [->|Nc].
           ++ rewrite X1. split; [reflexivity|]. intros Ns. exfalso. apply Ns. apply S.
              eapply Permutation_in; [apply Permutation_sym, perm_ids; exact P1|left; reflexivity].
           ++ assert (Hc0 : ~ In c (ids (arr q))).
              { intros Hin. apply (Permutation_in _ (perm_ids _ _ P1)) in Hin. cbn in Hin. destruct Hin as [E2|Hin]; [congruence|contradiction]. }
              rewrite (O1 c Hc0). apply O. exact Hc0.
        -- intros c Hc. apply S. eapply Permutation_in; [apply Permutation_sym, perm_ids; exact P1|right; exact Hc].
      * intros y Ey. inversion Ey; subst y. split; [eapply Permutation_in; [apply Permutation_sym; exact P1|left; reflexivity]|exact M1].
    + split; [constructor; assumption|intros x Ex; discriminate].
  - (* fix, immediate *)
    subst lazy. split; [|intros x E; destruct (idx q b <? 0)%Z; discriminate].
    destruct (idx q b <? 0)%Z eqn:Neg; cbn [fst]; [constructor; assumption|]. apply Z.ltb_ge in Neg.
    destruct (find_pos (arr q) b 0) as [k|] eqn:Fp.
    + destruct (find_pos_spec _ _ _ _ Fp) as (_ & Hk & Eb). rewrite Nat.sub_0_r in Hk, Eb.
      assert (Ik : idx q b = Z.of_nat k) by (rewrite <- Eb; apply I; exact Hk).
      rewrite Ik, Nat2Z.id.
      destruct (fix_ok q k p H Hk) as (H1 & P1 & L1). cbv zeta in H1, P1, L1.
      destruct (set_priority_idx q k p I Hk) as (I1 & Eids).
      assert (Hk1 : k < length (arr (set_priority q k p))) by (unfold set_priority; cbn [arr]; rewrite set_length; exact Hk).
      destruct (fix_idx _ k I1 Hk1) as (I2 & O2).
      assert (Pids : Permutation (ids (arr (fix_at (set_priority q k p) k))) (ids (arr q))) by (rewrite <- Eids; apply perm_ids; exact P1).
      constructor.
      * rewrite L1. exact H1.
      * exact I2.
      * intros c Hc. assert (Hc0 : ~ In c (ids (arr q))) by (intros Hin; apply Hc; eapply Permutation_in; [apply Permutation_sym; exact Pids|exact Hin]).
        rewrite O2 by (rewrite Eids; exact Hc0). unfold set_priority; cbn [idx]. apply O. exact Hc0.
      * intros c Hc. apply S. eapply Permutation_in; [exact Pids|exact Hc].
    + (* the bar is not in the queue and its index is not negative: it was never pushed, index 0 *)
      pose proof (find_pos_none _ _ _ Fp) as Nb.
      assert (I0 : idx q b = 0%Z).
      { destruct (O b Nb) as [A B]. destruct (in_dec Z.eq_dec b seen) as [Hs|Hs]; [rewrite (A Hs) in Neg; lia|apply B; exact Hs]. }
      rewrite I0. cbn [Z.to_nat].
      destruct (arr q) as [|e0 rest] eqn:Ea.
      * rewrite fix_empty by exact Ea. constructor; rewrite ?Ea; auto.
      * rewrite <- Ea in *. assert (H0 : 0 < length (arr q)) by (rewrite Ea; cbn; lia).
        destruct (fix_keeps q 0 H H0) as (H1 & P1 & L1). destruct (fix_idx q 0 I H0) as (I2 & O2).
        constructor.
        -- rewrite L1. exact H1.
        -- exact I2.
        -- intros c Hc. assert (Hc0 : ~ In c (ids (arr q))) by (intros Hin; apply Hc; eapply Permutation_in; [apply Permutation_sym, perm_ids; exact P1|exact Hin]).
           rewrite (O2 c Hc0). apply O. exact Hc0.
        -- intros c Hc. apply S. eapply Permutation_in; [apply perm_ids; exact P1|exact Hc].
Qed.

Fixpoint run_ok (q : pq) (ops : list qop) : Prop :=
  match ops with [] => True | o :: r => op_ok q o /\ run_ok (fst (qstep q o)) r end.

Theorem qrun_inv ops : forall q seen, QInv q seen -> run_ok q ops ->
  QInv (fst (qrun q ops)) (fold_left seen_after ops seen).
Proof.
  induction ops as [|o ops IH]; intros q seen I V; cbn [qrun fold_left fst]; [exact I|].
  destruct V as [V1 V2]. destruct (qstep_inv q seen o I V1) as [I1 _].
  destruct (qstep q o) as [q1 out] eqn:E1. cbn [fst] in *.
  specialize (IH q1 (seen_after seen o) I1 V2).
  destruct (qrun q1 ops) as [q2 outs]. cbn [fst] in *. exact IH.
Qed.

(* the ordered iteration: popping until the queue is empty yields the bars in non-increasing priority *)
Fixpoint drain (fuel : nat) (q : pq) : list elt :=
  match fuel with
  | O => []
  | S f => match pop q with Some (x, q') => x :: drain f q' | None => [] end
  end.

Lemma pop_length q x q' : pop q = Some (x, q') -> length (arr q) = S (length (arr q')).
Proof.
  unfold pop. destruct (arr q) as [|e0 rest] eqn:Ea; [discriminate|]. rewrite <- Ea.
  intros E; inversion E; subst; clear E. cbn [arr]. rewrite firstn_length, down_length by (rewrite swap_length; lia).
  rewrite swap_length. rewrite Ea. cbn. lia.
Qed.

Theorem drain_sorted fuel : forall q, hp (arr q) (length (arr q)) -> length (arr q) <= fuel ->
  Permutation (drain fuel q) (arr q) /\
  StronglySorted (fun x y => (snd y <= snd x)%Z) (drain fuel q).
Proof.
  induction fuel as [|f IH]; intros q H L; cbn [drain].
  - destruct (arr q); [split; [reflexivity|constructor]|cbn in L; lia].
  - destruct (pop q) as [[x q']|] eqn:E.
    + destruct (pop_ok q x q' H E) as (H1 & P1 & M1). pose proof (pop_length _ _ _ E) as Lq.
      destruct (IH q' H1 ltac:(lia)) as (P2 & S2). split.
      * eapply perm_trans; [apply perm_skip; exact P2|apply Permutation_sym; exact P1].
      * constructor; [exact S2|]. rewrite Forall_forall. intros y Hy. apply M1.
        eapply Permutation_in; [apply Permutation_sym; exact P1|right]. eapply Permutation_in; [exact P2|exact Hy].
    + unfold pop in E. destruct (arr q); [split; [reflexivity|constructor]|discriminate].
Qed.

(* ---------- a lazy change followed by an immediate change of the same bar ---------- *)
Lemma set_set_same (a : list elt) : forall i x y, set (set a i x) i y = set a i y.
Proof. induction a as [|z a IH]; intros [|i] x y; cbn [set]; try reflexivity. rewrite IH. reflexivity. Qed.

Lemma set_priority_twice q0 i p p' : i < length (arr q0) -> set_priority (set_priority q0 i p) i p' = set_priority q0 i p'.
Proof.
  intros Hi. unfold set_priority. cbn [arr idx]. rewrite get_set_same by exact Hi. cbn [fst]. rewrite set_set_same. reflexivity.
Qed.

(* h_fix with lazy = true only stores the new priority; if the heap was in order before, a following h_fix of the SAME bar with
   lazy = false (heap.Fix at that bar's index) puts the whole heap back in order, whatever the two priorities are: the bar is the
   only element out of place *)
Theorem lazy_then_immediate_restores_order q0 i p p' :
  hp (arr q0) (length (arr q0)) -> i < length (arr q0) ->
  let q := set_priority (set_priority q0 i p) i p' in
  hp (arr (fix_at q i)) (length (arr q0)) /\ Permutation (arr (fix_at q i)) (arr q) /\
  length (arr (fix_at q i)) = length (arr q0).
Proof. intros H Hi. rewrite (set_priority_twice q0 i p p' Hi). apply fix_ok; assumption. Qed.
