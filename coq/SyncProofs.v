(* SyncProofs.v — the width rendezvous never gets stuck, takes exactly two steps per
   channel, and hands every decorator the maximum of its column: for every layout
   (any number of bars, any number of synchronised decorators per bar and side) and
   every interleaving. (C12, and the rendezvous part of C01 / C15.) *)
From Coq Require Import Arith Lia.
From MPB Require Import Base BaseProofs Sync.
Open Scope nat_scope.

Lemma all_below_spec n P : all_below n P = true <-> forall j, j < n -> P j = true.
Proof.
  unfold all_below. rewrite forallb_forall. split.
  - intros H j Hj. apply H. apply in_seq. lia.
  - intros H j Hj. apply in_seq in Hj. apply H. lia.
Qed.

Lemma upd_same s i v : upd s i v i = v.
Proof. unfold upd. rewrite Nat.eqb_refl. reflexivity. Qed.

Lemma upd_other s i v k : k <> i -> upd s i v k = s k.
Proof. unfold upd. intros H. destruct (Nat.eqb_spec k i); [contradiction|reflexivity]. Qed.

(* ---------- invariant of every reachable phase assignment ---------- *)
Record SInv (c : cfg) (s : phases) : Prop := {
  si_range : forall i, s i <= 2;
  si_col_mono : forall i j, i < j -> j < nch c -> colof c i = colof c j -> s j <= s i;
  si_col_sep : forall i j, i < nch c -> j < nch c -> colof c i = colof c j -> ~ (s i = 2 /\ s j = 0);
  si_own_mono : forall i j, i < j -> j < nch c -> own c i = own c j -> s j <= s i;
  si_own_one : forall i j, i < nch c -> j < nch c -> i <> j -> own c i = own c j -> ~ (s i = 1 /\ s j = 1)
}.

Lemma SInv_init c : SInv c init_ph.
Proof. constructor; unfold init_ph; intros; lia. Qed.

Lemma collect_ok_spec c s i :
  collect_ok c s i = true <->
  i < nch c /\ s i = 0 /\
  (forall j, j < i -> colof c j = colof c i -> 1 <= s j) /\
  (forall j, j < i -> own c j = own c i -> s j = 2).
Proof.
  unfold collect_ok. rewrite !andb_true_iff, Nat.ltb_lt, Nat.eqb_eq, !all_below_spec. split.
  - intros [[[H1 H2] H3] H4]. repeat split; auto.
    + intros j Hj E. specialize (H3 j Hj). apply orb_true_iff in H3 as [H3|H3].
      * apply negb_true_iff, Nat.eqb_neq in H3. contradiction.
      * apply Nat.leb_le in H3. exact H3.
    + intros j Hj E. specialize (H4 j Hj). apply orb_true_iff in H4 as [H4|H4].
      * apply negb_true_iff, Nat.eqb_neq in H4. contradiction.
      * apply Nat.eqb_eq in H4. exact H4.
  - intros (H1 & H2 & H3 & H4). repeat split; auto.
    + intros j Hj. destruct (Nat.eqb_spec (colof c j) (colof c i)); cbn [negb orb]; [apply Nat.leb_le; auto|reflexivity].
    + intros j Hj. destruct (Nat.eqb_spec (own c j) (own c i)); cbn [negb orb]; [apply Nat.eqb_eq; auto|reflexivity].
Qed.

Lemma answer_ok_spec c s i :
  answer_ok c s i = true <->
  i < nch c /\ s i = 1 /\
  (forall j, j < nch c -> colof c j = colof c i -> 1 <= s j) /\
  (forall j, j < i -> colof c j = colof c i -> s j = 2).
Proof.
  unfold answer_ok. rewrite !andb_true_iff, Nat.ltb_lt, Nat.eqb_eq, !all_below_spec. split.
  - intros [[[H1 H2] H3] H4]. repeat split; auto.
    + intros j Hj E. specialize (H3 j Hj). apply orb_true_iff in H3 as [H3|H3].
      * apply negb_true_iff, Nat.eqb_neq in H3. contradiction.
      * apply Nat.leb_le in H3. exact H3.
    + intros j Hj E. specialize (H4 j Hj). apply orb_true_iff in H4 as [H4|H4].
      * apply negb_true_iff, Nat.eqb_neq in H4. contradiction.
      * apply Nat.eqb_eq in H4. exact H4.
  - intros (H1 & H2 & H3 & H4). repeat split; auto.
    + intros j Hj. destruct (Nat.eqb_spec (colof c j) (colof c i)); cbn [negb orb]; [apply Nat.leb_le; auto|reflexivity].
    + intros j Hj. destruct (Nat.eqb_spec (colof c j) (colof c i)); cbn [negb orb]; [apply Nat.eqb_eq; auto|reflexivity].
Qed.

Lemma collect_SInv c s i :
  wf c -> collect_ok c s i = true -> SInv c s -> SInv c (upd s i 1).
Proof.
  intros [W1 W2] E [R CM CS OM OO].
  apply collect_ok_spec in E as (Hi & Hs & Hc & Ho).
  constructor.
  - intros k. unfold upd. destruct (Nat.eqb k i); [lia|apply R].
  - intros a b Hab Hb Ecol. unfold upd.
    destruct (Nat.eqb_spec a i) as [->|Na]; destruct (Nat.eqb_spec b i) as [->|Nb]; try lia.
    + pose proof (CM i b Hab Hb Ecol). lia.
    + pose proof (Hc a Hab Ecol). lia.
    + apply CM; auto.
  - intros a b Ha Hb Ecol [E2 E0]. unfold upd in *.
    destruct (Nat.eqb_spec a i) as [->|Na]; destruct (Nat.eqb_spec b i) as [->|Nb]; try lia.
    apply (CS a b Ha Hb Ecol). auto.
  - intros a b Hab Hb Eo. unfold upd.
    destruct (Nat.eqb_spec a i) as [->|Na]; destruct (Nat.eqb_spec b i) as [->|Nb]; try lia.
    + pose proof (OM i b Hab Hb Eo). lia.
    + pose proof (Ho a Hab Eo). lia.
    + apply OM; auto.
  - intros a b Ha Hb Nab Eo [E1 E1']. unfold upd in *.
    destruct (Nat.eqb_spec a i) as [->|Na]; destruct (Nat.eqb_spec b i) as [->|Nb]; try lia.
    + (* i and another channel b of the same owner with phase 1 *)
      destruct (Nat.lt_ge_cases b i) as [L|G].
      * pose proof (Ho b L (eq_sym Eo)). lia.
      * pose proof (OM i b ltac:(lia) Hb Eo). lia.
    + destruct (Nat.lt_ge_cases a i) as [L|G].
      * pose proof (Ho a L Eo). lia.
      * pose proof (OM i a ltac:(lia) Ha (eq_sym Eo)). lia.
    + apply (OO a b Ha Hb Nab Eo). auto.
Qed.

Lemma answer_SInv c s i :
  wf c -> answer_ok c s i = true -> SInv c s -> SInv c (upd s i 2).
Proof.
  intros [W1 W2] E [R CM CS OM OO].
  apply answer_ok_spec in E as (Hi & Hs & Hall & Hc).
  constructor.
  - intros k. unfold upd. destruct (Nat.eqb k i); [lia|apply R].
  - intros a b Hab Hb Ecol. unfold upd.
    destruct (Nat.eqb_spec a i) as [->|Na]; destruct (Nat.eqb_spec b i) as [->|Nb]; try lia.
    + pose proof (R b). lia.
    + pose proof (Hc a Hab Ecol). lia.
    + apply CM; auto.
  - intros a b Ha Hb Ecol [E2 E0]. unfold upd in *.
    destruct (Nat.eqb_spec a i) as [->|Na]; destruct (Nat.eqb_spec b i) as [->|Nb]; try lia.
    + pose proof (Hall b Hb (eq_sym Ecol)). lia.
    + apply (CS a b Ha Hb Ecol). auto.
  - intros a b Hab Hb Eo. unfold upd.
    destruct (Nat.eqb_spec a i) as [->|Na]; destruct (Nat.eqb_spec b i) as [->|Nb]; try lia.
    + pose proof (R b). lia.
    + (* b = i is answered: an earlier channel a of the same owner is already answered *)
      pose proof (OM a i Hab Hi Eo).
      assert (s a <> 1) by (intros E1; apply (OO a i ltac:(lia) Hi ltac:(lia) Eo); auto).
      pose proof (R a). lia.
    + apply OM; auto.
  - intros a b Ha Hb Nab Eo [E1 E1']. unfold upd in *.
    destruct (Nat.eqb_spec a i) as [->|Na]; destruct (Nat.eqb_spec b i) as [->|Nb]; try lia.
    apply (OO a b Ha Hb Nab Eo). auto.
Qed.

Lemma sstep_SInv c s a s' : wf c -> sstep c s a = Some s' -> SInv c s -> SInv c s'.
Proof.
  intros W H I. destruct a as [i|i]; cbn in H.
  - destruct (collect_ok c s i) eqn:E; [|discriminate]. inversion H; subst. apply collect_SInv; auto.
  - destruct (answer_ok c s i) eqn:E; [|discriminate]. inversion H; subst. apply answer_SInv; auto.
Qed.

Theorem reachable_SInv c acts s : wf c -> srun c init_ph acts = Some s -> SInv c s.
Proof.
  intros W. unfold srun. generalize (SInv_init c). generalize init_ph.
  induction acts as [|a acts IH]; cbn; intros s0 I H.
  - inversion H; subst; exact I.
  - destruct (sstep c s0 a) as [s1|] eqn:E; [|discriminate].
    apply (IH s1); auto. eapply sstep_SInv; eauto.
Qed.

(* ---------- progress: as long as some exchange is unfinished, some rendezvous is enabled ---------- *)
Lemma classic_dec_below n (s : phases) : (exists k, k < n /\ s k <> 2) \/ (forall k, k < n -> s k = 2).
Proof.
  induction n as [|n [(k & Hk & Hs)|Hall]].
  - right. intros k Hk. lia.
  - left. exists k. split; [lia|exact Hs].
  - destruct (Nat.eq_dec (s n) 2) as [E|N].
    + right. intros k Hk. destruct (Nat.eq_dec k n) as [->|Nk]; [exact E|apply Hall; lia].
    + left. exists n. split; [lia|exact N].
Qed.

Lemma least_unfinished n (s : phases) :
  (exists i, i < n /\ s i <> 2) -> exists i, i < n /\ s i <> 2 /\ forall j, j < i -> s j = 2.
Proof.
  induction n as [|n IH]; intros (i & Hi & Hs); [lia|].
  destruct (Nat.eq_dec i n) as [->|N].
  - destruct (classic_dec_below n s) as [(k & Hk & Hsk)|Hall].
    + destruct (IH (ex_intro _ k (conj Hk Hsk))) as (m & Hm & Hsm & Hlm). exists m. repeat split; auto.
    + exists n. repeat split; auto.
  - assert (Hi' : i < n) by lia.
    destruct (IH (ex_intro _ i (conj Hi' Hs))) as (m & Hm & Hsm & Hlm). exists m. repeat split; auto.
Qed.

Lemma first_fresh_in_col c (s : phases) col n :
  (exists k, k < n /\ colof c k = col /\ s k = 0) ->
  exists k, k < n /\ colof c k = col /\ s k = 0 /\ forall j, j < k -> colof c j = col -> s j <> 0.
Proof.
  induction n as [|n IH]; intros (k & Hk & Ec & Es); [lia|].
  destruct (Nat.eq_dec k n) as [->|N].
  - assert (D : (exists j, j < n /\ colof c j = col /\ s j = 0) \/ (forall j, j < n -> colof c j = col -> s j <> 0)).
    { clear. induction n as [|n [(j & Hj & E1 & E2)|Hall]].
      - right. intros j Hj. lia.
      - left. exists j. repeat split; auto.
      - destruct (Nat.eq_dec (colof c n) col) as [Ec|Nc]; [destruct (Nat.eq_dec (s n) 0) as [E0|N0]|].
        + left. exists n. repeat split; auto.
        + right. intros j Hj Ej. destruct (Nat.eq_dec j n) as [->|Nj]; [exact N0|apply Hall; auto; lia].
        + right. intros j Hj Ej. destruct (Nat.eq_dec j n) as [->|Nj]; [contradiction|apply Hall; auto; lia]. }
    destruct D as [Hex|Hall].
    + destruct (IH Hex) as (m & Hm & E1 & E2 & E3). exists m. repeat split; auto.
    + exists n. repeat split; auto.
  - assert (Hk' : k < n) by lia.
    destruct (IH (ex_intro _ k (conj Hk' (conj Ec Es)))) as (m & Hm & E1 & E2 & E3).
    exists m. repeat split; auto.
Qed.

Lemma classic_dec_col c (s : phases) col :
  (exists k, k < nch c /\ colof c k = col /\ s k = 0) \/ (forall k, k < nch c -> colof c k = col -> s k <> 0).
Proof.
  generalize (nch c). intros n. induction n as [|n [(j & Hj & E1 & E2)|Hall]].
  - right. intros j Hj. lia.
  - left. exists j. repeat split; auto.
  - destruct (Nat.eq_dec (colof c n) col) as [Ec|Nc]; [destruct (Nat.eq_dec (s n) 0) as [E0|N0]|].
    + left. exists n. repeat split; auto.
    + right. intros j Hj Ej. destruct (Nat.eq_dec j n) as [->|Nj]; [exact N0|apply Hall; auto; lia].
    + right. intros j Hj Ej. destruct (Nat.eq_dec j n) as [->|Nj]; [contradiction|apply Hall; auto; lia].
Qed.

Theorem sync_progress c s :
  wf c -> SInv c s -> (exists i, i < nch c /\ s i <> 2) ->
  exists a s', sstep c s a = Some s'.
Proof.
  intros [W1 W2] [R CM CS OM OO] Hex.
  destruct (least_unfinished (nch c) s Hex) as (i & Hi & Hs & Hl).
  (* every channel of an earlier column, and every earlier channel at all, is answered *)
  destruct (Nat.eq_dec (s i) 1) as [E1|N1].
  - (* i is collected: either its whole column is, and i can be answered, or a later channel of
       the column is still fresh and the first such can be collected *)
    destruct (classic_dec_col c s (colof c i)) as [(k & Hk & Ek & Zk)|Hall].
    + destruct (first_fresh_in_col c s (colof c i) (nch c) (ex_intro _ k (conj Hk (conj Ek Zk))))
        as (m & Hm & Em & Zm & Fm).
      exists (ACollect m), (upd s m 1). cbn.
      assert (OK : collect_ok c s m = true); [|rewrite OK; reflexivity].
      apply collect_ok_spec. repeat split; auto.
      * intros j Hj Ej. specialize (Fm j Hj (eq_trans Ej Em)). lia.
      * intros j Hj Eo.
        (* an earlier channel of the same owner is in an earlier column (answered) *)
        destruct (Nat.lt_ge_cases j i) as [L|G]; [apply Hl; exact L|].
        (* j >= i: same column as i and m, excluded by well-formedness *)
        exfalso. assert (Ecol : colof c j = colof c m).
        { assert (colof c i <= colof c j) by (apply W1; lia).
          assert (colof c j <= colof c m) by (apply W1; lia). lia. }
        apply (W2 j m ltac:(lia) Hm ltac:(lia) Ecol Eo).
    + exists (AAnswer i), (upd s i 2). cbn.
      assert (OK : answer_ok c s i = true); [|rewrite OK; reflexivity].
      apply answer_ok_spec. repeat split; auto.
      intros j Hj Ej. specialize (Hall j Hj Ej). specialize (R j). lia.
  - (* i is fresh: it is the first channel of its column that is not answered, hence the first at all *)
    assert (E0 : s i = 0) by (specialize (R i); lia).
    exists (ACollect i), (upd s i 1). cbn.
    assert (OK : collect_ok c s i = true); [|rewrite OK; reflexivity].
    apply collect_ok_spec. repeat split; auto; intros j Hj Ej; rewrite (Hl j Hj); lia.
Qed.

(* ---------- termination: exactly two rendezvous per channel ---------- *)
Fixpoint remaining (n : nat) (s : phases) : nat :=
  match n with O => 0 | S k => (2 - s k) + remaining k s end.

Lemma remaining_upd_out n s i v : n <= i -> remaining n (upd s i v) = remaining n s.
Proof.
  induction n as [|n IH]; intros H; cbn [remaining]; [reflexivity|].
  rewrite upd_other by lia. rewrite IH by lia. reflexivity.
Qed.

Lemma remaining_upd n s i v : i < n -> s i <= 2 -> v <= 2 ->
  remaining n (upd s i v) + (2 - s i) = remaining n s + (2 - v).
Proof.
  induction n as [|n IH]; intros H Hs Hv; [lia|]. cbn [remaining].
  destruct (Nat.eq_dec i n) as [->|N].
  - rewrite upd_same, remaining_upd_out by lia. lia.
  - rewrite upd_other by lia. assert (Hi : i < n) by lia. specialize (IH Hi Hs Hv). lia.
Qed.

Lemma sstep_measure c s a s' :
  SInv c s -> sstep c s a = Some s' -> remaining (nch c) s = S (remaining (nch c) s').
Proof.
  intros I H. destruct a as [i|i]; cbn in H.
  - destruct (collect_ok c s i) eqn:E; [|discriminate]. inversion H; subst.
    apply collect_ok_spec in E as (Hi & Hs & _).
    assert (H0 : s i <= 2) by lia. assert (H1 : 1 <= 2) by lia.
    pose proof (remaining_upd (nch c) s i 1 Hi H0 H1). lia.
  - destruct (answer_ok c s i) eqn:E; [|discriminate]. inversion H; subst.
    apply answer_ok_spec in E as (Hi & Hs & _).
    assert (H0 : s i <= 2) by lia. assert (H1 : 2 <= 2) by lia.
    pose proof (remaining_upd (nch c) s i 2 Hi H0 H1). lia.
Qed.

Lemma remaining_init n : remaining n init_ph = 2 * n.
Proof. induction n as [|n IH]; cbn [remaining]; [reflexivity|]. rewrite IH. unfold init_ph. lia. Qed.

Theorem sync_steps_bounded c acts s :
  wf c -> srun c init_ph acts = Some s -> length acts + remaining (nch c) s = 2 * nch c.
Proof.
  intros W. unfold srun. rewrite <- (remaining_init (nch c)).
  generalize (SInv_init c). generalize init_ph.
  induction acts as [|a acts IH]; cbn; intros s0 I H.
  - inversion H; subst. reflexivity.
  - destruct (sstep c s0 a) as [s1|] eqn:E; [|discriminate].
    rewrite (sstep_measure c s0 a s1 I E).
    specialize (IH s1 (sstep_SInv c s0 a s1 W E I) H). lia.
Qed.

Lemma remaining_zero n s : (forall i, s i <= 2) -> remaining n s = 0 -> forall i, i < n -> s i = 2.
Proof.
  induction n as [|n IH]; intros R H i Hi; [lia|]. cbn [remaining] in H.
  destruct (Nat.eq_dec i n) as [->|N]; [specialize (R n); lia|apply IH; auto; lia].
Qed.

(* a reachable state in which nothing is enabled is the finished state: no interleaving gets stuck *)
Theorem sync_no_stuck c acts s :
  wf c -> srun c init_ph acts = Some s ->
  (forall a, sstep c s a = None) -> forall i, i < nch c -> s i = 2.
Proof.
  intros W R Hstuck i Hi.
  pose proof (reachable_SInv c acts s W R) as I.
  destruct (Nat.eq_dec (s i) 2) as [E|N]; [exact E|].
  destruct (sync_progress c s W I (ex_intro _ i (conj Hi N))) as (a & s' & Hs).
  rewrite Hstuck in Hs. discriminate.
Qed.

(* ---------- result: the answer is the maximum need of the column (and at least the initial 0) ---------- *)
Lemma col_max_fold_ge c col l m0 j :
  In j l -> colof c j = col ->
  (need c j <= fold_left (fun m k => if Nat.eqb (colof c k) col then Z.max m (need c k) else m) l m0)%Z.
Proof.
  revert m0. induction l as [|x l IH]; intros m0 Hin Ec; [destruct Hin|].
  cbn [fold_left]. destruct Hin as [->|Hin].
  - rewrite Ec, Nat.eqb_refl.
    assert (G : forall l m, (m <= fold_left (fun m k => if Nat.eqb (colof c k) col then Z.max m (need c k) else m) l m)%Z).
    { clear. induction l as [|y l IH]; intros m; cbn [fold_left]; [lia|].
      destruct (Nat.eqb (colof c y) col); [specialize (IH (Z.max m (need c y))); lia|apply IH]. }
    specialize (G l (Z.max m0 (need c j))). lia.
  - apply IH; auto.
Qed.

Theorem answer_is_column_max c i j :
  i < nch c -> j < nch c -> colof c j = colof c i -> (need c j <= answer_of c i)%Z.
Proof.
  intros Hi Hj E. unfold answer_of, col_max. apply col_max_fold_ge; [apply in_seq; lia|exact E].
Qed.

Lemma col_max_fold_attained c col l m0 :
  let r := fold_left (fun m k => if Nat.eqb (colof c k) col then Z.max m (need c k) else m) l m0 in
  r = m0 \/ exists j, In j l /\ colof c j = col /\ r = need c j.
Proof.
  revert m0. induction l as [|x l IH]; intros m0; cbn [fold_left]; [left; reflexivity|].
  destruct (Nat.eqb_spec (colof c x) col).
  - destruct (IH (Z.max m0 (need c x))) as [E|(j & Hin & Ec & E)].
    + destruct (Z.max_spec m0 (need c x)) as [[_ M]|[_ M]]; rewrite M in E.
      * right. exists x. split; [left; reflexivity|]. split; [assumption|]. rewrite M. exact E.
      * left. rewrite M. exact E.
    + right. exists j. repeat split; auto. right; exact Hin.
  - destruct (IH m0) as [E|(j & Hin & Ec & E)]; [left; exact E|].
    right. exists j. repeat split; auto. right; exact Hin.
Qed.

Theorem answer_attained c i :
  answer_of c i = 0%Z \/ exists j, j < nch c /\ colof c j = colof c i /\ answer_of c i = need c j.
Proof.
  unfold answer_of, col_max.
  destruct (col_max_fold_attained c (colof c i) (seq 0 (nch c)) 0%Z) as [E|(j & Hin & Ec & E)]; [left; exact E|].
  right. exists j. apply in_seq in Hin. repeat split; auto. lia.
Qed.

(* all channels of one column get one and the same answer *)
Theorem column_common_width c i j : colof c i = colof c j -> answer_of c i = answer_of c j.
Proof. unfold answer_of. intros ->. reflexivity. Qed.
