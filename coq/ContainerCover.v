(* ContainerCover.v — no bar is lost between frames (C05, C17).
   [places] lists where a bar can be.  ContainerProofs shows a bar is in at most one place; here: every bar ever added
   is in exactly one, and when a cycle's ordered iteration begins nothing is in flight — so every bar that is not
   parked behind another bar and has not left for good is in the heap the iteration runs over, hence (by
   frame_bars_are_iter_heap) flushed into that frame exactly once. *)
From MPB Require Import Base BaseProofs BarState Container ContainerProofs ContainerLife ContainerProgress ContainerMatrix ContainerFlush.

(* conservation: a step moves bars between places, loses none, and adds exactly the bar of an accepted Add *)
Lemma step_places_ge s e s' x :
  step s e = Some s' -> Flow s -> (cnt x (places s) + added e x <= cnt x (places s'))%nat.
Proof.
  intros H F. rewrite !places_cnt. pose proof (fl_pop s F) as Fp.
  destruct e; break_step H; use_fifo_pop; simp_state; cbn [added]; try lia; split_popped; norm_places; try lia;
    use_facts x; try lia.
  - (* CT_RENDERBEGIN: the container is idle, flush holds nothing *)
    match goal with Hi : is_idle s = true |- _ => apply is_idle_ph in Hi; rewrite Hi end. cbn [ph_pushes cnt]. lia.
  - (* HM_ITERREQ: nothing is popped while a request is still queued *)
    assert (Pp : popped s = []).
    { destruct (popped s) eqn:E; [reflexivity|]. destruct Fp as [X _]; congruence. }
    rewrite Pp. cbn [cnt]. lia.
Qed.

Theorem step_places_eq s e s' x :
  step s e = Some s' -> Flow s -> cnt x (places s') = (cnt x (places s) + added e x)%nat.
Proof. intros H F. pose proof (step_places_mono s e s' x H). pose proof (step_places_ge s e s' x H F). lia. Qed.

(* every bar ever added is somewhere *)
Definition Full (s : cst) : Prop := forall x, lookup x (bars s) <> None -> In x (places s).

Lemma lookup_update_none {A} x k (v : A) m : lookup x m = None -> lookup k m <> None -> lookup x (update k v m) = None.
Proof. intros L K. rewrite lookup_update_other; [exact L|]. intros ->. congruence. Qed.

Lemma promote_bars_none x qbs p : forall bs, lookup x bs = None -> lookup x (promote_bars bs qbs p) = None.
Proof.
  induction qbs as [|qb qbs IH]; intros bs L; cbn [promote_bars]; [exact L|].
  apply IH. destruct (lookup qb bs) eqn:E; [apply lookup_update_none; congruence|exact L].
Qed.

Lemma step_bars_new s e s' x :
  step s e = Some s' -> lookup x (bars s) = None -> lookup x (bars s') <> None -> added e x = 1%nat.
Proof.
  intros H L L'.
  destruct e; try (exfalso; apply L'; break_step H; use_fifo_pop; simp_state; try assumption;
                   repeat match goal with |- context [if ?c then _ else _] => destruct c end; simp_state;
                   try apply promote_bars_none;
                   repeat (apply lookup_update_none; [|congruence]); assumption).
  (* CT_ADD *)
  cbn [added]. destruct (Z.eqb_spec x b) as [->|N]; [reflexivity|].
  exfalso; apply L'. break_step H; simp_state; repeat (rewrite lookup_update_other by exact N); assumption.
Qed.

Lemma step_Full s e s' : step s e = Some s' -> Flow s -> Full s -> Full s'.
Proof.
  intros H Fl F x L'. apply cnt_In. rewrite (step_places_eq s e s' x H Fl).
  destruct (lookup x (bars s)) eqn:L.
  - assert (In x (places s)) by (apply F; congruence). apply cnt_In in H0. lia.
  - rewrite (step_bars_new s e s' x H L L'). lia.
Qed.

Theorem reachable_Full p a d evs s : run (init_cst p a d) evs = Some s -> Full s.
Proof.
  assert (G : forall s0, PInv s0 /\ Full s0 -> run s0 evs = Some s -> PInv s /\ Full s).
  { induction evs as [|e evs IH]; intros s0 I; unfold run; cbn.
    - intros E; inversion E; subst; exact I.
    - destruct (step s0 e) as [s1|] eqn:E; [|discriminate]. intros R. apply (IH s1); [|exact R].
      destruct I as [[I1 I2] I3]. split.
      + constructor; [eapply step_Inv; eauto|eapply step_Flow; eauto; apply I1].
      + eapply step_Full; eauto. }
  intros R. apply (G (init_cst p a d)); [|exact R].
  split; [constructor; [apply Inv_init|apply Flow_init]|intros x L; cbn in L; congruence].
Qed.

(* ... in exactly one place *)
Theorem bar_in_exactly_one_place p a d evs s x :
  run (init_cst p a d) evs = Some s -> lookup x (bars s) <> None -> cnt x (places s) = 1%nat.
Proof.
  intros R L. pose proof (reachable_Full _ _ _ _ _ R x L) as I. apply cnt_In in I.
  pose proof (inv_uniq _ (reachable_Inv _ _ _ _ _ R) x). lia.
Qed.

(* when the ordered iteration of a cycle begins, the request queue is empty, nothing is popped and flush holds no
   push: nothing is in flight *)
Theorem iteration_begins_with_nothing_in_flight p a d evs s hl s' :
  run (init_cst p a d) evs = Some s -> step s (HM_ITERREQ true hl) = Some s' ->
  fifo s' = [] /\ popped s' = [] /\ ph_pushes (ph s') = [] /\ iter_heap s' = heap s' /\ queue s' = queue s /\
  retired s' = retired s /\ bars s' = bars s.
Proof.
  intros R H. destruct (reachable_PInv _ _ _ _ _ R) as [[U K Q C S] F]. pose proof (reachable_Coh _ _ _ _ _ R) as [_ _ C3].
  break_step H; use_fifo_pop.
  match goal with Hw : is_q 1 ?q = true |- _ => destruct q; cbn in Hw; try discriminate Hw; clear Hw end.
  match goal with Hf : fifo s = QIter :: ?rest |- _ => rename Hf into Ff end. simp_state.
  assert (Rn : rendering s = true).
  { unfold QShape in Q. destruct (rendering s); [reflexivity|]. rewrite Ff in Q. cbn in Q. discriminate. }
  assert (Er : rest = []).
  { unfold QShape in Q. rewrite Rn, Ff in Q. destruct Q as [(pre & P & E)|[E|E]]; [|inversion E; reflexivity|discriminate].
    destruct pre as [|q0 pre]; cbn in E; inversion E; subst. cbn in P. discriminate. }
  subst rest. repeat split.
  apply C3; [exact Rn|rewrite Ff; discriminate].
Qed.

(* hence every bar that was ever added is, at that moment, in the heap the iteration runs over, parked behind a bar that
   has not handed over yet, or gone for good *)
Theorem iteration_covers_every_bar p a d evs s hl s' :
  run (init_cst p a d) evs = Some s -> step s (HM_ITERREQ true hl) = Some s' ->
  forall x, lookup x (bars s) <> None ->
  In x (iter_heap s') \/ In x (map snd (queue s')) \/ In x (retired s').
Proof.
  intros R H x L.
  assert (R' : run (init_cst p a d) (evs ++ [HM_ITERREQ true hl]) = Some s') by (eapply run_snoc; eauto).
  destruct (iteration_begins_with_nothing_in_flight _ _ _ _ _ _ _ R H) as (Ff & Pp & Pu & Ih & _ & _ & Eb).
  assert (L' : lookup x (bars s') <> None) by (rewrite Eb; exact L).
  pose proof (reachable_Full _ _ _ _ _ R' x L') as I. unfold places in I. rewrite Ff, Pp, Pu, <- Ih in I. cbn [fifo_pushes app] in I.
  apply in_app_or in I as [I|I]; [left; exact I|]. apply in_app_or in I as [I|I]; [right; left; exact I|right; right; exact I].
Qed.

(* a bar that is not parked is never parked later: only a newly created bar is put into the queue *)
Lemma step_unparked s e s' x :
  step s e = Some s' -> lookup x (bars s) <> None -> ~ In x (map snd (queue s)) -> ~ In x (map snd (queue s')).
Proof.
  intros H L N.
  destruct e; try (break_step H; use_fifo_pop; simp_state; try assumption;
                   repeat match goal with |- context [if ?c then _ else _] => destruct c end; simp_state; assumption).
  - (* CT_ADD *)
    break_step H; simp_state; try assumption. rewrite map_app. cbn [map snd]. intros I.
    apply in_app_or in I as [I|[<-|[]]]; [contradiction|congruence].
  - (* CT_FLUSHBAR *)
    break_step H; simp_state; try assumption;
      repeat match goal with |- context [if ?c then _ else _] => destruct c end; simp_state; try assumption.
    all: intros I; apply N; clear - I; induction (queue s) as [|[k v] q IH]; cbn [remove_key map snd In] in *; [exact I|];
      destruct (b =? k); cbn [map snd In] in *; [right; auto|destruct I as [I|I]; [left; exact I|right; auto]].
Qed.

Lemma run_unparked evs' : forall s s' x,
  run s evs' = Some s' -> lookup x (bars s) <> None -> ~ In x (map snd (queue s)) ->
  lookup x (bars s') <> None /\ ~ In x (map snd (queue s')).
Proof.
  induction evs' as [|e evs' IH]; intros s s' x; unfold run; cbn [fold_left_opt].
  - intros E; inversion E; subst; auto.
  - destruct (step s e) as [s1|] eqn:E; [|discriminate]. intros R L N.
    apply (IH s1 s' x R); [eapply step_bars_mono; eauto|eapply step_unparked; eauto].
Qed.

Lemma run_app_reach p a d evs s evs' s' :
  run (init_cst p a d) evs = Some s -> run s evs' = Some s' -> run (init_cst p a d) (evs ++ evs') = Some s'.
Proof. unfold run. intros R R'. rewrite fold_left_opt_app, R. exact R'. Qed.

(* C17 / C05: a bar that exists and is not parked — pushed by Add, released by its predecessor's hand-over, or pushed at once
   because its predecessor had already handed over — is in the heap of EVERY ordered iteration that begins later, until it
   leaves for good: it is in the very next frame and in every frame after it *)
Theorem unparked_bar_is_in_every_later_iteration p a d evs s x evs' s1 hl s2 :
  run (init_cst p a d) evs = Some s -> lookup x (bars s) <> None -> ~ In x (map snd (queue s)) ->
  run s evs' = Some s1 -> step s1 (HM_ITERREQ true hl) = Some s2 ->
  In x (iter_heap s2) \/ In x (retired s2).
Proof.
  intros R L N R' H. destruct (run_unparked evs' s s1 x R' L N) as [L1 N1].
  pose proof (run_app_reach _ _ _ _ _ _ _ R R') as R1.
  destruct (iteration_begins_with_nothing_in_flight _ _ _ _ _ _ _ R1 H) as (_ & _ & _ & _ & Eq & _ & _).
  destruct (iteration_covers_every_bar _ _ _ _ _ _ _ R1 H x L1) as [I|[I|I]]; auto. rewrite Eq in I. contradiction.
Qed.
