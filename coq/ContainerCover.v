(* ContainerCover.v — no bar is lost between frames (C05, C17).
   [places] lists where a bar can be.  ContainerProofs shows a bar is in at most one place; here: every bar ever added
   is in exactly one, and when a cycle's ordered iteration begins nothing is in flight — so every bar that is not
   parked behind another bar and has not left for good is in the heap the iteration runs over, hence (by
   frame_bars_are_iter_heap) flushed into that frame exactly once. *)
From MPB Require Import Base BaseProofs BarState Container ContainerProofs ContainerLife ContainerProgress ContainerMatrix ContainerFlush.

(* conservation: a step moves bars between places, loses none, and adds exactly the bar of an accepted Add *)
Lemma step_places_ge s e s' x :
  step s e = Some s' -> Flow s -> (cnt x (places s) + added e x <= cnt x (places s'))%nat.
Proof.
  intros H F. rewrite !places_cnt. pose proof (fl_pop s F) as Fp.
  destruct e; break_step H; use_fifo_pop; simp_state; cbn [added]; try lia; split_popped; norm_places; try lia;
    use_facts x; try lia.
  - (* CT_RENDERBEGIN: the container is idle, flush holds nothing *)
    match goal with Hi : is_idle s = true |- _ => apply is_idle_ph in Hi; rewrite Hi end. cbn [ph_pushes cnt]. lia.
  - (* HM_ITERREQ: nothing is popped while a request is still queued *)
    assert (Pp : popped s = []).
    { destruct (popped s) eqn:E; [reflexivity|]. destruct Fp as [X _]; congruence. }
    rewrite Pp. cbn [cnt]. lia.
Qed.

Theorem step_places_eq s e s' x :
  step s e = Some s' -> Flow s -> cnt x (places s') = (cnt x (places s) + added e x)%nat.
Proof. intros H F. pose proof (step_places_mono s e s' x H). pose proof (step_places_ge s e s' x H F). lia. Qed.

(* every bar ever added is somewhere *)
Definition Full (s : cst) : Prop := forall x, lookup x (bars s) <> None -> In x (places s).

Lemma lookup_update_none {A} x k (v : A) m : lookup x m = None -> lookup k m <> None -> lookup x (update k v m) = None.
Proof. intros L K. rewrite lookup_update_other; [exact L|]. intros ->. congruence. Qed.

Lemma promote_bars_none x qbs p : forall bs, lookup x bs = None -> lookup x (promote_bars bs qbs p) = None.
Proof.
  induction qbs as [|qb qbs IH]; intros bs L; cbn [promote_bars]; [exact L|].
  apply IH. destruct (lookup qb bs) eqn:E; [apply lookup_update_none; congruence|exact L].
Qed.

Lemma step_bars_new s e s' x :
  step s e = Some s' -> lookup x (bars s) = None -> lookup x (bars s') <> None -> added e x = 1%nat.
Proof.
  intros H L L'.
  destruct e; try (exfalso; apply L'; break_step H; use_fifo_pop; simp_state; try assumption;
                   repeat match goal with |- context [if ?c then _ else _] => destruct c end; simp_state;
                   try apply promote_bars_none;
                   repeat (apply lookup_update_none; [|congruence]); assumption).
  (* CT_ADD *)
  cbn [added]. destruct (Z.eqb_spec x b) as [->|N]; [reflexivity|].
  exfalso; apply L'. break_step H; simp_state; repeat (rewrite lookup_update_other by exact N); assumption.
Qed.

Lemma step_Full s e s' : step s e = Some s' -> Flow s -> Full s -> Full s'.
Proof.
  intros H Fl F x L'. apply cnt_In. rewrite (step_places_eq s e s' x H Fl).
  destruct (lookup x (bars s)) eqn:L.
  - assert (In x (places s)) by (apply F; congruence). apply cnt_In in H0. lia.
  - rewrite (step_bars_new s e s' x H L L'). lia.
Qed.

Theorem reachable_Full p a d evs s : run (init_cst p a d) evs = Some s -> Full s.
Proof.
  assert (G : forall s0, PInv s0 /\ Full s0 -> run s0 evs = Some s -> PInv s /\ Full s).
  { induction evs as [|e evs IH]; intros s0 I; unfold run; cbn.
    - intros E; inversion E; subst; exact I.
    - destruct (step s0 e) as [s1|] eqn:E; [|discriminate]. intros R. apply (IH s1); [|exact R].
      destruct I as [[I1 I2] I3]. split.
      + constructor; [eapply step_Inv; eauto|eapply step_Flow; eauto; apply I1].
      + eapply step_Full; eauto. }
  intros R. apply (G (init_cst p a d)); [|exact R].
  split; [constructor; [apply Inv_init|apply Flow_init]|intros x L; cbn in L; congruence].
Qed.

(* ... in exactly one place *)
Theorem bar_in_exactly_one_place p a d evs s x :
  run (init_cst p a d) evs = Some s -> lookup x (bars s) <> None -> cnt x (places s) = 1%nat.
Proof.
  intros R L. pose proof (reachable_Full _ _ _ _ _ R x L) as I. apply cnt_In in I.
  pose proof (inv_uniq _ (reachable_Inv _ _ _ _ _ R) x). lia.
Qed.

(* when the ordered iteration of a cycle begins, the request queue is empty, nothing is popped and flush holds no
   push: nothing is in flight *)
Theorem iteration_begins_with_nothing_in_flight p a d evs s hl s' :
  run (init_cst p a d) evs = Some s -> step s (HM_ITERREQ true hl) = Some s' ->
  fifo s' = [] /\ popped s' = [] /\ ph_pushes (ph s') = [] /\ iter_heap s' = heap s' /\ queue s' = queue s /\
  retired s' = retired s /\ bars s' = bars s.
Proof.
  intros R H. destruct (reachable_PInv _ _ _ _ _ R) as [[U K Q C S] F]. pose proof (reachable_Coh _ _ _ _ _ R) as [_ _ C3].
  break_step H; use_fifo_pop.
  match goal with Hw : is_q 1 ?q = true |- _ => destruct q; cbn in Hw; try discriminate Hw; clear Hw end.
  match goal with Hf : fifo s = QIter :: ?rest |- _ => rename Hf into Ff end. simp_state.
  assert (Rn : rendering s = true).
  { unfold QShape in Q. destruct (rendering s); [reflexivity|]. rewrite Ff in Q. cbn in Q. discriminate. }
  assert (Er : rest = []).
  { unfold QShape in Q. rewrite Rn, Ff in Q. destruct Q as [(pre & P & E)|[E|E]]; [|inversion E; reflexivity|discriminate].
    destruct pre as [|q0 pre]; cbn in E; inversion E; subst. cbn in P. discriminate. }
  subst rest. repeat split.
  apply C3; [exact Rn|rewrite Ff; discriminate].
Qed.

(* hence every bar that was ever added is, at that moment, in the heap the iteration runs over, parked behind a bar that
   has not handed over yet, or gone for good *)
Theorem iteration_covers_every_bar p a d evs s hl s' :
  run (init_cst p a d) evs = Some s -> step s (HM_ITERREQ true hl) = Some s' ->
  forall x, lookup x (bars s) <> None ->
  In x (iter_heap s') \/ In x (map snd (queue s')) \/ In x (retired s').
Proof.
  intros R H x L.
  assert (R' : run (init_cst p a d) (evs ++ [HM_ITERREQ true hl]) = Some s') by (eapply run_snoc; eauto).
  destruct (iteration_begins_with_nothing_in_flight _ _ _ _ _ _ _ R H) as (Ff & Pp & Pu & Ih & _ & _ & Eb).
  assert (L' : lookup x (bars s') <> None) by (rewrite Eb; exact L).
  pose proof (reachable_Full _ _ _ _ _ R' x L') as I. unfold places in I. rewrite Ff, Pp, Pu, <- Ih in I. cbn [fifo_pushes app] in I.
  apply in_app_or in I as [I|I]; [left; exact I|]. apply in_app_or in I as [I|I]; [right; left; exact I|right; right; exact I].
Qed.

(* a bar that is not parked is never parked later: only a newly created bar is put into the queue *)
Lemma step_unparked s e s' x :
  step s e = Some s' -> lookup x (bars s) <> None -> ~ In x (map snd (queue s)) -> ~ In x (map snd (queue s')).
Proof.
  intros H L N.
  destruct e; try (break_step H; use_fifo_pop; simp_state; try assumption;
                   repeat match goal with |- context [if ?c then _ else _] => destruct c end; simp_state; assumption).
  - (* CT_ADD *)
    break_step H; simp_state; try assumption. rewrite map_app. cbn [map snd]. intros I.
    apply in_app_or in I as [I|[<-|[]]]; [contradiction|congruence].
  - (* CT_FLUSHBAR *)
    break_step H; simp_state; try assumption;
      repeat match goal with |- context [if ?c then _ else _] => destruct c end; simp_state; try assumption.
    all: intros I; apply N; clear - I; induction (queue s) as [|[k v] q IH]; cbn [remove_key map snd In] in *; [exact I|];
      destruct (b =? k); cbn [map snd In] in *; [right; auto|destruct I as [I|I]; [left; exact I|right; auto]].
Qed.

Lemma run_unparked evs' : forall s s' x,
  run s evs' = Some s' -> lookup x (bars s) <> None -> ~ In x (map snd (queue s)) ->
  lookup x (bars s') <> None /\ ~ In x (map snd (queue s')).
Proof.
  induction evs' as [|e evs' IH]; intros s s' x; unfold run; cbn [fold_left_opt].
  - intros E; inversion E; subst; auto.
  - destruct (step s e) as [s1|] eqn:E; [|discriminate]. intros R L N.
    apply (IH s1 s' x R); [eapply step_bars_mono; eauto|eapply step_unparked; eauto].
Qed.

Lemma run_app_reach p a d evs s evs' s' :
  run (init_cst p a d) evs = Some s -> run s evs' = Some s' -> run (init_cst p a d) (evs ++ evs') = Some s'.
Proof. unfold run. intros R R'. rewrite fold_left_opt_app, R. exact R'. Qed.

(* C17 / C05: a bar that exists and is not parked — pushed by Add, released by its predecessor's hand-over, or pushed at once
   because its predecessor had already handed over — is in the heap of EVERY ordered iteration that begins later, until it
   leaves for good: it is in the very next frame and in every frame after it *)
Theorem unparked_bar_is_in_every_later_iteration p a d evs s x evs' s1 hl s2 :
  run (init_cst p a d) evs = Some s -> lookup x (bars s) <> None -> ~ In x (map snd (queue s)) ->
  run s evs' = Some s1 -> step s1 (HM_ITERREQ true hl) = Some s2 ->
  In x (iter_heap s2) \/ In x (retired s2).
Proof.
  intros R L N R' H. destruct (run_unparked evs' s s1 x R' L N) as [L1 N1].
  pose proof (run_app_reach _ _ _ _ _ _ _ R R') as R1.
  destruct (iteration_begins_with_nothing_in_flight _ _ _ _ _ _ _ R1 H) as (_ & _ & _ & _ & Eq & _ & _).
  destruct (iteration_covers_every_bar _ _ _ _ _ _ _ R1 H x L1) as [I|[I|I]]; auto. rewrite Eq in I. contradiction.
Qed.

(* ---------- the frame after which the container ends shows exactly the bars that are left (C03, C05, C14) ---------- *)
(* the width-sync matrices and the ordered iteration of a cycle are built from the same heap: between a cycle's sync request
   and its iteration request nothing touches the heap *)
Definition MatIter (s : cst) : Prop :=
  (fifo s = [QIter] -> forall x, cnt x (matrix s) = cnt x (heap s)) /\
  (fifo s <> [QIter] -> forall x, cnt x (matrix s) = cnt x (iter_heap s)).

Lemma MatIter_init p a d : MatIter (init_cst p a d).
Proof. split; cbn; intros; try discriminate; reflexivity. Qed.

Lemma qiter_only_after_sync s q rest : QShape s -> fifo s = q :: rest -> q = QIter -> rest = [].
Proof.
  intros Q F ->. unfold QShape in Q. destruct (rendering s).
  - destruct Q as [(pre & P & E)|[E|E]]; rewrite F in E.
    + destruct pre as [|q0 pre]; cbn in E; inversion E; subst. cbn in P. discriminate.
    + inversion E; reflexivity.
    + discriminate.
  - rewrite F in Q. cbn in Q. discriminate.
Qed.

Lemma plain_no_iter l : forallb plain l = true -> l <> [QIter].
Proof. intros P E. rewrite E in P. cbn in P. discriminate. Qed.

Lemma idle_plain s : QShape s -> rendering s = false -> forallb plain (fifo s) = true.
Proof. unfold QShape. intros Q R. rewrite R in Q. exact Q. Qed.

(* behind a plain request (a push or an operation) the queue is never just the iter request: sync and iter are sent together *)
Lemma tail_not_qiter s q rest : QShape s -> fifo s = q :: rest -> plain q = true -> rest <> [QIter].
Proof.
  intros Q F P E. subst rest. unfold QShape in Q. rewrite F in Q. destruct (rendering s).
  - destruct Q as [(pre & Pp & E)|[E|E]]; try discriminate.
    destruct pre as [|q0 pre]; cbn in E; inversion E; subst; [cbn in P; discriminate|].
    destruct pre as [|q1 pre]; cbn in *; try discriminate. destruct pre; discriminate.
  - cbn in Q. rewrite P in Q. cbn in Q. discriminate.
Qed.

Lemma MatIter_keep s s' :
  matrix s' = matrix s -> heap s' = heap s -> iter_heap s' = iter_heap s -> fifo s' <> [QIter] -> fifo s <> [QIter] ->
  MatIter s -> MatIter s'.
Proof. unfold MatIter. intros Em Eh Ei N' N [M1 M2]. rewrite Em, Eh, Ei. split; [intros E; contradiction|intros _; exact (M2 N)]. Qed.

Lemma step_MatIter p a d evs s e s' :
  run (init_cst p a d) evs = Some s -> step s e = Some s' -> MatIter s -> MatIter s'.
Proof.
  intros R H M. pose proof M as [M1 M2].
  destruct (reachable_PInv _ _ _ _ _ R) as [[U K Q C S] F].
  assert (Q' : QShape s') by (eapply step_QShape; eauto).
  destruct e; try (unfold MatIter; break_step H; use_fifo_pop; simp_state; (split; [exact M1|exact M2])).
  - (* CT_OP: the container is idle, every queued request is a plain one, before and after *)
    assert (Ri : rendering s = false /\ rendering s' = false).
    { break_step H; simp_state; prep; unfold rendering; simp_state;
        repeat match goal with Hi : ph _ = Idle |- _ => rewrite Hi end; auto. }
    destruct Ri as [R0 R1].
    apply (MatIter_keep s s'); try (break_step H; simp_state; reflexivity);
      [apply plain_no_iter, idle_plain; assumption|apply plain_no_iter, idle_plain; assumption|exact M].
  - (* CT_ADD: likewise *)
    assert (Ri : rendering s = false /\ rendering s' = false).
    { break_step H; simp_state; prep; unfold rendering; simp_state;
        repeat match goal with Hi : ph _ = Idle |- _ => rewrite Hi end; auto. }
    destruct Ri as [R0 R1].
    apply (MatIter_keep s s'); try (break_step H; simp_state; reflexivity);
      [apply plain_no_iter, idle_plain; assumption|apply plain_no_iter, idle_plain; assumption|exact M].
  - (* CT_RENDERBEGIN *)
    assert (R0 : rendering s = false).
    { break_step H; prep; unfold rendering; repeat match goal with Hi : ph _ = Idle |- _ => rewrite Hi end; auto. }
    apply (MatIter_keep s s'); try (break_step H; simp_state; reflexivity);
      [|apply plain_no_iter, idle_plain; assumption|exact M].
    break_step H; simp_state. intros E. destruct (fifo s) as [|q0 [|q1 l]]; cbn in E; discriminate.
  - (* CT_FLUSHBAR: pushes are sent from flush only once the iteration is over and the queue is empty *)
    assert (Hf : fifo s' = fifo s \/ (fifo s = [] /\ exists pu, fifo s' = map (fun p : Z * bool => QPush (fst p) (snd p)) pu)).
    { break_step H; simp_state; repeat match goal with |- context [if ?c then _ else _] => destruct c eqn:? end; simp_state; auto.
      all: right; prep;
        match goal with Hn : nil_b (fifo ?s0) = true |- _ => apply nil_b_true in Hn; rewrite Hn; cbn [app]; split; [reflexivity|eexists; reflexivity] end. }
    assert (Hm : matrix s' = matrix s /\ heap s' = heap s /\ iter_heap s' = iter_heap s).
    { break_step H; simp_state; repeat match goal with |- context [if ?c then _ else _] => destruct c end; simp_state; auto. }
    destruct Hm as (Em & Eh & Ei).
    destruct Hf as [Ef|(Ff & pu & Ef)].
    + unfold MatIter. rewrite Em, Eh, Ei, Ef. exact M.
    + apply (MatIter_keep s s'); auto; [rewrite Ef; apply plain_no_iter, forallb_plain_pushes|rewrite Ff; discriminate].
  - (* CT_FRAME *)
    assert (Ff : fifo s = []) by (break_step H; prep; match goal with Hn : nil_b (fifo s) = true |- _ => apply nil_b_true in Hn; exact Hn end).
    apply (MatIter_keep s s'); try (break_step H; simp_state; reflexivity); [|rewrite Ff; discriminate|exact M].
    break_step H; simp_state; rewrite Ff; cbn [app]; apply plain_no_iter, forallb_plain_pushes.
  - (* HM_PUSH: the heap grows; the queue behind the push is not the bare iter request *)
    assert (Hf : exists q rest, fifo s = q :: rest /\ plain q = true /\ fifo s' = rest /\ matrix s' = matrix s /\ iter_heap s' = iter_heap s).
    { break_step H; use_fifo_pop; simp_state. do 2 eexists. repeat split; try eassumption.
      match goal with Hw : is_push _ _ ?q = true |- _ => apply is_push_spec in Hw; subst q; reflexivity end. }
    destruct Hf as (q & rest & Ff & Pq & Ef & Em & Ei).
    split; [intros E; exfalso; rewrite Ef in E; exact (tail_not_qiter s q rest Q Ff Pq E)|].
    intros _. rewrite Em, Ei. apply M2. rewrite Ff. intros E; inversion E; subst; discriminate.
  - (* HM_SYNC *)
    pose proof (matrix_fresh_after_sync _ _ _ _ _ _ _ _ _ R H) as Fr.
    split; [intros _; exact Fr|].
    intros NE. exfalso. apply NE. break_step H; use_fifo_pop; simp_state.
    all: match goal with Hw : is_q 0 ?q = true |- _ => destruct q; cbn in Hw; try discriminate Hw end.
    all: match goal with Hf : fifo ?s0 = QSync :: ?rest |- _ => destruct (qsync_head s0 rest Q Hf) as [-> _]; reflexivity end.
  - (* HM_ITERREQ *)
    destruct haspop.
    + destruct (iteration_begins_with_nothing_in_flight _ _ _ _ _ _ _ R H) as (Ff & _ & _ & Ih & _).
      assert (Hm : matrix s' = matrix s /\ heap s' = heap s /\ fifo s = [QIter]).
      { break_step H; use_fifo_pop; simp_state.
        match goal with Hw : is_q 1 ?q = true |- _ => destruct q; cbn in Hw; try discriminate Hw end.
        match goal with Hf : fifo ?s0 = QIter :: ?rest |- _ => rewrite (qiter_only_after_sync s0 QIter rest Q Hf eq_refl) in Hf; auto end. }
      destruct Hm as (Em & Eh & Fs). split; [rewrite Ff; discriminate|]. intros _. rewrite Ih, Em, Eh. exact (M1 Fs).
    + assert (Hf : exists q rest, fifo s = q :: rest /\ plain q = true /\ fifo s' = rest /\ matrix s' = matrix s /\ heap s' = heap s /\ iter_heap s' = iter_heap s).
      { break_step H; use_fifo_pop; simp_state. do 2 eexists. repeat split; try eassumption.
        match goal with Hw : is_q 2 ?q = true |- _ => destruct q; cbn in Hw; try discriminate Hw; reflexivity end. }
      destruct Hf as (q & rest & Ff & Pq & Ef & Em & Eh & Ei).
      apply (MatIter_keep s s'); auto; [rewrite Ef; exact (tail_not_qiter s q rest Q Ff Pq)|rewrite Ff; intros E; inversion E; subst; discriminate].
  - (* HM_FIX *)
    assert (Hf : exists q rest, fifo s = q :: rest /\ plain q = true /\ fifo s' = rest /\ matrix s' = matrix s /\ heap s' = heap s /\ iter_heap s' = iter_heap s).
    { break_step H; use_fifo_pop; simp_state; do 2 eexists; repeat split; try eassumption;
        match goal with Hw : is_q 2 ?q = true |- _ => destruct q; cbn in Hw; try discriminate Hw; reflexivity end. }
    destruct Hf as (q & rest & Ff & Pq & Ef & Em & Eh & Ei).
    apply (MatIter_keep s s'); auto; [rewrite Ef; exact (tail_not_qiter s q rest Q Ff Pq)|rewrite Ff; intros E; inversion E; subst; discriminate].
  - (* HM_POP: an iteration is running, the queue is empty *)
    assert (Ff : fifo s = [] /\ fifo s' = [] /\ matrix s' = matrix s /\ iter_heap s' = iter_heap s).
    { break_step H; prep; simp_state; match goal with Hi : iterating s = true |- _ => destruct (fl_iter s F Hi) as [X _]; auto end. }
    destruct Ff as (Ff & Ff' & Em & Ei).
    split; [rewrite Ff'; discriminate|]. intros _. rewrite Em, Ei. apply M2. rewrite Ff. discriminate.
Qed.

Theorem reachable_MatIter p a d evs s : run (init_cst p a d) evs = Some s -> MatIter s.
Proof.
  assert (G : forall evs0 s0, run (init_cst p a d) evs0 = Some s0 -> MatIter s0 -> run s0 evs = Some s -> MatIter s).
  { induction evs as [|e evs IH]; intros evs0 s0 R0 M0; unfold run; cbn [fold_left_opt].
    - intros E; inversion E; subst; exact M0.
    - destruct (step s0 e) as [s1|] eqn:E; [|discriminate]. intros R1.
      apply (IH (evs0 ++ [e]) s1); [eapply run_snoc; eauto|eapply step_MatIter; eauto|exact R1]. }
  intros R. apply (G [] (init_cst p a d)); [reflexivity|apply MatIter_init|exact R].
Qed.

(* when the heap manager answers "nothing changed" to the shutdown loop's question — the only answer after which the container
   ends — the bars in the heap are exactly the bars of the last frame's ordered iteration: no bar left or joined during the frame
   that is now the last one on the screen *)
Theorem last_frame_shows_the_final_set p a d evs s hl cs cl s' :
  run (init_cst p a d) evs = Some s -> step s (HM_STATE hl cs cl) = Some s' -> state_answer s' = Some false ->
  forall x, cnt x (heap s') = cnt x (iter_heap s').
Proof.
  intros R H A x. pose proof (reachable_Coh _ _ _ _ _ R) as [C1 C2 C3]. destruct (reachable_MatIter _ _ _ _ _ R) as [_ M2].
  break_step H. prep. simp_state. cbn [state_answer] in A.
  match goal with Hn : nil_b (fifo s) = true |- _ => apply nil_b_true in Hn; rename Hn into Ff end.
  injection A as A. apply orb_false_iff in A as [Hs Hl]. apply negb_false_iff, Z.eqb_eq in Hl.
  rewrite <- (M2 ltac:(rewrite Ff; discriminate) x).
  apply cnt_length_eq.
  - intros y. specialize (C1 Hs y). rewrite members_cnt in C1. lia.
  - apply Nat2Z.inj. match goal with Hq : (hl =? _) = true |- _ => apply Z.eqb_eq in Hq end. congruence.
Qed.

(* from that answer until the heap manager is told to end nothing moves: the container goroutine only leaves its loop *)
Definition AnsInv (s : cst) : Prop :=
  state_answer s = Some false ->
  (forall x, cnt x (heap s) = cnt x (iter_heap s)) /\ fifo s = [] /\ idle_ph s = true /\ iterating s = false /\ done_seen s = true.

Lemma step_AnsInv p a d evs s e s' :
  run (init_cst p a d) evs = Some s -> step s e = Some s' -> AnsInv s -> AnsInv s'.
Proof.
  intros R H I A.
  destruct e; try (assert (A0 : state_answer s = Some false) by (break_step H; use_fifo_pop; simp_state; exact A);
                   destruct (I A0) as (I1 & I2 & I3 & I4 & I5);
                   break_step H; use_fifo_pop; simp_state; prep;
                   try congruence; try (unfold idle_ph in I3; simp_state; match goal with Hp : ph _ = _ |- _ => rewrite Hp in I3; discriminate end);
                   try (match goal with Hr : replace_last_op (fifo _) _ = Some _ |- _ => rewrite I2 in Hr; discriminate end);
                   repeat split; assumption).
  - (* CT_RENDERBEGIN: the answer is consumed *)
    break_step H; simp_state. cbn [state_answer] in A. discriminate.
  - (* HM_STATE: a fresh answer *)
    pose proof (last_frame_shows_the_final_set _ _ _ _ _ _ _ _ _ R H A) as L.
    break_step H; prep; simp_state. repeat split; try assumption.
    + match goal with Hn : nil_b (fifo s) = true |- _ => apply nil_b_true in Hn; exact Hn end.
Qed.

Theorem reachable_AnsInv p a d evs s : run (init_cst p a d) evs = Some s -> AnsInv s.
Proof.
  assert (G : forall evs0 s0, run (init_cst p a d) evs0 = Some s0 -> AnsInv s0 -> run s0 evs = Some s -> AnsInv s).
  { induction evs as [|e evs IH]; intros evs0 s0 R0 M0; unfold run; cbn [fold_left_opt].
    - intros E; inversion E; subst; exact M0.
    - destruct (step s0 e) as [s1|] eqn:E; [|discriminate]. intros R1.
      apply (IH (evs0 ++ [e]) s1); [eapply run_snoc; eauto|eapply step_AnsInv; eauto|exact R1]. }
  intros R. apply (G [] (init_cst p a d)); [reflexivity|intros A; cbn in A; discriminate|exact R].
Qed.

(* C03 / C05 / C14: the heap manager is never told to end after the answer "something changed" (the loop renders again first), and
   when it is told to end after the answer "nothing changed", the bars left in the container — the ones the shutdown notifier lists —
   are exactly the bars of the last frame's iteration *)
Theorem container_ends_on_the_last_frames_set p a d evs s hl s' :
  run (init_cst p a d) evs = Some s -> step s (HM_END hl) = Some s' ->
  state_answer s <> Some true /\
  (state_answer s = Some false -> forall x, cnt x (heap s') = cnt x (iter_heap s')).
Proof.
  intros R H. pose proof (reachable_AnsInv _ _ _ _ _ R) as I. split.
  - intros A. break_step H. prep. rewrite A in *. cbn in *. discriminate.
  - intros A x. destruct (I A) as (I1 & _). break_step H; simp_state. apply I1.
Qed.
