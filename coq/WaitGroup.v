(* WaitGroup.v — bar_wait_group.go: the counter Progress.Wait blocks on (a mutex, a count, a condition variable that is
   broadcast when the count reaches zero).  Every method body runs under the mutex, so each is one atomic step; a waiter
   woken by the broadcast re-acquires the mutex and re-checks the count (the "for g.n != 0 { g.zero.Wait() }" loop).
   Executable; proofs below; tied to the code by the differential family "wg" (quiescent observations after every call). *)
From MPB Require Import Base Container.

Record wg := mkWG {
  wcount : Z;              (* g.n *)
  asleep : list Z;         (* waiters blocked in g.zero.Wait(), not notified *)
  woken : list Z;          (* waiters notified by a broadcast that have not re-checked the count yet *)
  returned : list Z        (* waiters whose Wait has returned, latest first *)
}.

Definition wg_init : wg := mkWG 0 [] [] [].

Inductive wgop :=
| WAdd (delta : Z)         (* Add(delta); Done() = Add(-1) *)
| WWait (t : Z)            (* waiter t calls Wait *)
| WResume (t : Z).         (* the scheduler lets the notified waiter t re-acquire the mutex *)

Definition wg_step (g : wg) (o : wgop) : wg :=
  match o with
  | WAdd d =>
      let n := wcount g + d in
      if n =? 0 then mkWG n [] (woken g ++ asleep g) (returned g)      (* Broadcast *)
      else mkWG n (asleep g) (woken g) (returned g)
  | WWait t =>
      if wcount g =? 0 then mkWG (wcount g) (asleep g) (woken g) (t :: returned g)
      else mkWG (wcount g) (asleep g ++ [t]) (woken g) (returned g)
  | WResume t =>
      if memZ t (woken g) then
        if wcount g =? 0 then mkWG (wcount g) (asleep g) (removeZ t (woken g)) (t :: returned g)
        else mkWG (wcount g) (asleep g ++ [t]) (removeZ t (woken g)) (returned g)
      else g
  end.

Definition wg_run (g : wg) (ops : list wgop) : wg := fold_left wg_step ops g.

(* the scheduler runs every notified waiter (in any order: here, in list order) until none is left *)
Fixpoint settle (fuel : nat) (g : wg) : wg :=
  match fuel, woken g with
  | S f, t :: _ => settle f (wg_step g (WResume t))
  | _, _ => g
  end.

(* what the harness sees: after every call it waits for quiescence and reads which waiters have returned *)
Fixpoint wg_observe (g : wg) (ops : list wgop) : list (list Z) :=
  match ops with
  | [] => []
  | o :: r => let g1 := settle (S (length (woken (wg_step g o)))) (wg_step g o) in returned g1 :: wg_observe g1 r
  end.
