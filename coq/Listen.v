(* Listen.v — which decorators a bar notifies when it shuts down and which receive
   EWMA samples (bar.go: unwrap, serve's decoratorsOnShutdown; progress.go makeBarState). *)
From MPB Require Import Base.

(* a decorator as the subscription code sees it: a leaf with its capabilities, or a wrapper *)
Inductive wdec :=
| WLeaf (id : Z) (listens ewma : bool)
| WWrap (inner : wdec).

(* bar.go unwrap: strip every Wrapper layer *)
Fixpoint unwrap (d : wdec) : wdec := match d with WWrap i => unwrap i | l => l end.

Fixpoint wrap_n (n : nat) (d : wdec) : wdec := match n with O => d | S k => WWrap (wrap_n k d) end.

Definition notify_group (g : list wdec) : list Z :=
  flat_map (fun d => match unwrap d with WLeaf id true _ => [id] | _ => [] end) g.
(* OnShutdown calls made by the actor when it exits: prepend group, then append group *)
Definition on_exit (pre app : list wdec) : list Z := notify_group pre ++ notify_group app.

Definition ewma_group (g : list wdec) : list Z :=
  flat_map (fun d => match unwrap d with WLeaf id _ true => [id] | _ => [] end) g.
Definition ewma_subscribers (pre app : list wdec) : list Z := ewma_group pre ++ ewma_group app.

(* the listening leaves of a group, whatever they are wrapped in *)
Fixpoint leaf_of (d : wdec) : Z * bool * bool :=
  match d with WLeaf id l e => (id, l, e) | WWrap i => leaf_of i end.
Definition listening (g : list wdec) : list Z :=
  flat_map (fun d => let '(id, l, _) := leaf_of d in if l then [id] else []) g.
Definition averaging (g : list wdec) : list Z :=
  flat_map (fun d => let '(id, _, e) := leaf_of d in if e then [id] else []) g.

Lemma unwrap_leaf d : unwrap d = let '(id, l, e) := leaf_of d in WLeaf id l e.
Proof. induction d as [id l e|i IH]; cbn; [reflexivity|exact IH]. Qed.

Lemma unwrap_wrap_n n d : unwrap (wrap_n n d) = unwrap d.
Proof. induction n as [|n IH]; cbn; [reflexivity|exact IH]. Qed.

Lemma notify_group_listening g : notify_group g = listening g.
Proof.
  unfold notify_group, listening. induction g as [|d g IH]; cbn; [reflexivity|].
  rewrite IH, unwrap_leaf. destruct (leaf_of d) as [[id l] e]. destruct l; reflexivity.
Qed.

Lemma ewma_group_averaging g : ewma_group g = averaging g.
Proof.
  unfold ewma_group, averaging. induction g as [|d g IH]; cbn; [reflexivity|].
  rewrite IH, unwrap_leaf. destruct (leaf_of d) as [[id l] e]. destruct e; reflexivity.
Qed.

(* every listening decorator, however deeply wrapped, gets exactly one call per exit *)
Theorem on_exit_each_listener_once pre app :
  on_exit pre app = listening pre ++ listening app.
Proof. unfold on_exit. rewrite !notify_group_listening. reflexivity. Qed.

Theorem listener_under_wrappers_notified n id e :
  on_exit [wrap_n n (WLeaf id true e)] [] = [id] /\ on_exit [] [wrap_n n (WLeaf id true e)] = [id].
Proof. unfold on_exit, notify_group. cbn. rewrite unwrap_wrap_n. cbn. auto. Qed.

Theorem ewma_each_subscriber_once pre app :
  ewma_subscribers pre app = averaging pre ++ averaging app.
Proof. unfold ewma_subscribers. rewrite !ewma_group_averaging. reflexivity. Qed.
