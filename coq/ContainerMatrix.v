(* ContainerMatrix.v — the heap manager's width-sync cache is never stale (C12, C01).
   heap_manager.go rebuilds the matrices of sync channels only when a push asked for it
   (sync flag) or the heap length differs from the length at the last rebuild.  [matrix]
   is the ghost record of the bars the matrices were last built from.  Theorem: whenever a
   cycle's sync request has been served, the matrices are built from exactly the bars in
   the heap — so the width exchange of that cycle is among the bars that render in it. *)
From MPB Require Import Base BaseProofs BarState Container ContainerProofs ContainerLife ContainerProgress.

Fixpoint quiet_pushes (f : list qreq) : list Z :=
  match f with
  | [] => []
  | QPush b false :: r => b :: quiet_pushes r
  | _ :: r => quiet_pushes r
  end.
Definition quiet_ph (p : phase) : list Z :=
  match p with Rendering _ _ _ _ _ pu => map fst (filter (fun x => negb (snd x)) pu) | _ => [] end.

(* bars that are, or will be back, in the heap without the heap manager being told to rebuild *)
Definition members (s : cst) : list Z := heap s ++ popped s ++ quiet_pushes (fifo s) ++ quiet_ph (ph s).

Record Coh (s : cst) : Prop := {
  coh_sub : hsync s = false -> forall x, (cnt x (members s) <= cnt x (matrix s))%nat;
  coh_len : hlen s = Z.of_nat (length (matrix s));
  coh_pre : rendering s = true -> fifo s <> [] -> ph_pushes (ph s) = []
}.

Lemma Coh_init p a d : Coh (init_cst p a d).
Proof. constructor; cbn; auto; intros; try discriminate; lia. Qed.

Lemma quiet_pushes_app a b : quiet_pushes (a ++ b) = quiet_pushes a ++ quiet_pushes b.
Proof. induction a as [|[b0 [|]| | |] a IH]; cbn; rewrite ?IH; reflexivity. Qed.

Lemma quiet_pushes_map pu : quiet_pushes (map (fun p : Z * bool => QPush (fst p) (snd p)) pu) = map fst (filter (fun x => negb (snd x)) pu).
Proof. induction pu as [|[b [|]] pu IH]; cbn; rewrite ?IH; reflexivity. Qed.

Lemma filter_app_one (pu : list (Z * bool)) x : filter (fun x => negb (snd x)) (pu ++ [x]) = filter (fun x => negb (snd x)) pu ++ (if negb (snd x) then [x] else []).
Proof. rewrite filter_app. reflexivity. Qed.

Lemma filter_sync_nil (l : list Z) : filter (fun x : Z * bool => negb (snd x)) (map (fun qb : Z => (qb, true)) l) = [].
Proof. induction l as [|a l IH]; cbn; [reflexivity|exact IH]. Qed.

Lemma replace_last_op_quiet f by_ f' :
  replace_last_op f by_ = Some f' -> quiet_pushes f' = quiet_pushes f ++ quiet_pushes by_.
Proof.
  revert f'. induction f as [|q f IH]; cbn; [discriminate|]. intros f'.
  destruct q as [b0 [|]| | |]; try (destruct (replace_last_op f by_) eqn:E; [|discriminate]; intros H; inversion H; subst; cbn;
                   rewrite (IH _ eq_refl); reflexivity).
  destruct f as [|q2 f2].
  - intros H; inversion H; subst. reflexivity.
  - destruct (replace_last_op (q2 :: f2) by_) eqn:E; [|discriminate]. intros H; inversion H; subst. cbn [quiet_pushes].
    apply IH. reflexivity.
Qed.

(* a sub-multiset of the same size is the whole multiset *)
Lemma cnt_length_eq a : forall b, (forall x, (cnt x a <= cnt x b)%nat) -> length a = length b -> forall x, cnt x a = cnt x b.
Proof.
  induction a as [|y a IH]; intros b S L x.
  - destruct b; [reflexivity|discriminate].
  - assert (Hy : In y b).
    { apply cnt_In. specialize (S y). cbn in S. rewrite Z.eqb_refl in S. lia. }
    pose proof (cnt_removeZ x y b Hy) as Rx.
    assert (Lr : length (removeZ y b) = length a).
    { pose proof (Permutation.Permutation_length (removeZ_perm y b Hy)) as PL. cbn in PL, L. lia. }
    assert (IHx : forall z, cnt z a = cnt z (removeZ y b)).
    { apply IH; [|lia]. intros z. specialize (S z). pose proof (cnt_removeZ z y b Hy). cbn in S. lia. }
    cbn. rewrite IHx. lia.
Qed.

Lemma members_cnt s x :
  cnt x (members s) = (cnt x (heap s) + cnt x (popped s) + cnt x (quiet_pushes (fifo s)) + cnt x (quiet_ph (ph s)))%nat.
Proof. unfold members. rewrite !cnt_app. lia. Qed.

Lemma quiet_sub_pushes f x : (cnt x (quiet_pushes f) <= cnt x (fifo_pushes f))%nat.
Proof. induction f as [|[b [|]| | |] f IH]; cbn; lia. Qed.

Ltac norm_members :=
  repeat match goal with
  | H : is_push _ _ ?q = true |- _ => apply is_push_spec in H; subst q
  | H : is_q _ ?q = true |- _ => destruct q; cbn in H; try discriminate H; clear H
  | H : negb _ = false |- _ => apply negb_false_iff in H
  | H : negb _ = true |- _ => apply negb_true_iff in H
  | H : _ && _ = true |- _ => let A := fresh "Ha" in let B := fresh "Hb" in apply andb_prop in H as [A B]
  | H : _ || _ = false |- _ => let A := fresh "Ha" in let B := fresh "Hb" in apply orb_false_iff in H as [A B]
  | H : (_ =? _) = true |- _ => apply Z.eqb_eq in H; subst
  | H : replace_last_op _ _ = Some _ |- _ => apply replace_last_op_quiet in H
  end;
  repeat match goal with
  | H : fifo ?s = _ |- _ => rewrite H in *; clear H
  | H : ph ?s = _ |- _ => rewrite H in *; clear H
  | H : popped ?s = _ :: _ |- _ => rewrite H in *; clear H
  | H : quiet_pushes ?l = _ |- _ => rewrite H in *; clear H
  end;
  simp_state;
  rewrite ?map_app, ?quiet_pushes_app, ?quiet_pushes_map, ?filter_app_one, ?cnt_app in *;
  rewrite ?filter_app in *;
  cbn [quiet_pushes quiet_ph cnt map fst snd tl app negb filter] in *;
  rewrite ?filter_sync_nil, ?app_nil_r in *;
  rewrite ?map_app, ?cnt_app in *; cbn [cnt map fst] in *.

Lemma qsync_head s rest : QShape s -> fifo s = QSync :: rest -> rest = [QIter] /\ rendering s = true.
Proof.
  unfold QShape. destruct (rendering s) eqn:R.
  - intros [(pre & P & E)|[E|E]] F; rewrite F in E.
    + destruct pre as [|q pre]; cbn in E; [inversion E; auto|]. inversion E; subst. cbn in P. discriminate.
    + discriminate.
    + discriminate.
  - intros P F. rewrite F in P. cbn in P. discriminate.
Qed.

Lemma quiet_ph_sub p x : (cnt x (quiet_ph p) <= cnt x (ph_pushes p))%nat.
Proof.
  destruct p as [|wd ht rows n pc pu|]; cbn; try lia. induction pu as [|[b [|]] pu IH]; cbn; lia.
Qed.

(* the rebuild: when the sync request is at the head of the queue nothing is popped, pushed or being flushed *)
Lemma sync_rebuild_members s rest x :
  QShape s -> Flow s -> Coh s -> fifo s = QSync :: rest ->
  (cnt x (heap s) + cnt x (popped s) + cnt x (quiet_pushes rest) + cnt x (quiet_ph (ph s)) <= cnt x (heap s))%nat.
Proof.
  intros Q F [_ _ C3] Hf. destruct (qsync_head s rest Q Hf) as [-> R].
  assert (Po : popped s = []).
  { destruct (popped s) eqn:E; [reflexivity|]. destruct (fl_pop s F) as [X _]; congruence. }
  assert (Pu : ph_pushes (ph s) = []) by (apply C3; [exact R|congruence]).
  pose proof (quiet_ph_sub (ph s) x) as Hq. rewrite Pu in Hq. rewrite Po. cbn in *. lia.
Qed.

Lemma step_Coh s e s' : step s e = Some s' -> QShape s -> Flow s -> Uniq s -> Coh s -> Coh s'.
Proof.
  intros H Q F U [C1 C2 C3].
  assert (C1' : hsync s = false -> forall x, (cnt x (heap s) + cnt x (popped s) + cnt x (quiet_pushes (fifo s)) + cnt x (quiet_ph (ph s))
                                                <= cnt x (matrix s))%nat) by (intros Hs x; rewrite <- members_cnt; auto).
  clear C1. rename C1' into C1.
  pose proof (fun rest x (Hf : fifo s = QSync :: rest) => sync_rebuild_members s rest x Q F (Build_Coh s (fun Hs x => eq_ind_r (fun n => (n <= _)%nat) (C1 Hs x) (members_cnt s x)) C2 C3) Hf) as SR.
  destruct e; break_step H; use_fifo_pop; try (constructor; [intros Hs x; rewrite members_cnt; apply C1; exact Hs|assumption|assumption]).
  all: try (match goal with Hf : fifo _ = QSync :: ?rest |- _ => pose proof (fun x => SR rest x Hf) as SR' end).
  all: constructor; [intros Hs x; simp_state; try (specialize (C1 Hs x)); rewrite members_cnt; simp_state | | ].
  all: simp_state; try assumption.
  (* the third component: nothing has been flushed while requests are still queued *)
  all: try (match goal with |- rendering _ = true -> _ -> _ = [] =>
              unfold rendering; simp_state; intros Hr Hne;
              repeat match goal with
                | Hi : is_idle _ = true |- _ => apply is_idle_facts in Hi; destruct Hi as (Hi & _ & _); rewrite Hi in *
                | Hi : _ && _ = true |- _ => apply andb_prop in Hi as [? ?]
                end;
              try discriminate Hr;
              try (match goal with Hm : negb match popped ?s0 with [] => false | _ :: _ => _ end = false |- _ =>
                     destruct (popped s0) eqn:Pp; cbn in Hm; [discriminate Hm|];
                     destruct (fl_pop s0 F) as [Ff _]; [congruence|]; congruence end) end).
  all: split_popped; norm_members; try lia; try (intros; congruence).
  all: norm_members; try lia.
  all: try (match goal with Hh : hsync ?s0 = false, C : hsync ?s0 = false -> _ |- (_ <= _)%nat => specialize (C Hh x) end; norm_members; lia).
  all: try (match goal with C : rendering ?s0 = true -> _ -> ph_pushes (ph ?s0) = [] |- ph_pushes (ph ?s0) = [] =>
              apply C; [unfold rendering; assumption | discriminate] end).
  all: try (match goal with SR' : forall x, _ |- (_ <= cnt ?x (heap _))%nat => specialize (SR' x); norm_members; lia end).
  all: try (apply SR; reflexivity).
  all: try (match goal with Hm : memZ ?b (heap ?s0) = true |- (_ <= cnt ?x _)%nat =>
              apply memZ_In in Hm; pose proof (cnt_removeZ x b (heap s0) Hm) end; lia).
Qed.

Theorem reachable_Coh p a d evs s : run (init_cst p a d) evs = Some s -> Coh s.
Proof.
  assert (G : forall s0, PInv s0 /\ Coh s0 -> run s0 evs = Some s -> PInv s /\ Coh s).
  { induction evs as [|e evs IH]; intros s0 I; unfold run; cbn.
    - intros E; inversion E; subst; exact I.
    - destruct (step s0 e) as [s1|] eqn:E; [|discriminate]. intros R. apply (IH s1); [|exact R].
      destruct I as [[I1 I2] I3]. split.
      + constructor; [eapply step_Inv; eauto|eapply step_Flow; eauto; apply I1].
      + eapply step_Coh; eauto; apply I1. }
  intros R. apply (G (init_cst p a d)); [|exact R].
  split; [constructor; [apply Inv_init|apply Flow_init]|apply Coh_init].
Qed.

(* once a cycle's sync request has been served the matrices are built from exactly the bars in the heap:
   the cycle's width exchange is among the bars that render in that cycle, none missing, none departed *)
Theorem matrix_fresh_after_sync p a d evs s hl cs cl s' :
  run (init_cst p a d) evs = Some s -> step s (HM_SYNC hl cs cl) = Some s' ->
  forall x, cnt x (matrix s') = cnt x (heap s').
Proof.
  intros R H x. pose proof (reachable_Coh _ _ _ _ _ R) as [C1 C2 C3].
  destruct (reachable_PInv _ _ _ _ _ R) as [[U K Q Cy S] F].
  unfold step in H. destruct (_ && _ && _ && _) eqn:G; [|discriminate].
  destruct (fifo_pop s (is_q 0)) as [s1|] eqn:Fp; [|discriminate].
  destruct (fifo_pop_spec _ _ _ Fp) as (q & rest & Hf & Hw & ->).
  destruct q; cbn in Hw; try discriminate Hw.
  repeat (apply andb_prop in G as [G ?]).
  repeat match goal with Hq : (_ =? _) = true |- _ => apply Z.eqb_eq in Hq end.
  destruct (hsync s || negb (hlen s =? hl)) eqn:Rb; inversion H; subst; clear H; simp_state; [reflexivity|].
  (* no rebuild: no push asked for one and the length is the length at the last rebuild *)
  apply orb_false_iff in Rb as [Hs Hl]. apply negb_false_iff, Z.eqb_eq in Hl.
  symmetry. apply cnt_length_eq.
  - intros y. specialize (C1 Hs y). rewrite members_cnt in C1. lia.
  - apply Nat2Z.inj. congruence.
Qed.
