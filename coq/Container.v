(* Container.v — the container goroutine (progress.go: serve, render, flush, Add,
   Write, UpdateBarPriority), the heap manager (heap_manager.go: run) and the
   per-bar render/exit steps, as ONE acceptor over the event log that the
   verif-tagged hooks and the harness produce:

       step : cst -> ev -> option cst

   [None] means "the code did something this model does not allow here".
   Events that carry data computed by the library (frame.shutdown, pop order,
   rows and popCount of a frame, the bytes written, snapshots, return values)
   are checked against the model's own prediction; events that resolve
   scheduling (which closure runs next, when a tick arrives) are inputs.

   The model follows the tree with its "fix:" commits (pushes are blocking
   and sent after the ordered iteration). *)
From MPB Require Import Base BarState.

(* ---------- finite maps as association lists ---------- *)
Fixpoint lookup {A} (k : Z) (m : list (Z * A)) : option A :=
  match m with
  | [] => None
  | (k', v) :: r => if k =? k' then Some v else lookup k r
  end.
Fixpoint update {A} (k : Z) (v : A) (m : list (Z * A)) : list (Z * A) :=
  match m with
  | [] => [(k, v)]
  | (k', v') :: r => if k =? k' then (k, v) :: r else (k', v') :: update k v r
  end.
Fixpoint remove_key {A} (k : Z) (m : list (Z * A)) : list (Z * A) :=
  match m with
  | [] => []
  | (k', v') :: r => if k =? k' then remove_key k r else (k', v') :: remove_key k r
  end.
Fixpoint memZ (k : Z) (l : list Z) : bool :=
  match l with [] => false | x :: r => (k =? x) || memZ k r end.
Fixpoint removeZ (k : Z) (l : list Z) : list Z :=
  match l with [] => [] | x :: r => if k =? x then r else x :: removeZ k r end.

(* ---------- what is written to the output ---------- *)
Inductive item :=
| ICuu (n : Z)                          (* ESC[nA ESC[J *)
| IText (w seq line : Z)                (* one line of a client Write *)
| IRow (b : Z) (cur total : Z) (completed aborted : bool)   (* main row of a bar *)
| IXRow (b : Z) (j : Z).                (* extender row j of a bar *)

(* ---------- per-bar record ---------- *)
Record frame_info := mkFI {
  fi_shutdown : Z; fi_rm : bool; fi_nopop : bool;
  fi_cur : Z; fi_total : Z; fi_completed : bool; fi_aborted : bool
}.

Record brec := mkBR {
  br_st : bst;                  (* the actor's state (BarState.v) *)
  br_prio : Z;                  (* Bar.priority *)
  br_xrows : Z;                 (* extender rows *)
  br_xrev : bool;               (* extender rows above the main row *)
  br_frame : option frame_info; (* rendered in this cycle, not yet flushed *)
  br_pending : list bop;        (* client operations invoked, closure not yet seen executed *)
  br_after_render : bool        (* the render closure ran on the actor: its BAR_OP is next *)
}.

Definition set_st (r : brec) (s : bst) := mkBR s (br_prio r) (br_xrows r) (br_xrev r) (br_frame r) (br_pending r) (br_after_render r).
Definition set_prio (r : brec) (p : Z) := mkBR (br_st r) p (br_xrows r) (br_xrev r) (br_frame r) (br_pending r) (br_after_render r).
Definition set_frame (r : brec) (f : option frame_info) := mkBR (br_st r) (br_prio r) (br_xrows r) (br_xrev r) f (br_pending r) (br_after_render r).
Definition set_pending (r : brec) (p : list bop) := mkBR (br_st r) (br_prio r) (br_xrows r) (br_xrev r) (br_frame r) p (br_after_render r).
Definition set_after_render (r : brec) (b : bool) := mkBR (br_st r) (br_prio r) (br_xrows r) (br_xrev r) (br_frame r) (br_pending r) b.

(* ---------- requests in flight between container and heap manager ---------- *)
Inductive qreq :=
| QPush (b : Z) (sync : bool)
| QSync
| QIter
| QOp.         (* an operation closure whose request is not known yet: fix or traverse *)

(* ---------- the container's state ---------- *)
Inductive phase :=
| Idle
| Rendering (width height : Z) (rows : list item) (nrows popcount : Z) (pushes : list (Z * bool))
| Failed.     (* flush is returning a frame error to serve *)

Record cst := mkC {
  bars : list (Z * brec);   (* every bar ever added, by serial *)
  heap : list Z;   (* members of the heap manager's heap *)
  hsync : bool;   (* heap manager's sync flag *)
  hlen : Z;   (* heap manager's cached length *)
  hdirty : bool;   (* heap order broken by a lazy fix *)
  iterating : bool;   (* ordered iteration in progress *)
  popped : list Z;   (* popped, not yet received by flush (oldest first) *)
  fifo : list qreq;   (* sent by the container, not yet received by the heap manager *)
  queue : list (Z * Z);   (* queueBars: (predecessor, successor), in the order the successors were parked *)
  pop_prio : Z;   (* next pop priority *)
  id_count : Z;   (* bars created so far *)
  pop_mode : bool;   (* PopCompletedMode *)
  auto_mode : bool;   (* auto refresh *)
  ph : phase;   (* what the container goroutine is doing *)
  cwbuf : list item;   (* buffer of the writer in use *)
  delayed : bool;   (* render delay pending: the writer in use discards *)
  pend_writes : list (Z * Z * Z);   (* client writes invoked, closure not yet run *)
  pend_fix : list (Z * Z * bool);   (* UpdateBarPriority invoked, request not yet at the heap manager *)
  outframes : list (list item);   (* what reached the output, one entry per Write call, newest first *)
  cancelled : bool;   (* container context cancelled *)
  done_seen : bool;   (* container goroutine saw done *)
  ended : bool;   (* heap manager got the end request *)
  errored : bool;   (* a render error is latched *)
  ct_exited : bool;   (* the container goroutine has returned *)
  cycle_pops : list (Z * Z);   (* GHOST: (bar, priority) popped in the current/last ordered iteration, oldest first *)
  cycle_flushed : list Z;   (* GHOST: bars flushed in the current/last cycle, oldest first *)
  iter_heap : list Z;   (* GHOST: heap when the ordered iteration began *)
  iter_dirty : bool;   (* GHOST: heap order was broken when the ordered iteration began *)
  retired : list Z;   (* GHOST: bars that left the display for good *)
  wlog : list item;   (* GHOST: text lines accepted by write closures while output was not discarded, in order *)
  cycle_err : bool;   (* a frame error was seen in the current cycle: the remaining bars are pushed back untouched *)
  out_pending : bool;   (* a frame was handed to the output writer and its Write call has not been seen yet *)
  matrix : list Z;   (* GHOST: the bars the width-sync matrices were last built from (heap at the last rebuild) *)
  final_done : bool;   (* a render cycle has ended (frame or error) since the container goroutine saw done *)
  released : list (Z * Z);   (* Bar.relieved / Bar.lastPriority: bars whose first terminal frame was flushed, with their priority then *)
  last_lazy : option Z;   (* GHOST: Some b when the heap manager's last heap request was the lazy fix of b that broke an ordered heap *)
  state_answer : option bool   (* the heap manager's answer to the last state request of the shutdown loop, until the container acts on it *)
}.

Definition cs_bars (s : cst) v : cst := mkC v (heap s) (hsync s) (hlen s) (hdirty s) (iterating s) (popped s) (fifo s) (queue s) (pop_prio s) (id_count s) (pop_mode s) (auto_mode s) (ph s) (cwbuf s) (delayed s) (pend_writes s) (pend_fix s) (outframes s) (cancelled s) (done_seen s) (ended s) (errored s) (ct_exited s) (cycle_pops s) (cycle_flushed s) (iter_heap s) (iter_dirty s) (retired s) (wlog s) (cycle_err s) (out_pending s) (matrix s) (final_done s) (released s) (last_lazy s) (state_answer s).
Definition cs_heap (s : cst) v : cst := mkC (bars s) v (hsync s) (hlen s) (hdirty s) (iterating s) (popped s) (fifo s) (queue s) (pop_prio s) (id_count s) (pop_mode s) (auto_mode s) (ph s) (cwbuf s) (delayed s) (pend_writes s) (pend_fix s) (outframes s) (cancelled s) (done_seen s) (ended s) (errored s) (ct_exited s) (cycle_pops s) (cycle_flushed s) (iter_heap s) (iter_dirty s) (retired s) (wlog s) (cycle_err s) (out_pending s) (matrix s) (final_done s) (released s) (last_lazy s) (state_answer s).
Definition cs_hsync (s : cst) v : cst := mkC (bars s) (heap s) v (hlen s) (hdirty s) (iterating s) (popped s) (fifo s) (queue s) (pop_prio s) (id_count s) (pop_mode s) (auto_mode s) (ph s) (cwbuf s) (delayed s) (pend_writes s) (pend_fix s) (outframes s) (cancelled s) (done_seen s) (ended s) (errored s) (ct_exited s) (cycle_pops s) (cycle_flushed s) (iter_heap s) (iter_dirty s) (retired s) (wlog s) (cycle_err s) (out_pending s) (matrix s) (final_done s) (released s) (last_lazy s) (state_answer s).
Definition cs_hlen (s : cst) v : cst := mkC (bars s) (heap s) (hsync s) v (hdirty s) (iterating s) (popped s) (fifo s) (queue s) (pop_prio s) (id_count s) (pop_mode s) (auto_mode s) (ph s) (cwbuf s) (delayed s) (pend_writes s) (pend_fix s) (outframes s) (cancelled s) (done_seen s) (ended s) (errored s) (ct_exited s) (cycle_pops s) (cycle_flushed s) (iter_heap s) (iter_dirty s) (retired s) (wlog s) (cycle_err s) (out_pending s) (matrix s) (final_done s) (released s) (last_lazy s) (state_answer s).
Definition cs_hdirty (s : cst) v : cst := mkC (bars s) (heap s) (hsync s) (hlen s) v (iterating s) (popped s) (fifo s) (queue s) (pop_prio s) (id_count s) (pop_mode s) (auto_mode s) (ph s) (cwbuf s) (delayed s) (pend_writes s) (pend_fix s) (outframes s) (cancelled s) (done_seen s) (ended s) (errored s) (ct_exited s) (cycle_pops s) (cycle_flushed s) (iter_heap s) (iter_dirty s) (retired s) (wlog s) (cycle_err s) (out_pending s) (matrix s) (final_done s) (released s) (last_lazy s) (state_answer s).
Definition cs_iterating (s : cst) v : cst := mkC (bars s) (heap s) (hsync s) (hlen s) (hdirty s) v (popped s) (fifo s) (queue s) (pop_prio s) (id_count s) (pop_mode s) (auto_mode s) (ph s) (cwbuf s) (delayed s) (pend_writes s) (pend_fix s) (outframes s) (cancelled s) (done_seen s) (ended s) (errored s) (ct_exited s) (cycle_pops s) (cycle_flushed s) (iter_heap s) (iter_dirty s) (retired s) (wlog s) (cycle_err s) (out_pending s) (matrix s) (final_done s) (released s) (last_lazy s) (state_answer s).
Definition cs_popped (s : cst) v : cst := mkC (bars s) (heap s) (hsync s) (hlen s) (hdirty s) (iterating s) v (fifo s) (queue s) (pop_prio s) (id_count s) (pop_mode s) (auto_mode s) (ph s) (cwbuf s) (delayed s) (pend_writes s) (pend_fix s) (outframes s) (cancelled s) (done_seen s) (ended s) (errored s) (ct_exited s) (cycle_pops s) (cycle_flushed s) (iter_heap s) (iter_dirty s) (retired s) (wlog s) (cycle_err s) (out_pending s) (matrix s) (final_done s) (released s) (last_lazy s) (state_answer s).
Definition cs_fifo (s : cst) v : cst := mkC (bars s) (heap s) (hsync s) (hlen s) (hdirty s) (iterating s) (popped s) v (queue s) (pop_prio s) (id_count s) (pop_mode s) (auto_mode s) (ph s) (cwbuf s) (delayed s) (pend_writes s) (pend_fix s) (outframes s) (cancelled s) (done_seen s) (ended s) (errored s) (ct_exited s) (cycle_pops s) (cycle_flushed s) (iter_heap s) (iter_dirty s) (retired s) (wlog s) (cycle_err s) (out_pending s) (matrix s) (final_done s) (released s) (last_lazy s) (state_answer s).
Definition cs_queue (s : cst) v : cst := mkC (bars s) (heap s) (hsync s) (hlen s) (hdirty s) (iterating s) (popped s) (fifo s) v (pop_prio s) (id_count s) (pop_mode s) (auto_mode s) (ph s) (cwbuf s) (delayed s) (pend_writes s) (pend_fix s) (outframes s) (cancelled s) (done_seen s) (ended s) (errored s) (ct_exited s) (cycle_pops s) (cycle_flushed s) (iter_heap s) (iter_dirty s) (retired s) (wlog s) (cycle_err s) (out_pending s) (matrix s) (final_done s) (released s) (last_lazy s) (state_answer s).
Definition cs_pop_prio (s : cst) v : cst := mkC (bars s) (heap s) (hsync s) (hlen s) (hdirty s) (iterating s) (popped s) (fifo s) (queue s) v (id_count s) (pop_mode s) (auto_mode s) (ph s) (cwbuf s) (delayed s) (pend_writes s) (pend_fix s) (outframes s) (cancelled s) (done_seen s) (ended s) (errored s) (ct_exited s) (cycle_pops s) (cycle_flushed s) (iter_heap s) (iter_dirty s) (retired s) (wlog s) (cycle_err s) (out_pending s) (matrix s) (final_done s) (released s) (last_lazy s) (state_answer s).
Definition cs_id_count (s : cst) v : cst := mkC (bars s) (heap s) (hsync s) (hlen s) (hdirty s) (iterating s) (popped s) (fifo s) (queue s) (pop_prio s) v (pop_mode s) (auto_mode s) (ph s) (cwbuf s) (delayed s) (pend_writes s) (pend_fix s) (outframes s) (cancelled s) (done_seen s) (ended s) (errored s) (ct_exited s) (cycle_pops s) (cycle_flushed s) (iter_heap s) (iter_dirty s) (retired s) (wlog s) (cycle_err s) (out_pending s) (matrix s) (final_done s) (released s) (last_lazy s) (state_answer s).
Definition cs_pop_mode (s : cst) v : cst := mkC (bars s) (heap s) (hsync s) (hlen s) (hdirty s) (iterating s) (popped s) (fifo s) (queue s) (pop_prio s) (id_count s) v (auto_mode s) (ph s) (cwbuf s) (delayed s) (pend_writes s) (pend_fix s) (outframes s) (cancelled s) (done_seen s) (ended s) (errored s) (ct_exited s) (cycle_pops s) (cycle_flushed s) (iter_heap s) (iter_dirty s) (retired s) (wlog s) (cycle_err s) (out_pending s) (matrix s) (final_done s) (released s) (last_lazy s) (state_answer s).
Definition cs_auto_mode (s : cst) v : cst := mkC (bars s) (heap s) (hsync s) (hlen s) (hdirty s) (iterating s) (popped s) (fifo s) (queue s) (pop_prio s) (id_count s) (pop_mode s) v (ph s) (cwbuf s) (delayed s) (pend_writes s) (pend_fix s) (outframes s) (cancelled s) (done_seen s) (ended s) (errored s) (ct_exited s) (cycle_pops s) (cycle_flushed s) (iter_heap s) (iter_dirty s) (retired s) (wlog s) (cycle_err s) (out_pending s) (matrix s) (final_done s) (released s) (last_lazy s) (state_answer s).
Definition cs_ph (s : cst) v : cst := mkC (bars s) (heap s) (hsync s) (hlen s) (hdirty s) (iterating s) (popped s) (fifo s) (queue s) (pop_prio s) (id_count s) (pop_mode s) (auto_mode s) v (cwbuf s) (delayed s) (pend_writes s) (pend_fix s) (outframes s) (cancelled s) (done_seen s) (ended s) (errored s) (ct_exited s) (cycle_pops s) (cycle_flushed s) (iter_heap s) (iter_dirty s) (retired s) (wlog s) (cycle_err s) (out_pending s) (matrix s) (final_done s) (released s) (last_lazy s) (state_answer s).
Definition cs_cwbuf (s : cst) v : cst := mkC (bars s) (heap s) (hsync s) (hlen s) (hdirty s) (iterating s) (popped s) (fifo s) (queue s) (pop_prio s) (id_count s) (pop_mode s) (auto_mode s) (ph s) v (delayed s) (pend_writes s) (pend_fix s) (outframes s) (cancelled s) (done_seen s) (ended s) (errored s) (ct_exited s) (cycle_pops s) (cycle_flushed s) (iter_heap s) (iter_dirty s) (retired s) (wlog s) (cycle_err s) (out_pending s) (matrix s) (final_done s) (released s) (last_lazy s) (state_answer s).
Definition cs_delayed (s : cst) v : cst := mkC (bars s) (heap s) (hsync s) (hlen s) (hdirty s) (iterating s) (popped s) (fifo s) (queue s) (pop_prio s) (id_count s) (pop_mode s) (auto_mode s) (ph s) (cwbuf s) v (pend_writes s) (pend_fix s) (outframes s) (cancelled s) (done_seen s) (ended s) (errored s) (ct_exited s) (cycle_pops s) (cycle_flushed s) (iter_heap s) (iter_dirty s) (retired s) (wlog s) (cycle_err s) (out_pending s) (matrix s) (final_done s) (released s) (last_lazy s) (state_answer s).
Definition cs_pend_writes (s : cst) v : cst := mkC (bars s) (heap s) (hsync s) (hlen s) (hdirty s) (iterating s) (popped s) (fifo s) (queue s) (pop_prio s) (id_count s) (pop_mode s) (auto_mode s) (ph s) (cwbuf s) (delayed s) v (pend_fix s) (outframes s) (cancelled s) (done_seen s) (ended s) (errored s) (ct_exited s) (cycle_pops s) (cycle_flushed s) (iter_heap s) (iter_dirty s) (retired s) (wlog s) (cycle_err s) (out_pending s) (matrix s) (final_done s) (released s) (last_lazy s) (state_answer s).
Definition cs_pend_fix (s : cst) v : cst := mkC (bars s) (heap s) (hsync s) (hlen s) (hdirty s) (iterating s) (popped s) (fifo s) (queue s) (pop_prio s) (id_count s) (pop_mode s) (auto_mode s) (ph s) (cwbuf s) (delayed s) (pend_writes s) v (outframes s) (cancelled s) (done_seen s) (ended s) (errored s) (ct_exited s) (cycle_pops s) (cycle_flushed s) (iter_heap s) (iter_dirty s) (retired s) (wlog s) (cycle_err s) (out_pending s) (matrix s) (final_done s) (released s) (last_lazy s) (state_answer s).
Definition cs_outframes (s : cst) v : cst := mkC (bars s) (heap s) (hsync s) (hlen s) (hdirty s) (iterating s) (popped s) (fifo s) (queue s) (pop_prio s) (id_count s) (pop_mode s) (auto_mode s) (ph s) (cwbuf s) (delayed s) (pend_writes s) (pend_fix s) v (cancelled s) (done_seen s) (ended s) (errored s) (ct_exited s) (cycle_pops s) (cycle_flushed s) (iter_heap s) (iter_dirty s) (retired s) (wlog s) (cycle_err s) (out_pending s) (matrix s) (final_done s) (released s) (last_lazy s) (state_answer s).
Definition cs_cancelled (s : cst) v : cst := mkC (bars s) (heap s) (hsync s) (hlen s) (hdirty s) (iterating s) (popped s) (fifo s) (queue s) (pop_prio s) (id_count s) (pop_mode s) (auto_mode s) (ph s) (cwbuf s) (delayed s) (pend_writes s) (pend_fix s) (outframes s) v (done_seen s) (ended s) (errored s) (ct_exited s) (cycle_pops s) (cycle_flushed s) (iter_heap s) (iter_dirty s) (retired s) (wlog s) (cycle_err s) (out_pending s) (matrix s) (final_done s) (released s) (last_lazy s) (state_answer s).
Definition cs_done_seen (s : cst) v : cst := mkC (bars s) (heap s) (hsync s) (hlen s) (hdirty s) (iterating s) (popped s) (fifo s) (queue s) (pop_prio s) (id_count s) (pop_mode s) (auto_mode s) (ph s) (cwbuf s) (delayed s) (pend_writes s) (pend_fix s) (outframes s) (cancelled s) v (ended s) (errored s) (ct_exited s) (cycle_pops s) (cycle_flushed s) (iter_heap s) (iter_dirty s) (retired s) (wlog s) (cycle_err s) (out_pending s) (matrix s) (final_done s) (released s) (last_lazy s) (state_answer s).
Definition cs_ended (s : cst) v : cst := mkC (bars s) (heap s) (hsync s) (hlen s) (hdirty s) (iterating s) (popped s) (fifo s) (queue s) (pop_prio s) (id_count s) (pop_mode s) (auto_mode s) (ph s) (cwbuf s) (delayed s) (pend_writes s) (pend_fix s) (outframes s) (cancelled s) (done_seen s) v (errored s) (ct_exited s) (cycle_pops s) (cycle_flushed s) (iter_heap s) (iter_dirty s) (retired s) (wlog s) (cycle_err s) (out_pending s) (matrix s) (final_done s) (released s) (last_lazy s) (state_answer s).
Definition cs_errored (s : cst) v : cst := mkC (bars s) (heap s) (hsync s) (hlen s) (hdirty s) (iterating s) (popped s) (fifo s) (queue s) (pop_prio s) (id_count s) (pop_mode s) (auto_mode s) (ph s) (cwbuf s) (delayed s) (pend_writes s) (pend_fix s) (outframes s) (cancelled s) (done_seen s) (ended s) v (ct_exited s) (cycle_pops s) (cycle_flushed s) (iter_heap s) (iter_dirty s) (retired s) (wlog s) (cycle_err s) (out_pending s) (matrix s) (final_done s) (released s) (last_lazy s) (state_answer s).
Definition cs_ct_exited (s : cst) v : cst := mkC (bars s) (heap s) (hsync s) (hlen s) (hdirty s) (iterating s) (popped s) (fifo s) (queue s) (pop_prio s) (id_count s) (pop_mode s) (auto_mode s) (ph s) (cwbuf s) (delayed s) (pend_writes s) (pend_fix s) (outframes s) (cancelled s) (done_seen s) (ended s) (errored s) v (cycle_pops s) (cycle_flushed s) (iter_heap s) (iter_dirty s) (retired s) (wlog s) (cycle_err s) (out_pending s) (matrix s) (final_done s) (released s) (last_lazy s) (state_answer s).
Definition cs_cycle_pops (s : cst) v : cst := mkC (bars s) (heap s) (hsync s) (hlen s) (hdirty s) (iterating s) (popped s) (fifo s) (queue s) (pop_prio s) (id_count s) (pop_mode s) (auto_mode s) (ph s) (cwbuf s) (delayed s) (pend_writes s) (pend_fix s) (outframes s) (cancelled s) (done_seen s) (ended s) (errored s) (ct_exited s) v (cycle_flushed s) (iter_heap s) (iter_dirty s) (retired s) (wlog s) (cycle_err s) (out_pending s) (matrix s) (final_done s) (released s) (last_lazy s) (state_answer s).
Definition cs_cycle_flushed (s : cst) v : cst := mkC (bars s) (heap s) (hsync s) (hlen s) (hdirty s) (iterating s) (popped s) (fifo s) (queue s) (pop_prio s) (id_count s) (pop_mode s) (auto_mode s) (ph s) (cwbuf s) (delayed s) (pend_writes s) (pend_fix s) (outframes s) (cancelled s) (done_seen s) (ended s) (errored s) (ct_exited s) (cycle_pops s) v (iter_heap s) (iter_dirty s) (retired s) (wlog s) (cycle_err s) (out_pending s) (matrix s) (final_done s) (released s) (last_lazy s) (state_answer s).
Definition cs_iter_heap (s : cst) v : cst := mkC (bars s) (heap s) (hsync s) (hlen s) (hdirty s) (iterating s) (popped s) (fifo s) (queue s) (pop_prio s) (id_count s) (pop_mode s) (auto_mode s) (ph s) (cwbuf s) (delayed s) (pend_writes s) (pend_fix s) (outframes s) (cancelled s) (done_seen s) (ended s) (errored s) (ct_exited s) (cycle_pops s) (cycle_flushed s) v (iter_dirty s) (retired s) (wlog s) (cycle_err s) (out_pending s) (matrix s) (final_done s) (released s) (last_lazy s) (state_answer s).
Definition cs_iter_dirty (s : cst) v : cst := mkC (bars s) (heap s) (hsync s) (hlen s) (hdirty s) (iterating s) (popped s) (fifo s) (queue s) (pop_prio s) (id_count s) (pop_mode s) (auto_mode s) (ph s) (cwbuf s) (delayed s) (pend_writes s) (pend_fix s) (outframes s) (cancelled s) (done_seen s) (ended s) (errored s) (ct_exited s) (cycle_pops s) (cycle_flushed s) (iter_heap s) v (retired s) (wlog s) (cycle_err s) (out_pending s) (matrix s) (final_done s) (released s) (last_lazy s) (state_answer s).
Definition cs_retired (s : cst) v : cst := mkC (bars s) (heap s) (hsync s) (hlen s) (hdirty s) (iterating s) (popped s) (fifo s) (queue s) (pop_prio s) (id_count s) (pop_mode s) (auto_mode s) (ph s) (cwbuf s) (delayed s) (pend_writes s) (pend_fix s) (outframes s) (cancelled s) (done_seen s) (ended s) (errored s) (ct_exited s) (cycle_pops s) (cycle_flushed s) (iter_heap s) (iter_dirty s) v (wlog s) (cycle_err s) (out_pending s) (matrix s) (final_done s) (released s) (last_lazy s) (state_answer s).
Definition cs_wlog (s : cst) v : cst := mkC (bars s) (heap s) (hsync s) (hlen s) (hdirty s) (iterating s) (popped s) (fifo s) (queue s) (pop_prio s) (id_count s) (pop_mode s) (auto_mode s) (ph s) (cwbuf s) (delayed s) (pend_writes s) (pend_fix s) (outframes s) (cancelled s) (done_seen s) (ended s) (errored s) (ct_exited s) (cycle_pops s) (cycle_flushed s) (iter_heap s) (iter_dirty s) (retired s) v (cycle_err s) (out_pending s) (matrix s) (final_done s) (released s) (last_lazy s) (state_answer s).
Definition cs_cycle_err (s : cst) v : cst := mkC (bars s) (heap s) (hsync s) (hlen s) (hdirty s) (iterating s) (popped s) (fifo s) (queue s) (pop_prio s) (id_count s) (pop_mode s) (auto_mode s) (ph s) (cwbuf s) (delayed s) (pend_writes s) (pend_fix s) (outframes s) (cancelled s) (done_seen s) (ended s) (errored s) (ct_exited s) (cycle_pops s) (cycle_flushed s) (iter_heap s) (iter_dirty s) (retired s) (wlog s) v (out_pending s) (matrix s) (final_done s) (released s) (last_lazy s) (state_answer s).
Definition cs_out_pending (s : cst) v : cst := mkC (bars s) (heap s) (hsync s) (hlen s) (hdirty s) (iterating s) (popped s) (fifo s) (queue s) (pop_prio s) (id_count s) (pop_mode s) (auto_mode s) (ph s) (cwbuf s) (delayed s) (pend_writes s) (pend_fix s) (outframes s) (cancelled s) (done_seen s) (ended s) (errored s) (ct_exited s) (cycle_pops s) (cycle_flushed s) (iter_heap s) (iter_dirty s) (retired s) (wlog s) (cycle_err s) v (matrix s) (final_done s) (released s) (last_lazy s) (state_answer s).
Definition cs_matrix (s : cst) v : cst := mkC (bars s) (heap s) (hsync s) (hlen s) (hdirty s) (iterating s) (popped s) (fifo s) (queue s) (pop_prio s) (id_count s) (pop_mode s) (auto_mode s) (ph s) (cwbuf s) (delayed s) (pend_writes s) (pend_fix s) (outframes s) (cancelled s) (done_seen s) (ended s) (errored s) (ct_exited s) (cycle_pops s) (cycle_flushed s) (iter_heap s) (iter_dirty s) (retired s) (wlog s) (cycle_err s) (out_pending s) v (final_done s) (released s) (last_lazy s) (state_answer s).
Definition cs_final_done (s : cst) v : cst := mkC (bars s) (heap s) (hsync s) (hlen s) (hdirty s) (iterating s) (popped s) (fifo s) (queue s) (pop_prio s) (id_count s) (pop_mode s) (auto_mode s) (ph s) (cwbuf s) (delayed s) (pend_writes s) (pend_fix s) (outframes s) (cancelled s) (done_seen s) (ended s) (errored s) (ct_exited s) (cycle_pops s) (cycle_flushed s) (iter_heap s) (iter_dirty s) (retired s) (wlog s) (cycle_err s) (out_pending s) (matrix s) v (released s) (last_lazy s) (state_answer s).
Definition cs_released (s : cst) v : cst := mkC (bars s) (heap s) (hsync s) (hlen s) (hdirty s) (iterating s) (popped s) (fifo s) (queue s) (pop_prio s) (id_count s) (pop_mode s) (auto_mode s) (ph s) (cwbuf s) (delayed s) (pend_writes s) (pend_fix s) (outframes s) (cancelled s) (done_seen s) (ended s) (errored s) (ct_exited s) (cycle_pops s) (cycle_flushed s) (iter_heap s) (iter_dirty s) (retired s) (wlog s) (cycle_err s) (out_pending s) (matrix s) (final_done s) v (last_lazy s) (state_answer s).
Definition cs_last_lazy (s : cst) v : cst := mkC (bars s) (heap s) (hsync s) (hlen s) (hdirty s) (iterating s) (popped s) (fifo s) (queue s) (pop_prio s) (id_count s) (pop_mode s) (auto_mode s) (ph s) (cwbuf s) (delayed s) (pend_writes s) (pend_fix s) (outframes s) (cancelled s) (done_seen s) (ended s) (errored s) (ct_exited s) (cycle_pops s) (cycle_flushed s) (iter_heap s) (iter_dirty s) (retired s) (wlog s) (cycle_err s) (out_pending s) (matrix s) (final_done s) (released s) v (state_answer s).
Definition cs_state_answer (s : cst) v : cst := mkC (bars s) (heap s) (hsync s) (hlen s) (hdirty s) (iterating s) (popped s) (fifo s) (queue s) (pop_prio s) (id_count s) (pop_mode s) (auto_mode s) (ph s) (cwbuf s) (delayed s) (pend_writes s) (pend_fix s) (outframes s) (cancelled s) (done_seen s) (ended s) (errored s) (ct_exited s) (cycle_pops s) (cycle_flushed s) (iter_heap s) (iter_dirty s) (retired s) (wlog s) (cycle_err s) (out_pending s) (matrix s) (final_done s) (released s) (last_lazy s) v.

Definition init_cst (popm autom delay : bool) : cst :=
  mkC [] [] false 0 false false [] [] [] (-2147483648) 0 popm autom Idle [] delay [] [] [] false false false false false
      [] [] [] false [] [] false false [] false [] None None.

Definition upd_bar (s : cst) (b : Z) (r : brec) : cst := cs_bars s (update b r (bars s)).

(* ---------- events ---------- *)
Inductive ev :=
(* client side (harness) *)
| CL_OP (b : Z) (o : bop)                  (* a bar method is invoked *)
| CL_PRIO (b : Z) (p : Z) (lazy : bool)    (* UpdateBarPriority / SetPriority invoked *)
| CL_WRITE (w seq lines : Z)               (* Progress.Write invoked with [lines] whole lines *)
| CL_CANCEL                                (* context cancelled / Shutdown *)
(* container goroutine *)
| CT_OP                                    (* an operation closure is about to run *)
| CT_ADD (b id prio total : Z) (explicit after : option Z) (rm nopop trig : bool) (xrows : Z) (xrev : bool)
| CT_IO                                    (* a write closure is about to run *)
| CT_DELAYEND
| CT_RENDERBEGIN
| CT_RENDERSIZE (width height : Z)
| CT_FLUSHBAR (b : Z) (shutdown nrows : Z) (rm nopop : bool) (err : bool)
| CT_RENDERERR                               (* render returned an error to serve *)
| CT_FRAME (nrows popcount : Z)
| OUT (items : list item)                  (* one Write call on the output *)
| CT_DONE
| CT_EXIT
(* heap manager goroutine *)
| HM_PUSH (b : Z) (sync : bool) (heaplen : Z) (csync : bool) (clen : Z)
| HM_SYNC (heaplen : Z) (csync : bool) (clen : Z)
| HM_ITERREQ (haspop : bool) (heaplen : Z)
| HM_FIX (b prio : Z) (lazy : bool) (index heaplen : Z)
| HM_STATE (heaplen : Z) (csync : bool) (clen : Z)
| HM_END (heaplen : Z)
| HM_POP (b prio : Z)
(* bar goroutines *)
| BAR_OP (b cur total refill : Z) (trig aborted rm : bool) (shutdown : Z)
| BAR_RENDER (b cur total refill : Z) (aborted completed : bool) (shutdown : Z)
| BAR_EXIT (b cur total : Z) (aborted : bool)
| BAR_DRAWERR (b : Z)                          (* the filler failed: the render closure returns before counting the frame *)
(* values returned to the client *)
| RET_GET (b cur : Z) (comp ab : bool)         (* Current / Completed / Aborted read after an operation *)
| FINAL (b cur : Z) (comp ab running : bool)   (* read after Progress.Wait returned *)
| NOTIFY (bs : list Z).                        (* value received from the shutdown notifier *)

(* ---------- bar layer ---------- *)
Definition snap_matches (s : bst) (cur tot ref : Z) (tr ab rmf : bool) (sh : Z) : bool :=
  (current s =? cur) && (total s =? tot) && (refill s =? ref) && Bool.eqb (trig s) tr &&
  Bool.eqb (aborted s) ab && Bool.eqb (rm s) rmf && (shutdown s =? sh).

(* a closure was executed by the actor of bar b and left this snapshot *)
Definition bar_op (r : brec) (cur tot ref : Z) (tr ab rmf : bool) (sh : Z) : option brec :=
  if br_after_render r then
    if snap_matches (br_st r) cur tot ref tr ab rmf sh then Some (set_after_render r false) else None
  else
    match br_pending r with
    | o :: rest =>
        let s' := fst (bapply (br_st r) o) in
        if snap_matches s' cur tot ref tr ab rmf sh then Some (set_pending (set_st r s') rest)
        else if snap_matches (br_st r) cur tot ref tr ab rmf sh then Some r   (* a getter / sync-table closure *)
        else None
    | [] => if snap_matches (br_st r) cur tot ref tr ab rmf sh then Some r else None
    end.

(* the render closure of bar b starts (on the actor, or directly after exit) *)
Definition bar_render (r : brec) (cur tot ref : Z) (ab comp : bool) (sh : Z) : option brec :=
  let s := br_st r in
  if (current s =? cur) && (total s =? tot) && (refill s =? ref) && Bool.eqb (aborted s) ab &&
     Bool.eqb (completed s) comp && (shutdown s =? sh) && match br_frame r with None => true | Some _ => false end
  then
    let '(s', fsh) := brender s in
    let fi := match fsh with
              | Some k => mkFI k (rm s) (nopop s) cur tot comp ab
              | None => mkFI 0 false false cur tot comp ab
              end in
    Some (mkBR s' (br_prio r) (br_xrows r) (br_xrev r) (Some fi) (br_pending r) (negb (exited s)))
  else None.

(* ---------- rows of a bar in a frame ---------- *)
Fixpoint xrows_from (b : Z) (j : Z) (n : nat) : list item :=
  match n with O => [] | S k => IXRow b j :: xrows_from b (j + 1) k end.

(* frame.rows in the order the extender returns them *)
Definition bar_rows (b : Z) (r : brec) (fi : frame_info) : list item :=
  let main := IRow b (fi_cur fi) (fi_total fi) (fi_completed fi) (fi_aborted fi) in
  let xs := xrows_from b 0 (Z.to_nat (br_xrows r)) in
  if br_xrev r then List.rev (main :: xs) else main :: xs.

(* flush takes frame.rows from the last to the first while fewer than [height] rows are held *)
Fixpoint take_rows (rows_rev : list item) (held height : Z) : list item * Z :=
  match rows_rev with
  | [] => ([], 0)
  | x :: r => if held <? height then let '(l, n) := take_rows r (held + 1) height in (x :: l, n + 1)
              else take_rows r held height   (* discarded *)
  end.

(* ... except for a bar that is being popped out: all its rows are kept *)
Definition flush_take (popout : bool) (rows_rev : list item) (held height : Z) : list item * Z :=
  if popout then (rows_rev, Z.of_nat (length rows_rev)) else take_rows rows_rev held height.

(* ---------- the acceptor ---------- *)
Definition eqo (a b : option Z) : bool :=
  match a, b with Some x, Some y => x =? y | None, None => true | _, _ => false end.

Definition eqob (a b : option bool) : bool :=
  match a, b with Some x, Some y => Bool.eqb x y | None, None => true | _, _ => false end.

Fixpoint max_prio (bs : list (Z * brec)) (members : list Z) (p : Z) : bool :=
  match members with
  | [] => true
  | m :: r => match lookup m bs with Some br => (br_prio br <=? p) && max_prio bs r p | None => false end
  end.

Fixpoint text_items (w seq : Z) (l : Z) (n : nat) : list item :=
  match n with O => [] | S k => IText w seq l :: text_items w seq (l + 1) k end.

Definition item_eqb (a b : item) : bool :=
  match a, b with
  | ICuu x, ICuu y => x =? y
  | IText a1 a2 a3, IText b1 b2 b3 => (a1 =? b1) && (a2 =? b2) && (a3 =? b3)
  | IRow a1 a2 a3 a4 a5, IRow b1 b2 b3 b4 b5 => (a1 =? b1) && (a2 =? b2) && (a3 =? b3) && Bool.eqb a4 b4 && Bool.eqb a5 b5
  | IXRow a1 a2, IXRow b1 b2 => (a1 =? b1) && (a2 =? b2)
  | _, _ => false
  end.
Fixpoint items_eqb (a b : list item) : bool :=
  match a, b with
  | [], [] => true
  | x :: a', y :: b' => item_eqb x y && items_eqb a' b'
  | _, _ => false
  end.

Definition fifo_pop (s : cst) (want : qreq -> bool) : option cst :=
  match fifo s with
  | q :: rest => if want q then Some (cs_fifo s rest) else None
  | [] => None
  end.

Definition is_push (b : Z) (sy : bool) (q : qreq) : bool :=
  match q with QPush b' sy' => (b =? b') && Bool.eqb sy sy' | _ => false end.
Definition is_q (k : Z) (q : qreq) : bool :=
  match q, k with QSync, 0 => true | QIter, 1 => true | QOp, 2 => true | _, _ => false end.

Fixpoint replace_last_op (l : list qreq) (by_ : list qreq) : option (list qreq) :=
  match l with
  | [] => None
  | [QOp] => Some by_
  | x :: r => match replace_last_op r by_ with Some r' => Some (x :: r') | None => None end
  end.

Definition is_idle (s : cst) : bool := match ph s with Idle => negb (ct_exited s) && negb (out_pending s) | _ => false end.
(* the container goroutine is in its select loop and still takes requests *)
Definition serving (s : cst) : bool := is_idle s && negb (ended s) && negb (done_seen s).
Definition idle_ph (s : cst) : bool := match ph s with Idle => true | _ => false end.
Definition rendering (s : cst) : bool := match ph s with Rendering _ _ _ _ _ _ => true | _ => false end.
Definition nil_b {A} (l : list A) : bool := match l with [] => true | _ => false end.

(* the bars parked behind b, oldest first *)
Fixpoint successors (b : Z) (q : list (Z * Z)) : list Z :=
  match q with
  | [] => []
  | (k, v) :: r => if b =? k then v :: successors b r else successors b r
  end.

(* flush: qb.priority = b.priority for every bar parked behind b *)
Fixpoint promote_bars (bs : list (Z * brec)) (qbs : list Z) (p : Z) : list (Z * brec) :=
  match qbs with
  | [] => bs
  | qb :: r => promote_bars (match lookup qb bs with Some rq => update qb (set_prio rq p) bs | None => bs end) r p
  end.
Definition promote (s : cst) (qbs : list Z) (p : Z) : cst := cs_bars s (promote_bars (bars s) qbs p).

Definition step (s : cst) (e : ev) : option cst :=
  match e with
  (* ---- client ---- *)
  | CL_OP b o =>
      match lookup b (bars s) with
      | Some r => Some (upd_bar s b (set_pending r (br_pending r ++ [o])))
      | None => None
      end
  | CL_PRIO b p lazy => Some (cs_pend_fix s (pend_fix s ++ [(b, p, lazy)]))
  | CL_WRITE w seq lines => Some (cs_pend_writes s (pend_writes s ++ [(w, seq, lines)]))
  | CL_CANCEL => Some (cs_cancelled s true)
  (* ---- container goroutine: one thing at a time ---- *)
  | CT_OP => if serving s && negb (errored s) then Some (cs_fifo s (fifo s ++ [QOp])) else None
  | CT_ADD b id prio tot explicit after rmf np tr xr xv =>
      match lookup b (bars s) with
      | Some _ => None
      | None =>
        (* makeBarState: id and priority default to idCount; triggerComplete = total > 0 *)
        if is_idle s && Bool.eqb tr (0 <? tot) && (id =? id_count s) &&
           (prio =? match explicit with Some p => p | None => id_count s end) then
          let st := binit tot (auto_mode s) rmf np in
          let r := mkBR st prio xr xv None [] false in
          let s1 := cs_id_count (upd_bar s b r) (id_count s + 1) in
          match after with
          | Some a =>
              match lookup a (released s1) with
              | Some pa =>   (* a's final state is already flushed: pushed at once, with the priority a had then *)
                  match replace_last_op (fifo s1) [QPush b true] with
                  | Some f => Some (cs_fifo (upd_bar s1 b (set_prio r pa)) f)
                  | None => None
                  end
              | None =>      (* parked behind a, after the bars already parked there: the closure sends nothing *)
                  match replace_last_op (fifo s1) [] with
                  | Some f => Some (cs_queue (cs_fifo s1 f) (queue s1 ++ [(a, b)]))
                  | None => None
                  end
              end
          | None =>
              match replace_last_op (fifo s1) [QPush b true] with
              | Some f => Some (cs_fifo s1 f)
              | None => None
              end
          end
        else None
      end
  | CT_IO =>
      if negb (serving s && negb (errored s)) then None else
      match pend_writes s with
      | (w, seq, lines) :: rest =>
          let txt := text_items w seq 0 (Z.to_nat lines) in
          let s1 := cs_pend_writes (cs_cwbuf s (cwbuf s ++ txt)) rest in
          Some (if delayed s then s1 else cs_wlog s1 (wlog s ++ txt))
      | [] => Some s     (* the harness's barrier: an empty write *)
      end
  | CT_DELAYEND => if delayed s && serving s then Some (cs_delayed (cs_cwbuf s []) false) else None
  | CT_RENDERBEGIN =>
      (* the shutdown loop renders again only if the heap manager answered that its view had changed *)
      if is_idle s && negb (errored s) && negb (ended s) && negb (eqob (state_answer s) (Some false))
      then Some (cs_state_answer (cs_cycle_err (cs_fifo (cs_ph s (Rendering 0 0 [] 0 0 [])) (fifo s ++ [QSync; QIter])) false) None)
      else None
  | CT_RENDERSIZE wd ht =>
      match ph s with
      | Rendering _ _ [] 0 0 [] => Some (cs_ph s (Rendering wd ht [] 0 0 []))
      | _ => None
      end
  | CT_FLUSHBAR b sh nrows rmf np err =>
      match ph s, lookup b (bars s) with
      | Rendering wd ht rows n pc pushes, Some r =>
        match br_frame r with
        | Some fi =>
          (* flush receives bars in pop order: b is the oldest popped bar not yet flushed *)
          if negb (match popped s with p0 :: _ => b =? p0 | [] => false end) then None else
          let over := nil_b (tl (popped s)) && negb (iterating s) && nil_b (fifo s) in   (* the ordered iteration is over *)
          let leave (s : cst) (pushes' : list (Z * bool)) :=
            (* once the iteration is over flush returns the error and its pushes are sent *)
            if over then cs_ph (cs_fifo s (fifo s ++ map (fun p => QPush (fst p) (snd p)) pushes')) Failed
            else cs_ph s (Rendering wd ht rows n pc pushes') in
          if cycle_err s then
            (* after a frame error the cycle is finished without drawing: the bar goes back untouched *)
            Some (leave (upd_bar (cs_cycle_flushed (cs_popped s (tl (popped s))) (cycle_flushed s ++ [b])) b (set_frame r None))
                        (pushes ++ [(b, false)]))
          else if err then
            (* the failing bar is cancelled and not pushed back *)
            let rc := set_st (set_frame r None) (set_cancelled (br_st r)) in
            Some (cs_cycle_err (cs_retired (leave (upd_bar (cs_cycle_flushed (cs_popped s (tl (popped s))) (cycle_flushed s ++ [b])) b rc)
                        pushes) (b :: retired s)) true)
          else
          if negb ((fi_shutdown fi =? sh) && Bool.eqb (fi_rm fi) rmf && Bool.eqb (fi_nopop fi) np &&
                   (nrows =? 1 + br_xrows r)) then None else
          (* rows of a bar that is being popped out are kept whatever the height: they stay on screen for good and are not
             part of the frame that is redrawn *)
          let '(taken, used) := flush_take ((sh =? 2) && pop_mode s && negb np) (List.rev (bar_rows b r fi)) n ht in
          let r0 := set_frame r None in
          let rc := set_st r0 (set_cancelled (br_st r0)) in       (* b.cancel() *)
          let s0 := cs_cycle_flushed (cs_popped s (tl (popped s))) (cycle_flushed s ++ [b]) in
          let fin (s : cst) (pc' : Z) (pushes' : list (Z * bool)) :=
            Some (cs_ph s (Rendering wd ht (rows ++ taken) (n + used) pc' pushes')) in
          if sh =? 1 then
            (* b.relieved, b.lastPriority = true, b.priority *)
            let s0 := cs_released s0 ((b, br_prio r) :: released s0) in
            match successors b (queue s0) with
            | (_ :: _) as qbs =>
                (* every bar parked behind b takes b's priority and is pushed, in the order they were parked; b itself is not *)
                let s1 := promote (upd_bar s0 b rc) qbs (br_prio r) in
                fin (cs_retired (cs_queue s1 (remove_key b (queue s1))) (b :: retired s1)) pc
                    (pushes ++ map (fun qb => (qb, true)) qbs)
            | [] =>
                if pop_mode s0 && negb np then
                  fin (cs_pop_prio (upd_bar s0 b (set_prio rc (pop_prio s0))) (pop_prio s0 + 1)) pc (pushes ++ [(b, false)])
                else if negb rmf then fin (upd_bar s0 b rc) pc (pushes ++ [(b, false)])
                else fin (cs_retired (upd_bar s0 b rc) (b :: retired s0)) pc pushes
            end
          else if (sh =? 2) && pop_mode s0 && negb np then
            fin (cs_retired (upd_bar s0 b r0) (b :: retired s0)) (pc + used) pushes
          else fin (upd_bar s0 b r0) pc (pushes ++ [(b, false)])
        | None => None
        end
      | _, _ => None
      end
  | CT_RENDERERR =>
      match ph s with
      | Idle =>   (* the output writer failed while the frame was being written *)
          if ct_exited s || errored s then None else Some (cs_out_pending (cs_cancelled (cs_errored s true) true) false)
      | Failed => if errored s then None else Some (cs_cancelled (cs_errored (cs_ph s Idle) true) true)
      | Rendering _ _ _ _ _ _ => None
      end
  | CT_FRAME nrows pcnt =>
      match ph s with
      | Rendering wd ht rows n pc pushes =>
          (* the ordered iteration is over: the heap manager has taken everything sent so far *)
          if (n =? nrows) && (pc =? pcnt) && nil_b (popped s) && negb (iterating s) && nil_b (fifo s) && negb (cycle_err s) then
            (* rows were collected bottom-up and are written top first; then Flush(rows - popCount) *)
            let buf := cwbuf s ++ List.rev rows in
            let next := if 0 <? n - pc then [ICuu (n - pc)] else [] in
            let s1 := cs_fifo s (fifo s ++ map (fun p => QPush (fst p) (snd p)) pushes) in
            let s2 := cs_final_done (cs_cwbuf (cs_ph s1 Idle) next) (final_done s || done_seen s) in
            if delayed s then Some s2
            else match buf with
                 | [] => Some s2                               (* nothing to write: no Write call *)
                 | _ => Some (cs_out_pending (cs_outframes s2 (buf :: outframes s)) true)
                 end
          else None
      | _ => None
      end
  | OUT items =>
      (* must be the frame the model has just handed to the writer *)
      match outframes s with
      | f :: _ => if out_pending s && items_eqb f items then Some (cs_out_pending s false) else None
      | [] => None
      end
  | CT_DONE => if serving s then Some (cs_done_seen s true) else None
  | CT_EXIT =>
      (* auto refresh: serve renders at least one more cycle after done (unless a render error is latched) *)
      if done_seen s && is_idle s && (negb (auto_mode s) || final_done s || errored s) then Some (cs_ct_exited s true) else None
  (* ---- heap manager goroutine: one request at a time ---- *)
  | HM_PUSH b sy hl cs cl =>
      if negb (ended s) && negb (iterating s) && (hl =? Z.of_nat (length (heap s))) && Bool.eqb cs (hsync s) && (cl =? hlen s)
         && negb (memZ b (heap s)) then
        match fifo_pop s (is_push b sy) with
        | Some s1 => Some (cs_last_lazy (cs_hsync (cs_heap s1 (b :: heap s)) (hsync s || sy)) None)
        | None => None
        end
      else None
  | HM_SYNC hl cs cl =>
      if negb (ended s) && negb (iterating s) && (hl =? Z.of_nat (length (heap s))) && Bool.eqb cs (hsync s) && (cl =? hlen s) then
        match fifo_pop s (is_q 0) with
        | Some s1 =>
            (* matrices rebuilt iff sync || len != heap length; then sync := false, len := heap length *)
            if hsync s || negb (hlen s =? hl) then Some (cs_matrix (cs_hlen (cs_hsync s1 false) hl) (heap s)) else Some s1
        | None => None
        end
      else None
  | HM_ITERREQ haspop hl =>
      if negb (ended s) && negb (iterating s) && (hl =? Z.of_nat (length (heap s))) then
        if haspop then
          match fifo_pop s (is_q 1) with
          | Some s1 =>
              let s2 := cs_iter_dirty (cs_iter_heap (cs_cycle_flushed (cs_cycle_pops (cs_popped s1 []) []) []) (heap s)) (hdirty s) in
              (* an empty heap: the ordered iteration is over at once *)
              Some (cs_last_lazy (cs_iterating s2 (negb (nil_b (heap s)))) None)
          | None => None
          end
        else fifo_pop s (is_q 2)       (* traverseBars of an early refresh *)
      else None
  | HM_FIX b p lazy idx hl =>
      if iterating s || ended s then None else
      match pend_fix s, fifo_pop s (is_q 2) with
      | (b', p', lazy') :: rest, Some s1 =>
          if (b =? b') && (p =? p') && Bool.eqb lazy lazy' then
            let s2 := cs_pend_fix s1 rest in
            (* index < 0: not in the heap, ignored *)
            if idx <? 0 then (if memZ b (heap s) then None else Some s2) else
            if negb (memZ b (heap s) || (idx =? 0)) then None else
            match lookup b (bars s2) with
            | Some r =>
                (* lazy: the order may be broken.  immediate: heap.Fix(index of b) re-establishes the order around b only — which is
                   the whole order exactly when b's own lazy change, made on an ordered heap, is the only thing that happened since
                   (PQueueProofs.lazy_then_immediate_restores_order) *)
                let s3 := upd_bar s2 b (set_prio r p) in
                if lazy then Some (cs_last_lazy (cs_hdirty s3 true) (if hdirty s2 then None else Some b))
                else Some (cs_last_lazy (cs_hdirty s3 (hdirty s2 && negb (eqo (last_lazy s2) (Some b)))) None)
            | None => None
            end
          else None
      | _, _ => None
      end
  | HM_STATE hl cs cl =>
      if negb (ended s) && negb (iterating s) && (hl =? Z.of_nat (length (heap s))) && Bool.eqb cs (hsync s) && (cl =? hlen s)
         && done_seen s && nil_b (fifo s) && idle_ph s
      (* h_state answers "sync || len != heap length": has a bar joined with a sync request, or the number of bars changed, since the
         matrices were built — i.e. during the frame just written *)
      then Some (cs_state_answer s (Some (hsync s || negb (hlen s =? hl)))) else None
  | HM_END hl =>
      (* ... and ends only when the answer was "no" (or no question was asked: manual refresh, or a render error) *)
      if negb (iterating s) && negb (ended s) && (hl =? Z.of_nat (length (heap s))) && done_seen s && nil_b (fifo s) && idle_ph s
         && negb (eqob (state_answer s) (Some true))
      then Some (cs_ended s true) else None
  | HM_POP b p =>
      match lookup b (bars s) with
      | Some r =>
          if negb (ended s) && iterating s && memZ b (heap s) && (br_prio r =? p) && (hdirty s || max_prio (bars s) (heap s) p) then
            let hp := removeZ b (heap s) in
            (* the iteration empties the heap; the pushes that follow rebuild it in order *)
            let fin := nil_b hp in
            let s1 := cs_cycle_pops (cs_popped (cs_heap s hp) (popped s ++ [b])) (cycle_pops s ++ [(b, p)]) in
            Some (cs_iterating (cs_hdirty s1 (if fin then false else hdirty s)) (negb fin))
          else None
      | None => None
      end
  (* ---- bars ---- *)
  | BAR_OP b cur tot ref tr ab rmf sh =>
      match lookup b (bars s) with
      | Some r => if exited (br_st r) then None else   (* the actor has returned: nothing runs on it *)
                  match bar_op r cur tot ref tr ab rmf sh with Some r' => Some (upd_bar s b r') | None => None end
      | None => None
      end
  | BAR_RENDER b cur tot ref ab comp sh =>
      match lookup b (bars s) with
      | Some r => if exited (br_st r) && negb (rendering s) then None else   (* after exit the container goroutine renders the bar itself *)
                  (* bar.go render: a live bar whose context is done and that is neither completed nor aborted is marked
                     aborted before it is drawn (the cancellation may not have reached the actor's select yet) *)
                  let st := br_st r in
                  let r1 := if ab && negb (aborted st) && negb (completed st) && negb (exited st)
                               && (cancelled s || BarState.cancelled st)
                            then set_st r (mkB (total st) (current st) (refill st) (trig st) true (rm st) (nopop st) (auto st)
                                               (shutdown st) (BarState.cancelled st) (exited st) (early st))
                            else r in
                  match bar_render r1 cur tot ref ab comp sh with Some r' => Some (upd_bar s b r') | None => None end
      | None => None
      end
  | BAR_DRAWERR b =>
      match lookup b (bars s) with
      | Some r =>
          if exited (br_st r) && negb (rendering s) then None else
          match br_frame r with
          | Some fi =>
              let st := br_st r in
              (* bar.go render: on a draw error the closure returns before "shutdown++" *)
              let st' := if terminal st then
                           mkB (total st) (current st) (refill st) (trig st) (aborted st) (rm st) (nopop st) (auto st)
                               (shutdown st - 1) (BarState.cancelled st) (exited st) (early st)
                         else st in
              Some (upd_bar s b (set_frame (set_st r st') (Some (mkFI 0 false false (fi_cur fi) (fi_total fi) (fi_completed fi) (fi_aborted fi)))))
          | None => None
          end
      | None => None
      end
  | BAR_EXIT b cur tot ab =>
      match lookup b (bars s) with
      | Some r =>
          let st := br_st r in
          (* the ctx is done because flush cancelled the bar (already recorded), the bar
             cancelled itself (non auto-refresh completion) or the container was cancelled *)
          let st1 := if cancelled s then set_cancelled st else st in
          match bev_step st1 Exit with
          | Some st' =>
              if (current st' =? cur) && (total st' =? tot) && Bool.eqb (aborted st') ab
              then Some (upd_bar s b (set_pending (set_st r st') []))
              else None
          | None => None
          end
      | None => None
      end
  (* ---- client-visible values ---- *)
  | RET_GET b cur comp ab =>
      match lookup b (bars s) with
      | Some r => let st := br_st r in
                  if (current st =? cur) && Bool.eqb (completed st) comp && Bool.eqb (aborted st) ab then Some s else None
      | None => None
      end
  | FINAL b cur comp ab running =>
      match lookup b (bars s) with
      | Some r => let st := br_st r in
                  if (current st =? cur) && Bool.eqb (completed st) comp && Bool.eqb (aborted st) ab
                     && exited st && negb running && xorb comp ab then Some s else None
      | None => None
      end
  | NOTIFY bs =>
      if ended s && (Z.of_nat (length bs) =? Z.of_nat (length (heap s))) && forallb (fun b => memZ b (heap s)) bs
         && forallb (fun b => memZ b bs) (heap s)
      then Some s else None
  end.

Definition run (s : cst) (evs : list ev) : option cst := fold_left_opt step evs s.

(* index of the first rejected event, for diagnostics *)
Fixpoint first_reject (s : cst) (evs : list ev) (i : Z) : option Z :=
  match evs with
  | [] => None
  | e :: r => match step s e with Some s' => first_reject s' r (i + 1) | None => Some i end
  end.
