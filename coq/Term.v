(* Term.v — a line-level terminal: what the bytes of a frame do to the screen.
   A frame is a list of items: ICuu k ("cursor up k lines, clear to end of screen")
   and whole lines.  The cursor rests at the start of the line below the last line. *)
From MPB Require Import Base BarState Container.

Definition drop_last {A} (k : nat) (l : list A) : list A := firstn (length l - k) l.

(* an unbounded screen (scrollback included) *)
Definition apply_item (scr : list item) (i : item) : list item :=
  match i with
  | ICuu k => drop_last (Z.to_nat k) scr
  | x => scr ++ [x]
  end.
Definition apply_frame (scr : list item) (f : list item) : list item := fold_left apply_item f scr.
Definition screen_of (frames : list (list item)) : list item := fold_left apply_frame frames [].

(* a terminal of [h] rows: the cursor cannot go above the top row of the window, so at
   most h - 1 lines above the cursor line can be reached; lines further up are scrollback *)
Definition apply_item_h (h : Z) (scr : list item) (i : item) : list item :=
  match i with
  | ICuu k => drop_last (Z.to_nat (Z.min k (Z.max 0 (h - 1)))) scr
  | x => scr ++ [x]
  end.
Definition apply_frame_h (h : Z) (scr : list item) (f : list item) : list item := fold_left (apply_item_h h) f scr.

Definition is_cuu (i : item) : bool := match i with ICuu _ => true | _ => false end.
Definition is_text (i : item) : bool := match i with IText _ _ _ => true | _ => false end.
Definition is_row (i : item) : bool := match i with IRow _ _ _ _ _ | IXRow _ _ => true | _ => false end.
Definition cuu_items (k : Z) : list item := if 0 <? k then [ICuu k] else [].

Lemma drop_last_app {A} (a b : list A) : drop_last (length b) (a ++ b) = a.
Proof.
  unfold drop_last. rewrite app_length. replace (length a + length b - length b)%nat with (length a) by lia.
  rewrite firstn_app, Nat.sub_diag, firstn_all. cbn. apply app_nil_r.
Qed.

Lemma apply_lines scr l : forallb (fun i => negb (is_cuu i)) l = true -> apply_frame scr l = scr ++ l.
Proof.
  revert scr. induction l as [|x l IH]; intros scr; cbn; [rewrite app_nil_r; reflexivity|].
  intros H. apply andb_prop in H as [Hx Hl]. unfold apply_frame in *. cbn [fold_left]. rewrite IH by exact Hl.
  destruct x; cbn in Hx; try discriminate; cbn; rewrite <- app_assoc; reflexivity.
Qed.

(* the redraw step: the cursor-up count equals the number of live lines, so exactly the
   live lines are replaced by the new frame's lines, and nothing above them is touched *)
Theorem redraw_in_place hist lv k body :
  Z.of_nat (length lv) = k -> forallb (fun i => negb (is_cuu i)) body = true ->
  apply_frame (hist ++ lv) (cuu_items k ++ body) = hist ++ body.
Proof.
  intros L B. unfold cuu_items. destruct (Z.ltb_spec 0 k).
  - unfold apply_frame. cbn [app fold_left apply_item]. subst k. rewrite Nat2Z.id, drop_last_app. apply apply_lines. exact B.
  - destruct lv; [|cbn in L; lia]. cbn [app]. rewrite app_nil_r. apply apply_lines. exact B.
Qed.

(* on a terminal of h rows the same holds as long as the live region is shorter than the window *)
Theorem redraw_in_place_h h hist lv k body :
  Z.of_nat (length lv) = k -> k <= h - 1 -> forallb (fun i => negb (is_cuu i)) body = true ->
  apply_frame_h h (hist ++ lv) (cuu_items k ++ body) = hist ++ body.
Proof.
  intros L Hh B. rewrite <- (redraw_in_place hist lv k body L B).
  unfold apply_frame_h, apply_frame, cuu_items. destruct (0 <? k) eqn:K.
  - cbn [app fold_left apply_item apply_item_h]. apply Z.ltb_lt in K. rewrite Z.min_l by lia.
    generalize (drop_last (Z.to_nat k) (hist ++ lv)). clear - B. induction body as [|x body IH]; intros scr; cbn; [reflexivity|].
    apply andb_prop in B as [Bx Bb]. destruct x; cbn in Bx; try discriminate; cbn; apply IH; exact Bb.
  - cbn [app]. generalize (hist ++ lv). clear - B. induction body as [|x body IH]; intros scr; cbn; [reflexivity|].
    apply andb_prop in B as [Bx Bb]. destruct x; cbn in Bx; try discriminate; cbn; apply IH; exact Bb.
Qed.

(* ... and fails when the live region fills the window: the top live row stays behind, stale *)
Example redraw_full_window_refuted :
  let lv := [IRow 0 1 5 false false; IRow 1 1 5 false false] in
  let body := [IRow 0 2 5 false false; IRow 1 2 5 false false] in
  apply_frame_h 2 ([] ++ lv) (cuu_items 2 ++ body) = IRow 0 1 5 false false :: body.
Proof. vm_compute. reflexivity. Qed.
