(* ContainerLife.v — what the container does after it stopped: after Wait returned
   (CT_EXIT) and after a render error (CT_RENDERERR) nothing more is rendered or
   written (C03, C13, C14, C15, C16).  Everything is over Container.step. *)
From MPB Require Import Base BaseProofs BarState BarStateProofs Container ContainerProofs.

(* ---------- the writer hand-over ---------- *)
(* a frame is pending at the output writer only while the container is between cycles *)
Definition PendIdle (s : cst) : Prop := out_pending s = true -> ph s = Idle.

Lemma PendIdle_init p a d : PendIdle (init_cst p a d).
Proof. intros H. cbn in H. discriminate. Qed.

Ltac leave_flush :=
  repeat match goal with
  | |- context [if ?c then _ else _] => destruct c
  end.

Lemma is_idle_facts s : is_idle s = true -> ph s = Idle /\ ct_exited s = false /\ out_pending s = false.
Proof.
  unfold is_idle. destruct (ph s); try discriminate. intros H. apply andb_prop in H as [H1 H2].
  apply negb_true_iff in H1. apply negb_true_iff in H2. auto.
Qed.

Lemma step_PendIdle s e s' : step s e = Some s' -> PendIdle s -> PendIdle s'.
Proof.
  intros H P. unfold PendIdle in *.
  destruct e; break_step H; use_fifo_pop; simp_state; try assumption; try discriminate;
    repeat match goal with
    | Hi : is_idle _ = true |- _ => apply is_idle_facts in Hi; destruct Hi as (? & ? & ?)
    | Hi : negb (is_idle _) = false |- _ => apply negb_false_iff in Hi
    | Hi : _ && _ = true |- _ => apply andb_prop in Hi as [? ?]
    end;
    try (intros Hp; try reflexivity; try congruence; fail).
  all: try (intros Hp; apply P in Hp; congruence).
  all: try (leave_flush; simp_state; intros Hp; apply P in Hp; congruence).
Qed.

(* ---------- quiet states ---------- *)
(* the container goroutine is between cycles, nothing is pending at the writer, and it
   will never start a cycle again: it has returned, or a render error is latched *)
Definition Quiet (s : cst) : Prop :=
  ph s = Idle /\ out_pending s = false /\ (ct_exited s = true \/ errored s = true).

Lemma quiet_no_cycle s : Quiet s -> step s CT_RENDERBEGIN = None.
Proof.
  intros (P & O & [X|E]); unfold step, is_idle; rewrite P, O.
  - rewrite X. reflexivity.
  - rewrite E. destruct (ct_exited s); reflexivity.
Qed.

Lemma step_Quiet s e s' : step s e = Some s' -> Quiet s -> Quiet s' /\ outframes s' = outframes s.
Proof.
  intros H (P & O & X). unfold Quiet.
  destruct e; break_step H; use_fifo_pop; simp_state; try (split; [split; [|split]|]; first [assumption|reflexivity]; fail);
    try congruence.
  all: try (repeat match goal with
    | Hi : is_idle _ = true |- _ => apply is_idle_facts in Hi; destruct Hi as (? & ? & ?)
    | Hi : _ && _ = true |- _ => apply andb_prop in Hi as [? ?]
    | Hi : negb _ = true |- _ => apply negb_true_iff in Hi
    end; split; [split; [|split]|]; try assumption; try reflexivity; try (destruct X; [left; congruence|right; assumption]); try (right; reflexivity);
    try (left; reflexivity); try congruence; fail).
  all: exfalso; repeat match goal with
    | Hi : _ && _ = true |- _ => apply andb_prop in Hi as [? ?]
    | Hi : is_idle _ = true |- _ => apply is_idle_facts in Hi; destruct Hi as (? & ? & ?)
    | Hi : negb _ = true |- _ => apply negb_true_iff in Hi
    end; destruct X; congruence.
Qed.

Theorem quiet_forever s evs s' : run s evs = Some s' -> Quiet s -> Quiet s' /\ outframes s' = outframes s.
Proof.
  revert s. induction evs as [|e evs IH]; intros s; unfold run; cbn.
  - intros E; inversion E; subst. auto.
  - destruct (step s e) as [s1|] eqn:E; [|discriminate]. intros H Q.
    destruct (step_Quiet _ _ _ E Q) as (Q1 & O1).
    destruct (IH s1 H Q1) as (Q2 & O2). split; [assumption|congruence].
Qed.

(* Wait has returned: the state is quiet *)
Lemma exit_quiet s s' : step s CT_EXIT = Some s' -> Quiet s' /\ outframes s' = outframes s.
Proof.
  unfold step. destruct (done_seen s && is_idle s && _) eqn:C; [|discriminate]. intros E; inversion E; subst.
  apply andb_prop in C as [C _]. apply andb_prop in C as [_ C]. apply is_idle_facts in C as (P & X & O).
  unfold Quiet. simp_state. auto.
Qed.

(* a render error: the error is latched, the container is cancelled, and the state is quiet *)
Lemma rendererr_quiet s s' :
  step s CT_RENDERERR = Some s' -> PendIdle s -> Quiet s' /\ errored s' = true /\ cancelled s' = true /\ outframes s' = outframes s.
Proof.
  unfold step, Quiet. intros H P. destruct (ph s) eqn:E; try discriminate.
  - destruct (ct_exited s || errored s); [discriminate|]. inversion H; subst. simp_state. auto 10.
  - destruct (errored s); [discriminate|]. inversion H; subst. simp_state.
    assert (out_pending s = false) by (destruct (out_pending s) eqn:O; [specialize (P O); congruence|reflexivity]).
    auto 10.
Qed.

(* nothing is written after Wait returned, for every continuation *)
Theorem no_output_after_exit s s1 evs s2 :
  step s CT_EXIT = Some s1 -> run s1 evs = Some s2 -> outframes s2 = outframes s.
Proof.
  intros E R. destruct (exit_quiet _ _ E) as (Q & O). destruct (quiet_forever _ _ _ R Q) as (_ & O2). congruence.
Qed.

(* no further frame after a render error, and no cycle ever starts again *)
Theorem no_frame_after_error s s1 evs s2 :
  PendIdle s -> step s CT_RENDERERR = Some s1 -> run s1 evs = Some s2 ->
  outframes s2 = outframes s /\ errored s2 = true.
Proof.
  intros P E R. destruct (rendererr_quiet _ _ E P) as (Q & Er & _ & O).
  destruct (quiet_forever _ _ _ R Q) as ((_ & _ & X) & O2). split; [congruence|].
  clear - Er R. revert s1 Er R. induction evs as [|e evs IH]; intros s1 Er; unfold run; cbn.
  - intros E; inversion E; subst; assumption.
  - destruct (step s1 e) as [s3|] eqn:E; [|discriminate]. intros R. apply (IH s3); [|exact R].
    clear - E Er. destruct e; break_step E; use_fifo_pop; simp_state; try assumption; try reflexivity.
    all: try (leave_flush; simp_state; assumption).
Qed.

Lemma errored_mono s e s' : step s e = Some s' -> errored s = true -> errored s' = true.
Proof.
  intros E Er. destruct e; break_step E; use_fifo_pop; simp_state; try assumption; try reflexivity.
  all: try (leave_flush; simp_state; assumption).
Qed.

Lemma cancelled_mono s e s' : step s e = Some s' -> cancelled s = true -> cancelled s' = true.
Proof.
  intros E Er. destruct e; break_step E; use_fifo_pop; simp_state; try assumption; try reflexivity.
  all: try (leave_flush; simp_state; assumption).
Qed.

(* the error is reported (CT_RENDERERR accepted) at most once: after it, in every continuation, a second report is refused *)
Theorem error_reported_once s s1 evs s2 :
  step s CT_RENDERERR = Some s1 -> run s1 evs = Some s2 -> step s2 CT_RENDERERR = None.
Proof.
  intros E R.
  assert (Er : errored s1 = true).
  { unfold step in E. destruct (ph s); try discriminate; destruct (_ : bool); try discriminate; inversion E; reflexivity. }
  assert (Er2 : errored s2 = true).
  { clear E. revert s1 Er R. induction evs as [|e evs IH]; intros s1 Er; unfold run; cbn.
    - intros E; inversion E; subst; assumption.
    - destruct (step s1 e) as [s3|] eqn:E; [|discriminate]. intros R. apply (IH s3); [|exact R]. eapply errored_mono; eauto. }
  unfold step. rewrite Er2. destruct (ph s2); try reflexivity. rewrite orb_true_r. reflexivity.
Qed.

(* the heap manager is told to end at most once *)
Lemma ended_mono s e s' : step s e = Some s' -> ended s = true -> ended s' = true.
Proof.
  intros E Er. destruct e; break_step E; use_fifo_pop; simp_state; try assumption; try reflexivity.
  all: try (leave_flush; simp_state; assumption).
Qed.

Theorem end_once s hl s1 evs s2 hl' :
  step s (HM_END hl) = Some s1 -> run s1 evs = Some s2 -> step s2 (HM_END hl') = None.
Proof.
  intros E R. assert (En : ended s1 = true).
  { unfold step in E. destruct (_ && _); [|discriminate]. inversion E; subst. reflexivity. }
  assert (En2 : ended s2 = true).
  { clear E. revert s1 En R. induction evs as [|e evs IH]; intros s1 En; unfold run; cbn.
    - intros E; inversion E; subst; assumption.
    - destruct (step s1 e) as [s3|] eqn:E; [|discriminate]. intros R. apply (IH s3); [|exact R].
      eapply ended_mono; eauto. }
  unfold step. rewrite En2. cbn. rewrite andb_false_r. reflexivity.
Qed.

(* ---------- everything has stopped (C16) ---------- *)
Definition all_exited (s : cst) : bool := forallb (fun kv => exited (br_st (snd kv))) (bars s).

(* the container goroutine has returned, the heap manager was told to end, every bar's actor has returned *)
Definition Dead (s : cst) : Prop :=
  ph s = Idle /\ out_pending s = false /\ ct_exited s = true /\ ended s = true /\ all_exited s = true.

Definition client_event (e : ev) : bool :=
  match e with
  | CL_OP _ _ | CL_PRIO _ _ _ | CL_WRITE _ _ _ | CL_CANCEL | RET_GET _ _ _ _ | FINAL _ _ _ _ _ | NOTIFY _ => true
  | _ => false
  end.

Lemma all_exited_lookup bs b r :
  forallb (fun kv : Z * brec => exited (br_st (snd kv))) bs = true -> lookup b bs = Some r -> exited (br_st r) = true.
Proof.
  induction bs as [|[k v] bs IH]; cbn; [discriminate|]. intros H. apply andb_prop in H as [Hv Hb].
  destruct (b =? k); [intros E; inversion E; subst; exact Hv|auto].
Qed.

Lemma all_exited_update bs b r :
  forallb (fun kv : Z * brec => exited (br_st (snd kv))) bs = true -> exited (br_st r) = true ->
  forallb (fun kv : Z * brec => exited (br_st (snd kv))) (update b r bs) = true.
Proof.
  intros H E. induction bs as [|[k v] bs IH]; cbn in *; [rewrite E; reflexivity|].
  apply andb_prop in H as [Hv Hb]. destruct (b =? k); cbn; [rewrite E, Hb; reflexivity|rewrite Hv, IH by exact Hb; reflexivity].
Qed.

(* from then on the only events the library produces are answers to client calls:
   no goroutine of the library does anything more *)
Theorem dead_only_client_events s e s' : Dead s -> step s e = Some s' -> client_event e = true /\ Dead s'.
Proof.
  intros (P & O & X & En & A) H. unfold Dead.
  assert (Idl : is_idle s = false) by (unfold is_idle; rewrite P, X; reflexivity).
  assert (Rn : rendering s = false) by (unfold rendering; rewrite P; reflexivity).
  destruct e; cbn [client_event]; unfold step, serving, idle_ph in H; rewrite ?Idl, ?P, ?X, ?En, ?O in H; cbn [negb andb orb] in H; rewrite ?orb_true_r in H;
    try discriminate H.
  all: try (destruct (lookup b (bars s)) as [r|] eqn:L; [pose proof (all_exited_lookup _ _ _ A L) as Ex; rewrite ?Ex, ?Rn in H|discriminate H]).
  all: cbn [negb andb orb] in H; rewrite ?andb_false_r in H; try discriminate H.
  all: try (destruct (outframes s); discriminate H).
  all: try (match type of H with context [bev_step ?st Exit] =>
              assert (Ex2 : exited st = true) by (destruct (cancelled s); cbn; exact Ex);
              unfold bev_step in H; rewrite Ex2 in H; cbn [negb] in H; rewrite andb_false_r in H; discriminate H end).
  all: try (destruct (_ && _); [|discriminate H]).
  all: inversion H; subst; simp_state; auto 10.
  (* CL_OP *)
  repeat split; auto. unfold all_exited. simp_state. apply all_exited_update; [exact A|]. cbn. exact Ex.
Qed.

Theorem dead_forever s evs s' : Dead s -> run s evs = Some s' -> forallb client_event evs = true /\ Dead s'.
Proof.
  revert s. induction evs as [|e evs IH]; intros s D; unfold run; cbn.
  - intros E; inversion E; subst. auto.
  - destruct (step s e) as [s1|] eqn:E; [|discriminate]. intros R.
    destruct (dead_only_client_events _ _ _ D E) as (C & D1). destruct (IH s1 D1 R) as (C2 & D2). rewrite C, C2. auto.
Qed.
