(* Sync.v — the width rendezvous of one render cycle (heap_manager.go syncWidth /
   maxWidthDistributor, decor/decorator.go WC.Format) as a transition system.

   Channels of the cycle are numbered 0..n-1 in GLOBAL ORDER: prepend columns by
   ordinal, then append columns, each column in the order its distributor walks it.
   [colof i] is the column of channel i (non-decreasing in i), [own i] the bar whose
   decorator uses it. Every channel goes through three phases:
     0  fresh       its owner has not yet handed its width to the distributor
     1  collected   the distributor has the width, the owner waits for the answer
     2  answered    the owner got the column's maximum back
   The two rendezvous are enabled exactly when both sequential programs involved are
   at that point:
   - collect i : the column's distributor receives in column order (all earlier channels
     of the column are collected) and the owner's render closure, which walks its
     decorators in global order, has finished every earlier exchange;
   - answer i  : the distributor sends only after it collected the whole column, in
     column order; the owner is blocked receiving on i since it was collected. *)
From MPB Require Import Base.

Record cfg := mkCfg {
  nch : nat;                  (* number of channels *)
  colof : nat -> nat;         (* column of a channel *)
  own : nat -> nat;           (* owner (bar) of a channel *)
  need : nat -> Z             (* width the owner's decorator needs (minimum width, extra space included) *)
}.

Definition phases := nat -> nat.

Definition upd (s : phases) (i v : nat) : phases := fun k => if Nat.eqb k i then v else s k.

Definition all_below (n : nat) (P : nat -> bool) : bool := forallb P (seq 0 n).

Definition collect_ok (c : cfg) (s : phases) (i : nat) : bool :=
  Nat.ltb i (nch c) && Nat.eqb (s i) 0 &&
  all_below i (fun j => negb (Nat.eqb (colof c j) (colof c i)) || Nat.leb 1 (s j)) &&
  all_below i (fun j => negb (Nat.eqb (own c j) (own c i)) || Nat.eqb (s j) 2).

Definition answer_ok (c : cfg) (s : phases) (i : nat) : bool :=
  Nat.ltb i (nch c) && Nat.eqb (s i) 1 &&
  all_below (nch c) (fun j => negb (Nat.eqb (colof c j) (colof c i)) || Nat.leb 1 (s j)) &&
  all_below i (fun j => negb (Nat.eqb (colof c j) (colof c i)) || Nat.eqb (s j) 2).

Inductive sact := ACollect (i : nat) | AAnswer (i : nat).

Definition sstep (c : cfg) (s : phases) (a : sact) : option phases :=
  match a with
  | ACollect i => if collect_ok c s i then Some (upd s i 1) else None
  | AAnswer i => if answer_ok c s i then Some (upd s i 2) else None
  end.

Definition srun (c : cfg) (s : phases) (acts : list sact) : option phases := fold_left_opt (sstep c) acts s.

Definition init_ph : phases := fun _ => 0%nat.

Definition finished (c : cfg) (s : phases) : bool := all_below (nch c) (fun j => Nat.eqb (s j) 2).

(* the maximum a column's distributor computes: var maxWidth int starts at 0 *)
Definition col_max (c : cfg) (col : nat) : Z :=
  fold_left (fun m j => if Nat.eqb (colof c j) col then Z.max m (need c j) else m) (seq 0 (nch c)) 0.

(* what the owner of channel i receives *)
Definition answer_of (c : cfg) (i : nat) : Z := col_max c (colof c i).

(* well-formed configurations: columns are contiguous in the global order, and a bar has at
   most one decorator per column (by construction of wSyncTable: one per ordinal and side) *)
Definition wf (c : cfg) : Prop :=
  (forall i j, i <= j -> j < nch c -> colof c i <= colof c j)%nat /\
  (forall i j, i < nch c -> j < nch c -> i <> j -> colof c i = colof c j -> own c i <> own c j)%nat.

(* executable scheduler: fire the first enabled action, with fuel *)
Fixpoint first_act (c : cfg) (s : phases) (k : nat) (fuel : nat) : option sact :=
  match fuel with
  | O => None
  | S f => if collect_ok c s k then Some (ACollect k)
           else if answer_ok c s k then Some (AAnswer k)
           else first_act c s (S k) f
  end.

Fixpoint exec (c : cfg) (s : phases) (fuel : nat) : phases * nat :=
  match fuel with
  | O => (s, O)
  | S f => match first_act c s 0 (nch c) with
           | Some a => match sstep c s a with Some s' => let '(r, k) := exec c s' f in (r, S k) | None => (s, O) end
           | None => (s, O)
           end
  end.
