(* GenChecks.v — obligations over the tables the translator regenerates from /repo's
   source on every run (gen/GenApi.v): the select statements of the public methods, the
   `go` statements, and the constants the model shares with the code. *)
From Coq Require Import String List ZArith Bool.
From MPB Require Import Base BarState Container.
From MPB.gen Require Import GenApi.
Import ListNotations.
Open Scope string_scope.

Definition ckind_eqb (a b : ckind) : bool :=
  match a, b with
  | KSendOp, KSendOp | KSendIO, KSendIO | KSendRender, KSendRender | KSendOther, KSendOther
  | KDone, KDone | KCtxDone, KCtxDone | KBsOk, KBsOk | KRecvOp, KRecvOp | KRecvIO, KRecvIO
  | KRecvRender, KRecvRender | KRecvOther, KRecvOther | KDefault, KDefault | KOther, KOther => true
  | _, _ => false
  end.

Definition is_send (k : ckind) : bool := match k with KSendOp | KSendIO | KSendRender => true | _ => false end.
Definition is_done (k : ckind) : bool := match k with KDone | KCtxDone | KBsOk => true | _ => false end.
Definition has_send (g : gsel) : bool := existsb is_send (g_clauses g).
Definition has_done (g : gsel) : bool := existsb is_done (g_clauses g).

(* ---------- what a select does ---------- *)
(* the part of the world a client-side select depends on *)
Record world := mkW {
  receiving : bool;     (* some goroutine is receiving on the channel the call sends on *)
  done_closed : bool    (* the done / ctx.Done / bsOk channel of the call is closed *)
}.

Definition ready (w : world) (k : ckind) : bool :=
  match k with
  | KSendOp | KSendIO | KSendRender => receiving w
  | KDone | KCtxDone | KBsOk => done_closed w
  | KDefault => true
  | _ => false
  end.

Definition can_proceed (w : world) (g : gsel) : bool := existsb (ready w) (g_clauses g).

(* a call made after the container (or the bar) is done: nobody receives any more, the done channel is closed *)
Definition late : world := mkW false true.

Lemma existsb_ready_done w g : done_closed w = true -> has_done g = true -> can_proceed w g = true.
Proof.
  intros D. unfold has_done, can_proceed. induction (g_clauses g) as [|k l IH]; cbn; [discriminate|].
  intros H. apply orb_true_iff in H as [H|H].
  - destruct k; cbn in *; try discriminate; rewrite D; reflexivity.
  - rewrite (IH H). apply orb_true_r.
Qed.

(* every select through which a caller hands work to the container or to a bar has a way out: once the
   receiver is gone and done is closed the call cannot block *)
Definition guarded (g : gsel) : bool := implb (has_send g) (has_done g).

Theorem all_selects_guarded : forallb guarded selects = true.
Proof. vm_compute. reflexivity. Qed.

Theorem late_call_cannot_block g : In g selects -> has_send g = true -> can_proceed late g = true.
Proof.
  intros Hin Hs. pose proof all_selects_guarded as G. rewrite forallb_forall in G. specialize (G g Hin).
  unfold guarded in G. rewrite Hs in G. cbn in G. apply existsb_ready_done; [reflexivity|exact G].
Qed.

(* ... and takes the done branch: no send clause is ready *)
Theorem late_call_takes_done_branch g k : In k (g_clauses g) -> ready late k = true -> is_send k = false.
Proof. destruct k; cbn; intros; try reflexivity; discriminate. Qed.

(* what the done branch returns *)
Definition done_ret (recv meth : string) : option string :=
  match find (fun g => String.eqb (g_recv g) recv && String.eqb (g_method g) meth && negb (g_closure g)) selects with
  | Some g => Some (g_done_ret g)
  | None => None
  end.

Theorem late_results :
  done_ret "Progress" "Add" = Some "nil, ErrDone" /\
  done_ret "Progress" "Write" = Some "0, ErrDone" /\
  done_ret "Bar" "Current" = Some "b.bs.current" /\
  done_ret "Bar" "Completed" = Some "b.bs.completed()" /\
  done_ret "Bar" "Aborted" = Some "b.bs.aborted" /\
  done_ret "Bar" "IsRunning" = Some "false" /\
  (* mutators: the done branch has no statements — the call does nothing *)
  forallb (fun m => match done_ret "Bar" m with Some "" => true | _ => false end)
    ["SetRefill"; "EnableTriggerComplete"; "SetTotal"; "SetCurrent"; "IncrInt64"; "EwmaIncrInt64"; "EwmaSetCurrent"; "Abort"] = true /\
  done_ret "Progress" "UpdateBarPriority" = Some "" /\
  (* the helper behind the early refresh goroutine gives up when the container is done *)
  done_ret "Progress" "traverseBars" = Some "".
Proof. vm_compute. repeat split. Qed.

(* ---------- goroutines ---------- *)
(* every `go` statement of the library; each is accounted for in DESIGN.md (who stops it) and by the
   leak probe.  A new, removed or redirected `go` statement changes this table and breaks the obligation. *)
Definition expected_spawns : list (string * string * string) := [
  ("bar.go", ".newBar", "bar.serve");                                  (* the bar's actor: returns at ctx.Done *)
  ("bar.go", "Bar.EwmaIncrInt64", "func");                             (* one per EWMA decorator, joined by the closure's WaitGroup *)
  ("bar.go", "Bar.EwmaSetCurrent", "func");
  ("bar.go", "Bar.serve", "func");                                     (* shutdown listeners, joined before bsOk is closed *)
  ("bar.go", "bState.triggerCompletion", "b.tryEarlyRefresh");         (* one send or ctx.Done *)
  ("heap_manager.go", "heapManager.run", "func");                      (* hands the bars to the shutdown notifier *)
  ("heap_manager.go", ".syncWidth", "maxWidthDistributor");            (* one per column per sync, ends with the cycle *)
  ("progress.go", ".NewWithContext", "s.manualRefreshListener");
  ("progress.go", ".NewWithContext", "s.autoRefreshListener");
  ("progress.go", ".NewWithContext", "p.serve");
  ("progress.go", ".NewWithContext", "s.hm.run");
  ("progress.go", "Progress.serve", "func");                           (* drains renderReq after a render error until done *)
  ("progress.go", "pState.render", "b.render")                         (* one per bar per cycle, ends when flush took the frame *)
].

(* the tables are compared as multisets of (file, what is started): the function a `go` statement stands in may change when code is
   split into helpers; a new goroutine, a goroutine that is no longer started, or one that starts something else changes the multiset *)
Definition spawn_key (x : string * string * string) : string * string := let '(f, _, w) := x in (f, w).
Definition key_eqb (a b : string * string) : bool := String.eqb (fst a) (fst b) && String.eqb (snd a) (snd b).
Definition count_key (k : string * string) (l : list (string * string * string)) : nat :=
  List.length (filter (key_eqb k) (map spawn_key l)).
Definition spawns_eqb (a b : list (string * string * string)) : bool :=
  Nat.eqb (List.length a) (List.length b) &&
  forallb (fun x => Nat.eqb (count_key (spawn_key x) a) (count_key (spawn_key x) b)) (a ++ b).

Theorem spawn_table_as_expected : spawns_eqb spawns expected_spawns = true.
Proof. vm_compute. reflexivity. Qed.

(* the loops that must end when the container does: each has a done clause *)
Theorem service_loops_watch_done :
  forallb (fun rm => match find (fun g => String.eqb (g_recv g) (fst rm) && String.eqb (g_method g) (snd rm)) selects with
                     | Some g => has_done g | None => false end)
    [("Bar", "serve"); ("Bar", "tryEarlyRefresh"); ("Progress", "serve"); ("pState", "autoRefreshListener");
     ("pState", "manualRefreshListener")] = true.
Proof. vm_compute. reflexivity. Qed.
