(* BarStateProofs.v — lemmas about the bar state machine (C09, C11). *)
From MPB Require Import Base BaseProofs BarState.

Ltac unf := unfold bapply, clamp, trigger, set_current, set_total, set_refill, set_trig,
  set_abort, set_cancelled, bump_early, bump_shutdown, completed, terminal in *; cbn [total current refill
  trig aborted rm nopop auto shutdown cancelled exited early] in *.

(* ---------- single-step rules (C09) ---------- *)

(* increments accumulate while the cap is not reached *)
Lemma incr_accumulates s n :
  (trig s = false \/ wrap64 (current s + n) < total s) ->
  fst (bapply s (IncrInt64 n)) = set_current s (wrap64 (current s + n)).
Proof.
  intros H. unf. destruct (trig s) eqn:T; cbn; [|reflexivity].
  destruct H as [H|H]; [discriminate|].
  destruct (Z.leb_spec (total s) (wrap64 (current s + n))); [lia|reflexivity].
Qed.

Lemma incr_no_wrap s n : in_i64 (current s + n) -> wrap64 (current s + n) = current s + n.
Proof. apply wrap64_id. Qed.

Lemma ewma_incr_same_state s n d :
  fst (bapply s (EwmaIncrInt64 n d)) = fst (bapply s (IncrInt64 n)).
Proof. reflexivity. Qed.

Lemma ewma_incr_sample s n d : snd (bapply s (EwmaIncrInt64 n d)) = OSample n d.
Proof. reflexivity. Qed.

Lemma setcurrent_sets s c :
  0 <= c -> (trig s = false \/ c < total s) ->
  fst (bapply s (SetCurrent c)) = set_current s c.
Proof.
  intros Hc H. unf. destruct (Z.ltb_spec c 0); [lia|]. cbn.
  destruct (trig s); cbn; [|reflexivity].
  destruct H as [H|H]; [discriminate|].
  destruct (Z.leb_spec (total s) c); [lia|reflexivity].
Qed.

Lemma negative_setcurrent_ignored s c : c < 0 -> bapply s (SetCurrent c) = (s, ONone).
Proof. intros H. unf. destruct (Z.ltb_spec c 0); [reflexivity|lia]. Qed.

Lemma negative_ewma_setcurrent_ignored s c d : c < 0 -> bapply s (EwmaSetCurrent c d) = (s, ONone).
Proof. intros H. unf. destruct (Z.ltb_spec c 0); [reflexivity|lia]. Qed.

Lemma ewma_setcurrent_same_state s c d :
  fst (bapply s (EwmaSetCurrent c d)) = fst (bapply s (SetCurrent c)).
Proof. unf. destruct (c <? 0); reflexivity. Qed.

(* reaching the total with triggering enabled completes the bar, capped at total *)
Lemma reach_completes_incr s n :
  trig s = true -> aborted s = false -> total s <= wrap64 (current s + n) ->
  let s' := fst (bapply s (IncrInt64 n)) in
  current s' = total s /\ completed s' = true /\ total s' = total s.
Proof.
  intros T A H. unf. rewrite T. cbn.
  destruct (Z.leb_spec (total s) (wrap64 (current s + n))); [|lia].
  destruct (auto s); cbn; rewrite A, Z.eqb_refl; auto.
Qed.

Lemma reach_completes_setcurrent s c :
  trig s = true -> aborted s = false -> 0 <= c -> total s <= c ->
  let s' := fst (bapply s (SetCurrent c)) in
  current s' = total s /\ completed s' = true.
Proof.
  intros T A Hc H. unf. destruct (Z.ltb_spec c 0); [lia|]. cbn. rewrite T. cbn.
  destruct (Z.leb_spec (total s) c); [|lia].
  destruct (auto s); cbn; rewrite A, Z.eqb_refl; auto.
Qed.

Lemma settotal_ignored_when_trig s t c : trig s = true -> bapply s (SetTotal t c) = (s, ONone).
Proof. intros T. unf. rewrite T. reflexivity. Qed.

Lemma settotal_sets s t :
  trig s = false -> 0 <= t -> fst (bapply s (SetTotal t false)) = set_total s t.
Proof. intros T H. unf. rewrite T. destruct (Z.ltb_spec t 0); [lia|reflexivity]. Qed.

Lemma settotal_negative_adopts_current s t c :
  trig s = false -> t < 0 -> total (fst (bapply s (SetTotal t c))) = current s.
Proof.
  intros T H. unf. rewrite T. destruct (Z.ltb_spec t 0); [|lia].
  destruct c; [destruct (auto s)|]; reflexivity.
Qed.

Lemma settotal_complete_completes s t :
  trig s = false -> aborted s = false ->
  let s' := fst (bapply s (SetTotal t true)) in
  completed s' = true /\ current s' = total s' /\ total s' = (if t <? 0 then current s else t).
Proof.
  intros T A. unf. rewrite T. destruct (auto s); cbn; rewrite A, Z.eqb_refl; auto.
Qed.

Lemma enable_trigger_noop_when_trig s : trig s = true -> bapply s EnableTriggerComplete = (s, ONone).
Proof. intros T. unf. rewrite T. reflexivity. Qed.

Lemma enable_trigger_reached s :
  trig s = false -> aborted s = false -> total s <= current s ->
  let s' := fst (bapply s EnableTriggerComplete) in
  completed s' = true /\ current s' = total s.
Proof.
  intros T A H. unf. rewrite T. destruct (Z.leb_spec (total s) (current s)); [|lia].
  destruct (auto s); cbn; rewrite A, Z.eqb_refl; auto.
Qed.

Lemma enable_trigger_not_reached s :
  trig s = false -> current s < total s ->
  fst (bapply s EnableTriggerComplete) = set_trig s.
Proof.
  intros T H. unf. rewrite T. destruct (Z.leb_spec (total s) (current s)); [lia|reflexivity].
Qed.

Lemma abort_noop_on_completed s d : completed s = true -> bapply s (Abort d) = (s, ONone).
Proof. intros C. unfold bapply. rewrite C, orb_true_r. reflexivity. Qed.

Lemma abort_noop_on_aborted s d : aborted s = true -> bapply s (Abort d) = (s, ONone).
Proof. intros C. unfold bapply. rewrite C. reflexivity. Qed.

Lemma abort_aborts s d :
  aborted s = false -> completed s = false ->
  let s' := fst (bapply s (Abort d)) in
  aborted s' = true /\ rm s' = d /\ current s' = current s /\ total s' = total s.
Proof.
  intros A C. unfold bapply. rewrite A, C. cbn. unf. destruct (auto s); cbn; auto.
Qed.

Lemma refill_capped s a :
  let s' := fst (bapply s (SetRefill a)) in
  refill s' = Z.min a (current s) /\ current s' = current s /\ total s' = total s.
Proof.
  unf. destruct (Z.ltb_spec a (current s)); cbn; repeat split; lia.
Qed.

Lemma getters_pure s o : is_getter o = true -> fst (bapply s o) = s.
Proof. destruct o; cbn; intros H; try discriminate; reflexivity. Qed.

Lemma getter_values s :
  snd (bapply s GetCurrent) = OInt (current s) /\
  snd (bapply s GetCompleted) = OBool (completed s) /\
  snd (bapply s GetAborted) = OBool (aborted s).
Proof. repeat split. Qed.

(* ---------- invariants over every history ---------- *)

(* Inv: for a bar that was not aborted, enabling the trigger caps current at total *)
Definition capped (s : bst) : Prop :=
  trig s = true -> aborted s = false -> current s <= total s.

Lemma capped_init t a r np : capped (binit t a r np).
Proof. unfold capped, binit. cbn. intros H _. apply Z.ltb_lt in H. lia. Qed.

Lemma bapply_trig_mono s o : trig s = true -> trig (fst (bapply s o)) = true.
Proof.
  intros T. destruct o; unf; rewrite ?T; cbn;
  repeat match goal with
  | |- context [if ?c then _ else _] => destruct c; cbn
  end; auto.
Qed.

Lemma bapply_capped s o : capped s -> capped (fst (bapply s o)).
Proof.
  unfold capped. intros I.
  destruct o; unf;
  destruct (trig s) eqn:T; destruct (aborted s) eqn:A; destruct (auto s) eqn:AU; cbn;
  repeat match goal with
  | |- context [Z.leb ?a ?b] => destruct (Z.leb_spec a b); cbn
  | |- context [Z.ltb ?a ?b] => destruct (Z.ltb_spec a b); cbn
  | |- context [Z.eqb ?a ?b] => destruct (Z.eqb_spec a b); cbn
  | |- context [if ?c then _ else _] => destruct c eqn:?; cbn
  end; rewrite ?T, ?A, ?AU; cbn; intros; try discriminate; try lia; try (apply I; auto; fail).
Qed.

Lemma bstep_cases s o s' out :
  bstep s o = Some (s', out) -> s' = s \/ s' = fst (bapply s o).
Proof.
  unfold bstep.
  destruct (exited s); [|destruct (cancelled s)]; try destruct (is_getter o);
    intros E; inversion E; subst; auto;
    rewrite (surjective_pairing (bapply s o)) in *;
    match goal with H : (_, _) = (_, _) |- _ => inversion H; subst end; auto.
Qed.

Lemma bstep_capped s o s' out : bstep s o = Some (s', out) -> capped s -> capped s'.
Proof.
  intros E I. destruct (bstep_cases _ _ _ _ E) as [->| ->]; auto using bapply_capped.
Qed.

Lemma bev_step_capped s e s' : bev_step s e = Some s' -> capped s -> capped s'.
Proof.
  destruct e as [o| | |]; cbn.
  - destruct (bstep s o) as [[s1 out]|] eqn:E; intros H; inversion H; subst.
    eapply bstep_capped; eauto.
  - intros E; inversion E; subst. unfold brender. destruct (terminal s); cbn; auto.
  - intros E; inversion E; subst. auto.
  - destruct (cancelled s && negb (exited s)); intros E; inversion E; subst.
    unfold capped, bexit; cbn [trig aborted current total]. intros _ T A.
    destruct (completed s) eqn:C; [|discriminate A].
    unfold completed in C. apply andb_prop in C as [_ C]. apply andb_prop in C as [_ C].
    apply Z.eqb_eq in C. lia.
Qed.

Theorem capped_all_histories t a r np evs s :
  brun (binit t a r np) evs = Some s -> capped s.
Proof.
  unfold brun. generalize (capped_init t a r np). generalize (binit t a r np).
  induction evs as [|e evs IH]; cbn; intros s0 I H.
  - inversion H; subst; exact I.
  - destruct (bev_step s0 e) as [s1|] eqn:E; [|discriminate].
    eapply IH; [|exact H]. eapply bev_step_capped; eauto.
Qed.

(* A bar created with a non-positive total never completes through
   increments / SetCurrent / SetRefill / getters / renders alone. *)
Definition incr_like (e : bev) : bool :=
  match e with
  | Op (IncrInt64 _) | Op (EwmaIncrInt64 _ _) | Op (SetCurrent _) | Op (EwmaSetCurrent _ _)
  | Op (SetRefill _) | Op GetCurrent | Op GetCompleted | Op GetAborted | Render => true
  | _ => false
  end.

Definition untriggered (t : Z) (s : bst) : Prop :=
  trig s = false /\ aborted s = false /\ total s = t.

Lemma incr_like_bapply t s o :
  incr_like (Op o) = true -> untriggered t s -> untriggered t (fst (bapply s o)).
Proof.
  intros L (T & A & TT). unfold untriggered.
  destruct o; try discriminate; unf; rewrite ?T; cbn;
    repeat match goal with |- context [if ?c then _ else _] => destruct c; cbn end; auto.
Qed.

Lemma incr_like_step t s e s' :
  incr_like e = true -> bev_step s e = Some s' -> untriggered t s -> untriggered t s'.
Proof.
  intros L E U. destruct e as [o| | |]; try discriminate; cbn in E.
  - destruct (bstep s o) as [[s1 out]|] eqn:B; inversion E; subst.
    destruct (bstep_cases _ _ _ _ B) as [->| ->]; auto using incr_like_bapply.
  - inversion E; subst. destruct U as (T & A & TT).
    unfold brender, terminal, completed. rewrite A, T. cbn. repeat split; auto.
Qed.

Theorem nonpositive_total_never_completes_by_incr t a r np evs s :
  t <= 0 -> forallb incr_like evs = true ->
  brun (binit t a r np) evs = Some s ->
  completed s = false /\ trig s = false /\ total s = t.
Proof.
  intros Ht.
  assert (I0 : untriggered t (binit t a r np)).
  { unfold untriggered. cbn. destruct (Z.ltb_spec 0 t); [lia|auto]. }
  revert I0. unfold brun. generalize (binit t a r np).
  induction evs as [|e evs IH]; cbn; intros s0 U L H.
  - inversion H; subst. destruct U as (T & A & TT). unfold completed. rewrite T, A. auto.
  - apply andb_prop in L as [L1 L2].
    destruct (bev_step s0 e) as [s1|] eqn:E; [|discriminate].
    apply (IH s1); auto. eapply incr_like_step; eauto.
Qed.

(* trig never goes back *)
Lemma bev_step_trig_mono s e s' : bev_step s e = Some s' -> trig s = true -> trig s' = true.
Proof.
  destruct e as [o| | |]; cbn.
  - destruct (bstep s o) as [[s1 out]|] eqn:B; intros E T; inversion E; subst.
    destruct (bstep_cases _ _ _ _ B) as [->| ->]; auto using bapply_trig_mono.
  - intros E T; inversion E; subst. unfold brender. destruct (terminal s); cbn; auto.
  - intros E T; inversion E; subst. auto.
  - destruct (cancelled s && negb (exited s)); intros E T; inversion E; subst. auto.
Qed.

(* ---------- C11: terminal states are exclusive and stable ---------- *)

Lemma not_both s : completed s && aborted s = false.
Proof. unfold completed. destruct (aborted s); cbn; auto using andb_false_r. Qed.

Lemma bapply_aborted_mono s o : aborted s = true -> aborted (fst (bapply s o)) = true.
Proof.
  intros A. destruct o; unf; rewrite ?A; cbn;
  repeat match goal with |- context [if ?c then _ else _] => destruct c; cbn end; auto.
Qed.

Lemma aborted_not_completed s : aborted s = true -> completed s = false.
Proof. intros A. unfold completed. rewrite A. reflexivity. Qed.

Lemma aborted_stable_step s e s' :
  bev_step s e = Some s' -> aborted s = true -> aborted s' = true /\ completed s' = false.
Proof.
  intros E A.
  assert (A' : aborted s' = true).
  { destruct e as [o| | |]; cbn in E.
    - destruct (bstep s o) as [[s1 out]|] eqn:B; inversion E; subst.
      destruct (bstep_cases _ _ _ _ B) as [->| ->]; auto using bapply_aborted_mono.
    - inversion E; subst. unfold brender. destruct (terminal s); cbn; auto.
    - inversion E; subst. auto.
    - destruct (cancelled s && negb (exited s)); inversion E; subst.
      unfold bexit; cbn. rewrite (aborted_not_completed s A). reflexivity. }
  split; auto using aborted_not_completed.
Qed.

Theorem aborted_stable s evs s' :
  brun s evs = Some s' -> aborted s = true -> aborted s' = true /\ completed s' = false.
Proof.
  unfold brun. revert s. induction evs as [|e evs IH]; cbn; intros s H A.
  - inversion H; subst. auto using aborted_not_completed.
  - destruct (bev_step s e) as [s1|] eqn:E; [|discriminate].
    apply (IH s1 H). eapply aborted_stable_step; eauto.
Qed.

(* non-decreasing updates: IncrInt64 n with n >= 0 and no int64 overflow,
   SetCurrent with a value >= current (or ignored because negative), and every
   non-counter operation *)
Definition nondecrb (s : bst) (e : bev) : bool :=
  match e with
  | Op (IncrInt64 n) | Op (EwmaIncrInt64 n _) => (0 <=? n) && (current s + n <=? max_i64)
  | Op (SetCurrent c) | Op (EwmaSetCurrent c _) => (c <? 0) || (current s <=? c)
  | _ => true
  end.

Lemma completed_fields s : completed s = true -> aborted s = false /\ trig s = true /\ current s = total s.
Proof.
  unfold completed. intros H. apply andb_prop in H as [A H]. apply andb_prop in H as [T C].
  apply negb_true_iff in A. apply Z.eqb_eq in C. auto.
Qed.

Lemma completed_stable_bapply s o :
  completed s = true -> in_i64 (current s) -> nondecrb s (Op o) = true -> completed (fst (bapply s o)) = true.
Proof.
  intros C R N. destruct (completed_fields s C) as (A & T & CT).
  destruct o; cbn in N; try exact C.
  - (* IncrInt64 *) apply andb_prop in N as [N1 N2]. apply Z.leb_le in N1, N2.
    unf. rewrite wrap64_id by (unfold in_i64, max_i64, min_i64, two63 in *; lia). rewrite T. cbn.
    destruct (Z.leb_spec (total s) (current s + n)); [|lia].
    destruct (auto s); cbn; rewrite A, Z.eqb_refl; reflexivity.
  - (* SetCurrent *) unf. destruct (Z.ltb_spec c 0); cbn; [rewrite A, T, CT, Z.eqb_refl; reflexivity|].
    cbn in N. apply Z.leb_le in N. rewrite T. cbn.
    destruct (Z.leb_spec (total s) c); [|lia].
    destruct (auto s); cbn; rewrite A, Z.eqb_refl; reflexivity.
  - (* EwmaIncrInt64 *) apply andb_prop in N as [N1 N2]. apply Z.leb_le in N1, N2.
    unf. rewrite wrap64_id by (unfold in_i64, max_i64, min_i64, two63 in *; lia). rewrite T. cbn.
    destruct (Z.leb_spec (total s) (current s + n)); [|lia].
    destruct (auto s); cbn; rewrite A, Z.eqb_refl; reflexivity.
  - (* EwmaSetCurrent *) unf. destruct (Z.ltb_spec c 0); cbn; [rewrite A, T, CT, Z.eqb_refl; reflexivity|].
    cbn in N. apply Z.leb_le in N. rewrite T. cbn.
    destruct (Z.leb_spec (total s) c); [|lia].
    destruct (auto s); cbn; rewrite A, Z.eqb_refl; reflexivity.
  - (* SetTotal *) unf. rewrite T. cbn. rewrite A, T, CT, Z.eqb_refl. reflexivity.
  - (* Enable *) unf. rewrite T. cbn. rewrite A, T, CT, Z.eqb_refl. reflexivity.
  - (* Abort *) rewrite (abort_noop_on_completed s drop C). exact C.
Qed.

Lemma completed_stable_step s e s' :
  bev_step s e = Some s' -> completed s = true -> in_i64 (current s) -> nondecrb s e = true ->
  completed s' = true /\ current s' = current s.
Proof.
  intros E C R N. destruct (completed_fields s C) as (A & T & CT).
  destruct e as [o| | |]; cbn in E.
  - destruct (bstep s o) as [[s1 out]|] eqn:B; inversion E; subst.
    destruct (bstep_cases _ _ _ _ B) as [->| ->]; [auto|].
    pose proof (completed_stable_bapply s o C R N) as C'. split; [exact C'|].
    destruct (completed_fields _ C') as (_ & _ & CT'). rewrite CT'.
    (* total is unchanged once triggered *)
    assert (TT : total (fst (bapply s o)) = total s).
    { destruct o; unf; rewrite ?T; cbn;
      repeat match goal with |- context [if ?c then _ else _] => destruct c; cbn end; auto. }
    lia.
  - inversion E; subst. unfold brender. destruct (terminal s); cbn; split; auto.
  - inversion E; subst. split; auto.
  - destruct (cancelled s && negb (exited s)); inversion E; subst.
    unfold bexit; cbn [current]. split; [|reflexivity].
    unfold completed; cbn [aborted trig current total]. fold (completed s).
    rewrite C, T, CT, Z.eqb_refl. reflexivity.
Qed.

(* every event of the history is a non-decreasing update in the state it meets *)
Fixpoint all_nondecr (s : bst) (evs : list bev) : bool :=
  match evs with
  | [] => true
  | e :: es => nondecrb s e && match bev_step s e with Some s' => all_nondecr s' es | None => true end
  end.

Theorem completed_stable s evs s' :
  brun s evs = Some s' -> completed s = true -> in_i64 (current s) -> all_nondecr s evs = true ->
  completed s' = true.
Proof.
  unfold brun. revert s. induction evs as [|e evs IH]; cbn; intros s H C R N.
  - inversion H; subst; exact C.
  - apply andb_prop in N as [N1 N2].
    destruct (bev_step s e) as [s1|] eqn:E; [|discriminate].
    destruct (completed_stable_step s e s1 E C R N1) as [C1 K1].
    apply (IH s1 H C1); [rewrite K1; exact R|exact N2].
Qed.

(* after the actor's exit exactly one of the two holds, and nothing changes any more *)
Lemma exactly_one_after_exit s s' :
  bev_step s Exit = Some s' -> xorb (completed s') (aborted s') = true /\ exited s' = true.
Proof.
  cbn. destruct (cancelled s && negb (exited s)); intros E; inversion E; subst.
  unfold bexit, completed; cbn. destruct (aborted s); cbn; [auto|].
  destruct (trig s && (current s =? total s)); cbn; auto.
Qed.

Lemma exited_frozen s e s' :
  exited s = true -> bev_step s e = Some s' -> exited s' = true /\ obs s' = obs s.
Proof.
  intros X E. destruct e as [o| | |]; cbn in E.
  - unfold bstep in E. rewrite X in E. destruct (is_getter o) eqn:G.
    + rewrite (surjective_pairing (bapply s o)) in E. inversion E; subst.
      rewrite (getters_pure s o G). auto.
    + inversion E; subst. auto.
  - inversion E; subst. unfold brender. destruct (terminal s); cbn; auto.
  - inversion E; subst. auto.
  - rewrite X in E. rewrite andb_false_r in E. discriminate.
Qed.

Theorem exactly_one_after_wait s s1 evs s2 :
  bev_step s Exit = Some s1 -> brun s1 evs = Some s2 ->
  xorb (completed s2) (aborted s2) = true /\ obs s2 = obs s1.
Proof.
  intros E H. destruct (exactly_one_after_exit s s1 E) as [X1 X2].
  assert (G : exited s2 = true /\ obs s2 = obs s1).
  { clear E X1. revert s1 X2 H. unfold brun. induction evs as [|e evs IH]; cbn; intros s1 X2 H.
    - inversion H; subst; auto.
    - destruct (bev_step s1 e) as [s3|] eqn:E3; [|discriminate].
      destruct (exited_frozen s1 e s3 X2 E3) as [X3 O3].
      destruct (IH s3 X3 H) as [X4 O4]. split; [exact X4|congruence]. }
  destruct G as [_ O]. split; [|exact O].
  unfold obs in O. inversion O as [[Hc Hk Ha]]. rewrite Hk, Ha. exact X1.
Qed.

(* a bar ended only by cancellation is reported aborted; a completed one stays completed *)
Lemma cancelled_is_aborted s s' :
  bev_step s Exit = Some s' -> completed s = false -> aborted s' = true /\ completed s' = false.
Proof.
  cbn [bev_step]. destruct (cancelled s && negb (exited s)); intros E C; inversion E; subst.
  unfold bexit; cbn [aborted]. rewrite C. split; [reflexivity|].
  unfold completed; cbn [aborted]. reflexivity.
Qed.

Lemma completed_survives_exit s s' :
  bev_step s Exit = Some s' -> completed s = true -> completed s' = true /\ aborted s' = false.
Proof.
  cbn [bev_step]. destruct (cancelled s && negb (exited s)); intros E C; inversion E; subst.
  destruct (completed_fields s C) as (A & T & CT).
  unfold bexit; cbn [aborted]. rewrite C. split; [|reflexivity].
  unfold completed; cbn [aborted trig current total].
  rewrite T, CT, Z.eqb_refl. reflexivity.
Qed.

(* the actor exits once: after its exit no second exit (and so no second round of
   shutdown notifications) is possible, whatever happens in between *)
Theorem exit_once s s1 evs s2 :
  bev_step s Exit = Some s1 -> brun s1 evs = Some s2 -> bev_step s2 Exit = None.
Proof.
  intros E H. destruct (exactly_one_after_exit s s1 E) as [_ X1].
  assert (G : exited s2 = true).
  { clear E. revert s1 X1 H. unfold brun. induction evs as [|e evs IH]; cbn; intros s1 X1 H.
    - inversion H; subst; auto.
    - destruct (bev_step s1 e) as [s3|] eqn:E3; [|discriminate].
      destruct (exited_frozen s1 e s3 X1 E3) as [X3 _]. eapply IH; eauto. }
  cbn. rewrite G, andb_false_r. reflexivity.
Qed.

(* ---------- the drop flag ---------- *)
Lemma rm_trigger s : rm (trigger s) = rm s.
Proof. unfold trigger. destruct (auto (set_trig s)); reflexivity. Qed.
Lemma rm_clamp s : rm (clamp s) = rm s.
Proof. unfold clamp. destruct (trig s && (total s <=? current s)); [rewrite rm_trigger|]; reflexivity. Qed.

(* the drop flag belongs to the Abort that takes effect: no other operation touches it, and on a bar that is already completed
   or aborted no operation does — whether a finished bar stays in the last frame and in the notifier's list was decided when
   it finished *)
Lemma rm_changes_only_by_effective_abort s o :
  rm (fst (bapply s o)) <> rm s ->
  exists d, o = Abort d /\ aborted s = false /\ completed s = false /\ rm (fst (bapply s o)) = d.
Proof.
  destruct o; cbn [bapply].
  - cbn [fst]. rewrite rm_clamp. cbn. congruence.
  - destruct (c <? 0); cbn [fst]; rewrite ?rm_clamp; cbn; congruence.
  - cbn [fst]. rewrite rm_clamp. cbn. congruence.
  - destruct (c <? 0); cbn [fst]; rewrite ?rm_clamp; cbn; congruence.
  - (* SetTotal *) destruct (trig s); cbn [fst]; [congruence|]. destruct complete; cbn [fst]; rewrite ?rm_trigger; cbn; congruence.
  - (* Enable *) destruct (trig s); cbn [fst]; [congruence|]. destruct (total s <=? current s); cbn [fst]; rewrite ?rm_trigger; cbn; congruence.
  - (* SetRefill *) cbn. congruence.
  - (* Abort *) destruct (aborted s) eqn:A; cbn [orb fst]; [congruence|]. destruct (completed s) eqn:C; cbn [fst]; [congruence|].
    intros _. exists drop. rewrite rm_trigger. cbn. auto.
  - cbn. congruence.
  - cbn. congruence.
  - cbn. congruence.
Qed.

Lemma rm_stable_once_finished s o : terminal s = true -> rm (fst (bapply s o)) = rm s.
Proof.
  intros T. destruct (Bool.bool_dec (rm (fst (bapply s o))) (rm s)) as [E|N]; [exact E|].
  destruct (rm_changes_only_by_effective_abort s o N) as (d & _ & A & C & _).
  unfold terminal in T. rewrite A, C in T. discriminate.
Qed.
