(* ContainerFlush.v — what flush does with each bar it receives (progress.go flush):
   promotion of a queued successor (C17), pop-completed bookkeeping (C18), the rows a
   frame carries and when a bar is cancelled (C03).  Everything is over Container.step. *)
From Coq Require Import Permutation.
From MPB Require Import Base BaseProofs BarState BarStateProofs Container ContainerProofs.

(* ---------- the shape of an accepted, error-free flush of one bar ---------- *)
Record flush_pre (s : cst) (b sh : Z) (r : brec) (fi : frame_info)
                 (wd ht : Z) (rows : list item) (n pc : Z) (pushes : list (Z * bool)) : Prop := {
  fp_ph : ph s = Rendering wd ht rows n pc pushes;
  fp_bar : lookup b (bars s) = Some r;
  fp_frame : br_frame r = Some fi;
  fp_head : exists rest, popped s = b :: rest;
  fp_sh : fi_shutdown fi = sh
}.

Lemma flush_shape s b sh nrows rmf np s' :
  step s (CT_FLUSHBAR b sh nrows rmf np false) = Some s' -> cycle_err s = false ->
  exists r fi wd ht rows n pc pushes, flush_pre s b sh r fi wd ht rows n pc pushes /\
     fi_rm fi = rmf /\ fi_nopop fi = np.
Proof.
  intros H C. unfold step in H.
  destruct (ph s) as [|wd ht rows n pc pushes|] eqn:P; try discriminate.
  destruct (lookup b (bars s)) as [r|] eqn:L; [|discriminate].
  destruct (br_frame r) as [fi|] eqn:F; [|discriminate].
  destruct (popped s) as [|p0 rest] eqn:Pp; cbn [negb] in H; [discriminate|].
  destruct (Z.eqb_spec b p0); cbn [negb] in H; [|discriminate]. subst p0.
  rewrite C in H.
  destruct ((fi_shutdown fi =? sh) && Bool.eqb (fi_rm fi) rmf && Bool.eqb (fi_nopop fi) np && (nrows =? 1 + br_xrows r)) eqn:G;
    cbn [negb] in H; [|discriminate].
  apply andb_prop in G as [G _]. apply andb_prop in G as [G G3]. apply andb_prop in G as [G1 G2].
  apply Z.eqb_eq in G1. apply Bool.eqb_prop in G2. apply Bool.eqb_prop in G3.
  exists r, fi, wd, ht, rows, n, pc, pushes. split; [|auto].
  constructor; eauto.
Qed.

(* one tactic to open an accepted flush completely *)
Ltac open_flush H C :=
  let P := fresh "P" in let L := fresh "L" in let F := fresh "F" in let Pp := fresh "Pp" in let G := fresh "G" in
  unfold step in H;
  destruct (ph _) as [|wd ht rows n pc pushes|] eqn:P; try discriminate H;
  destruct (lookup _ (bars _)) as [r|] eqn:L; [|discriminate H];
  destruct (br_frame r) as [fi|] eqn:F; [|discriminate H];
  destruct (popped _) as [|p0 rest] eqn:Pp; cbn [negb] in H; [discriminate H|];
  match type of H with context [?bb =? p0] => destruct (Z.eqb_spec bb p0) end; cbn [negb] in H; [|discriminate H]; subst p0;
  rewrite C in H;
  destruct (_ && _ && _ && _) eqn:G; cbn [negb] in H; [|discriminate H];
  destruct (flush_take _ _ _ _) as [taken used] eqn:T.

(* ---------- C17 ---------- *)
Lemma successors_In b q x : In x (successors b q) <-> In (b, x) q.
Proof.
  induction q as [|[k v] q IH]; cbn [successors In]; [tauto|].
  destruct (Z.eqb_spec b k) as [->|N].
  - cbn [In]. rewrite IH. split; [intros [->|I]; auto|intros [E|I]; [inversion E; auto|auto]].
  - rewrite IH. split; [auto|intros [E|I]; [inversion E; congruence|auto]].
Qed.

Lemma successors_remove_key b q : successors b (remove_key b q) = [].
Proof.
  induction q as [|[k v] q IH]; cbn [remove_key]; [reflexivity|].
  destruct (Z.eqb_spec b k); [exact IH|]. cbn [successors]. destruct (Z.eqb_spec b k); [contradiction|exact IH].
Qed.

Lemma In_remove_key a b x (q : list (Z * Z)) : a <> b -> In (a, x) q -> In (a, x) (remove_key b q).
Proof.
  intros N. induction q as [|[k v] q IH]; cbn [remove_key In]; [auto|].
  destruct (Z.eqb_spec b k) as [->|Nk]; intros [E|I]; auto.
  - inversion E; congruence.
  - left; exact E.
  - right; auto.
Qed.

Lemma In_remove_key_inv a b x (q : list (Z * Z)) : In (a, x) (remove_key b q) -> In (a, x) q /\ a <> b.
Proof.
  induction q as [|[k v] q IH]; cbn [remove_key In]; [tauto|].
  destruct (Z.eqb_spec b k) as [->|Nk].
  - intros I. destruct (IH I). auto.
  - intros [E|I]; [inversion E; subst; split; [left; reflexivity|congruence]|destruct (IH I); auto].
Qed.

Lemma promote_bars_in qb p qbs : forall bs, In qb qbs -> lookup qb bs <> None ->
  exists r, lookup qb (promote_bars bs qbs p) = Some r /\ br_prio r = p.
Proof.
  induction qbs as [|q qbs IH]; intros bs I L; [destruct I|]. cbn [promote_bars].
  destruct (in_dec Z.eq_dec qb qbs) as [I'|N].
  - apply IH; [exact I'|]. destruct (lookup q bs); [apply lookup_update_known; exact L|exact L].
  - destruct I as [->|I]; [|contradiction]. rewrite promote_bars_other by exact N.
    destruct (lookup qb bs) as [r|] eqn:E; [|congruence]. rewrite lookup_update_same. eexists; split; reflexivity.
Qed.

(* release: at the flush of the predecessor's second terminal frame (shutdown = 1) EVERY bar parked behind it inherits
   its priority and is pushed (with sync), in the order they were parked; the predecessor leaves for good and is
   recorded as released with the priority it had *)
Theorem flush_releases_all pm am dm evs s b nrows rmf np s' :
  run (init_cst pm am dm) evs = Some s ->
  step s (CT_FLUSHBAR b 1 nrows rmf np false) = Some s' -> cycle_err s = false ->
  let qbs := successors b (queue s) in
  (qbs <> [] ->
     (exists wd ht rows n pc pushes rows' n',
        ph s = Rendering wd ht rows n pc pushes /\
        ph s' = Rendering wd ht rows' n' pc (pushes ++ map (fun qb => (qb, true)) qbs)) /\
     In b (retired s')) /\
  (forall qb, In qb qbs -> prio_of s' qb = prio_of s b) /\
  successors b (queue s') = [] /\
  lookup b (released s') = Some (prio_of s b).
Proof.
  intros R H C qbs. pose proof (reachable_Inv _ _ _ _ _ R) as Iv.
  assert (Kq : forall qb, In qb qbs -> lookup qb (bars s) <> None /\ qb <> b).
  { intros qb I. pose proof (In_successors _ _ _ I) as Iq. split.
    - apply (inv_known _ Iv). unfold places. do 4 (apply in_or_app; right). apply in_or_app; left. exact Iq.
    - intros ->. pose proof (inv_uniq _ Iv b) as U. rewrite places_cnt in U.
      apply cnt_In in Iq. unfold step in H. destruct (ph s); try discriminate. destruct (lookup b (bars s)); [|discriminate].
      destruct (br_frame b0); [|discriminate]. destruct (popped s) as [|p1 rest]; [discriminate|].
      destruct (Z.eqb_spec b p1); [|discriminate]. subst. cbn [cnt] in U. rewrite Z.eqb_refl in U. lia. }
  open_flush H C. cbn [Z.eqb Pos.eqb] in H. simp_state. fold qbs in H.
  assert (Pb : prio_of s b = br_prio r) by (unfold prio_of; rewrite L; reflexivity).
  destruct qbs as [|q0 qr] eqn:Eq.
  - repeat split; try congruence; try (intros ? []).
    + destruct (pop_mode s && negb np); [|destruct (negb rmf)]; inversion H; subst; simp_state; exact Eq.
    + destruct (pop_mode s && negb np); [|destruct (negb rmf)]; inversion H; subst; simp_state;
        cbn [lookup]; rewrite Z.eqb_refl, Pb; reflexivity.
  - inversion H; subst; clear H. simp_state. repeat split.
    + do 8 eexists. split; reflexivity.
    + left; reflexivity.
    + intros qb I. destruct (Kq qb I) as [Lq Nb]. unfold prio_of. simp_state.
      match goal with |- context [promote_bars ?bs0 _ _] =>
        destruct (promote_bars_in qb (br_prio r) (q0 :: qr) bs0 I) as (r' & -> & ->); [apply lookup_update_known; exact Lq|] end.
      rewrite L. reflexivity.
    + apply successors_remove_key.
    + cbn [lookup]. rewrite Z.eqb_refl, Pb. reflexivity.
Qed.

(* a parked bar stays parked behind its predecessor until the flush of that predecessor's second terminal frame; no
   Add disturbs it *)
Theorem queue_stable s e s' a x :
  step s e = Some s' -> In (a, x) (queue s) ->
  In (a, x) (queue s') \/ (exists nrows rmf np, e = CT_FLUSHBAR a 1 nrows rmf np false).
Proof.
  intros H Q.
  destruct e; try (left; break_step H; use_fifo_pop; simp_state; try assumption;
                   repeat match goal with |- context [if ?c then _ else _] => destruct c end; simp_state; assumption).
  - (* CT_ADD *)
    left. break_step H; simp_state; try assumption. apply in_or_app; left; assumption.
  - (* CT_FLUSHBAR *)
    destruct (Z.eq_dec b a) as [->|N].
    + destruct err.
      * left. break_step H; simp_state; try assumption;
          repeat match goal with |- context [if ?c then _ else _] => destruct c end; simp_state; assumption.
      * destruct (Z.eq_dec shutdown 1) as [->|N1]; [right; eauto|].
        left. break_step H; simp_state; try assumption;
          repeat match goal with |- context [if ?c then _ else _] => destruct c end; simp_state; try assumption.
        all: match goal with E : (_ =? 1) = true |- _ => apply Z.eqb_eq in E; contradiction end.
    + left. break_step H; simp_state; try assumption;
        repeat match goal with |- context [if ?c then _ else _] => destruct c end; simp_state; try assumption.
      all: apply In_remove_key; [congruence|assumption].
Qed.

(* a parked successor is nowhere it could be drawn from *)
Theorem successor_hidden p a d evs s pre x :
  run (init_cst p a d) evs = Some s -> In (pre, x) (queue s) ->
  ~ In x (heap s) /\ ~ In x (popped s) /\ ~ In x (fifo_pushes (fifo s)) /\ ~ In x (ph_pushes (ph s)) /\ ~ In x (retired s).
Proof.
  intros R Q. pose proof (reachable_Inv _ _ _ _ _ R) as I. pose proof (inv_uniq _ I x) as U.
  rewrite places_cnt in U.
  assert (Hq : In x (map snd (queue s))) by (apply (in_map snd) in Q; exact Q).
  apply cnt_In in Hq. repeat split; intros Hin; apply cnt_In in Hin; lia.
Qed.

(* bars that left for good stay gone, and are never handed to flush again *)
Lemma retired_mono s e s' x : step s e = Some s' -> In x (retired s) -> In x (retired s').
Proof.
  intros H I. destruct e; break_step H; use_fifo_pop; simp_state; try assumption;
    repeat match goal with |- context [if ?c then _ else _] => destruct c end; simp_state; try assumption; try (right; assumption).
Qed.

Theorem retired_never_flushed p a d evs s b sh nrows rmf np err :
  run (init_cst p a d) evs = Some s -> In b (retired s) -> step s (CT_FLUSHBAR b sh nrows rmf np err) = None.
Proof.
  intros R I. pose proof (reachable_Inv _ _ _ _ _ R) as Iv. pose proof (inv_uniq _ Iv b) as U.
  rewrite places_cnt in U. apply cnt_In in I.
  unfold step. destruct (ph s); try reflexivity. destruct (lookup b (bars s)); [|reflexivity].
  destruct (br_frame b0); [|reflexivity]. destruct (popped s) as [|p0 rest]; [reflexivity|].
  destruct (Z.eqb_spec b p0); [|reflexivity]. subst. cbn in U. rewrite Z.eqb_refl in U. lia.
Qed.

(* ---------- C18 ---------- *)
(* pop-completed mode: the bar's second terminal frame gives it the next pop priority and
   puts it back; nothing is counted as popped yet *)
Theorem flush_pop_assign s b nrows rmf s' :
  step s (CT_FLUSHBAR b 1 nrows rmf false false) = Some s' -> cycle_err s = false ->
  successors b (queue s) = [] -> pop_mode s = true ->
  prio_of s' b = pop_prio s /\ pop_prio s' = pop_prio s + 1 /\
  (exists wd ht rows n pc pushes rows' n',
      ph s = Rendering wd ht rows n pc pushes /\ ph s' = Rendering wd ht rows' n' pc (pushes ++ [(b, false)])) /\
  retired s' = retired s.
Proof.
  intros H C Q M. open_flush H C. cbn [Z.eqb Pos.eqb] in H. simp_state. rewrite Q, M in H. cbn [negb andb] in H.
  inversion H; subst; clear H. simp_state. repeat split.
  - unfold prio_of. simp_state. rewrite lookup_update_same. reflexivity.
  - do 8 eexists. split; reflexivity.
Qed.

(* its third terminal frame is its last: the rows are counted as popped, the bar is not
   pushed back and leaves for good *)
Theorem flush_pop_retire s b nrows rmf s' :
  step s (CT_FLUSHBAR b 2 nrows rmf false false) = Some s' -> cycle_err s = false -> pop_mode s = true ->
  In b (retired s') /\
  (exists wd ht rows n pc pushes taken used,
      ph s = Rendering wd ht rows n pc pushes /\ ph s' = Rendering wd ht (rows ++ taken) (n + used) (pc + used) pushes) /\
  pop_prio s' = pop_prio s.
Proof.
  intros H C M. open_flush H C. cbn [Z.eqb Pos.eqb] in H. simp_state. rewrite M in H. cbn [negb andb] in H.
  inversion H; subst; clear H. simp_state. repeat split.
  - left; reflexivity.
  - do 8 eexists. split; reflexivity.
Qed.

(* a no-pop bar that is not removed on completion keeps its priority and goes back, whatever the frame *)
Theorem flush_nopop_stays s b sh nrows s' :
  step s (CT_FLUSHBAR b sh nrows false true false) = Some s' -> cycle_err s = false -> successors b (queue s) = [] ->
  prio_of s' b = prio_of s b /\ retired s' = retired s /\ pop_prio s' = pop_prio s /\
  (exists wd ht rows n pc pushes rows' n',
      ph s = Rendering wd ht rows n pc pushes /\ ph s' = Rendering wd ht rows' n' pc (pushes ++ [(b, false)])).
Proof.
  intros H C Q. open_flush H C. simp_state. rewrite Q in H. rewrite !andb_false_r in H. cbn [negb andb] in H.
  assert (Pr : forall r', br_prio r' = br_prio r -> prio_of (upd_bar (cs_cycle_flushed (cs_popped s rest) (cycle_flushed s ++ [b])) b r') b = prio_of s b).
  { intros r' E. unfold prio_of. simp_state. rewrite lookup_update_same, L. exact E. }
  destruct (sh =? 1); inversion H; subst; clear H; simp_state; (split; [apply Pr; reflexivity|]); repeat split;
    do 8 eexists; split; reflexivity.
Qed.

(* the pop priority only grows: bars popped later sit below bars popped earlier *)
Lemma pop_prio_mono s e s' : step s e = Some s' -> pop_prio s <= pop_prio s'.
Proof.
  intros H. destruct e; break_step H; use_fifo_pop; simp_state; try lia;
    repeat match goal with |- context [if ?c then _ else _] => destruct c end; simp_state; lia.
Qed.

Theorem pop_prio_monotone s evs s' : run s evs = Some s' -> pop_prio s <= pop_prio s'.
Proof.
  revert s. induction evs as [|e evs IH]; intros s; unfold run; cbn.
  - intros E; inversion E; subst. lia.
  - destruct (step s e) as [s1|] eqn:E; [|discriminate]. intros R.
    pose proof (pop_prio_mono _ _ _ E). pose proof (IH s1 R). lia.
Qed.

(* ---------- C03 ---------- *)
(* a frame row carries the snapshot the render closure took: current, total and the
   completed / aborted flags of that moment *)
Theorem render_snapshots r cur tot ref ab comp sh r' :
  bar_render r cur tot ref ab comp sh = Some r' ->
  exists fi, br_frame r' = Some fi /\
    fi_cur fi = current (br_st r) /\ fi_total fi = total (br_st r) /\
    fi_completed fi = completed (br_st r) /\ fi_aborted fi = aborted (br_st r) /\
    (terminal (br_st r) = true -> fi_shutdown fi = shutdown (br_st r) /\ shutdown (br_st r') = shutdown (br_st r) + 1) /\
    (terminal (br_st r) = false -> br_st r' = br_st r).
Proof.
  unfold bar_render. destruct (_ && _) eqn:G; [|discriminate].
  repeat (apply andb_prop in G as [G ?]).
  repeat match goal with Hq : (_ =? _) = true |- _ => apply Z.eqb_eq in Hq | Hq : Bool.eqb _ _ = true |- _ => apply Bool.eqb_prop in Hq end.
  apply Z.eqb_eq in G. unfold brender. destruct (terminal (br_st r)) eqn:T; intros E; inversion E; subst; cbn;
    eexists; (split; [reflexivity|]); cbn; repeat split; try congruence; try discriminate; try (symmetry; assumption); try (symmetry; apply Z.eqb_eq; assumption).
Qed.

(* the rows flush takes from a bar are rows of that bar's frame *)
Lemma take_rows_sub l : forall held ht taken used, take_rows l held ht = (taken, used) ->
  (forall x, In x taken -> In x l) /\ used = Z.of_nat (length taken) /\ (0 <= ht -> held <= ht -> held + used <= ht).
Proof.
  induction l as [|x l IH]; intros held ht taken used; cbn [take_rows].
  - intros E; inversion E; subst. cbn. repeat split; [tauto|lia].
  - destruct (Z.ltb_spec held ht).
    + destruct (take_rows l (held + 1) ht) as [l1 n1] eqn:E1. intros E; inversion E; subst.
      destruct (IH _ _ _ _ E1) as (A & B & C). repeat split.
      * intros y [->|Hy]; [left; reflexivity|right; auto].
      * cbn [length]. lia.
      * intros. assert (held + 1 + n1 <= ht) by (apply C; lia). lia.
    + intros E. destruct (IH _ _ _ _ E) as (A & B & C). repeat split; auto. intros y Hy; right; auto.
Qed.

Lemma flush_take_sub po l held ht taken used : flush_take po l held ht = (taken, used) ->
  (forall x, In x taken -> In x l) /\ used = Z.of_nat (length taken) /\
  (po = true -> taken = l) /\ (po = false -> 0 <= ht -> held <= ht -> held + used <= ht).
Proof.
  unfold flush_take. destruct po.
  - intros E; inversion E; subst. repeat split; auto; discriminate.
  - intros E. destruct (take_rows_sub _ _ _ _ _ E) as (A & B & C). repeat split; auto; discriminate.
Qed.

Theorem flush_rows s b sh nrows rmf np s' :
  step s (CT_FLUSHBAR b sh nrows rmf np false) = Some s' -> cycle_err s = false ->
  exists r fi wd ht rows n pc pushes taken pc' pushes',
    ph s = Rendering wd ht rows n pc pushes /\ lookup b (bars s) = Some r /\ br_frame r = Some fi /\
    ph s' = Rendering wd ht (rows ++ taken) (n + Z.of_nat (length taken)) pc' pushes' /\
    (forall x, In x taken -> In x (bar_rows b r fi)).
Proof.
  intros H C. open_flush H C. simp_state.
  destruct (flush_take_sub _ _ _ _ _ _ T) as (Sub & U & _). subst used.
  assert (Sub' : forall x, In x taken -> In x (bar_rows b r fi)) by (intros x Hx; apply in_rev; auto).
  repeat match type of H with
  | context [match ?x with _ => _ end] => destruct x eqn:?
  end; try discriminate; inversion H; subst; clear H; simp_state;
  do 11 eexists; (split; [reflexivity|]); (split; [reflexivity|]); (split; [eassumption|]); (split; [reflexivity|exact Sub']).
Qed.

(* flush cancels a bar only when it receives the bar's second terminal frame (shutdown = 1):
   the frame before it already showed the bar in its terminal state *)
Theorem flush_cancels_after_terminal_frame s b sh nrows rmf np s' r1 r1' :
  step s (CT_FLUSHBAR b sh nrows rmf np false) = Some s' -> cycle_err s = false ->
  lookup b (bars s) = Some r1 -> lookup b (bars s') = Some r1' ->
  BarState.cancelled (br_st r1') = true -> BarState.cancelled (br_st r1) = true \/ sh = 1.
Proof.
  intros H C Lr Lr' K. destruct (Z.eq_dec sh 1) as [|N]; [right; assumption|left].
  open_flush H C. simp_state. rewrite Lr in L. inversion L; subst; clear L.
  destruct (Z.eqb_spec sh 1); [contradiction|].
  destruct ((sh =? 2) && pop_mode s && negb np); inversion H; subst; clear H; simp_state;
    rewrite lookup_update_same in Lr'; inversion Lr'; subst; inversion Lr; subst; exact K.
Qed.

(* ---------- a bar queued after a bar that has already been released ---------- *)
Lemma run_snoc s0 evs s e s1 : run s0 evs = Some s -> step s e = Some s1 -> run s0 (evs ++ [e]) = Some s1.
Proof. unfold run. intros R E. rewrite fold_left_opt_app, R. cbn. rewrite E. reflexivity. Qed.

(* nobody is parked behind a released bar: every parked bar still has the release of its predecessor ahead of it *)
Definition Parked (s : cst) : Prop := forall a x, In (a, x) (queue s) -> lookup a (released s) = None.

Lemma step_Parked s e s' : step s e = Some s' -> Parked s -> Parked s'.
Proof.
  intros H P a x.
  destruct e; try (break_step H; use_fifo_pop; simp_state; try (apply P; fail);
                   repeat match goal with |- context [if ?c then _ else _] => destruct c end; simp_state; apply P).
  - (* CT_ADD *)
    break_step H; simp_state; try apply P.
    intros I. apply in_app_or in I as [I|[E|[]]]; [apply P in I; exact I|]. inversion E; subst. assumption.
  - (* CT_FLUSHBAR *)
    break_step H; simp_state; try apply P;
      repeat match goal with |- context [if ?c then _ else _] => destruct c end; simp_state; try apply P.
    all: intros I; cbn [lookup]; destruct (Z.eqb_spec a b) as [->|N].
    all: try (apply In_remove_key_inv in I; destruct I as [I Nb]; try congruence).
    all: try (apply (P a x); exact I).
    all: match goal with E : successors ?bb (queue ?ss) = [], I : In (?bb, ?xx) (queue ?ss) |- _ =>
           apply (proj2 (successors_In bb (queue ss) xx)) in I; rewrite E in I; destruct I end.
Qed.

Theorem parked_behind_unreleased p a d evs s pre x :
  run (init_cst p a d) evs = Some s -> In (pre, x) (queue s) -> lookup pre (released s) = None.
Proof.
  unfold run. assert (P0 : Parked (init_cst p a d)) by (intros ? ? []). revert P0. generalize (init_cst p a d).
  induction evs as [|e evs IH]; cbn; intros s0 P0 H.
  - inversion H; subst. apply P0.
  - destruct (step s0 e) as [s1|] eqn:E; [|discriminate]. apply (IH s1); [eapply step_Parked; eauto|exact H].
Qed.

(* a bar queued after a released bar is not parked: its push request (with sync) is sent by the same closure, and it takes
   the priority the predecessor had when it was released; the bars already parked are not disturbed *)
Theorem late_successor_pushed_at_once s b id prio tot ex a rmf np tr xr xv pa s' :
  step s (CT_ADD b id prio tot ex (Some a) rmf np tr xr xv) = Some s' -> lookup a (released s) = Some pa ->
  replace_last_op (fifo s) [QPush b true] = Some (fifo s') /\ prio_of s' b = pa /\ queue s' = queue s /\
  released s' = released s.
Proof.
  intros H Lr. break_step H; simp_state; try congruence.
  match goal with E : lookup a (released s) = Some ?z |- _ =>
    tryif constr_eq z pa then fail else (assert (z = pa) by congruence; subst z) end.
  repeat split; try assumption. unfold prio_of. simp_state. rewrite lookup_update_same. reflexivity.
Qed.

(* ... and a bar queued after a bar that is not released yet is parked after the bars already parked there *)
Theorem early_successor_parked s b id prio tot ex a rmf np tr xr xv s' :
  step s (CT_ADD b id prio tot ex (Some a) rmf np tr xr xv) = Some s' -> lookup a (released s) = None ->
  queue s' = queue s ++ [(a, b)] /\ replace_last_op (fifo s) [] = Some (fifo s') /\ heap s' = heap s.
Proof.
  intros H Lr. break_step H; simp_state; try congruence. auto.
Qed.

(* a release is recorded once and for all: only another flush of the same bar's second terminal frame could change it *)
Theorem released_stable s e s' a pa :
  step s e = Some s' -> lookup a (released s) = Some pa ->
  lookup a (released s') = Some pa \/ (exists nrows rmf np, e = CT_FLUSHBAR a 1 nrows rmf np false).
Proof.
  intros H Q.
  destruct e; try (left; break_step H; use_fifo_pop; simp_state; try assumption;
                   repeat match goal with |- context [if ?c then _ else _] => destruct c end; simp_state; assumption).
  destruct (Z.eq_dec b a) as [->|N].
  - destruct err.
    + left. break_step H; simp_state; try assumption;
        repeat match goal with |- context [if ?c then _ else _] => destruct c end; simp_state; assumption.
    + destruct (Z.eq_dec shutdown 1) as [->|N1]; [right; eauto|].
      left. break_step H; simp_state; try assumption;
        repeat match goal with |- context [if ?c then _ else _] => destruct c end; simp_state; try assumption.
      all: match goal with E : (_ =? 1) = true |- _ => apply Z.eqb_eq in E; contradiction end.
  - left. break_step H; simp_state; try assumption;
      repeat match goal with |- context [if ?c then _ else _] => destruct c end; simp_state; try assumption.
    all: cbn [lookup]; destruct (Z.eqb_spec a b); [congruence|assumption].
Qed.

(* pop mode: the hand-over record made when a bar gets its pop priority holds the priority it had before *)
Theorem flush_pop_handover pm am dm evs s b nrows rmf s' :
  run (init_cst pm am dm) evs = Some s ->
  step s (CT_FLUSHBAR b 1 nrows rmf false false) = Some s' -> cycle_err s = false ->
  successors b (queue s) = [] -> pop_mode s = true ->
  lookup b (released s') = Some (prio_of s b) /\ prio_of s' b = pop_prio s.
Proof.
  intros R H C Q M. split.
  - exact (proj2 (proj2 (proj2 (flush_releases_all pm am dm evs s b nrows rmf false s' R H C)))).
  - exact (proj1 (flush_pop_assign s b nrows rmf s' H C Q M)).
Qed.

(* the frame in which a bar is popped out holds ALL the rows of that bar, whatever the height: they are what stays on screen *)
Theorem flush_popout_keeps_all_rows s b nrows rmf s' :
  step s (CT_FLUSHBAR b 2 nrows rmf false false) = Some s' -> cycle_err s = false -> pop_mode s = true ->
  exists r fi wd ht rows n pc pushes,
    lookup b (bars s) = Some r /\ br_frame r = Some fi /\
    ph s = Rendering wd ht rows n pc pushes /\
    ph s' = Rendering wd ht (rows ++ List.rev (bar_rows b r fi)) (n + Z.of_nat (length (bar_rows b r fi)))
                      (pc + Z.of_nat (length (bar_rows b r fi))) pushes.
Proof.
  intros H C M. unfold step in H.
  destruct (ph s) as [|wd ht rows n pc pushes|] eqn:P; try discriminate H.
  destruct (lookup b (bars s)) as [r|] eqn:L; [|discriminate H].
  destruct (br_frame r) as [fi|] eqn:F; [|discriminate H].
  destruct (negb _); [discriminate H|]. rewrite C in H.
  destruct (negb _); [discriminate H|].
  simp_state. rewrite M in H. cbn [Z.eqb Pos.eqb andb negb flush_take] in H. rewrite rev_length in H.
  inversion H; subst; clear H. simp_state. exists r, fi. do 6 eexists. repeat split; try reflexivity; assumption.
Qed.
