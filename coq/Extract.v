(* Extraction of the executable model to OCaml. Only ExtrOcamlBasic is used:
   bool, option, list, prod, unit, sumbool map to OCaml's; Z, positive, nat
   stay inductive. No Extract Constant. Run from /verif/ocaml (see build.sh). *)
From Coq Require Import Extraction ExtrOcamlBasic.
From MPB Require Import Base BarState F64 Percent Filler Decor Container Sync SizeFmt Proxy Actor PQueue Vt WaitGroup.
Extraction Language OCaml.
Extraction "mpb_model.ml"
  Z.add Z.mul Z.sub Z.quotrem Z.of_nat Z.to_nat Z.compare Z.opp
  wrap64 binit bapply bstep bev_step brender bexit obs completed
  cells fill_bar fill_spinner draw_row canon segs_width decor_plain
  init_cst step first_reject
  pstep offers_fast size_format percent_format time_fields ewma_update float_bits speed_of_avg speed_of_avg_q units1024 units1000
  sstep exec finished answer_of
  spec_call check_lin terminal
  qstep init_pq
  lex tok_step
  wg_init wg_observe.
