(* VtProofs.v — a terminal reads back exactly the frames the container encodes. *)
From MPB Require Import Base Vt.

Definition clean (l : list Z) : Prop := Forall (fun b => b <> LF /\ b <> ESC) l.

Lemma lex_app a : forall st b st1 t1, lex st a = Some (st1, t1) ->
  lex st (a ++ b) = match lex st1 b with Some (st2, t2) => Some (st2, t1 ++ t2) | None => None end.
Proof.
  induction a as [|x a IH]; intros st b st1 t1; cbn [lex app].
  - intros E; inversion E; subst. destruct (lex st1 b) as [[? ?]|]; reflexivity.
  - destruct (lex_step st x) as [[sx tx]|]; [|discriminate].
    destruct (lex sx a) as [[sa ta]|] eqn:Ea; [|discriminate]. intros E. injection E as E1 E2. subst st1 t1.
    rewrite (IH sx b sa ta Ea). destruct (lex sa b) as [[? ?]|]; [rewrite app_assoc; reflexivity|reflexivity].
Qed.

(* a payload line *)
Lemma lex_line l : forall cur, clean l ->
  lex (LGround cur) (l ++ [LF]) = Some (LGround [], [TLine (List.rev cur ++ l)]).
Proof.
  induction l as [|x l IH]; intros cur C; cbn [app lex lex_step].
  - unfold LF. cbn. rewrite app_nil_r. reflexivity.
  - inversion C as [|? ? [N1 N2] C']; subst.
    destruct (Z.eqb_spec x LF); [contradiction|]. destruct (Z.eqb_spec x ESC); [contradiction|].
    rewrite (IH (x :: cur) C'). cbn [List.rev]. rewrite <- app_assoc. reflexivity.
Qed.

(* decimal digits *)
Lemma dec_digits_spec fuel : forall n acc, 0 <= n < 10 ^ Z.of_nat fuel -> (fuel > 0)%nat ->
  exists ds, dec_digits fuel n acc = ds ++ acc /\ Forall (fun b => is_digit b = true) ds /\ ds <> [] /\
    fold_left (fun v b => v * 10 + (b - 48)) ds 0 = n.
Proof.
  induction fuel as [|f IH]; intros n acc Hn Hf; [lia|]. cbn [dec_digits].
  destruct (Z.ltb_spec n 10).
  - exists [48 + n]. repeat split; try discriminate.
    + constructor; [|constructor]. unfold is_digit. apply andb_true_intro. split; apply Z.leb_le; lia.
    + cbn [fold_left]. lia.
  - destruct f as [|f'].
    { cbn in Hn. lia. }
    assert (Hq : 0 <= n / 10 < 10 ^ Z.of_nat (S f')).
    { split; [apply Z.div_pos; lia|]. apply Z.div_lt_upper_bound; [lia|].
      replace (10 * 10 ^ Z.of_nat (S f')) with (10 ^ Z.of_nat (S (S f'))); [lia|].
      rewrite (Nat2Z.inj_succ (S f')), Z.pow_succ_r by lia. reflexivity. }
    destruct (IH (n / 10) ((48 + n mod 10) :: acc) Hq ltac:(lia)) as (ds & E & D & N & V).
    exists (ds ++ [48 + n mod 10]). repeat split.
    + rewrite E, <- app_assoc. reflexivity.
    + apply Forall_app. split; [exact D|]. constructor; [|constructor].
      unfold is_digit. pose proof (Z.mod_pos_bound n 10 ltac:(lia)). apply andb_true_intro. split; apply Z.leb_le; lia.
    + destruct ds; discriminate.
    + rewrite fold_left_app, V. cbn [fold_left]. pose proof (Z.div_mod n 10 ltac:(lia)). lia.
Qed.

Lemma lex_digits ds : forall arg, Forall (fun b => is_digit b = true) ds ->
  forall rest, lex (LCsi arg) (ds ++ rest) =
    lex (LCsi (match ds with [] => arg | _ => Some (fold_left (fun v b => v * 10 + (b - 48)) ds (match arg with Some v => v | None => 0 end)) end)) rest.
Proof.
  induction ds as [|d ds IH]; intros arg D rest; [reflexivity|].
  inversion D as [|? ? Hd D']; subst. cbn [app lex lex_step]. rewrite Hd.
  set (a1 := Some (match arg with Some v => v * 10 + (d - 48) | None => d - 48 end)).
  destruct (lex (LCsi a1) (ds ++ rest)) as [[s2 t2]|] eqn:E; rewrite (IH a1 D' rest) in E; cbn [fold_left].
  - destruct ds as [|d2 ds2].
    + cbn [fold_left] in *. unfold a1 in E. destruct arg; cbn in *; rewrite E; reflexivity.
    + unfold a1 in E. destruct arg as [v|]; cbn [fold_left] in *; rewrite ?Z.mul_0_l, ?Z.add_0_l in *;
        [replace (0 * 10 + (d - 48)) with (d - 48) in * by lia|]; rewrite E; reflexivity.
  - destruct ds as [|d2 ds2].
    + cbn [fold_left] in *. unfold a1 in E. destruct arg; cbn in *; rewrite E; reflexivity.
    + unfold a1 in E. destruct arg as [v|]; cbn [fold_left] in *; rewrite ?Z.mul_0_l, ?Z.add_0_l in *; rewrite E; reflexivity.
Qed.

Definition wf_item (i : vitem) : Prop :=
  match i with VCuu n => 0 < n < 10 ^ 20 | VLine l => clean l end.

Lemma CHA_not_digit : is_digit CHA = false. Proof. reflexivity. Qed.
Lemma CHJ_not_digit : is_digit CHJ = false. Proof. reflexivity. Qed.

Lemma lex_cons st b rest : lex st (b :: rest) =
  match lex_step st b with
  | Some (st1, t1) => match lex st1 rest with Some (st2, t2) => Some (st2, t1 ++ t2) | None => None end
  | None => None
  end.
Proof. reflexivity. Qed.

Lemma step_esc : lex_step (LGround []) ESC = Some (LEsc, []). Proof. reflexivity. Qed.
Lemma step_lbr : lex_step LEsc LBR = Some (LCsi None, []). Proof. reflexivity. Qed.
Lemma step_A v : lex_step (LCsi (Some v)) CHA = Some (LGround [], [TUp (Z.max 1 v)]). Proof. reflexivity. Qed.
Lemma step_J : lex_step (LCsi None) CHJ = Some (LGround [], [TErase]). Proof. reflexivity. Qed.

Lemma lex_item i : wf_item i -> forall rest,
  lex (LGround []) (encode_item i ++ rest) =
  match lex (LGround []) rest with Some (s, t) => Some (s, toks_of i ++ t) | None => None end.
Proof.
  destruct i as [n|l]; intros W rest; cbn [encode_item toks_of wf_item] in *.
  - (* ESC [ digits A ESC [ J *)
    assert (Hn : 0 <= n < 10 ^ Z.of_nat 20) by (change (Z.of_nat 20) with 20; lia).
    destruct (dec_digits_spec 20 n [] Hn ltac:(lia)) as (ds & E & D & N & V).
    unfold dec. rewrite E, app_nil_r. cbn [app]. rewrite <- app_assoc. cbn [app].
    rewrite lex_cons, step_esc, lex_cons, step_lbr.
    rewrite (lex_digits ds None D). destruct ds as [|d ds']; [congruence|]. rewrite V.
    rewrite lex_cons, step_A, lex_cons, step_esc, lex_cons, step_lbr, lex_cons, step_J.
    rewrite (Z.max_r 1 n) by lia.
    destruct (lex (LGround []) rest) as [[s t]|]; reflexivity.
  - rewrite (lex_app (l ++ [LF]) (LGround []) rest (LGround []) [TLine l]).
    + destruct (lex (LGround []) rest) as [[s t]|]; reflexivity.
    + rewrite (lex_line l [] W). reflexivity.
Qed.

(* a terminal reads back exactly the frames the container encodes *)
Theorem lex_encode f : Forall wf_item f -> lex (LGround []) (encode f) = Some (LGround [], flat_map toks_of f).
Proof.
  induction f as [|i f IH]; intros W; [reflexivity|].
  inversion W as [|? ? Wi Wf]; subst. unfold encode. cbn [map concat flat_map]. fold (encode f).
  rewrite (lex_item i Wi). rewrite (IH Wf). reflexivity.
Qed.

(* ---------- tokens and items agree on the screen ---------- *)
Theorem vt_frame_items h f : forall scr,
  vt_frame h scr f = (fold_left (vapply_item_h h) f scr, []).
Proof.
  unfold vt_frame. induction f as [|i f IH]; intros scr; [reflexivity|].
  cbn [flat_map]. rewrite fold_left_app. destruct i as [n|l]; cbn [toks_of fold_left tok_step vapply_item_h].
  - rewrite IH. reflexivity.
  - rewrite IH. reflexivity.
Qed.

(* bytes -> tokens -> screen: the terminal, fed the bytes of a frame, ends up with the screen the item-level
   semantics predicts *)
Theorem terminal_reads_frame h scr f : Forall wf_item f ->
  exists toks, lex (LGround []) (encode f) = Some (LGround [], toks) /\
               fold_left (tok_step h) toks (scr, []) = (fold_left (vapply_item_h h) f scr, []).
Proof.
  intros W. exists (flat_map toks_of f). split; [apply lex_encode; exact W|].
  pose proof (vt_frame_items h f scr) as E. unfold vt_frame in E. exact E.
Qed.

(* ---------- down to the items of Term.v / Container.v ---------- *)
From MPB Require Import BarState Container Term.

Section Render.
  (* the bytes of a text line or of a row, without the line feed: supplied by the decorators and fillers (C07, C09) *)
  Variable bytes : item -> list Z.

  Definition render (i : item) : vitem := match i with ICuu n => VCuu n | x => VLine (bytes x) end.

  Lemma render_item h scr i :
    map bytes (apply_item_h h scr i) = vapply_item_h h (map bytes scr) (render i).
  Proof.
    destruct i; cbn [apply_item_h render vapply_item_h]; try (rewrite map_app; reflexivity).
    unfold drop_last. rewrite firstn_map, map_length. reflexivity.
  Qed.

  Theorem render_frame h f : forall scr,
    map bytes (apply_frame_h h scr f) = fold_left (vapply_item_h h) (map render f) (map bytes scr).
  Proof.
    unfold apply_frame_h. induction f as [|i f IH]; intros scr; [reflexivity|].
    cbn [fold_left map]. rewrite IH, render_item. reflexivity.
  Qed.

  (* the whole chain: the bytes of a frame, read by a terminal of h rows, leave the screen that Term.apply_frame_h
     computes on items (whose redraw-in-place theorems are C04's) *)
  Theorem bytes_to_screen h scr f :
    Forall wf_item (map render f) ->
    exists toks, lex (LGround []) (encode (map render f)) = Some (LGround [], toks) /\
                 fold_left (tok_step h) toks (map bytes scr, []) = (map bytes (apply_frame_h h scr f), []).
  Proof.
    intros W. destruct (terminal_reads_frame h (map bytes scr) (map render f) W) as (toks & L & S).
    exists toks. split; [exact L|]. rewrite S, render_frame. reflexivity.
  Qed.
End Render.

(* ---------- why the writer never sends "cursor up 0" ---------- *)
(* A terminal reads a zero parameter as the default, 1: on a window of at least two rows the bytes ESC [ 0 A ESC [ J erase the line
   above the cursor — a line that was meant to persist when no live row is on the screen.  cwriter's Flush therefore writes the
   sequence only for a positive number of live rows (Term.cuu_items, below). *)
Theorem cuu_zero_erases_a_line h above l : 2 <= h ->
  exists toks, lex (LGround []) (encode_item (VCuu 0)) = Some (LGround [], toks) /\
               fold_left (tok_step h) toks (above ++ [l], []) = (above, []).
Proof.
  intros H. exists [TUp 1; TErase]. split; [reflexivity|].
  cbn [fold_left tok_step]. replace (Z.min 1 (Z.max 0 (h - 1))) with 1 by lia.
  rewrite app_length. cbn [length]. change (Z.to_nat 1) with 1%nat.
  replace (length above + 1 - 1)%nat with (length above) by lia.
  rewrite firstn_app, Nat.sub_diag, firstn_all. cbn [firstn]. rewrite app_nil_r. reflexivity.
Qed.

(* nothing live on the screen: no cursor control in front of the next frame at all *)
Lemma no_cursor_up_without_live_rows k : k <= 0 -> Term.cuu_items k = [].
Proof. intros H. unfold Term.cuu_items. destruct (Z.ltb_spec 0 k); [lia|reflexivity]. Qed.

(* and what is sent for k > 0 live rows is inside the fragment the terminal reads back (k below 10^20) *)
Lemma cursor_up_items_wf (bytes : item -> list Z) k : k < 10 ^ 20 -> Forall wf_item (map (render bytes) (Term.cuu_items k)).
Proof.
  intros H. unfold Term.cuu_items. destruct (Z.ltb_spec 0 k); cbn [map render]; [|constructor].
  constructor; [|constructor]. cbn [wf_item]. lia.
Qed.
