(* Percent.v — internal/percentage.go, exactly: guards, the uint conversions,
   the product, the float64 division and math.Round. *)
From MPB Require Import Base F64.

(* Percentage(total, current, width uint) float64 — arguments are uint values *)
Definition percentage (total current width : Z) : f64 :=
  if total =? 0 then of_Z 0
  else if total <=? current then of_Z width
  else fdiv (fmul (of_Z width) (of_Z current)) (of_Z total).

(* PercentageRound(total, current int64, width uint) float64 *)
Definition percentage_round (total current width : Z) : f64 :=
  if (total <? 0) || (current <? 0) then of_Z 0
  else fround (percentage (wrapU64 total) (wrapU64 current) width).

(* int(PercentageRound(...)) as used by the bar filler *)
Definition cells (total current width : Z) : Z := to_Z (percentage_round total current width).
