(* WaitGroupProofs.v — bar_wait_group.go never loses a wake-up: whenever the count is zero nobody sleeps, and once the
   notified waiters have run every Wait call made so far has returned; a Wait returns only in a state whose count is zero. *)
From MPB Require Import Base BaseProofs Container ContainerProofs WaitGroup.

(* no lost wake-up: a waiter sleeps un-notified only while the count is not zero *)
Definition NoLost (g : wg) : Prop := asleep g = [] \/ wcount g <> 0.

Lemma NoLost_init : NoLost wg_init.
Proof. left; reflexivity. Qed.

Lemma wg_step_NoLost g o : NoLost g -> NoLost (wg_step g o).
Proof.
  intros N. destruct o as [d|t|t]; cbn [wg_step].
  - destruct (Z.eqb_spec (wcount g + d) 0) as [E|E]; [left; reflexivity|right; exact E].
  - destruct (Z.eqb_spec (wcount g) 0) as [E|E]; cbn [asleep wcount]; [|right; exact E].
    destruct N as [N|N]; [left; exact N|contradiction].
  - destruct (memZ t (woken g)); [|exact N].
    destruct (Z.eqb_spec (wcount g) 0) as [E|E]; cbn [asleep wcount]; [|right; exact E].
    destruct N as [N|N]; [left; exact N|contradiction].
Qed.

Theorem run_NoLost ops : forall g, NoLost g -> NoLost (wg_run g ops).
Proof.
  induction ops as [|o ops IH]; intros g N; [exact N|]. cbn [wg_run fold_left]. apply IH. apply wg_step_NoLost. exact N.
Qed.

(* the count is the sum of the deltas *)
Definition delta (o : wgop) : Z := match o with WAdd d => d | _ => 0 end.

Lemma wg_step_count g o : wcount (wg_step g o) = wcount g + delta o.
Proof.
  destruct o as [d|t|t]; cbn [wg_step delta].
  - destruct (wcount g + d =? 0); reflexivity.
  - destruct (wcount g =? 0); cbn [wcount]; lia.
  - destruct (memZ t (woken g)); [destruct (wcount g =? 0)|]; cbn [wcount]; lia.
Qed.

Theorem run_count ops : forall g, wcount (wg_run g ops) = wcount g + fold_right (fun o a => delta o + a) 0 ops.
Proof.
  induction ops as [|o ops IH]; intros g; cbn [wg_run fold_left fold_right]; [lia|].
  fold (wg_run (wg_step g o) ops). rewrite IH, wg_step_count. lia.
Qed.

(* safety: a Wait returns only in a state whose count is zero, and only by the waiter's own step *)
Theorem returns_only_at_zero g o t :
  In t (returned (wg_step g o)) -> In t (returned g) \/ (wcount g = 0 /\ (o = WWait t \/ o = WResume t)).
Proof.
  destruct o as [d|u|u]; cbn [wg_step].
  - destruct (wcount g + d =? 0); cbn [returned]; auto.
  - destruct (Z.eqb_spec (wcount g) 0) as [E|E]; cbn [returned]; auto.
    intros [<-|I]; auto.
  - destruct (memZ u (woken g)); auto.
    destruct (Z.eqb_spec (wcount g) 0) as [E|E]; cbn [returned]; auto.
    intros [<-|I]; auto.
Qed.

(* nobody is forgotten: a waiter that called Wait is asleep, notified or has returned *)
Definition tracked (g : wg) (t : Z) : Prop := In t (asleep g) \/ In t (woken g) \/ In t (returned g).

Lemma In_removeZ_cases t u l : In t l -> t = u \/ In t (removeZ u l).
Proof.
  induction l as [|x l IH]; cbn [removeZ In]; [tauto|]. intros [->|I].
  - destruct (Z.eqb_spec u t); [left; congruence|right; left; reflexivity].
  - destruct (u =? x); [right; exact I|destruct (IH I); [left; assumption|right; right; assumption]].
Qed.

Lemma wg_step_tracked g o t : tracked g t -> tracked (wg_step g o) t.
Proof.
  unfold tracked. intros T. destruct o as [d|u|u]; cbn [wg_step].
  - destruct (wcount g + d =? 0); cbn [asleep woken returned]; rewrite ?in_app_iff; tauto.
  - destruct (wcount g =? 0); cbn [asleep woken returned]; rewrite ?in_app_iff; cbn [In]; tauto.
  - destruct (memZ u (woken g)) eqn:M; [|exact T].
    pose proof (In_removeZ_cases t u (woken g)) as C.
    destruct (wcount g =? 0); cbn [asleep woken returned]; rewrite ?in_app_iff; cbn [In];
      destruct T as [T|[T|T]]; try tauto; destruct (C T) as [->|]; tauto.
Qed.

Lemma wg_step_tracks_caller g t : tracked (wg_step g (WWait t)) t.
Proof.
  unfold tracked. cbn [wg_step]. destruct (wcount g =? 0); cbn [asleep woken returned]; rewrite ?in_app_iff; cbn [In]; tauto.
Qed.

Theorem run_tracked ops : forall g t, (tracked g t \/ In (WWait t) ops) -> tracked (wg_run g ops) t.
Proof.
  induction ops as [|o ops IH]; intros g t H; cbn [wg_run fold_left].
  - destruct H as [T|[]]. exact T.
  - fold (wg_run (wg_step g o) ops). apply IH. destruct H as [T|[->|I]].
    + left. apply wg_step_tracked. exact T.
    + left. apply wg_step_tracks_caller.
    + right. exact I.
Qed.

(* progress: while the count is zero, letting the notified waiters run empties the set of blocked waiters *)
Lemma settle_zero fuel : forall g, wcount g = 0 -> asleep g = [] -> (length (woken g) <= fuel)%nat ->
  let g' := settle fuel g in
  wcount g' = 0 /\ asleep g' = [] /\ woken g' = [] /\ (forall t, In t (woken g) \/ In t (returned g) -> In t (returned g')).
Proof.
  induction fuel as [|f IH]; intros g Z A L; cbn [settle].
  - destruct (woken g) eqn:W; [|cbn in L; lia]. repeat split; auto. intros t [[]|I]; exact I.
  - destruct (woken g) as [|t w] eqn:W; [repeat split; auto; intros u [[]|I]; exact I|].
    assert (E : wg_step g (WResume t) = mkWG 0 [] (removeZ t (t :: w)) (t :: returned g)).
    { cbn [wg_step]. rewrite W. cbn [memZ]. rewrite Z.eqb_refl. cbn [orb]. rewrite Z, A. reflexivity. }
    cbn [removeZ] in E. rewrite Z.eqb_refl in E. rewrite E.
    destruct (IH (mkWG 0 [] w (t :: returned g)) eq_refl eq_refl) as (Z' & A' & W' & R'); [cbn in *; lia|].
    repeat split; auto. intros u [[<-|I]|I]; apply R'; cbn [woken returned]; [right; left; reflexivity|left; exact I|right; right; exact I].
Qed.

(* the theorem Progress.Wait relies on: whenever the count is zero after any sequence of Add / Done / Wait calls and scheduler
   steps, nobody sleeps un-notified, and once the notified waiters have run EVERY Wait call made so far has returned *)
Theorem zero_count_releases_every_waiter ops :
  let g := wg_run wg_init ops in
  wcount g = 0 ->
  asleep g = [] /\
  let g' := settle (length (woken g)) g in
  woken g' = [] /\ asleep g' = [] /\ forall t, In (WWait t) ops -> In t (returned g').
Proof.
  intros g Z. pose proof (run_NoLost ops wg_init NoLost_init) as N. fold g in N.
  destruct N as [A|N]; [|contradiction]. split; [exact A|].
  destruct (settle_zero (length (woken g)) g Z A (le_n _)) as (_ & A' & W' & R'). cbn zeta. repeat split; auto.
  intros t I. apply R'. pose proof (run_tracked ops wg_init t (or_intror I)) as T. fold g in T.
  destruct T as [T|[T|T]]; [rewrite A in T; destruct T|left; exact T|right; exact T].
Qed.

(* ... and while the count is not zero a caller of Wait does not return: it sleeps *)
Theorem nonzero_count_blocks g t : wcount g <> 0 -> ~ In t (returned g) ->
  ~ In t (returned (wg_step g (WWait t))) /\ In t (asleep (wg_step g (WWait t))).
Proof.
  intros N R. cbn [wg_step]. destruct (Z.eqb_spec (wcount g) 0); [contradiction|]. cbn [returned asleep].
  split; [exact R|apply in_or_app; right; left; reflexivity].
Qed.

Example wg_nonvacuous :
  let g := wg_run wg_init [WAdd 1; WWait 7; WAdd 1; WWait 8; WAdd (-1); WAdd (-1)] in
  wcount g = 0 /\ woken g = [7; 8] /\ returned (settle 2 g) = [8; 7] /\
  wg_observe wg_init [WAdd 1; WWait 7; WAdd 1; WWait 8; WAdd (-1); WAdd (-1); WWait 9] = [[]; []; []; []; []; [8; 7]; [9; 8; 7]].
Proof. vm_compute. repeat split. Qed.
