(* Filler.v — bar_filler_bar.go (bFiller.Fill), bar_filler_spinner.go
   (sFiller.Fill) and internal/width.go over display widths.
   A rendered string is a list of segments: [count] copies of a component of
   class [cls] and display width [w] each. *)
From MPB Require Import Base F64 Percent.

Record seg := mkSeg { cls : Z; cnt : Z; w : Z }.
Definition seg_width (s : seg) : Z := cnt s * w s.
Definition segs_width (l : list seg) : Z := sumZ (map seg_width l).

(* classes *)
Definition cL := 0. Definition cR := 1. Definition cRefill := 2. Definition cFill := 3.
Definition cPad := 4. Definition cEll := 5. Definition cSp := 6. Definition cFrame := 7.
Definition cTip (i : Z) := 100 + i.
Definition cDec (i : Z) := 1000 + i.

(* internal.CheckRequestedWidth *)
Definition check_requested_width (req avail : Z) : Z :=
  if (req <? 1) || (avail <? req) then avail else req.

Record bar_style := mkStyle {
  lb : Z; rb : Z; fw : Z; rw : Z; pw : Z;     (* display widths of the components *)
  tips : list Z;                              (* widths of the tip frames, non-empty *)
  tip_on_complete : bool;
  reverse : bool
}.

Record stat := mkStat {
  avail : Z; req : Z; s_total : Z; s_current : Z; s_refill : Z; s_completed : bool; s_aborted : bool
}.

(* for w := W; w > 0 && lim-fc >= w; fc += w { count++ } — None if the fuel runs out
   (FillerProofs.run_loop_total: it never does) *)
Fixpoint loop (fuel : nat) (cw lim fc count : Z) : option (Z * Z) :=
  match fuel with
  | O => None
  | S f => if (0 <? cw) && (cw <=? lim - fc) then loop f cw lim (fc + cw) (count + 1) else Some (count, fc)
  end.
Definition loop_fuel (lim fc : Z) : nat := Z.to_nat (Z.max 0 (lim - fc)) + 2.
Definition run_loop (cw lim fc : Z) : option (Z * Z) := loop (loop_fuel lim fc) cw lim fc 0.

Definition nth_tip (st : bar_style) (count : Z) : Z * Z :=
  let n := Z.of_nat (length (tips st)) in
  let i := count mod n in
  (i, nth (Z.to_nat i) (tips st) 0).

Definition nonempty (l : list seg) : list seg := filter (fun s => 0 <? cnt s) l.

(* the four fill loops of bFiller.Fill: fillers up to curw, refillers up to refw,
   paddings and then ellipses up to width; [docur] is curWidth != 0 *)
Definition fill_counts (st : bar_style) (width curw refw fc0 : Z) (docur : bool)
  : option (Z * Z * Z * Z) :=
  match (if docur then run_loop (fw st) curw fc0 else Some (0, fc0)) with None => None | Some (nf, fc1) =>
  match (if docur then run_loop (rw st) refw fc1 else Some (0, fc1)) with None => None | Some (nr, fc2) =>
  match run_loop (pw st) width fc2 with None => None | Some (np, fc3) =>
  match run_loop 1 width fc3 with None => None | Some (ne, _) => Some (nf, nr, np, ne)
  end end end end.

(* the tip frame of this call: segment, width, new counter *)
Definition choose_tip (st : bar_style) (tipcount width cur : Z) (completed : bool) : list seg * Z * Z :=
  if negb (cur =? 0) && (negb completed || tip_on_complete st)
  then let '(i, tw) := nth_tip st tipcount in
       (* a tip frame wider than the bar itself is not drawn; the counter still advances *)
       if tw <=? width then ([mkSeg (cTip i) 1 tw], tw, tipcount + 1) else ([], 0, tipcount + 1)
  else ([], 0, tipcount).

(* curWidth / refWidth after the refill adjustment *)
Definition cur_ref (s : stat) (width cur : Z) : Z * Z :=
  if cur =? 0 then (0, 0) else
  if negb (s_refill s =? 0)
  then let r := cells (s_total s) (s_refill s) width in (cur - r, r + (cur - r))
  else (cur, 0).

(* bFiller.Fill: returns the segments written and the new tip counter *)
Definition fill_bar (st : bar_style) (tipcount : Z) (s : stat) : option (list seg * Z) :=
  let width := check_requested_width (req s) (avail s) - (lb st + rb st) in
  if width <? 0 then Some ([], tipcount) else
  if width =? 0 then Some ([mkSeg cL 1 (lb st); mkSeg cR 1 (rb st)], tipcount) else
  let cur := cells (s_total s) (s_current s) width in
  let '(tipseg, tipw, tipcount') := choose_tip st tipcount width cur (s_completed s) in
  let '(curw, refw) := cur_ref s width cur in
  match fill_counts st width curw refw tipw (negb (cur =? 0)) with
  | None => None
  | Some (nf, nr, np, ne) =>
    let sections := [ [mkSeg cRefill nr (rw st)]; [mkSeg cFill nf (fw st)]; tipseg;
                      [mkSeg cPad np (pw st); mkSeg cEll ne 1] ] in
    let body := concat (if reverse st then List.rev sections else sections) in
    Some ([mkSeg cL 1 (lb st)] ++ nonempty body ++ [mkSeg cR 1 (rb st)], tipcount')
  end.

(* sFiller.Fill *)
Record spin_style := mkSpin { frames : list Z; position : Z (* 0 centre, 1 left, 2 right *) }.

Definition fill_spinner (st : spin_style) (count : Z) (s : stat) : list seg * Z :=
  let width := check_requested_width (req s) (avail s) in
  let n := Z.of_nat (length (frames st)) in
  let i := count mod n in
  let fwid := nth (Z.to_nat i) (frames st) 0 in
  if width <? fwid then ([], count + 1) else
  let pad := width - fwid in
  let fr := mkSeg (cFrame + 10 * i) 1 fwid in
  (nonempty (if position st =? 1 then [fr; mkSeg cSp pad 1]
             else if position st =? 2 then [mkSeg cSp pad 1; fr]
             else [mkSeg cSp (pad / 2) 1; fr; mkSeg cSp (pad / 2 + pad mod 2) 1]), count + 1).
