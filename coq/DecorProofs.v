(* DecorProofs.v — WC.Format reports the true width; draw never exceeds the
   terminal width (C07); every wrapper performs exactly one Format (C12). *)
From MPB Require Import Base BaseProofs F64 Percent Filler FillerProofs Decor.

Definition wf_text (t : text) : Prop := Forall (fun s => 0 <= cnt s /\ 0 <= w s) t.

Lemma wf_text_width t : wf_text t -> 0 <= segs_width t.
Proof.
  induction t as [|s t IH]; intros H; [cbn; lia|].
  inversion H as [|? ? [Hc Hw] Ht]; subst. rewrite segs_width_cons. specialize (IH Ht). nia.
Qed.

Lemma wf_nonneg t : wf_text t -> nonneg_counts t.
Proof. unfold wf_text, nonneg_counts. intros H. eapply Forall_impl; [|exact H]. cbn. tauto. Qed.

Lemma need_width_ge c t : segs_width t <= need_width c t.
Proof. unfold need_width. destruct (Z.ltb_spec (segs_width t) (wcW c)); [lia|]. destruct (extra c); lia. Qed.

Lemma need_width_cases c t :
  need_width c t = wcW c /\ segs_width t < wcW c \/
  wcW c <= segs_width t /\ need_width c t = segs_width t + (if extra c then 1 else 0).
Proof. unfold need_width. destruct (Z.ltb_spec (segs_width t) (wcW c)); [left; lia|right]. destruct (extra c); lia. Qed.

(* Format pads to the width it reports, whatever column maximum it was handed *)
Lemma pad_to_width c t width : segs_width t <= width -> segs_width (pad_to c t width) = width.
Proof.
  intros H. unfold pad_to.
  assert (E : segs_width (nonempty [mkSeg cSp (width - segs_width t) 1]) = width - segs_width t).
  { rewrite segs_width_nonempty by (repeat constructor; cbn [cnt]; lia).
    rewrite segs_width_cons, segs_width_nil. cbn [cnt w]. lia. }
  destruct (indent_right c); rewrite segs_width_app, E; lia.
Qed.

Theorem format_width_true d completed aborted :
  let '(txt, wd) := decor_plain d completed aborted in segs_width txt = wd.
Proof. unfold decor_plain. apply pad_to_width. apply need_width_ge. Qed.

Theorem format_width_true_synced c t colmax :
  need_width c t <= colmax -> segs_width (pad_to c t colmax) = colmax.
Proof. intros H. apply pad_to_width. pose proof (need_width_ge c t). lia. Qed.

(* every branch of every wrapper tree performs exactly one Format *)
Theorem decor_one_format d completed aborted : dformats d completed aborted = 1%nat.
Proof. induction d; cbn; try assumption; try reflexivity; [destruct completed|destruct aborted]; auto. Qed.

(* ---- truncation ---- *)
Lemma take_width_le t : wf_text t -> forall wd, 0 <= wd -> segs_width (take_width t wd) <= wd.
Proof.
  induction t as [|s t IH]; intros H wd Hwd; [cbn; lia|].
  inversion H as [|? ? [Hc Hw] Ht]; subst. cbn [take_width].
  destruct (Z.leb_spec (w s) 0).
  - rewrite segs_width_cons. specialize (IH Ht wd Hwd). assert (w s = 0) by lia. nia.
  - pose proof (Z.div_mod wd (w s) ltac:(lia)) as DM.
    pose proof (Z.mod_pos_bound wd (w s) ltac:(lia)) as MB.
    assert (0 <= wd / w s) by (apply Z.div_pos; lia).
    destruct (Z.ltb_spec (Z.min (cnt s) (wd / w s)) (cnt s)).
    + rewrite segs_width_nonempty by (repeat constructor; cbn [cnt]; lia).
      rewrite segs_width_cons, segs_width_nil. cbn [cnt w]. nia.
    + rewrite segs_width_cons. assert (Hle : cnt s <= wd / w s) by lia.
      assert (Hrem : 0 <= wd - cnt s * w s) by nia. specialize (IH Ht _ Hrem). lia.
Qed.

Theorem truncate_le t wd : wf_text t -> 0 < wd -> segs_width (truncate t wd) <= wd.
Proof.
  intros H Hwd. unfold truncate. destruct (Z.leb_spec (segs_width t) wd); [assumption|].
  rewrite segs_width_app, segs_width_cons, segs_width_nil. cbn [cnt w].
  pose proof (take_width_le t H (wd - 1) ltac:(lia)). lia.
Qed.

(* ---- decorators of one group ---- *)
Definition honest (ds : list (text * Z)) : Prop :=
  Forall (fun p => wf_text (fst p) /\ segs_width (fst p) = snd p) ds.

Lemma decor_fill_le ds : honest ds -> forall av, 0 <= av ->
  let '(o, a) := decor_fill ds av in 0 <= a /\ segs_width o + a <= av.
Proof.
  induction ds as [|[t rw] ds IH]; intros H av Hav; [cbn; lia|].
  inversion H as [|? ? [Hwf Hrw] Hds]; subst. cbn [fst snd] in *. cbn [decor_fill].
  pose proof (wf_text_width t Hwf).
  destruct (Z.leb_spec 0 (av - rw)).
  - specialize (IH Hds (av - rw) ltac:(lia)). destruct (decor_fill ds (av - rw)) as [o a].
    rewrite segs_width_app. lia.
  - destruct (Z.ltb_spec 0 av).
    + specialize (IH Hds 0 ltac:(lia)). destruct (decor_fill ds 0) as [o a].
      rewrite segs_width_app. pose proof (truncate_le t av Hwf ltac:(lia)). lia.
    + specialize (IH Hds av Hav). destruct (decor_fill ds av) as [o a]. lia.
Qed.

(* ---- the whole row ---- *)
(* a filler respects the width it is offered *)
Definition polite {A} (filler : Z -> option (text * A)) : Prop :=
  forall a f st, filler a = Some (f, st) -> segs_width f <= Z.max 0 a.

Theorem draw_width_le {A} tw pre apd trim (filler : Z -> option (text * A)) row st :
  0 <= tw -> honest pre -> honest apd -> polite filler ->
  draw tw pre apd trim filler = Some (row, st) -> segs_width row <= tw.
Proof.
  intros Htw Hp Ha Hf. unfold draw.
  pose proof (decor_fill_le pre Hp tw Htw) as P. destruct (decor_fill pre tw) as [p a1]. destruct P as [P1 P2].
  pose proof (decor_fill_le apd Ha a1 P1) as Q. destruct (decor_fill apd a1) as [q a2]. destruct Q as [Q1 Q2].
  destruct (trim || (a2 <? 2)) eqn:T.
  - destruct (filler a2) as [[f s']|] eqn:F; [|discriminate]. intros E; inversion E; subst.
    pose proof (Hf _ _ _ F). cbn [app]. rewrite !segs_width_app. lia.
  - apply orb_false_iff in T as [_ T]. apply Z.ltb_ge in T.
    destruct (filler (a2 - 2)) as [[f s']|] eqn:F; [|discriminate]. intros E; inversion E; subst.
    pose proof (Hf _ _ _ F). cbn [app]. repeat rewrite ?segs_width_app, ?segs_width_cons. cbn [cnt w]. lia.
Qed.

(* the built-in fillers are polite *)
Lemma check_requested_width_le r a : 0 <= a -> 0 <= check_requested_width r a <= a.
Proof.
  intros H. unfold check_requested_width.
  destruct (Z.ltb_spec r 1); cbn [orb]; [lia|]. destruct (Z.ltb_spec a r); lia.
Qed.

Lemma check_requested_width_neg r a : a < 0 -> check_requested_width r a = a.
Proof.
  intros H. unfold check_requested_width.
  destruct (Z.ltb_spec r 1); cbn [orb]; [reflexivity|]. destruct (Z.ltb_spec a r); [reflexivity|lia].
Qed.
