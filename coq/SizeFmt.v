(* SizeFmt.v — decor/size_type.go (unit choice, quotient, verb normalisation),
   decor/percentage.go, the time producers of decor/eta.go, the speed producer of
   decor/speed.go and the zero-progress carry of the moving-average estimators. *)
From Coq Require Import ZArith List.
From Flocq Require Import Core.Core IEEE754.BinarySingleNaN.
From MPB Require Import Base F64 Percent.
Import ListNotations.
Open Scope Z_scope.

(* ---------- strconv.AppendFloat(x, 'f', p, 64): exact decimal, round half to even ---------- *)
Definition round_half_even (a b : Z) : Z :=   (* a / b for b > 0, a >= 0 *)
  let q := a / b in
  let r := a mod b in
  if 2 * r <? b then q else if b <? 2 * r then q + 1 else if Z.even q then q else q + 1.

(* scaled value round(|x| * 10^p) and the sign, for finite x *)
Definition fixed_scaled (x : f64) (p : Z) : option (bool * Z) :=
  match x with
  | B754_zero s => Some (s, 0)
  | B754_finite s m e _ =>
      let mz := Z.pos m in
      if 0 <=? e then Some (s, mz * 2 ^ e * 10 ^ p)
      else Some (s, round_half_even (mz * 10 ^ p) (2 ^ (- e)))
  | _ => None
  end.

(* (negative?, integer part, fraction part on p digits) *)
Definition fmt_fixed (x : f64) (p : Z) : option (bool * Z * Z) :=
  match fixed_scaled x p with
  | Some (s, n) => Some (s, n / 10 ^ p, n mod 10 ^ p)
  | None => None
  end.

(* ---------- units ---------- *)
Definition units1024 : list Z := [1; 1024; 1048576; 1073741824; 1099511627776].
Definition units1000 : list Z := [1; 1000; 1000000; 1000000000; 1000000000000].

(* the largest unit that fits: s < KiB -> b, s < MiB -> KiB, ... , else TiB; index of the unit *)
Definition pick_unit (us : list Z) (s : Z) : nat :=
  match us with
  | [_; u1; u2; u3; u4] =>
      if s <? u1 then 0%nat else if s <? u2 then 1%nat else if s <? u3 then 2%nat else if s <? u4 then 3%nat else 4%nat
  | _ => 0%nat
  end.

Definition size_quotient (us : list Z) (s : Z) : f64 :=
  fdiv (of_Z s) (of_Z (nth (pick_unit us s) us 1)).

(* verb normalisation of the Format methods: 'f','e','E' default precision 6 (or the given one);
   'b','g','G','x','X' precision -1 (or the given one); every other verb becomes 'f' with precision 0.
   verb codes: 0 = 'f', 1 = other-float ('e','E','g','G','b','x','X'), 2 = anything else ('d','s','v',...) *)
Definition norm_prec (verbclass : Z) (given : option Z) : Z * bool :=   (* (precision, rendered as 'f'?) *)
  match verbclass with
  | 0 => (match given with Some p => p | None => 6 end, true)
  | 1 => (match given with Some p => p | None => -1 end, false)
  | _ => (0, true)
  end.

(* SizeB1024 / SizeB1000 Format with an 'f'-class verb: (sign, int, frac, precision, unit index, space?) *)
Definition size_format (us : list Z) (s : Z) (verbclass : Z) (given : option Z) (space : bool)
  : option (bool * Z * Z * Z * nat * bool) :=
  let '(p, isf) := norm_prec verbclass given in
  if isf then
    match fmt_fixed (size_quotient us s) p with
    | Some (sg, ip, fp) => Some (sg, ip, fp, p, pick_unit us s, space)
    | None => None
    end
  else None.

(* ---------- percentage decorator: internal.Percentage(uint(total), uint(current), 100) ---------- *)
Definition percent_value (total current : Z) : f64 := percentage (wrapU64 total) (wrapU64 current) 100.

Definition percent_format (total current : Z) (verbclass : Z) (given : option Z) : option (bool * Z * Z * Z) :=
  let '(p, isf) := norm_prec verbclass given in
  if isf then
    match fmt_fixed (percent_value total current) p with
    | Some (sg, ip, fp) => Some (sg, ip, fp, p)
    | None => None
    end
  else None.

(* ---------- time producers (decor/eta.go chooseTimeProducer), durations in nanoseconds >= 0 ---------- *)
Definition ns_hour := 3600000000000.
Definition ns_min := 60000000000.
Definition ns_sec := 1000000000.

Definition hms (d : Z) : Z * Z * Z := (Z.quot d ns_hour mod 60, Z.quot d ns_min mod 60, Z.quot d ns_sec mod 60).

(* style 1 HHMMSS, 2 HHMM, 3 MMSS (hours shown when > 0); result: list of two-digit fields *)
Definition time_fields (style : Z) (d : Z) : list Z :=
  let '(h, m, s) := hms d in
  match style with
  | 1 => [h; m; s]
  | 2 => [h; m]
  | 3 => if 0 <? h then [h; m; s] else [m; s]
  | _ => []
  end.

(* ---------- moving-average estimators: zero-progress carry (eta.go / speed.go EwmaUpdate) ---------- *)
(* state: zDur (ns). A sample (n, dur): n <= 0 carries the duration; otherwise the average
   receives float64(zDur+dur)/float64(n) and zDur is reset. *)
Definition ewma_update (zdur : Z) (n dur : Z) : Z * option f64 :=
  if n <=? 0 then (wrap64 (zdur + dur), None)
  else
    let q := fdiv (of_Z (wrap64 (zdur + dur))) (of_Z n) in
    match q with
    | B754_infinity _ | B754_nan => (wrap64 (zdur + dur), None)
    | _ => (0, Some q)
    end.

(* Go's strconv 'b' format of a finite float: mantissa and binary exponent *)
Definition float_bits (x : f64) : option (bool * Z * Z) :=
  match x with
  | B754_zero s => Some (s, 0, -1074)
  | B754_finite s m e _ => Some (s, Z.pos m, e)
  | _ => None
  end.

(* speed producer: 1e9 / v rounded (math.Round) to an integer number of bytes per second *)
Definition speed_of_avg (v : Z) : Z :=
  if v =? 0 then 0 else to_Z (fround (fdiv (of_Z 1000000000) (of_Z v))).

(* the same for an average that is the float64 quotient a/b (a fractional number of ns per byte) *)
Definition speed_of_avg_q (a b : Z) : Z :=
  let v := fdiv (of_Z a) (of_Z b) in
  match v with
  | B754_zero _ => 0
  | _ => to_Z (fround (fdiv (of_Z 1000000000) v))
  end.

(* ETA: remaining = (total - current) * int64(math.Round(v)) for an integer valued average v *)
Definition eta_remaining (total current v : Z) : Z := wrap64 ((total - current) * v).
