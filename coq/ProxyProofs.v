(* ProxyProofs.v — transparency and byte accounting of the proxies (C19). *)
From MPB Require Import Base BaseProofs BarState BarStateProofs Proxy.

(* data, byte counts and errors pass through unchanged *)
Theorem proxy_transparent c s fast r s' o :
  pstep c s (PTransfer fast) r = Some (s', o) -> on o = rn r /\ oerr o = rerr r /\ oforwarded o = true.
Proof.
  unfold pstep. destruct (fast && negb (has_fast c)); [discriminate|].
  destruct (bstep s _) as [[s1 out]|]; [|discriminate]. intros E; inversion E; subst. cbn. auto.
Qed.

Theorem proxy_close_forwarded c s r s' o :
  pstep c s PClose r = Some (s', o) ->
  s' = s /\ oforwarded o = has_close c /\ (has_close c = true -> oerr o = rerr r).
Proof. unfold pstep. intros E; inversion E; subst. cbn. repeat split; auto. intros ->. reflexivity. Qed.

(* the fast path exists on the proxy exactly when it exists on the wrapped value *)
Theorem fast_path_iff c s r : (exists s' o, pstep c s (PTransfer true) r = Some (s', o)) -> has_fast c = true.
Proof.
  intros (s' & o & H). unfold pstep in H. destruct (has_fast c); [reflexivity|]. cbn in H. discriminate.
Qed.

(* the moving-average decorators receive every transfer's byte count *)
Theorem ewma_gets_every_sample c s fast r s' o :
  has_ewma c = true -> exited s = false -> BarState.cancelled s = false ->
  pstep c s (PTransfer fast) r = Some (s', o) -> osample o = Some (rn r).
Proof.
  intros E X C. unfold pstep. destruct (fast && negb (has_fast c)); [discriminate|]. rewrite E.
  unfold bstep. rewrite X, C. intros H; inversion H; subst. reflexivity.
Qed.

(* byte accounting on a live bar: current advances by exactly the bytes transferred,
   capped at total once completion triggering is on *)
Lemma incr_live s n :
  0 <= n -> in_i64 (current s + n) -> aborted s = false -> capped s ->
  let s' := fst (bapply s (IncrInt64 n)) in
  current s' = (if trig s then Z.min (total s) (current s + n) else current s + n) /\
  total s' = total s /\ trig s' = trig s /\ aborted s' = false.
Proof.
  intros Hn R A K. cbn zeta. unfold bapply. cbn [fst]. rewrite wrap64_id by assumption.
  unfold clamp. cbn [trig total current set_current].
  destruct (trig s) eqn:T; cbn [andb].
  - destruct (Z.leb_spec (total s) (current s + n)).
    + unfold trigger, set_trig, set_current. cbn [auto trig total current aborted].
      destruct (auto s); cbn; rewrite Z.min_l by lia; auto.
    + cbn. rewrite Z.min_r by lia. auto.
  - cbn. auto.
Qed.

(* the sum of all transfers, capped: for every chunking of the stream *)
Theorem bar_advances_by_bytes ns : forall s,
  Forall (fun n => 0 <= n) ns -> in_i64 (current s + sumZ ns) -> 0 <= current s ->
  aborted s = false -> capped s ->
  let s' := fold_left (fun st n => fst (bapply st (IncrInt64 n))) ns s in
  current s' = (if trig s then Z.min (total s) (current s + sumZ ns) else current s + sumZ ns) /\
  total s' = total s /\ trig s' = trig s.
Proof.
  induction ns as [|n ns IH]; intros s F R C0 A K; cbn zeta.
  - cbn [fold_left sumZ]. rewrite Z.add_0_r. destruct (trig s) eqn:T; [|auto].
    pose proof (K T A). rewrite Z.min_r by lia. auto.
  - inversion F as [|? ? Hn Fr]; subst. cbn [fold_left sumZ] in *.
    assert (Hs : 0 <= sumZ ns).
    { clear - Fr. induction Fr; cbn; lia. }
    assert (R1 : in_i64 (current s + n)) by (unfold in_i64, min_i64, max_i64, two63 in *; lia).
    destruct (incr_live s n Hn R1 A K) as (E1 & E2 & E3 & E4).
    set (s1 := fst (bapply s (IncrInt64 n))) in *.
    assert (K1 : capped s1) by (apply bapply_capped; exact K).
    assert (C1 : 0 <= current s1).
    { rewrite E1. destruct (trig s) eqn:T; [|lia]. specialize (K T A). lia. }
    assert (R2 : in_i64 (current s1 + sumZ ns)).
    { rewrite E1. unfold in_i64, min_i64, max_i64, two63 in *. destruct (trig s); lia. }
    destruct (IH s1 Fr R2 C1 E4 K1) as (F1 & F2 & F3). cbn zeta in *.
    rewrite F1, F2, F3, E1, E2, E3. repeat split; auto.
    destruct (trig s) eqn:T; [|lia]. specialize (K T A). lia.
Qed.
