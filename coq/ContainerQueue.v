(* ContainerQueue.v — the acceptor's heap rule is implemented by the verified queue.
   Container.step lets the heap manager pop ANY bar of greatest priority (HM_POP); PQueue.pop
   (priority_queue.go under container/heap, proved in PQueueProofs.v) pops one particular such
   bar.  This file couples the two: whenever the queue holds the acceptor's heap with the
   bars' priorities, the pop it makes is accepted, and the coupling is kept. *)
From Coq Require Import Permutation.
From MPB Require Import Base BaseProofs BarState Container ContainerProofs PQueue PQueueProofs.

(* the queue holds exactly the bars of the acceptor's heap, each with its current priority *)
Definition holds (s : cst) (q : pq) : Prop :=
  Permutation (ids (arr q)) (heap s) /\
  forall b p, In (b, p) (arr q) -> exists r, lookup b (bars s) = Some r /\ br_prio r = p.

Lemma max_prio_intro bs members p :
  (forall m, In m members -> exists r, lookup m bs = Some r /\ br_prio r <= p) -> max_prio bs members p = true.
Proof.
  induction members as [|m l IH]; intros H; cbn [max_prio]; [reflexivity|].
  destruct (H m (or_introl eq_refl)) as (r & L & Le). rewrite L.
  assert (br_prio r <=? p = true) as -> by (apply Z.leb_le; exact Le). cbn [andb].
  apply IH. intros x Hx. apply H. right. exact Hx.
Qed.

Lemma in_ids_pair (a : list elt) b : In b (ids a) -> exists p, In (b, p) a.
Proof.
  unfold ids. intros H. apply in_map_iff in H as ([b' p] & E & Hin). cbn in E. subst. eauto.
Qed.

Theorem pop_is_accepted s q b p q' :
  holds s q -> hp (arr q) (length (arr q)) -> iterating s = true -> ended s = false ->
  pop q = Some ((b, p), q') ->
  exists s', step s (HM_POP b p) = Some s' /\ Permutation (ids (arr q')) (heap s') /\
             (forall b1 p1, In (b1, p1) (arr q') -> exists r, lookup b1 (bars s') = Some r /\ br_prio r = p1).
Proof.
  intros [Pm Pr] H It En E.
  destruct (pop_ok q (b, p) q' H E) as (H1 & P1 & M1).
  assert (Inq : In (b, p) (arr q)) by (eapply Permutation_in; [apply Permutation_sym; exact P1|left; reflexivity]).
  destruct (Pr b p Inq) as (r & Lb & Eb).
  assert (Hb : In b (heap s)).
  { eapply Permutation_in; [exact Pm|]. unfold ids. apply in_map_iff. exists (b, p). auto. }
  assert (Mx : max_prio (bars s) (heap s) p = true).
  { apply max_prio_intro. intros m Hm.
    assert (Hm' : In m (ids (arr q))) by (eapply Permutation_in; [apply Permutation_sym; exact Pm|exact Hm]).
    destruct (in_ids_pair _ _ Hm') as (pm & Hpm). destruct (Pr m pm Hpm) as (rm & Lm & Em).
    exists rm. split; [exact Lm|]. rewrite Em. apply (M1 (m, pm) Hpm). }
  unfold step. rewrite Lb, En, It. apply memZ_In in Hb. rewrite Hb, Eb, Z.eqb_refl, Mx, orb_true_r. cbn [negb andb].
  eexists. split; [reflexivity|]. simp_state. split.
  - (* the rest of the queue is the rest of the heap *)
    assert (Pids : Permutation (ids (arr q)) (b :: ids (arr q'))) by (apply (perm_ids _ _ P1)).
    apply memZ_In in Hb. pose proof (removeZ_perm b (heap s) Hb) as Ph.
    apply Permutation_cons_inv with (a := b).
    eapply perm_trans; [apply Permutation_sym; exact Pids|]. eapply perm_trans; [exact Pm|exact Ph].
  - intros b1 p1 Hin. apply (Pr b1 p1). eapply Permutation_in; [apply Permutation_sym; exact P1|right; exact Hin].
Qed.
