(* Base.v — integer conventions shared by the whole model.
   All data are Z; Go's int64 arithmetic is made explicit with wrap64. *)
From Coq Require Export ZArith List Bool Lia.
Export ListNotations.
Open Scope Z_scope.

Definition two63 : Z := 9223372036854775808.
Definition two64 : Z := 18446744073709551616.
Definition max_i64 : Z := two63 - 1.
Definition min_i64 : Z := - two63.

(* value of a Go int64 expression whose mathematical value is z *)
Definition wrap64 (z : Z) : Z := (z + two63) mod two64 - two63.
(* value of a Go uint64 (uint on amd64) expression *)
Definition wrapU64 (z : Z) : Z := z mod two64.
Definition in_i64 (z : Z) : Prop := min_i64 <= z <= max_i64.
Definition in_i64b (z : Z) : bool := (min_i64 <=? z) && (z <=? max_i64).

Fixpoint fold_left_opt {A B} (f : A -> B -> option A) (l : list B) (a : A) : option A :=
  match l with
  | [] => Some a
  | x :: xs => match f a x with Some a' => fold_left_opt f xs a' | None => None end
  end.

Definition Zmax_list (l : list Z) : Z := fold_left Z.max l 0.
Fixpoint sumZ (l : list Z) : Z := match l with [] => 0 | x :: xs => x + sumZ xs end.
