(* C11 — A bar's terminal state is exclusive and never changes.
   Only statements closed by [exact] and their axioms.
   History: on the pinned tree [completed] did not exclude aborted bars and the
   statements below were false (AddBar(0); Abort reported both; AddBar(10);
   IncrBy(5); Abort; IncrBy(5) reported both and Aborted flipped back at exit).
   /repo commit "fix: an aborted bar is never reported completed" repaired it;
   the model follows the repaired code. *)
From MPB Require Import Base BaseProofs BarState BarStateProofs.

(* never both, in every state whatsoever (hence for every history) *)
Theorem C11_not_both : forall s, completed s && aborted s = false.
Proof. exact not_both. Qed.
Print Assumptions C11_not_both.

(* once aborted: stays aborted and not completed across every later event
   (any operation with any argument, renders, cancellation, the actor's exit) *)
Theorem C11_aborted_stable : forall s evs s',
  brun s evs = Some s' -> aborted s = true -> aborted s' = true /\ completed s' = false.
Proof. exact aborted_stable. Qed.
Print Assumptions C11_aborted_stable.

(* once completed: stays completed across later non-decreasing updates, renders,
   cancellation and exit *)
Theorem C11_completed_stable : forall s evs s',
  brun s evs = Some s' -> completed s = true -> in_i64 (current s) -> all_nondecr s evs = true ->
  completed s' = true.
Proof. exact completed_stable. Qed.
Print Assumptions C11_completed_stable.

(* after Bar.Wait / Progress.Wait (the actor has exited): exactly one holds, and
   no later call or render changes what the getters return *)
Theorem C11_exactly_one_after_wait : forall s s1 evs s2,
  bev_step s Exit = Some s1 -> brun s1 evs = Some s2 ->
  xorb (completed s2) (aborted s2) = true /\ obs s2 = obs s1.
Proof. exact exactly_one_after_wait. Qed.
Print Assumptions C11_exactly_one_after_wait.

(* a bar ended only by cancellation / Shutdown is reported aborted *)
Theorem C11_cancelled_is_aborted : forall s s',
  bev_step s Exit = Some s' -> completed s = false -> aborted s' = true /\ completed s' = false.
Proof. exact cancelled_is_aborted. Qed.
Print Assumptions C11_cancelled_is_aborted.

Theorem C11_completed_survives_exit : forall s s',
  bev_step s Exit = Some s' -> completed s = true -> completed s' = true /\ aborted s' = false.
Proof. exact completed_survives_exit. Qed.
Print Assumptions C11_completed_survives_exit.

(* non-vacuity: the histories that failed before the repair are accepted and now fine *)
Example C11_nonvacuous_abort_at_total :
  exists s, brun (binit 0 false false false) [Op (Abort false); Exit] = Some s /\ obs s = (0, false, true).
Proof. eexists; vm_compute; split; reflexivity. Qed.

Example C11_nonvacuous_incr_after_abort :
  exists s, brun (binit 10 true false false)
    [Op (IncrInt64 5); Op (Abort false); Op (IncrInt64 5); Render; Render; CtxCancel; Exit] = Some s
  /\ obs s = (10, false, true) /\ all_nondecr (binit 10 true false false)
       [Op (IncrInt64 5); Op (Abort false); Op (IncrInt64 5); Render; Render; CtxCancel; Exit] = true.
Proof. eexists; vm_compute; repeat split. Qed.
