(* C19 — Proxy readers and writers are transparent and account every byte.
   Statements over the proxy model (Proxy.v) for every chunking, every error and
   every shape of the wrapped value; proofs in ProxyProofs.v. *)
From MPB Require Import Base BaseProofs BarState BarStateProofs Proxy ProxyProofs.

Theorem C19_transparent : forall c s fast r s' o,
  pstep c s (PTransfer fast) r = Some (s', o) -> on o = rn r /\ oerr o = rerr r /\ oforwarded o = true.
Proof. exact proxy_transparent. Qed.
Print Assumptions C19_transparent.

Theorem C19_close_forwarded : forall c s r s' o,
  pstep c s PClose r = Some (s', o) ->
  s' = s /\ oforwarded o = has_close c /\ (has_close c = true -> oerr o = rerr r).
Proof. exact proxy_close_forwarded. Qed.
Print Assumptions C19_close_forwarded.

(* the WriteTo / ReadFrom fast path exists on the proxy exactly when it exists on the wrapped value *)
Theorem C19_fast_path_only_if_wrapped_has_it : forall c s r,
  (exists s' o, pstep c s (PTransfer true) r = Some (s', o)) -> has_fast c = true.
Proof. exact fast_path_iff. Qed.
Print Assumptions C19_fast_path_only_if_wrapped_has_it.

Theorem C19_fast_path_offered : forall c, offers_fast c = has_fast c.
Proof. reflexivity. Qed.

(* the bar advances by exactly the bytes transferred, capped at total once triggering is on:
   for every sequence of transfer sizes *)
Theorem C19_bar_advances_by_bytes : forall ns s,
  Forall (fun n => 0 <= n) ns -> in_i64 (current s + sumZ ns) -> 0 <= current s ->
  aborted s = false -> capped s ->
  let s' := fold_left (fun st n => fst (bapply st (IncrInt64 n))) ns s in
  current s' = (if trig s then Z.min (total s) (current s + sumZ ns) else current s + sumZ ns) /\
  total s' = total s /\ trig s' = trig s.
Proof. exact bar_advances_by_bytes. Qed.
Print Assumptions C19_bar_advances_by_bytes.

(* moving-average decorators receive every transfer's byte count *)
Theorem C19_ewma_gets_every_sample : forall c s fast r s' o,
  has_ewma c = true -> exited s = false -> BarState.cancelled s = false ->
  pstep c s (PTransfer fast) r = Some (s', o) -> osample o = Some (rn r).
Proof. exact ewma_gets_every_sample. Qed.
Print Assumptions C19_ewma_gets_every_sample.

Example C19_nonvacuous :
  exists s os, prun (mkPC true false true true) (binit 100 true false false)
     [(PTransfer false, mkPR 40 0); (PTransfer true, mkPR 70 1); (PClose, mkPR 0 2)] = Some (s, os)
  /\ current s = 100 /\ map on os = [40; 70; 0] /\ map oerr os = [0; 1; 0].
Proof. eexists; eexists; vm_compute; repeat split. Qed.
