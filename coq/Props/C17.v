(* C17 — A bar queued after another always gets its turn.
   Statements over every event list accepted by Container.step; proofs in ContainerFlush.v
   and ContainerProofs.v.
   The pinned tree did not satisfy the last sentence of the property (D7a: a bar queued after a bar whose final
   state was already flushed was parked for ever; D7b: a second bar queued after the same predecessor dropped the
   first).  Both were reproduced against the code (corpus/C17_directed) and are repaired by the "fix:" commit
   b0086b9 in /repo; the model below is the model of the repaired tree, and the two former refutation witnesses are
   now the Examples at the end (the late bar is pushed at once, both successors are released). *)
From MPB Require Import Base BaseProofs BarState Container ContainerProofs ContainerFlush ContainerCover.

(* not displayed while parked: a parked bar is in none of the places rows are drawn from *)
Theorem C17_successor_hidden_while_parked : forall p a d evs s pre x,
  run (init_cst p a d) evs = Some s -> In (pre, x) (queue s) ->
  ~ In x (heap s) /\ ~ In x (popped s) /\ ~ In x (fifo_pushes (fifo s)) /\ ~ In x (ph_pushes (ph s)) /\ ~ In x (retired s).
Proof. exact successor_hidden. Qed.
Print Assumptions C17_successor_hidden_while_parked.

(* it stays parked until the flush of the predecessor's frame with shutdown = 1 (the frame after the one
   that first showed the predecessor finished); in particular no other bar queued after the same predecessor
   disturbs it *)
Theorem C17_parked_until_predecessor_last_frame : forall s e s' a x,
  step s e = Some s' -> In (a, x) (queue s) ->
  In (a, x) (queue s') \/ (exists nrows rmf np, e = CT_FLUSHBAR a 1 nrows rmf np false).
Proof. exact queue_stable. Qed.
Print Assumptions C17_parked_until_predecessor_last_frame.

(* that flush: EVERY bar parked behind the predecessor, however many, takes the predecessor's priority (its position)
   and is pushed with a sync request, in the order they were parked, so that it is in the heap for the next frame;
   the predecessor leaves for good and its release is recorded with the priority it had *)
Theorem C17_release_of_all_successors : forall pm am dm evs s b nrows rmf np s',
  run (init_cst pm am dm) evs = Some s ->
  step s (CT_FLUSHBAR b 1 nrows rmf np false) = Some s' -> cycle_err s = false ->
  let qbs := successors b (queue s) in
  (qbs <> [] ->
     (exists wd ht rows n pc pushes rows' n',
        ph s = Rendering wd ht rows n pc pushes /\
        ph s' = Rendering wd ht rows' n' pc (pushes ++ map (fun qb => (qb, true)) qbs)) /\
     In b (retired s')) /\
  (forall qb, In qb qbs -> prio_of s' qb = prio_of s b) /\
  successors b (queue s') = [] /\
  lookup b (released s') = Some (prio_of s b).
Proof. exact flush_releases_all. Qed.
Print Assumptions C17_release_of_all_successors.

(* [successors] is exactly the set of bars parked behind b *)
Theorem C17_successors_are_the_parked_bars : forall b q x, In x (successors b q) <-> In (b, x) q.
Proof. exact successors_In. Qed.
Print Assumptions C17_successors_are_the_parked_bars.

(* the predecessor is never drawn again *)
Theorem C17_predecessor_gone : forall p a d evs s b sh nrows rmf np err,
  run (init_cst p a d) evs = Some s -> In b (retired s) -> step s (CT_FLUSHBAR b sh nrows rmf np err) = None.
Proof. exact retired_never_flushed. Qed.
Print Assumptions C17_predecessor_gone.

(* nobody waits behind a bar that has already been released: every parked bar still has its predecessor's release,
   which pushes it, ahead of it *)
Theorem C17_parked_only_behind_unreleased : forall p a d evs s pre x,
  run (init_cst p a d) evs = Some s -> In (pre, x) (queue s) -> lookup pre (released s) = None.
Proof. exact parked_behind_unreleased. Qed.
Print Assumptions C17_parked_only_behind_unreleased.

(* whether or not the predecessor had finished: a bar queued after a bar that is not released yet is parked behind it,
   after the bars already parked there ... *)
Theorem C17_early_successor_parked : forall s b id prio tot ex a rmf np tr xr xv s',
  step s (CT_ADD b id prio tot ex (Some a) rmf np tr xr xv) = Some s' -> lookup a (released s) = None ->
  queue s' = queue s ++ [(a, b)] /\ replace_last_op (fifo s) [] = Some (fifo s') /\ heap s' = heap s.
Proof. exact early_successor_parked. Qed.
Print Assumptions C17_early_successor_parked.

(* ... and a bar queued after a released bar is not parked at all: the same closure sends its push request (with sync),
   and it takes the priority the predecessor had when it was released *)
Theorem C17_late_successor_pushed_at_once : forall s b id prio tot ex a rmf np tr xr xv pa s',
  step s (CT_ADD b id prio tot ex (Some a) rmf np tr xr xv) = Some s' -> lookup a (released s) = Some pa ->
  replace_last_op (fifo s) [QPush b true] = Some (fifo s') /\ prio_of s' b = pa /\ queue s' = queue s /\
  released s' = released s.
Proof. exact late_successor_pushed_at_once. Qed.
Print Assumptions C17_late_successor_pushed_at_once.

(* the record of a release does not change afterwards *)
Theorem C17_release_recorded_for_good : forall s e s' a pa,
  step s e = Some s' -> lookup a (released s) = Some pa ->
  lookup a (released s') = Some pa \/ (exists nrows rmf np, e = CT_FLUSHBAR a 1 nrows rmf np false).
Proof. exact released_stable. Qed.
Print Assumptions C17_release_recorded_for_good.

(* always eventually displayed: once a queued bar is no longer parked (released by the hand-over, or never parked because it
   came late) it is never parked again, and it is in the heap of every ordered iteration that begins afterwards — the next
   frame and every frame after it — until it has left for good through its own last frame *)
Theorem C17_displayed_from_the_next_frame_on : forall p a d evs s x evs' s1 hl s2,
  run (init_cst p a d) evs = Some s -> lookup x (bars s) <> None -> ~ In x (map snd (queue s)) ->
  run s evs' = Some s1 -> step s1 (HM_ITERREQ true hl) = Some s2 ->
  In x (iter_heap s2) \/ In x (retired s2).
Proof. exact unparked_bar_is_in_every_later_iteration. Qed.
Print Assumptions C17_displayed_from_the_next_frame_on.

(* ---- the two histories that failed on the pinned tree (D7), now accepted with the right outcome ---- *)
(* bar 0 (removed on completion) completes and leaves, then bar 1 is created to queue after it: its push is in flight,
   nothing is parked, and it has bar 0's priority *)
Example C17_late_successor_gets_its_turn :
  exists s, run (init_cst false true false)
    [CT_OP; CT_ADD 0 0 0 2 None None true false true 0 false; HM_PUSH 0 true 0 false 0;
     CL_OP 0 (IncrInt64 2); BAR_OP 0 2 2 0 true false true 0;
     CT_RENDERBEGIN; HM_SYNC 1 true 0; HM_ITERREQ true 1; CT_RENDERSIZE 80 24;
     BAR_RENDER 0 2 2 0 false true 0; BAR_OP 0 2 2 0 true false true 1; HM_POP 0 0;
     CT_FLUSHBAR 0 0 1 true false false; CT_FRAME 1 0; OUT [IRow 0 2 2 true false];
     HM_PUSH 0 false 0 false 1;
     CT_RENDERBEGIN; HM_SYNC 1 false 1; HM_ITERREQ true 1; CT_RENDERSIZE 80 24;
     BAR_RENDER 0 2 2 0 false true 1; BAR_OP 0 2 2 0 true false true 2; HM_POP 0 0;
     CT_FLUSHBAR 0 1 1 true false false; CT_FRAME 1 0; OUT [ICuu 1; IRow 0 2 2 true false];
     CT_OP; CT_ADD 1 1 1 3 None (Some 0) false false true 0 false] = Some s
  /\ queue s = [] /\ fifo s = [QPush 1 true] /\ prio_of s 1 = 0 /\ In 0 (retired s).
Proof. eexists. vm_compute. repeat split. left; reflexivity. Qed.

(* two bars queued after bar 0: both are released by bar 0's second terminal frame, in order, with its priority *)
Example C17_both_successors_get_their_turn :
  exists s, run (init_cst false true false)
    [CT_OP; CT_ADD 0 0 0 2 None None false false true 0 false; HM_PUSH 0 true 0 false 0;
     CT_OP; CT_ADD 1 1 1 3 None (Some 0) false false true 0 false;
     CT_OP; CT_ADD 2 2 2 3 None (Some 0) false false true 0 false;
     CL_OP 0 (IncrInt64 2); BAR_OP 0 2 2 0 true false false 0;
     CT_RENDERBEGIN; HM_SYNC 1 true 0; HM_ITERREQ true 1; CT_RENDERSIZE 80 24;
     BAR_RENDER 0 2 2 0 false true 0; BAR_OP 0 2 2 0 true false false 1; HM_POP 0 0;
     CT_FLUSHBAR 0 0 1 false false false; CT_FRAME 1 0; OUT [IRow 0 2 2 true false];
     HM_PUSH 0 false 0 false 1;
     CT_RENDERBEGIN; HM_SYNC 1 false 1; HM_ITERREQ true 1; CT_RENDERSIZE 80 24;
     BAR_RENDER 0 2 2 0 false true 1; BAR_OP 0 2 2 0 true false false 2; HM_POP 0 0;
     CT_FLUSHBAR 0 1 1 false false false; CT_FRAME 1 0; OUT [ICuu 1; IRow 0 2 2 true false];
     HM_PUSH 1 true 0 false 1; HM_PUSH 2 true 1 true 1] = Some s
  /\ heap s = [2; 1] /\ queue s = [] /\ retired s = [0] /\ prio_of s 1 = 0 /\ prio_of s 2 = 0
  /\ lookup 0 (released s) = Some 0.
Proof. eexists. vm_compute. repeat split. Qed.

(* in between, both are parked, in order, and hidden *)
Example C17_two_parked :
  exists s, run (init_cst false true false)
    [CT_OP; CT_ADD 0 0 0 2 None None false false true 0 false; HM_PUSH 0 true 0 false 0;
     CT_OP; CT_ADD 1 1 1 3 None (Some 0) false false true 0 false;
     CT_OP; CT_ADD 2 2 2 3 None (Some 0) false false true 0 false] = Some s
  /\ queue s = [(0, 1); (0, 2)] /\ successors 0 (queue s) = [1; 2] /\ heap s = [0].
Proof. eexists. vm_compute. repeat split. Qed.
