(* C17 placeholder *)
From MPB Require Import Base.
