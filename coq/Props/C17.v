(* C17 — A bar queued after another always gets its turn.
   Statements over every event list accepted by Container.step; proofs in ContainerFlush.v
   and ContainerProofs.v.
   KNOWN FINDING (D7, open, known_findings.json): the last sentence of the property does
   not hold of the code.  [C17_late_successor_refuted] exhibits an accepted run in which
   the predecessor had left before the successor was created, and
   [C17_late_successor_never_displayed] proves that such a successor is never promoted in
   any continuation (Wait then never returns: the bar is never started, never completes);
   [C17_second_successor_overwrites] is the "however many bars" case: parking a second bar
   behind the same predecessor drops the first from the queue.  The harness generates
   successors only while the predecessor is running, one per predecessor, and the
   directed D7 witnesses are replayed against the code by the check. *)
From MPB Require Import Base BaseProofs BarState Container ContainerProofs ContainerFlush.

(* not displayed while parked: a parked bar is in none of the places rows are drawn from *)
Theorem C17_successor_hidden_while_parked : forall p a d evs s pre x,
  run (init_cst p a d) evs = Some s -> lookup pre (queue s) = Some x ->
  ~ In x (heap s) /\ ~ In x (popped s) /\ ~ In x (fifo_pushes (fifo s)) /\ ~ In x (ph_pushes (ph s)) /\ ~ In x (retired s).
Proof. exact successor_hidden. Qed.
Print Assumptions C17_successor_hidden_while_parked.

(* it stays parked until the flush of the predecessor's frame with shutdown = 1 (the frame after the one
   that first showed the predecessor finished) *)
Theorem C17_parked_until_predecessor_last_frame : forall s e s' a x,
  step s e = Some s' -> lookup a (queue s) = Some x ->
  lookup a (queue s') = Some x \/
  (exists nrows rmf np, e = CT_FLUSHBAR a 1 nrows rmf np false) \/
  (exists b id prio tot ex rmf np tr xr xv, e = CT_ADD b id prio tot ex (Some a) rmf np tr xr xv).
Proof. exact queue_stable. Qed.
Print Assumptions C17_parked_until_predecessor_last_frame.

(* that flush: the successor takes the predecessor's priority (its position), is pushed with a sync request
   so that it is in the heap for the next frame, and the predecessor leaves for good *)
Theorem C17_promotion : forall s b nrows rmf np s' qb,
  step s (CT_FLUSHBAR b 1 nrows rmf np false) = Some s' -> cycle_err s = false ->
  lookup b (queue s) = Some qb ->
  (exists wd ht rows n pc pushes rows' n',
      ph s = Rendering wd ht rows n pc pushes /\
      ph s' = Rendering wd ht rows' n' pc (pushes ++ [(qb, true)])) /\
  prio_of s' qb = prio_of s b /\
  lookup b (queue s') = None /\
  In b (retired s').
Proof. exact flush_promotes. Qed.
Print Assumptions C17_promotion.

(* the predecessor is never drawn again *)
Theorem C17_predecessor_gone : forall p a d evs s b sh nrows rmf np err,
  run (init_cst p a d) evs = Some s -> In b (retired s) -> step s (CT_FLUSHBAR b sh nrows rmf np err) = None.
Proof. exact retired_never_flushed. Qed.
Print Assumptions C17_predecessor_gone.

(* ---- the part of the property that fails (D7) ---- *)
Theorem C17_late_successor_never_displayed : forall p a d evs' evs s s' pre x,
  run (init_cst p a d) evs = Some s -> lookup pre (queue s) = Some x -> In pre (retired s) ->
  run s evs' = Some s' -> forallb (fun e => negb (parks_behind pre e)) evs' = true ->
  lookup pre (queue s') = Some x /\ In pre (retired s').
Proof. exact late_successor_stays_parked. Qed.
Print Assumptions C17_late_successor_never_displayed.

(* an accepted run that gets there: bar 0 (removed on completion) completes and leaves, then bar 1 is
   created to queue after it *)
Theorem C17_late_successor_refuted :
  exists evs s, run (init_cst false true false) evs = Some s /\ lookup 0 (queue s) = Some 1 /\ In 0 (retired s).
Proof.
  exists
    [CT_OP; CT_ADD 0 0 0 2 None None true false true 0 false; HM_PUSH 0 true 0 false 0;
     CL_OP 0 (IncrInt64 2); BAR_OP 0 2 2 0 true false true 0;
     CT_RENDERBEGIN; HM_SYNC 1 true 0; HM_ITERREQ true 1; CT_RENDERSIZE 80 24;
     BAR_RENDER 0 2 2 0 false true 0; BAR_OP 0 2 2 0 true false true 1; HM_POP 0 0;
     CT_FLUSHBAR 0 0 1 true false false; CT_FRAME 1 0; OUT [IRow 0 2 2 true false];
     HM_PUSH 0 false 0 false 1;
     CT_RENDERBEGIN; HM_SYNC 1 false 1; HM_ITERREQ true 1; CT_RENDERSIZE 80 24;
     BAR_RENDER 0 2 2 0 false true 1; BAR_OP 0 2 2 0 true false true 2; HM_POP 0 0;
     CT_FLUSHBAR 0 1 1 true false false; CT_FRAME 1 0; OUT [ICuu 1; IRow 0 2 2 true false];
     CT_OP; CT_ADD 1 1 1 3 None (Some 0) false false true 0 false].
  eexists. vm_compute. repeat split. left; reflexivity.
Qed.
Print Assumptions C17_late_successor_refuted.

(* a second bar parked behind the same predecessor replaces the first in the queue *)
Theorem C17_second_successor_overwrites :
  exists evs s, run (init_cst false true false) evs = Some s /\ lookup 0 (queue s) = Some 2 /\
                lookup 1 (bars s) <> None /\ ~ In 1 (places s).
Proof.
  exists
    [CT_OP; CT_ADD 0 0 0 2 None None false false true 0 false; HM_PUSH 0 true 0 false 0;
     CT_OP; CT_ADD 1 1 1 3 None (Some 0) false false true 0 false;
     CT_OP; CT_ADD 2 2 2 3 None (Some 0) false false true 0 false].
  eexists. vm_compute. repeat split; [discriminate|]. intros [H|[H|H]]; try discriminate H; exact H.
Qed.
Print Assumptions C17_second_successor_overwrites.

(* non-vacuity of the promotion theorem: a successor created in time is promoted *)
Example C17_nonvacuous :
  exists s, run (init_cst false true false)
    [CT_OP; CT_ADD 0 0 0 2 None None false false true 0 false; HM_PUSH 0 true 0 false 0;
     CT_OP; CT_ADD 1 1 1 3 None (Some 0) false false true 0 false;
     CL_OP 0 (IncrInt64 2); BAR_OP 0 2 2 0 true false false 0;
     CT_RENDERBEGIN; HM_SYNC 1 true 0; HM_ITERREQ true 1; CT_RENDERSIZE 80 24;
     BAR_RENDER 0 2 2 0 false true 0; BAR_OP 0 2 2 0 true false false 1; HM_POP 0 0;
     CT_FLUSHBAR 0 0 1 false false false; CT_FRAME 1 0; OUT [IRow 0 2 2 true false];
     HM_PUSH 0 false 0 false 1;
     CT_RENDERBEGIN; HM_SYNC 1 false 1; HM_ITERREQ true 1; CT_RENDERSIZE 80 24;
     BAR_RENDER 0 2 2 0 false true 1; BAR_OP 0 2 2 0 true false false 2; HM_POP 0 0;
     CT_FLUSHBAR 0 1 1 false false false; CT_FRAME 1 0; OUT [ICuu 1; IRow 0 2 2 true false];
     HM_PUSH 1 true 0 false 1] = Some s
  /\ heap s = [1] /\ queue s = [] /\ retired s = [0] /\ prio_of s 1 = 0.
Proof. eexists. vm_compute. repeat split. Qed.
