(* C15 placeholder *)
From MPB Require Import Base.
