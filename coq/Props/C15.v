(* C15 — A render error shuts the container down cleanly.
   Statements over Container.step (ContainerLife.v) and the width-synchronisation
   protocol (SyncProofs.v).
   History: on the pinned tree flush returned at the first frame error and the bars
   still exchanging widths in that cycle were stranded ("fix: a render error no longer
   strands bars that are in the middle of width sync"); the model follows the repaired
   code: after an error the cycle's remaining bars are received and pushed back. *)
From MPB Require Import Base BaseProofs BarState Container ContainerProofs ContainerLife Sync SyncProofs.

(* the error latches, cancels the container, and no cycle can begin again *)
Theorem C15_error_stops_rendering : forall s s',
  step s CT_RENDERERR = Some s' -> PendIdle s ->
  Quiet s' /\ errored s' = true /\ cancelled s' = true /\ outframes s' = outframes s /\ step s' CT_RENDERBEGIN = None.
Proof.
  intros s s' H P. destruct (rendererr_quiet _ _ H P) as (Q & E & C & O). repeat split; try assumption; try apply Q.
  apply quiet_no_cycle. exact Q.
Qed.
Print Assumptions C15_error_stops_rendering.

(* no further frame, for every continuation *)
Theorem C15_no_further_frame : forall s s1 evs s2,
  PendIdle s -> step s CT_RENDERERR = Some s1 -> run s1 evs = Some s2 ->
  outframes s2 = outframes s /\ errored s2 = true.
Proof. exact no_frame_after_error. Qed.
Print Assumptions C15_no_further_frame.

(* the error is reported once: after it a second report is refused in every continuation *)
Theorem C15_error_reported_once : forall s s1 evs s2,
  step s CT_RENDERERR = Some s1 -> run s1 evs = Some s2 -> step s2 CT_RENDERERR = None.
Proof. exact error_reported_once. Qed.
Print Assumptions C15_error_reported_once.

Theorem C15_pending_only_between_cycles : forall p a d evs s, run (init_cst p a d) evs = Some s -> PendIdle s.
Proof.
  intros p a d evs. assert (G : forall s0 s, PendIdle s0 -> run s0 evs = Some s -> PendIdle s).
  { induction evs as [|e evs IH]; intros s0 s I; unfold run; cbn.
    - intros E; inversion E; subst; exact I.
    - destruct (step s0 e) as [s1|] eqn:E; [|discriminate]. intros R. apply (IH s1); [|exact R].
      eapply step_PendIdle; eauto. }
  intros s. apply G. apply PendIdle_init.
Qed.
Print Assumptions C15_pending_only_between_cycles.

(* the bars of the failing cycle are all received: the ordered iteration runs to its end,
   so no bar is left blocked handing over its frame (flush with cycle_err set) *)
Theorem C15_cycle_is_drained : forall s b sh nrows rmf np err s',
  step s (CT_FLUSHBAR b sh nrows rmf np err) = Some s' -> cycle_err s = true ->
  exists rest, popped s = b :: rest /\ popped s' = rest /\ In b (cycle_flushed s').
Proof.
  intros s b sh nrows rmf np err s' H C. unfold step in H.
  destruct (ph s) as [|wd ht rows n pc pushes|] eqn:P; try discriminate.
  destruct (lookup b (bars s)) as [r|] eqn:L; [|discriminate].
  destruct (br_frame r) as [fi|] eqn:F; [|discriminate].
  destruct (popped s) as [|p0 rest] eqn:Pp; cbn [negb] in H; [discriminate|].
  destruct (Z.eqb_spec b p0); cbn [negb] in H; [|discriminate]. subst p0. rewrite C in H.
  exists rest. split; [reflexivity|]. inversion H; subst; clear H.
  destruct (_ && _ && _); simp_state; (split; [reflexivity|apply in_or_app; right; left; reflexivity]).
Qed.
Print Assumptions C15_cycle_is_drained.

(* width synchronisation cannot wedge: while a cell of the sync table is unfinished some cell can step,
   and every run of the protocol ends within 2·n steps with every cell answered *)
Theorem C15_width_sync_progress : forall c s,
  wf c -> SInv c s -> (exists i, i < nch c /\ s i <> 2) -> exists a s', sstep c s a = Some s'.
Proof. exact sync_progress. Qed.
Print Assumptions C15_width_sync_progress.

Example C15_nonvacuous :
  exists s, run (init_cst false true false)
    [CT_OP; CT_ADD 0 0 0 5 None None false false true 0 false; HM_PUSH 0 true 0 false 0;
     CT_OP; CT_ADD 1 1 1 7 None None false false true 0 false; HM_PUSH 1 true 1 true 0;
     CT_RENDERBEGIN; HM_SYNC 2 true 0; HM_ITERREQ true 2; CT_RENDERSIZE 80 24;
     BAR_RENDER 0 0 5 0 false false 0; BAR_RENDER 1 0 7 0 false false 0; BAR_DRAWERR 1;
     HM_POP 1 1; HM_POP 0 0; CT_FLUSHBAR 1 0 1 false false true; CT_FLUSHBAR 0 0 1 false false false;
     CT_RENDERERR] = Some s
  /\ errored s = true /\ cancelled s = true /\ outframes s = [] /\ fifo s = [QPush 0 false].
Proof. eexists. vm_compute. repeat split. Qed.
