(* C14 placeholder *)
From MPB Require Import Base.
