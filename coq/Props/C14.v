(* C14 — Cancellation and Shutdown stop everything, once, wherever they land.
   Safety statements over the bar actor (BarState.v), the decorator subscription
   (Listen.v) and the container acceptor (Container.step).
   Not provable in this model: that Wait RETURNS after a cancellation is progress of the
   Go run-time (selects being taken); the harness decides it on every trace with a hang
   timeout and the c14 monitor. *)
From MPB Require Import Base BaseProofs BarState BarStateProofs Container ContainerProofs ContainerLife Listen.

(* a bar ended by cancellation alone reports aborted, not completed; IsRunning is false *)
Theorem C14_cancelled_bar_is_aborted : forall s s',
  bev_step s Exit = Some s' -> completed s = false -> aborted s' = true /\ completed s' = false.
Proof. exact cancelled_is_aborted. Qed.
Print Assumptions C14_cancelled_bar_is_aborted.

Theorem C14_completed_bar_stays_completed : forall s s',
  bev_step s Exit = Some s' -> completed s = true -> completed s' = true /\ aborted s' = false.
Proof. exact completed_survives_exit. Qed.
Print Assumptions C14_completed_bar_stays_completed.

(* the actor exits at most once, whatever lands in between: one round of shutdown notifications *)
Theorem C14_bar_exits_once : forall s s1 evs s2,
  bev_step s Exit = Some s1 -> brun s1 evs = Some s2 -> bev_step s2 Exit = None.
Proof. exact exit_once. Qed.
Print Assumptions C14_bar_exits_once.

(* that round calls every shutdown listener of both decorator groups exactly once,
   under any number of wrappers *)
Theorem C14_each_listener_once : forall pre app, on_exit pre app = listening pre ++ listening app.
Proof. exact on_exit_each_listener_once. Qed.
Print Assumptions C14_each_listener_once.

Theorem C14_listener_under_wrappers : forall n id e,
  on_exit [wrap_n n (WLeaf id true e)] [] = [id] /\ on_exit [] [wrap_n n (WLeaf id true e)] = [id].
Proof. exact listener_under_wrappers_notified. Qed.
Print Assumptions C14_listener_under_wrappers.

(* the heap manager is ended once, and the notifier's single value lists exactly the heap *)
Theorem C14_heap_manager_ends_once : forall s hl s1 evs s2 hl',
  step s (HM_END hl) = Some s1 -> run s1 evs = Some s2 -> step s2 (HM_END hl') = None.
Proof. exact end_once. Qed.
Print Assumptions C14_heap_manager_ends_once.

Theorem C14_notifier_lists_the_heap : forall s bs s',
  step s (NOTIFY bs) = Some s' ->
  ended s = true /\ length bs = length (heap s) /\ (forall b, In b bs <-> In b (heap s)).
Proof.
  intros s bs s'. unfold step. destruct (_ && _) eqn:G; [|discriminate]. intros _.
  apply andb_prop in G as [G G4]. apply andb_prop in G as [G G3]. apply andb_prop in G as [G1 G2].
  apply Z.eqb_eq in G2. rewrite forallb_forall in G3, G4. repeat split; auto; [lia| |].
  - intros Hb. apply memZ_In. auto.
  - intros Hb. apply memZ_In. auto.
Qed.
Print Assumptions C14_notifier_lists_the_heap.

(* cancellation is sticky *)
Theorem C14_cancelled_stays : forall s e s', step s e = Some s' -> cancelled s = true -> cancelled s' = true.
Proof. exact cancelled_mono. Qed.
Print Assumptions C14_cancelled_stays.

Example C14_nonvacuous :
  exists s, run (init_cst false false false)
    [CT_OP; CT_ADD 0 0 0 5 None None false false true 0 false; HM_PUSH 0 true 0 false 0;
     CL_CANCEL; BAR_EXIT 0 0 5 true; CT_DONE; HM_END 1; CT_EXIT;
     NOTIFY [0]; FINAL 0 0 false true false] = Some s
  /\ ct_exited s = true.
Proof. eexists. vm_compute. repeat split. Qed.
