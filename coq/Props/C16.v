(* C16 — No goroutine outlives its container.
   The acceptor (Container.step) has one family of events per goroutine of the library:
   CT_* / OUT (container goroutine), HM_* (heap manager), BAR_* (one actor per bar; after
   its exit the container goroutine renders the bar inside a cycle).  The statements say
   that once each of them has stopped no event of the library is accepted any more.
   Not modelled: the short-lived helper goroutines (early refresh, the auto-refresh
   ticker listener, the shutdown-notifier sender, the detached heap-manager senders
   removed by the "fix:" commits); for those, and for the claim that the goroutines do
   reach their stop events on every path, the check counts goroutines after Wait on
   every scenario of every family (runtime.Stack through the verif hook) and the
   translator-generated spawn table (Gen/Spawns) lists every `go` statement with the
   exit condition the leak probe relies on. *)
From MPB Require Import Base BaseProofs BarState BarStateProofs Container ContainerProofs ContainerLife GenChecks.
From MPB.gen Require Import GenApi.
From Coq Require Import String.
Open Scope string_scope.
Open Scope Z_scope.

(* the container goroutine returned, the heap manager was ended and every actor has exited:
   from then on only answers to client calls are possible, for ever *)
Theorem C16_nothing_runs_after_everything_stopped : forall s evs s',
  Dead s -> run s evs = Some s' -> forallb client_event evs = true /\ Dead s'.
Proof. exact dead_forever. Qed.
Print Assumptions C16_nothing_runs_after_everything_stopped.

(* each of the three stops is final on its own *)
Theorem C16_container_goroutine_stops : forall s s1 evs s2,
  step s CT_EXIT = Some s1 -> run s1 evs = Some s2 -> Quiet s2 /\ outframes s2 = outframes s.
Proof.
  intros s s1 evs s2 E R. destruct (exit_quiet _ _ E) as (Q & O). destruct (quiet_forever _ _ _ R Q) as (Q2 & O2).
  split; [exact Q2|congruence].
Qed.
Print Assumptions C16_container_goroutine_stops.

Theorem C16_heap_manager_stops : forall s hl s1 evs s2 hl',
  step s (HM_END hl) = Some s1 -> run s1 evs = Some s2 -> step s2 (HM_END hl') = None.
Proof. exact end_once. Qed.
Print Assumptions C16_heap_manager_stops.

Theorem C16_actor_stops : forall s s1 evs s2,
  bev_step s Exit = Some s1 -> brun s1 evs = Some s2 -> bev_step s2 Exit = None.
Proof. exact exit_once. Qed.
Print Assumptions C16_actor_stops.

(* the error path too ends in a quiet container *)
Theorem C16_error_path_quiet : forall s s',
  step s CT_RENDERERR = Some s' -> PendIdle s -> Quiet s'.
Proof. intros s s' H P. exact (proj1 (rendererr_quiet _ _ H P)). Qed.
Print Assumptions C16_error_path_quiet.

(* from the source, regenerated on every run: the `go` statements of the library are exactly these thirteen,
   each with the reason it ends recorded next to it in GenChecks.expected_spawns; the service loops among
   them all watch a done channel *)
Theorem C16_spawn_table : spawns_eqb spawns expected_spawns = true.
Proof. exact spawn_table_as_expected. Qed.
Print Assumptions C16_spawn_table.

Theorem C16_service_loops_watch_done :
  forallb (fun rm => match find (fun g => String.eqb (g_recv g) (fst rm) && String.eqb (g_method g) (snd rm)) selects with
                     | Some g => has_done g | None => false end)
    [("Bar", "serve"); ("Bar", "tryEarlyRefresh"); ("Progress", "serve"); ("pState", "autoRefreshListener");
     ("pState", "manualRefreshListener")]%string = true.
Proof. exact service_loops_watch_done. Qed.
Print Assumptions C16_service_loops_watch_done.

(* non-vacuity: a cancelled run reaches a dead state *)
Example C16_nonvacuous :
  exists s, run (init_cst false false false)
    [CT_OP; CT_ADD 0 0 0 5 None None false false true 0 false; HM_PUSH 0 true 0 false 0;
     CL_CANCEL; BAR_EXIT 0 0 5 true; CT_DONE; HM_END 1; CT_EXIT] = Some s
  /\ ph s = Idle /\ out_pending s = false /\ ct_exited s = true /\ ended s = true /\ all_exited s = true.
Proof. eexists. vm_compute. repeat split. Qed.
