(* C16 placeholder *)
From MPB Require Import Base.
