(* C09 — Bar counters and completion follow the documented sequential rules.
   This file contains only statements closed by [exact] and their axioms. *)
From MPB Require Import Base BaseProofs BarState BarStateProofs.

(* increments and SetCurrent accumulate; Go's int64 wrap is explicit *)
Theorem C09_incr_accumulates : forall s n,
  (trig s = false \/ wrap64 (current s + n) < total s) ->
  fst (bapply s (IncrInt64 n)) = set_current s (wrap64 (current s + n)).
Proof. exact incr_accumulates. Qed.
Print Assumptions C09_incr_accumulates.

Theorem C09_wrap_faithful : forall s n, in_i64 (current s + n) -> wrap64 (current s + n) = current s + n.
Proof. exact incr_no_wrap. Qed.
Print Assumptions C09_wrap_faithful.

Theorem C09_ewma_incr_is_incr : forall s n d,
  fst (bapply s (EwmaIncrInt64 n d)) = fst (bapply s (IncrInt64 n)) /\
  snd (bapply s (EwmaIncrInt64 n d)) = OSample n d.
Proof. intros; split; [exact (ewma_incr_same_state s n d)|exact (ewma_incr_sample s n d)]. Qed.
Print Assumptions C09_ewma_incr_is_incr.

Theorem C09_setcurrent_sets : forall s c,
  0 <= c -> (trig s = false \/ c < total s) -> fst (bapply s (SetCurrent c)) = set_current s c.
Proof. exact setcurrent_sets. Qed.
Print Assumptions C09_setcurrent_sets.

Theorem C09_negative_setcurrent_ignored : forall s c,
  c < 0 -> bapply s (SetCurrent c) = (s, ONone) /\ forall d, bapply s (EwmaSetCurrent c d) = (s, ONone).
Proof. intros s c H; split; [exact (negative_setcurrent_ignored s c H)|intro d; exact (negative_ewma_setcurrent_ignored s c d H)]. Qed.
Print Assumptions C09_negative_setcurrent_ignored.

Theorem C09_ewma_setcurrent_is_setcurrent : forall s c d,
  fst (bapply s (EwmaSetCurrent c d)) = fst (bapply s (SetCurrent c)).
Proof. exact ewma_setcurrent_same_state. Qed.
Print Assumptions C09_ewma_setcurrent_is_setcurrent.

(* once triggering is enabled, current is capped at total and reaching it completes *)
Theorem C09_reach_completes_incr : forall s n,
  trig s = true -> aborted s = false -> total s <= wrap64 (current s + n) ->
  let s' := fst (bapply s (IncrInt64 n)) in
  current s' = total s /\ completed s' = true /\ total s' = total s.
Proof. exact reach_completes_incr. Qed.
Print Assumptions C09_reach_completes_incr.

Theorem C09_reach_completes_setcurrent : forall s c,
  trig s = true -> aborted s = false -> 0 <= c -> total s <= c ->
  let s' := fst (bapply s (SetCurrent c)) in current s' = total s /\ completed s' = true.
Proof. exact reach_completes_setcurrent. Qed.
Print Assumptions C09_reach_completes_setcurrent.

Theorem C09_capped_all_histories : forall t a r np evs s,
  brun (binit t a r np) evs = Some s -> capped s.
Proof. exact capped_all_histories. Qed.
Print Assumptions C09_capped_all_histories.

Theorem C09_enable_trigger : forall s,
  (trig s = true -> bapply s EnableTriggerComplete = (s, ONone)) /\
  (trig s = false -> aborted s = false -> total s <= current s ->
     let s' := fst (bapply s EnableTriggerComplete) in completed s' = true /\ current s' = total s) /\
  (trig s = false -> current s < total s -> fst (bapply s EnableTriggerComplete) = set_trig s).
Proof.
  intro s; split; [exact (enable_trigger_noop_when_trig s)|split;
    [exact (enable_trigger_reached s)|exact (enable_trigger_not_reached s)]].
Qed.
Print Assumptions C09_enable_trigger.

Theorem C09_settotal_complete_completes : forall s t,
  trig s = false -> aborted s = false ->
  let s' := fst (bapply s (SetTotal t true)) in
  completed s' = true /\ current s' = total s' /\ total s' = (if t <? 0 then current s else t).
Proof. exact settotal_complete_completes. Qed.
Print Assumptions C09_settotal_complete_completes.

(* a bar created with a non-positive total never completes through increments alone *)
Theorem C09_nonpositive_total_never_completes_by_incr : forall t a r np evs s,
  t <= 0 -> forallb incr_like evs = true -> brun (binit t a r np) evs = Some s ->
  completed s = false /\ trig s = false /\ total s = t.
Proof. exact nonpositive_total_never_completes_by_incr. Qed.
Print Assumptions C09_nonpositive_total_never_completes_by_incr.

(* SetTotal is ignored once triggering is enabled and adopts current for a negative total *)
Theorem C09_settotal_ignored_when_trig : forall s t c,
  trig s = true -> bapply s (SetTotal t c) = (s, ONone).
Proof. exact settotal_ignored_when_trig. Qed.
Print Assumptions C09_settotal_ignored_when_trig.

Theorem C09_settotal_sets : forall s t,
  trig s = false -> 0 <= t -> fst (bapply s (SetTotal t false)) = set_total s t.
Proof. exact settotal_sets. Qed.
Print Assumptions C09_settotal_sets.

Theorem C09_settotal_negative_adopts_current : forall s t c,
  trig s = false -> t < 0 -> total (fst (bapply s (SetTotal t c))) = current s.
Proof. exact settotal_negative_adopts_current. Qed.
Print Assumptions C09_settotal_negative_adopts_current.

(* Abort has no effect on a completed bar *)
Theorem C09_abort_noop_on_completed : forall s d, completed s = true -> bapply s (Abort d) = (s, ONone).
Proof. exact abort_noop_on_completed. Qed.
Print Assumptions C09_abort_noop_on_completed.

(* ... in particular not on its drop flag; and no operation but an Abort that takes effect ever touches that flag *)
Theorem C09_drop_flag_changes_only_by_an_effective_abort : forall s o,
  rm (fst (bapply s o)) <> rm s ->
  exists d, o = Abort d /\ aborted s = false /\ completed s = false /\ rm (fst (bapply s o)) = d.
Proof. exact rm_changes_only_by_effective_abort. Qed.
Print Assumptions C09_drop_flag_changes_only_by_an_effective_abort.

Theorem C09_abort_aborts : forall s d,
  aborted s = false -> completed s = false ->
  let s' := fst (bapply s (Abort d)) in
  aborted s' = true /\ rm s' = d /\ current s' = current s /\ total s' = total s.
Proof. exact abort_aborts. Qed.
Print Assumptions C09_abort_aborts.

(* a refill mark is capped at the current value when it is set *)
Theorem C09_refill_capped : forall s a,
  let s' := fst (bapply s (SetRefill a)) in
  refill s' = Z.min a (current s) /\ current s' = current s /\ total s' = total s.
Proof. exact refill_capped. Qed.
Print Assumptions C09_refill_capped.

(* getters return the state's values and change nothing *)
Theorem C09_getters : forall s,
  bapply s GetCurrent = (s, OInt (current s)) /\
  bapply s GetCompleted = (s, OBool (completed s)) /\
  bapply s GetAborted = (s, OBool (aborted s)).
Proof. intro s; repeat split. Qed.
Print Assumptions C09_getters.

(* non-vacuity: a concrete non-trivial history is accepted and meets the hypotheses *)
Example C09_nonvacuous :
  exists s, brun (binit 0 true false false)
     [Op (IncrInt64 60); Op (SetTotal 100 false); Op (IncrInt64 30); Op EnableTriggerComplete;
      Op (SetRefill 200); Op (IncrInt64 30); Render; Render; CtxCancel; Exit] = Some s
  /\ obs s = (100, true, false) /\ refill s = 90 /\ shutdown s = 2.
Proof. eexists; vm_compute; repeat split. Qed.
