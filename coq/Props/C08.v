(* C08 placeholder *)
From MPB Require Import Base.
