(* C08 — The filled part of a bar is proportional to progress and never moves
   backwards. Statements only; proofs in PercentProofs.v (through Flocq's
   correctness theorems for the binary64 operations the model executes).
   History: on the pinned tree the product width*current was taken in uint64
   and wrapped (50% of a total near 2^63 drew 0 cells); the statements below
   needed the hypothesis width*current < 2^64. /repo commit "fix: percentage no
   longer wraps for large current values" removed it. *)
From Coq Require Import ZArith Reals.
From Flocq Require Import Core.Core.
From MPB Require Import Base BaseProofs F64 Percent PercentProofs Filler FillerProofs.
Open Scope Z_scope.

(* zero when current is zero (or negative) or the total is not positive *)
Theorem C08_cells_zero : forall t c w,
  (t < 0 \/ c < 0 -> cells t c w = 0) /\ cells 0 c w = 0 /\
  (1 <= t < 2^63 -> 0 <= w < 2^63 -> cells t 0 w = 0).
Proof. intros t c w. split; [exact (cells_negative t c w)|split; [exact (cells_zero_total c w)|exact (cells_zero_current t w)]]. Qed.
Print Assumptions C08_cells_zero.

(* the full width when current has reached a positive total *)
Theorem C08_cells_full : forall t c w,
  1 <= t < 2^63 -> t <= c < 2^63 -> 0 <= w < 2^53 -> cells t c w = w.
Proof. exact cells_full. Qed.
Print Assumptions C08_cells_full.

(* always within the inner width: every int64 total and current, every width below 2^31 *)
Theorem C08_cells_range : forall t c w,
  0 <= t < 2^63 -> 0 <= c < 2^63 -> 0 <= w < 2^31 -> 0 <= cells t c w <= w.
Proof. exact cells_range. Qed.
Print Assumptions C08_cells_range.

(* never smaller for a larger current: all pairs current1 <= current2 *)
Theorem C08_cells_monotone : forall t c1 c2 w,
  0 <= t < 2^63 -> 0 <= c1 <= c2 -> c2 < 2^63 -> 0 <= w < 2^31 -> cells t c1 w <= cells t c2 w.
Proof. exact cells_monotone. Qed.
Print Assumptions C08_cells_monotone.

(* the value is Go's math.Round of the binary64 quotient float64(w)*float64(c)/float64(t) *)
Theorem C08_cells_is_rounded_quotient : forall t c w,
  1 <= t < 2^63 -> 0 <= c < t -> 0 <= w < 2^63 -> cells t c w = Znearest (Zle_bool 0) (quot t c w).
Proof. exact cells_eq_quot. Qed.
Print Assumptions C08_cells_is_rounded_quotient.

(* the refill segment never exceeds the filled segment *)
Theorem C08_refill_le_filled : forall t c r w,
  0 <= t < 2^63 -> 0 <= r <= c -> c < 2^63 -> 0 <= w < 2^31 -> cells t r w <= cells t c w.
Proof. exact refill_le_filled. Qed.
Print Assumptions C08_refill_le_filled.

(* filler + refiller + tip + padding + ellipsis cells add up to the inner width
   exactly: the filled segment is cells up to one component width *)
Theorem C08_segments_account_for_width : forall st width curw refw fc0 docur,
  0 <= fc0 <= width -> curw <= width -> refw <= width ->
  exists nf nr np ne, fill_counts st width curw refw fc0 docur = Some (nf, nr, np, ne)
    /\ 0 <= nf /\ 0 <= nr /\ 0 <= np /\ 0 <= ne
    /\ fc0 + nf * fw st + nr * rw st + np * pw st + ne = width
    /\ (docur = false -> nf = 0 /\ nr = 0)
    /\ (fc0 + nf * fw st <= Z.max fc0 curw)
    /\ (fc0 + nf * fw st + nr * rw st <= Z.max (Z.max fc0 curw) refw).
Proof. exact fill_counts_spec. Qed.
Print Assumptions C08_segments_account_for_width.

(* "rounded to the nearest cell": the count is within half a cell of the exact quotient width*current/total, plus the
   accumulated error of the five float64 roundings (relative 7*2^-53; less than two millionths of a cell for widths < 2^31) *)
Theorem C08_cells_nearest : forall t c w,
  1 <= t < 2^63 -> 0 <= c < t -> 0 <= w < 2^31 ->
  (Rabs (IZR (cells t c w) - IZR w * IZR c / IZR t) <= /2 + IZR w * IZR c / IZR t * (7 * eps))%R.
Proof. exact cells_nearest. Qed.
Print Assumptions C08_cells_nearest.

Theorem C08_cells_nearest_abs : forall t c w,
  1 <= t < 2^63 -> 0 <= c < t -> 0 <= w < 2^31 ->
  (Rabs (IZR (cells t c w) - IZR w * IZR c / IZR t) <= /2 + / 500000)%R.
Proof. exact cells_nearest_abs. Qed.
Print Assumptions C08_cells_nearest_abs.

Example C08_nonvacuous :
  cells 9223372036854775807 4611686018427387904 80 = 40 /\ cells 100 33 78 = 26 /\
  cells 3 1 2 = 1 /\ cells 8 1 100 = 13.
Proof. vm_compute. repeat split. Qed.
