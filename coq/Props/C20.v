(* C20 — Size, percentage, time and rate decorators print the true value.
   Statements over SizeFmt.v; proofs in SizeFmtProofs.v (the float facts through Flocq). *)
From Coq Require Import ZArith.
From Flocq Require Import Core.Core IEEE754.BinarySingleNaN.
From MPB Require Import Base BaseProofs F64 Percent PercentProofs SizeFmt SizeFmtProofs.
Open Scope Z_scope.

(* the largest unit that fits *)
Theorem C20_unit_is_largest_fitting_1024 : forall s, 0 <= s ->
  let i := pick_unit units1024 s in let u := nth i units1024 1 in
  (i = 0%nat \/ u <= s) /\ (i = 4%nat \/ s < nth (S i) units1024 1).
Proof. exact unit_is_largest_fitting_1024. Qed.
Print Assumptions C20_unit_is_largest_fitting_1024.

Theorem C20_unit_is_largest_fitting_1000 : forall s, 0 <= s ->
  let i := pick_unit units1000 s in let u := nth i units1000 1 in
  (i = 0%nat \/ u <= s) /\ (i = 4%nat \/ s < nth (S i) units1000 1).
Proof. exact unit_is_largest_fitting_1000. Qed.
Print Assumptions C20_unit_is_largest_fitting_1000.

(* the printed digits are the nearest decimal (ties to even) of the exact value of the float,
   within half a unit of the last printed digit *)
Theorem C20_printed_number_is_nearest : forall s m e H p n,
  0 <= p -> fixed_scaled (B754_finite s m e H) p = Some (s, n) ->
  (0 <= e -> n = Z.pos m * 2 ^ e * 10 ^ p) /\
  (e < 0 -> 2 * Z.abs (n * 2 ^ (- e) - Z.pos m * 10 ^ p) <= 2 ^ (- e)).
Proof. exact fmt_fixed_nearest. Qed.
Print Assumptions C20_printed_number_is_nearest.

(* never NaN, never an infinity: every int64 size gives a finite quotient, and finite floats always render *)
Theorem C20_size_quotient_finite : forall us s,
  (us = units1024 \/ us = units1000) -> 0 <= s < 2^63 -> is_finite (size_quotient us s) = true.
Proof. exact size_quotient_finite. Qed.
Print Assumptions C20_size_quotient_finite.

Theorem C20_finite_always_renders : forall x p, is_finite x = true -> fmt_fixed x p <> None.
Proof. exact fmt_fixed_total. Qed.
Print Assumptions C20_finite_always_renders.

(* hours, minutes and seconds of every duration under 60 hours *)
Theorem C20_hhmmss_exact : forall d, 0 <= d < 60 * ns_hour ->
  let '(h, m, s) := hms d in
  0 <= h < 60 /\ 0 <= m < 60 /\ 0 <= s < 60 /\ (h * 3600 + m * 60 + s) = d / ns_sec.
Proof. exact hhmmss_exact. Qed.
Print Assumptions C20_hhmmss_exact.

(* the estimators conserve time: for every sequence of samples, including n <= 0 and zero durations *)
Theorem C20_zdur_conserves_time : forall samples zdur,
  let '(zf, ds) := carry_run zdur samples in zf + sumZ ds = zdur + sumZ (map snd samples).
Proof. exact zdur_conserves_time. Qed.
Print Assumptions C20_zdur_conserves_time.

Theorem C20_zero_progress_never_divides : forall zdur n dur,
  n <= 0 -> ewma_update zdur n dur = (wrap64 (zdur + dur), None).
Proof. exact zero_progress_never_divides. Qed.
Print Assumptions C20_zero_progress_never_divides.

Theorem C20_positive_sample_always_delivered : forall zdur n dur,
  1 <= n < 2^63 -> 0 <= zdur + dur < 2^63 ->
  exists q, ewma_update zdur n dur = (0, Some q) /\ is_finite q = true /\ q = fdiv (of_Z (zdur + dur)) (of_Z n).
Proof. exact positive_sample_always_delivered. Qed.
Print Assumptions C20_positive_sample_always_delivered.

(* PARTIAL: the relative error of the float quotient itself (|float64(s)/float64(unit) - s/unit| <= 2^-52 s/unit)
   and the freezing of the wall-clock decorators (Elapsed, AverageSpeed) are not proved here; the first is
   covered for the percentage by C08's theorems, both are exercised by ./check C20. *)

Example C20_nonvacuous :
  size_format units1024 (3 * 1048576 + 100 * 1024) 0 (Some 2) true = Some (false, 3, 10, 2, 2%nat, true) /\
  size_format units1000 1500 2 None false = Some (false, 2, 0, 0, 1%nat, false) /\
  time_fields 1 (25 * ns_hour + 61 * ns_sec) = [25; 1; 1].
Proof. vm_compute. repeat split. Qed.
