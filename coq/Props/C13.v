(* C13 placeholder *)
From MPB Require Import Base.
