(* C13 — Text written through the container appears once, in order, above the bars.
   Statements over every event list accepted by Container.step; proofs in ContainerOut.v
   and ContainerLife.v.  [wlog] is the ghost log of the lines accepted by write closures
   (in the order the container goroutine ran them) while output was not being discarded.
   Modelled, not proved: the bytes of a line (the harness writes tagged lines and the
   driver turns each output line back into IText w seq line; partial lines, which the
   container buffers differently, are exercised by the c13 monitor on the byte stream). *)
From MPB Require Import Base BaseProofs BarState Container ContainerProofs ContainerLife ContainerOut Term.

(* accepted text = text already written ++ text waiting for the next frame: nothing is lost,
   duplicated or reordered, in any state of any run *)
Theorem C13_text_once_in_order : forall p a d evs s,
  run (init_cst p a d) evs = Some s -> delayed s = false ->
  texts (concat (rev (outframes s))) ++ texts (cwbuf s) = wlog s.
Proof. exact text_once_in_order. Qed.
Print Assumptions C13_text_once_in_order.

(* each Write call on the output is [cursor-up] text* row*: text is above the rows of the
   frame that carries it and never inside a row group *)
Theorem C13_text_above_rows : forall p a d evs s f,
  run (init_cst p a d) evs = Some s -> In f (outframes s) ->
  exists k txt rws, f = cuu_items k ++ txt ++ rws /\ all_text txt = true /\ all_row rws = true.
Proof. exact text_above_rows. Qed.
Print Assumptions C13_text_above_rows.

(* the log grows exactly by the lines of each write closure that runs *)
Theorem C13_write_logged : forall s s' w seq lines rest,
  step s CT_IO = Some s' -> pend_writes s = (w, seq, lines) :: rest -> delayed s = false ->
  wlog s' = wlog s ++ text_items w seq 0 (Z.to_nat lines).
Proof. exact write_logged. Qed.
Print Assumptions C13_write_logged.

(* after Wait returned no write closure runs and nothing reaches the output *)
Theorem C13_nothing_after_wait : forall s s1 evs s2,
  step s CT_EXIT = Some s1 -> run s1 evs = Some s2 -> outframes s2 = outframes s.
Proof. exact no_output_after_exit. Qed.
Print Assumptions C13_nothing_after_wait.

Theorem C13_no_write_closure_after_wait : forall s, Quiet s -> ct_exited s = true -> step s CT_IO = None.
Proof.
  intros s (P & O & _) X. unfold step, serving, is_idle. rewrite P, X. reflexivity.
Qed.
Print Assumptions C13_no_write_closure_after_wait.

(* "no later than the last frame written before Wait returns": with auto refresh and no render error, when the container
   goroutine returns every accepted line has been written and the writer's buffer holds no text (serve renders once more
   after done; nothing is accepted after done) *)
Theorem C13_all_text_written_when_wait_returns : forall p a d evs s s',
  run (init_cst p a d) evs = Some s -> step s CT_EXIT = Some s' ->
  auto_mode s = true -> errored s = false -> delayed s = false ->
  texts (concat (rev (outframes s'))) = wlog s' /\ texts (cwbuf s') = [].
Proof. exact all_text_written_at_exit. Qed.
Print Assumptions C13_all_text_written_when_wait_returns.

Example C13_nonvacuous :
  exists s, run (init_cst false true false)
    [CT_OP; CT_ADD 0 0 0 5 None None false false true 0 false; HM_PUSH 0 true 0 false 0;
     CL_WRITE 7 0 2; CL_WRITE 8 0 1; CT_IO; CT_IO;
     CT_RENDERBEGIN; HM_SYNC 1 true 0; HM_ITERREQ true 1; CT_RENDERSIZE 80 24;
     BAR_RENDER 0 0 5 0 false false 0; BAR_OP 0 0 5 0 true false false 0; HM_POP 0 0;
     CT_FLUSHBAR 0 0 1 false false false; CT_FRAME 1 0;
     OUT [IText 7 0 0; IText 7 0 1; IText 8 0 0; IRow 0 0 5 false false]] = Some s
  /\ wlog s = [IText 7 0 0; IText 7 0 1; IText 8 0 0] /\ delayed s = false.
Proof. eexists. vm_compute. repeat split. Qed.
