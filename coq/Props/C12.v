(* C12 — Width-synchronised decorators line up in every frame.
   The rendezvous of one cycle (Sync.v): for every layout — any number of bars,
   any number of synchronised decorators per bar and side — and every
   interleaving. Proofs in SyncProofs.v, DecorProofs.v. *)
From Coq Require Import Arith ZArith.
From MPB Require Import Base Sync SyncProofs Filler Decor DecorProofs BarState Container ContainerProofs ContainerMatrix.

(* all decorators of one column are given one common width ... *)
Theorem C12_column_common_width : forall c i j, colof c i = colof c j -> answer_of c i = answer_of c j.
Proof. exact column_common_width. Qed.
Print Assumptions C12_column_common_width.

(* ... which is at least what each of them needs (minimum width and extra space included) ... *)
Theorem C12_column_width_covers_every_member : forall c i j,
  (i < nch c)%nat -> (j < nch c)%nat -> colof c j = colof c i -> (need c j <= answer_of c i)%Z.
Proof. exact answer_is_column_max. Qed.
Print Assumptions C12_column_width_covers_every_member.

(* ... and not larger than the largest need (or 0, the distributor's initial value) *)
Theorem C12_column_width_is_attained : forall c i,
  answer_of c i = 0%Z \/ exists j, (j < nch c)%nat /\ colof c j = colof c i /\ answer_of c i = need c j.
Proof. exact answer_attained. Qed.
Print Assumptions C12_column_width_is_attained.

(* the exchange cannot get stuck, whatever the interleaving of bars and distributors *)
Theorem C12_rendezvous_never_stuck : forall c acts s,
  wf c -> srun c init_ph acts = Some s -> (forall a, sstep c s a = None) ->
  forall i, (i < nch c)%nat -> s i = 2%nat.
Proof. exact sync_no_stuck. Qed.
Print Assumptions C12_rendezvous_never_stuck.

Theorem C12_rendezvous_progress : forall c s,
  wf c -> SInv c s -> (exists i, (i < nch c)%nat /\ s i <> 2%nat) -> exists a s', sstep c s a = Some s'.
Proof. exact sync_progress. Qed.
Print Assumptions C12_rendezvous_progress.

(* it takes exactly two rendezvous per channel *)
Theorem C12_rendezvous_terminates : forall c acts s,
  wf c -> srun c init_ph acts = Some s -> (length acts + remaining (nch c) s = 2 * nch c)%nat.
Proof. exact sync_steps_bounded. Qed.
Print Assumptions C12_rendezvous_terminates.

(* every decorator tree performs exactly one exchange per render, completed or not, aborted or not *)
Theorem C12_one_exchange_per_render : forall d completed aborted, dformats d completed aborted = 1%nat.
Proof. exact decor_one_format. Qed.
Print Assumptions C12_one_exchange_per_render.

(* the text is padded to exactly the column width it was given *)
Theorem C12_padded_to_column_width : forall c t colmax,
  (need_width c t <= colmax)%Z -> segs_width (pad_to c t colmax) = colmax.
Proof. exact format_width_true_synced. Qed.
Print Assumptions C12_padded_to_column_width.

(* non-vacuity: 3 bars with 2+1, 1+1 and 2+0 synchronised decorators *)
(* the columns are built from exactly the bars that render in the cycle: once a cycle's sync request has been
   served, the heap manager's matrices (rebuilt only when a push asked for it or the heap length changed) come from
   exactly the bars in the heap, for every accepted trace of the container *)
Theorem C12_matrices_never_stale : forall p a d evs s hl cs cl s',
  run (init_cst p a d) evs = Some s -> step s (HM_SYNC hl cs cl) = Some s' ->
  forall x, cnt x (matrix s') = cnt x (heap s').
Proof. exact matrix_fresh_after_sync. Qed.
Print Assumptions C12_matrices_never_stale.

Example C12_nonvacuous :
  let c := mkCfg 7 (fun i => match i with 0|1|2 => 0 | 3|4 => 1 | _ => 2 end)%nat
                   (fun ch => match ch with 0 | 3 | 5 => 0 | 1 | 6 => 1 | _ => 2 end)%nat
                   (fun ch => (Z.of_nat ch + 3)%Z) in
  let '(s, k) := exec c init_ph 100 in
  finished c s = true /\ k = 14%nat /\ map (answer_of c) (seq 0 7) = [5; 5; 5; 7; 7; 9; 9]%Z.
Proof. vm_compute. repeat split. Qed.
