(* C07 placeholder *)
From MPB Require Import Base.
