(* C07 — A rendered row never exceeds its width, and rendering always
   terminates. Statements only; proofs in FillerProofs.v / DecorProofs.v.
   History: on the pinned tree fill_bar returned None (the Go loop did not
   terminate) for a zero-width filler/refiller/padding, and a tip wider than
   the inner width overflowed; repaired by two "fix:" commits in /repo. *)
From MPB Require Import Base BaseProofs F64 Percent PercentProofs Filler FillerProofs Decor DecorProofs.

(* rendering terminates: for every style (zero-width and empty components
   included), every width and every progress value *)
Theorem C07_fill_bar_terminates : forall st tc s, fill_bar st tc s <> None.
Proof. exact fill_bar_terminates. Qed.
Print Assumptions C07_fill_bar_terminates.

Theorem C07_loops_terminate : forall cw lim fc, run_loop cw lim fc <> None.
Proof. exact run_loop_total. Qed.
Print Assumptions C07_loops_terminate.

(* nothing is drawn when the brackets do not fit *)
Theorem C07_nothing_when_too_narrow : forall st tc s,
  inner_width st s < 0 -> fill_bar st tc s = Some ([], tc).
Proof. exact fill_bar_nothing_when_too_narrow. Qed.
Print Assumptions C07_nothing_when_too_narrow.

(* when the bar body is drawn it occupies exactly the width allotted to it *)
Theorem C07_fill_bar_exact_width : forall st tc s out tc',
  0 <= inner_width st s < 2^31 ->
  0 <= s_total s < 2^63 -> 0 <= s_current s < 2^63 -> 0 <= s_refill s < 2^63 ->
  Forall (fun t => 0 <= t) (tips st) ->
  fill_bar st tc s = Some (out, tc') ->
  segs_width out = check_requested_width (req s) (avail s).
Proof.
  intros st tc s out tc' Hw Ht Hc Hr Htips E.
  rewrite (fill_bar_width st tc s out tc'); auto; try lia.
  - unfold inner_width. lia.
  - apply cells_range; lia.
  - apply cells_range; lia.
Qed.
Print Assumptions C07_fill_bar_exact_width.

Theorem C07_fill_bar_exact_width_any_cells : forall st tc s out tc',
  0 <= inner_width st s ->
  0 <= cells (s_total s) (s_current s) (inner_width st s) <= inner_width st s ->
  0 <= cells (s_total s) (s_refill s) (inner_width st s) ->
  Forall (fun t => 0 <= t) (tips st) ->
  fill_bar st tc s = Some (out, tc') ->
  segs_width out = lb st + inner_width st s + rb st.
Proof. exact fill_bar_width. Qed.
Print Assumptions C07_fill_bar_exact_width_any_cells.

Theorem C07_spinner_width : forall st count s,
  Forall (fun t => 0 <= t) (frames st) ->
  let width := check_requested_width (req s) (avail s) in
  let out := fst (fill_spinner st count s) in
  segs_width out = 0 \/ segs_width out = width.
Proof. exact fill_spinner_width. Qed.
Print Assumptions C07_spinner_width.

(* every built-in decorator (every wrapper tree over WC.Format) reports a width
   equal to the display width of the text it returns *)
Theorem C07_format_width_true : forall d completed aborted,
  let '(txt, wd) := decor_plain d completed aborted in segs_width txt = wd.
Proof. exact format_width_true. Qed.
Print Assumptions C07_format_width_true.

Theorem C07_format_width_true_synced : forall c t colmax,
  need_width c t <= colmax -> segs_width (pad_to c t colmax) = colmax.
Proof. exact format_width_true_synced. Qed.
Print Assumptions C07_format_width_true_synced.

(* a decorator that does not fit is cut (with an ellipsis) to the remaining width *)
Theorem C07_truncate_le : forall t wd, wf_text t -> 0 < wd -> segs_width (truncate t wd) <= wd.
Proof. exact truncate_le. Qed.
Print Assumptions C07_truncate_le.

(* the row is at most the terminal width, for every terminal width, every list
   of width-honest decorators and every filler that respects the width offered *)
Theorem C07_draw_width_le : forall A tw pre apd trim (filler : Z -> option (text * A)) row st,
  0 <= tw -> honest pre -> honest apd -> polite filler ->
  draw tw pre apd trim filler = Some (row, st) -> segs_width row <= tw.
Proof. intros A. exact (@draw_width_le A). Qed.
Print Assumptions C07_draw_width_le.

Example C07_nonvacuous :
  exists out, fill_bar (mkStyle 1 1 0 2 0 [3; 1] true true) 4 (mkStat 9 0 100 50 20 false false) = Some (out, 5)
    /\ segs_width out = 9.
Proof. eexists; vm_compute; split; reflexivity. Qed.
