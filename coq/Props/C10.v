(* C10 — Concurrent bar operations are atomic and the library is free of data races.
   The sequential rules are BarState.bapply.  Actor.v says what a linearization of a
   concurrent history is and gives an executable checker for one; the harness records
   concurrent histories of the real code (family "conc": 2-4 goroutines on one bar,
   renders in between, completion / abort / shutdown landing anywhere) and every history
   must have a linearization that this checker accepts.
   Not a theorem: freedom from data races is a property of the compiled program's memory
   accesses; it is decided by running the same family under the Go race detector.
   History: on the pinned tree Bar.Completed on a bar that had shut down copied the whole
   published state while the container goroutine was rendering that bar (value receiver of
   bState.completed); repaired by "fix: Completed no longer races with the rendering of a
   bar that has shut down". *)
From Coq Require Import Permutation.
From MPB Require Import Base BaseProofs BarState BarStateProofs Actor ActorProofs.

(* a certificate accepted by the checker is a linearization: every call exactly once, in an order that
   respects real time, forming a run of the sequential object *)
Theorem C10_checker_sound : forall h s0 cert, check_lin h s0 cert = true -> linearizable h s0.
Proof. exact check_lin_sound. Qed.
Print Assumptions C10_checker_sound.

(* at quiescence Current is the capped sum of the increments, in whatever order the actor received them *)
Theorem C10_quiescent_current_is_capped_sum : forall ns ns' s,
  Permutation ns ns' ->
  Forall (fun n => 0 <= n) ns -> in_i64 (current s + sumZ ns) -> 0 <= current s ->
  aborted s = false -> capped s ->
  let s' := fold_left (fun st n => fst (bapply st (IncrInt64 n))) ns' s in
  current s' = (if trig s then Z.min (total s) (current s + sumZ ns) else current s + sumZ ns) /\
  total s' = total s /\ trig s' = trig s.
Proof. exact quiescent_current_is_capped_sum. Qed.
Print Assumptions C10_quiescent_current_is_capped_sum.

(* no update is lost: a live bar (context not done) executes every call that is linearized *)
Theorem C10_live_bar_executes_every_call : forall s o d s' out,
  spec_op s o d = Some (s', out) -> exited s = false -> cancelled s = false -> d = false /\ (s', out) = bapply s o.
Proof. exact spec_op_live. Qed.
Print Assumptions C10_live_bar_executes_every_call.

(* getters never change the state, whenever they are served *)
Theorem C10_getters_pure : forall s o, is_getter o = true -> fst (bapply s o) = s.
Proof. exact getters_pure. Qed.
Print Assumptions C10_getters_pure.

(* non-vacuity: a two-client history with overlapping calls and its certificate *)
Example C10_nonvacuous :
  check_lin
    [mkHop 0 1 4 (HOp (IncrInt64 3)) ONone; mkHop 1 2 3 (HOp (IncrInt64 4)) ONone;
     mkHop 1 5 6 (HOp GetCurrent) (OInt 7); mkHop 0 7 8 HShutdown ONone; mkHop 0 9 10 (HOp GetAborted) (OBool true)]
    (binit 10 true false false)
    [LOp 1 false; LOp 0 false; LOp 2 false; LOp 3 false; LOp 4 false] = true
  /\ check_lin
    [mkHop 0 1 2 (HOp (IncrInt64 3)) ONone; mkHop 1 3 4 (HOp GetCurrent) (OInt 0)]
    (binit 10 true false false) [LOp 1 false; LOp 0 false] = false.
Proof. vm_compute. split; reflexivity. Qed.
