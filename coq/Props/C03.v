(* C03 — The last frame shows every bar in its final state.
   Statements over Container.step (the acceptor the hook traces are replayed on);
   proofs in ContainerFlush.v, ContainerLife.v, ContainerProofs.v.
   What is proved: the rows of a frame carry the snapshot taken by the render closure;
   a bar is cancelled by flush only after a frame that already showed it terminal;
   every bar of the heap is in the frame exactly once; removed bars leave for good; and
   nothing is written after Wait returned; in auto refresh mode the container goroutine
   cannot return before a whole cycle has ended after it saw done (or an error is
   latched).  That every bar is terminal by then is Wait's own contract (it waits for the
   bars first); the c03 monitor checks the content of that last frame on every trace.
   History (D9): on the pinned tree a bar whose actor was busy when the container was
   cancelled could run the shutdown frame's render closure before its ctx.Done branch
   and was drawn running in the last frame; /repo "fix: a bar stopped by context
   cancellation is drawn aborted in the frames that follow" marks it aborted in the
   render closure, which Container.step's BAR_RENDER rule follows. *)
From Coq Require Import Permutation.
From MPB Require Import Base BaseProofs BarState BarStateProofs Container ContainerProofs ContainerLife ContainerFlush ContainerCover.

Theorem C03_no_output_after_wait : forall s s1 evs s2,
  step s CT_EXIT = Some s1 -> run s1 evs = Some s2 -> outframes s2 = outframes s.
Proof. exact no_output_after_exit. Qed.
Print Assumptions C03_no_output_after_wait.

Theorem C03_row_is_render_snapshot : forall r cur tot ref ab comp sh r',
  bar_render r cur tot ref ab comp sh = Some r' ->
  exists fi, br_frame r' = Some fi /\
    fi_cur fi = current (br_st r) /\ fi_total fi = total (br_st r) /\
    fi_completed fi = completed (br_st r) /\ fi_aborted fi = aborted (br_st r) /\
    (terminal (br_st r) = true -> fi_shutdown fi = shutdown (br_st r) /\ shutdown (br_st r') = shutdown (br_st r) + 1) /\
    (terminal (br_st r) = false -> br_st r' = br_st r).
Proof. exact render_snapshots. Qed.
Print Assumptions C03_row_is_render_snapshot.

Theorem C03_frame_rows_come_from_the_snapshot : forall s b sh nrows rmf np s',
  step s (CT_FLUSHBAR b sh nrows rmf np false) = Some s' -> cycle_err s = false ->
  exists r fi wd ht rows n pc pushes taken pc' pushes',
    ph s = Rendering wd ht rows n pc pushes /\ lookup b (bars s) = Some r /\ br_frame r = Some fi /\
    ph s' = Rendering wd ht (rows ++ taken) (n + Z.of_nat (length taken)) pc' pushes' /\
    (forall x, In x taken -> In x (bar_rows b r fi)).
Proof. exact flush_rows. Qed.
Print Assumptions C03_frame_rows_come_from_the_snapshot.

Theorem C03_cancelled_only_after_a_terminal_frame : forall s b sh nrows rmf np s' r1 r1',
  step s (CT_FLUSHBAR b sh nrows rmf np false) = Some s' -> cycle_err s = false ->
  lookup b (bars s) = Some r1 -> lookup b (bars s') = Some r1' ->
  BarState.cancelled (br_st r1') = true -> BarState.cancelled (br_st r1) = true \/ sh = 1.
Proof. exact flush_cancels_after_terminal_frame. Qed.
Print Assumptions C03_cancelled_only_after_a_terminal_frame.

(* each bar of the heap exactly once in a frame (shared with C05) *)
Theorem C03_every_bar_once : forall p a d evs s n pc s',
  run (init_cst p a d) evs = Some s -> step s (CT_FRAME n pc) = Some s' ->
  forall x, cnt x (cycle_flushed s) = cnt x (iter_heap s).
Proof. exact frame_bars_are_iter_heap. Qed.
Print Assumptions C03_every_bar_once.

(* a bar that left (removed on completion, popped out, replaced by its successor) is never drawn again *)
Theorem C03_removed_bars_absent : forall p a d evs s b sh nrows rmf np err,
  run (init_cst p a d) evs = Some s -> In b (retired s) -> step s (CT_FLUSHBAR b sh nrows rmf np err) = None.
Proof. exact retired_never_flushed. Qed.
Print Assumptions C03_removed_bars_absent.

(* auto refresh: the container goroutine returns only after a whole cycle has ended since it saw done (the
   shutdown frame), unless a render error is latched *)
Theorem C03_shutdown_frame_before_return : forall s s',
  step s CT_EXIT = Some s' -> auto_mode s = true -> errored s = false -> final_done s = true /\ done_seen s = true.
Proof.
  intros s s'. unfold step. destruct (done_seen s && is_idle s && _) eqn:G; [|discriminate]. intros _ A E.
  apply andb_prop in G as [G1 G]. apply andb_prop in G1 as [D _]. rewrite A, E in G. cbn in G. rewrite orb_false_r in G. auto.
Qed.
Print Assumptions C03_shutdown_frame_before_return.

(* the shutdown loop of an auto-refresh container: after every frame it asks the heap manager whether a bar joined (with a sync
   request) or the number of bars changed during that frame; it renders again on "yes" and ends only on "no" — and then the bars
   left in the container are exactly the bars of the last frame's iteration: bars set to be removed are absent from the last
   frame, no bar that stays is missing from it *)
Theorem C03_no_end_while_the_bar_set_changed : forall p a d evs s hl s',
  run (init_cst p a d) evs = Some s -> step s (HM_END hl) = Some s' ->
  state_answer s <> Some true /\
  (state_answer s = Some false -> forall x, cnt x (heap s') = cnt x (iter_heap s')).
Proof. exact container_ends_on_the_last_frames_set. Qed.
Print Assumptions C03_no_end_while_the_bar_set_changed.

Theorem C03_answer_no_means_the_last_frame_is_final : forall p a d evs s hl cs cl s',
  run (init_cst p a d) evs = Some s -> step s (HM_STATE hl cs cl) = Some s' -> state_answer s' = Some false ->
  forall x, cnt x (heap s') = cnt x (iter_heap s').
Proof. exact last_frame_shows_the_final_set. Qed.
Print Assumptions C03_answer_no_means_the_last_frame_is_final.

(* non-vacuity: a bar completes, is shown completed twice, the container is done and exits *)

(* whether a finished bar is in the last frame is decided when it finishes: no call that arrives later — a late Abort(true) on a
   completed bar, say — changes its drop flag *)
Theorem C03_finished_bar_keeps_its_drop_flag : forall s o, terminal s = true -> rm (fst (bapply s o)) = rm s.
Proof. exact rm_stable_once_finished. Qed.
Print Assumptions C03_finished_bar_keeps_its_drop_flag.

Example C03_nonvacuous :
  exists s, run (init_cst false true false)
    [CT_OP; CT_ADD 0 0 0 2 None None false false true 0 false; HM_PUSH 0 true 0 false 0;
     CL_OP 0 (IncrInt64 2); BAR_OP 0 2 2 0 true false false 0;
     CT_RENDERBEGIN; HM_SYNC 1 true 0; HM_ITERREQ true 1; CT_RENDERSIZE 80 24;
     BAR_RENDER 0 2 2 0 false true 0; BAR_OP 0 2 2 0 true false false 1; HM_POP 0 0;
     CT_FLUSHBAR 0 0 1 false false false; CT_FRAME 1 0; OUT [IRow 0 2 2 true false];
     HM_PUSH 0 false 0 false 1;
     CT_RENDERBEGIN; HM_SYNC 1 false 1; HM_ITERREQ true 1; CT_RENDERSIZE 80 24;
     BAR_RENDER 0 2 2 0 false true 1; BAR_OP 0 2 2 0 true false false 2; HM_POP 0 0;
     CT_FLUSHBAR 0 1 1 false false false; CT_FRAME 1 0; OUT [ICuu 1; IRow 0 2 2 true false];
     HM_PUSH 0 false 0 false 1; BAR_EXIT 0 2 2 false;
     CT_DONE;
     (* auto refresh: the shutdown cycle, rendered by the container goroutine itself for the exited bar *)
     CT_RENDERBEGIN; HM_SYNC 1 false 1; HM_ITERREQ true 1; CT_RENDERSIZE 80 24;
     BAR_RENDER 0 2 2 0 false true 2; HM_POP 0 0;
     CT_FLUSHBAR 0 2 1 false false false; CT_FRAME 1 0; OUT [ICuu 1; IRow 0 2 2 true false];
     HM_PUSH 0 false 0 false 1;
     HM_STATE 1 false 1; HM_END 1; CT_EXIT; FINAL 0 2 true false false] = Some s
  /\ ct_exited s = true /\ length (outframes s) = 3%nat.
Proof. eexists. vm_compute. repeat split. Qed.
