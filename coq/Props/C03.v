(* C03 placeholder *)
From MPB Require Import Base.
