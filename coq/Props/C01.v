(* C01 — Wait returns once every bar has finished: no deadlock under any schedule.
   What is proved, over every event list accepted by Container.step (the acceptor the
   hook traces of the real code are replayed on) and over the width-sync protocol of
   Sync.v: no reachable state inside a render cycle is wedged, the width exchange always
   has an enabled step until every cell is answered and ends within 2n steps, a frame
   handed to the writer is written, a cancelled actor can exit, a done container can
   return; and (GenChecks, regenerated from source) every select through which a client
   or a bar hands work over has a done clause.
   Not proved: that the Go scheduler runs the enabled step (fairness), and Wait's own
   body (two WaitGroups).  The harness decides hangs on every scenario of every family
   with a timeout, under scheduling perturbation at the hook points.
   History: the pinned tree could wedge in two ways, both found by these checks and
   repaired: detached heap-push goroutines overtaken by shutdown ("fix: heap pushes
   never overtaken...") and bars stranded in width sync after a render error ("fix: a
   render error no longer strands bars..."). *)
From MPB Require Import Base BaseProofs BarState Container ContainerProofs ContainerLife ContainerProgress ContainerMeasure ContainerMatrix Sync SyncProofs GenChecks GenWaitGroup WaitGroup WaitGroupProofs.
From MPB.gen Require Import GenApi.
From Coq Require Import String.
Open Scope string_scope.
Open Scope nat_scope.

(* inside a cycle some goroutine of the library always has a step: nothing waits on something that cannot happen *)
Theorem C01_cycle_never_wedged : forall p a d evs s,
  run (init_cst p a d) evs = Some s -> ph s <> Idle ->
  exists e, client_event e = false /\ enabled s e.
Proof. exact cycle_progress. Qed.
Print Assumptions C01_cycle_never_wedged.

(* ... and a cycle ends: each step of the heap manager, of flush, of a bar's render or exit strictly decreases the
   measure [mu] (5 per queued request, 4 per bar in the heap, 3 per bar popped, 2 per bar not yet rendered, 1 per
   pending closure / live actor); nothing else inside the cycle increases it unless the client adds work.  With
   [C01_cycle_never_wedged] a fairly scheduled cycle therefore reaches its frame (or its error) *)
Theorem C01_cycle_is_bounded : forall evs s s',
  rendering s = true -> forallb (fun e => negb (adds_work e)) evs = true -> run_in_cycle s evs = Some s' ->
  (List.length (filter cycle_step evs) + mu s' <= mu s)%nat.
Proof. exact cycle_bounded. Qed.
Print Assumptions C01_cycle_is_bounded.

(* the bookkeeping behind it holds in every reachable state: requests are taken in order, pops happen only
   with an empty request queue, nothing is sent once the heap manager was told to end *)
Theorem C01_flow : forall p a d evs s, run (init_cst p a d) evs = Some s -> Flow s.
Proof. intros p a d evs s R. exact (pi_flow _ (reachable_PInv _ _ _ _ _ R)). Qed.
Print Assumptions C01_flow.

(* width synchronisation: while a cell is unanswered some step is enabled ... *)
Theorem C01_width_sync_progress : forall c s,
  wf c -> SInv c s -> (exists i, i < nch c /\ s i <> 2) -> exists a s', sstep c s a = Some s'.
Proof. exact sync_progress. Qed.
Print Assumptions C01_width_sync_progress.

(* the exchange is among the bars of the cycle: the cached matrices are never stale (a stale column waits on a
   departed bar's channel for ever) *)
Theorem C01_width_sync_matrices_never_stale : forall p a d evs s hl cs cl s',
  run (init_cst p a d) evs = Some s -> step s (HM_SYNC hl cs cl) = Some s' ->
  forall x, cnt x (matrix s') = cnt x (heap s').
Proof. exact matrix_fresh_after_sync. Qed.
Print Assumptions C01_width_sync_matrices_never_stale.

(* ... every interleaving uses exactly 2n steps ... *)
Theorem C01_width_sync_bounded : forall c acts s,
  wf c -> srun c init_ph acts = Some s -> List.length acts + remaining (nch c) s = 2 * nch c.
Proof. exact sync_steps_bounded. Qed.
Print Assumptions C01_width_sync_bounded.

(* ... and a state with nothing enabled is the finished state *)
Theorem C01_width_sync_never_stuck : forall c acts s,
  wf c -> srun c init_ph acts = Some s ->
  (forall a, sstep c s a = None) -> forall i, i < nch c -> s i = 2.
Proof. exact sync_no_stuck. Qed.
Print Assumptions C01_width_sync_never_stuck.

Theorem C01_pending_frame_is_written : forall s, out_pending s = true -> outframes s <> [] -> exists f, enabled s (OUT f).
Proof. exact pending_frame_is_written. Qed.
Print Assumptions C01_pending_frame_is_written.

Theorem C01_cancelled_actor_exits : forall s b r,
  lookup b (bars s) = Some r -> exited (br_st r) = false -> (cancelled s = true \/ BarState.cancelled (br_st r) = true) ->
  exists cur tot ab, enabled s (BAR_EXIT b cur tot ab).
Proof. exact cancelled_actor_exits. Qed.
Print Assumptions C01_cancelled_actor_exits.

Theorem C01_done_container_returns : forall s, done_seen s = true -> is_idle s = true ->
  (auto_mode s = false \/ final_done s = true \/ errored s = true) -> enabled s CT_EXIT.
Proof. exact done_container_returns. Qed.
Print Assumptions C01_done_container_returns.

(* from the source, regenerated on every run: no call can block for ever on a receiver that is gone *)
Theorem C01_every_handover_has_a_way_out : forall g,
  In g selects -> has_send g = true -> can_proceed late g = true.
Proof. exact late_call_cannot_block. Qed.
Print Assumptions C01_every_handover_has_a_way_out.

Theorem C01_service_loops_watch_done :
  forallb (fun rm => match find (fun g => String.eqb (g_recv g) (fst rm) && String.eqb (g_method g) (snd rm)) selects with
                     | Some g => has_done g | None => false end)
    [("Bar", "serve"); ("Bar", "tryEarlyRefresh"); ("Progress", "serve"); ("pState", "autoRefreshListener");
     ("pState", "manualRefreshListener")]%string = true.
Proof. exact service_loops_watch_done. Qed.
Print Assumptions C01_service_loops_watch_done.

(* ---- the counter Progress.Wait blocks on (bar_wait_group.go; WaitGroup.v, tied to the code by the differential wg family) ---- *)
(* whenever the count is zero after ANY sequence of Add / Done / Wait calls and scheduler steps, nobody sleeps un-notified, and
   once the notified waiters have run, EVERY Wait call made so far has returned: no wake-up is lost, also when Add races with Wait *)
Theorem C01_zero_count_releases_every_waiter : forall ops,
  let g := wg_run wg_init ops in
  wcount g = 0%Z ->
  asleep g = [] /\
  let g' := settle (List.length (woken g)) g in
  woken g' = [] /\ asleep g' = [] /\ forall t, In (WWait t) ops -> In t (returned g').
Proof. exact zero_count_releases_every_waiter. Qed.
Print Assumptions C01_zero_count_releases_every_waiter.

(* a Wait returns only in a state whose count is zero (the count being the sum of the deltas), by the waiter's own step *)
Theorem C01_wait_returns_only_at_zero : forall g o t,
  In t (returned (wg_step g o)) -> In t (returned g) \/ (wcount g = 0%Z /\ (o = WWait t \/ o = WResume t)).
Proof. exact returns_only_at_zero. Qed.
Print Assumptions C01_wait_returns_only_at_zero.

(* from the source, regenerated on every run: the model's atomic steps are the code's critical sections, the broadcast condition and
   the re-check loop are the ones modelled *)
Theorem C01_wait_group_as_modelled :
  gen_wait_group = [("Add first", "g.mu.Lock()"); ("Wait first", "g.mu.Lock()");
                    ("Add Broadcast", "if g.n == 0 && g.zero != nil"); ("Wait Wait", "for g.n != 0")]%string.
Proof. exact wait_group_as_modelled. Qed.
Print Assumptions C01_wait_group_as_modelled.

Theorem C01_count_is_sum_of_deltas : forall ops g,
  wcount (wg_run g ops) = (wcount g + fold_right (fun o a => delta o + a) 0 ops)%Z.
Proof. exact run_count. Qed.
Print Assumptions C01_count_is_sum_of_deltas.

(* non-vacuity: a state in the middle of a cycle, with a bar popped and not yet rendered *)
Example C01_nonvacuous :
  exists s, run (init_cst false true false)
    [CT_OP; CT_ADD 0 0 0 5 None None false false true 0 false; HM_PUSH 0 true 0 false 0;
     CT_RENDERBEGIN; HM_SYNC 1 true 0; HM_ITERREQ true 1; HM_POP 0 0] = Some s
  /\ ph s <> Idle /\ popped s = [0%Z] /\ enabled s (BAR_RENDER 0 0 5 0 false false 0).
Proof. eexists. split; [vm_compute; reflexivity|]. repeat split; try discriminate. Qed.
