(* C18 — Pop-completed mode leaves each finished bar on screen exactly once.
   Statements over Container.step; proofs in ContainerFlush.v, ContainerOut.v, ContainerProofs.v.
   progress.go flush: on the frame with shutdown = 1 a finished bar gets the next pop
   priority (below every priority the container hands out) and goes back to the heap; on
   the frame with shutdown = 2 its rows are counted in popCount — the writer moves the
   cursor up by rows - popCount only, so those rows are never overwritten — and the bar is
   not pushed back. *)
From Coq Require Import Sorted.
From MPB Require Import Base BaseProofs BarState Container ContainerProofs ContainerFlush ContainerOut Term.

Theorem C18_finished_bar_gets_next_pop_priority : forall s b nrows rmf s',
  step s (CT_FLUSHBAR b 1 nrows rmf false false) = Some s' -> cycle_err s = false ->
  successors b (queue s) = [] -> pop_mode s = true ->
  prio_of s' b = pop_prio s /\ pop_prio s' = pop_prio s + 1 /\
  (exists wd ht rows n pc pushes rows' n',
      ph s = Rendering wd ht rows n pc pushes /\ ph s' = Rendering wd ht rows' n' pc (pushes ++ [(b, false)])) /\
  retired s' = retired s.
Proof. exact flush_pop_assign. Qed.
Print Assumptions C18_finished_bar_gets_next_pop_priority.

(* drawn once more at its new place, then out of rendering for good; its rows are excluded from the
   cursor-up of the next frame *)
Theorem C18_popped_bar_leaves_rendering : forall s b nrows rmf s',
  step s (CT_FLUSHBAR b 2 nrows rmf false false) = Some s' -> cycle_err s = false -> pop_mode s = true ->
  In b (retired s') /\
  (exists wd ht rows n pc pushes taken used,
      ph s = Rendering wd ht rows n pc pushes /\ ph s' = Rendering wd ht (rows ++ taken) (n + used) (pc + used) pushes) /\
  pop_prio s' = pop_prio s.
Proof. exact flush_pop_retire. Qed.
Print Assumptions C18_popped_bar_leaves_rendering.

Theorem C18_popped_bar_never_drawn_again : forall p a d evs s b sh nrows rmf np err,
  run (init_cst p a d) evs = Some s -> In b (retired s) -> step s (CT_FLUSHBAR b sh nrows rmf np err) = None.
Proof. exact retired_never_flushed. Qed.
Print Assumptions C18_popped_bar_never_drawn_again.

(* the popped rows stay: the next frame rewrites only the last rows - popCount lines (with C04) *)
Theorem C18_popped_rows_persist : forall p a d evs s n pc s',
  run (init_cst p a d) evs = Some s -> step s (CT_FRAME n pc) = Some s' -> delayed s = false -> outframes s' <> outframes s ->
  exists hist lv txt rows,
    screen s = hist ++ lv /\ all_text txt = true /\ all_row rows = true /\ Z.of_nat (length rows) = n /\
    screen s' = hist ++ txt ++ rows /\
    cwbuf s' = cuu_items (Z.max 0 (n - pc)) /\ 0 <= pc <= n.
Proof. exact frame_redraws_in_place. Qed.
Print Assumptions C18_popped_rows_persist.

(* pop priorities are handed out in increasing order: order of finishing = order on screen *)
Theorem C18_pop_priority_monotone : forall s evs s', run s evs = Some s' -> pop_prio s <= pop_prio s'.
Proof. exact pop_prio_monotone. Qed.
Print Assumptions C18_pop_priority_monotone.

(* no-pop bars keep their place *)
Theorem C18_nopop_bar_keeps_its_place : forall s b sh nrows s',
  step s (CT_FLUSHBAR b sh nrows false true false) = Some s' -> cycle_err s = false -> successors b (queue s) = [] ->
  prio_of s' b = prio_of s b /\ retired s' = retired s /\ pop_prio s' = pop_prio s /\
  (exists wd ht rows n pc pushes rows' n',
      ph s = Rendering wd ht rows n pc pushes /\ ph s' = Rendering wd ht rows' n' pc (pushes ++ [(b, false)])).
Proof. exact flush_nopop_stays. Qed.
Print Assumptions C18_nopop_bar_keeps_its_place.

(* rows of a frame are in priority order (shared with C06): the popped bar, holding the lowest priority,
   is popped last and so written first, above every running bar *)
Theorem C18_rows_in_priority_order : forall p a d evs s,
  run (init_cst p a d) evs = Some s -> iter_dirty s = false ->
  StronglySorted ge_rel (map snd (cycle_pops s)).
Proof. exact pops_sorted. Qed.
Print Assumptions C18_rows_in_priority_order.

(* a bar queued LATE after a bar that was popped must not inherit the pop priority (a live bar above the popped rows would be
   rewritten over them): the hand-over record made by the same flush holds the priority the bar had BEFORE it was given its pop
   priority, and that record is what a late Add uses (C17_late_successor_pushed_at_once) *)
Theorem C18_popped_bar_hands_over_its_old_place : forall pm am dm evs s b nrows rmf s',
  run (init_cst pm am dm) evs = Some s ->
  step s (CT_FLUSHBAR b 1 nrows rmf false false) = Some s' -> cycle_err s = false ->
  successors b (queue s) = [] -> pop_mode s = true ->
  lookup b (released s') = Some (prio_of s b) /\ prio_of s' b = pop_prio s.
Proof. exact flush_pop_handover. Qed.
Print Assumptions C18_popped_bar_hands_over_its_old_place.

(* ---- D10 (found late, repaired in /repo): with more rows than the frame height a bar that was being popped out had its rows cut
   off at the top, nothing was counted as popped and the bar was dropped — never drawn in its final place.  /repo "fix: a bar popped
   out of a frame taller than the terminal is still drawn on top": the rows of a bar that is being popped out are kept whatever the
   height.  The former refutation witness (two bars on a frame one line high) is now the Example below with the right outcome. ---- *)
Theorem C18_popped_bar_is_drawn_whatever_the_height : forall s b nrows rmf s',
  step s (CT_FLUSHBAR b 2 nrows rmf false false) = Some s' -> cycle_err s = false -> pop_mode s = true ->
  exists r fi wd ht rows n pc pushes,
    lookup b (bars s) = Some r /\ br_frame r = Some fi /\
    ph s = Rendering wd ht rows n pc pushes /\
    ph s' = Rendering wd ht (rows ++ List.rev (bar_rows b r fi)) (n + Z.of_nat (List.length (bar_rows b r fi)))
                      (pc + Z.of_nat (List.length (bar_rows b r fi))) pushes.
Proof. exact flush_popout_keeps_all_rows. Qed.
Print Assumptions C18_popped_bar_is_drawn_whatever_the_height.

Example C18_popped_bar_on_a_frame_one_line_high :
  exists s, run (init_cst true true false)
    [CT_OP; CT_ADD 0 0 0 2 None None false false true 0 false; HM_PUSH 0 true 0 false 0;
     CT_OP; CT_ADD 1 1 1 9 None None false false true 0 false; HM_PUSH 1 true 1 true 0;
     CL_OP 1 (IncrInt64 9); BAR_OP 1 9 9 0 true false false 0;
     (* frame 1, one line high: only the bottom bar (1, completed) is visible *)
     CT_RENDERBEGIN; HM_SYNC 2 true 0; HM_ITERREQ true 2; CT_RENDERSIZE 80 1;
     BAR_RENDER 0 0 2 0 false false 0; BAR_OP 0 0 2 0 true false false 0;
     BAR_RENDER 1 9 9 0 false true 0; BAR_OP 1 9 9 0 true false false 1;
     HM_POP 1 1; HM_POP 0 0;
     CT_FLUSHBAR 1 0 1 false false false; CT_FLUSHBAR 0 0 1 false false false; CT_FRAME 1 0;
     OUT [IRow 1 9 9 true false];
     HM_PUSH 1 false 0 false 2; HM_PUSH 0 false 1 false 2;
     (* frame 2: shutdown = 1, bar 1 gets the pop priority *)
     CT_RENDERBEGIN; HM_SYNC 2 false 2; HM_ITERREQ true 2; CT_RENDERSIZE 80 1;
     BAR_RENDER 0 0 2 0 false false 0; BAR_OP 0 0 2 0 true false false 0;
     BAR_RENDER 1 9 9 0 false true 1; BAR_OP 1 9 9 0 true false false 2;
     HM_POP 1 1; HM_POP 0 0;
     CT_FLUSHBAR 1 1 1 false false false; CT_FLUSHBAR 0 0 1 false false false; CT_FRAME 1 0;
     OUT [ICuu 1; IRow 1 9 9 true false];
     HM_PUSH 1 false 0 false 2; HM_PUSH 0 false 1 false 2;
     (* frame 3: bar 1 is on top and leaves; its row is kept although the frame is one line high *)
     CT_RENDERBEGIN; HM_SYNC 2 false 2; HM_ITERREQ true 2; CT_RENDERSIZE 80 1;
     BAR_RENDER 0 0 2 0 false false 0; BAR_OP 0 0 2 0 true false false 0;
     BAR_RENDER 1 9 9 0 false true 2;
     HM_POP 0 0; HM_POP 1 (-2147483648);
     CT_FLUSHBAR 0 0 1 false false false; CT_FLUSHBAR 1 2 1 false false false; CT_FRAME 2 1;
     OUT [ICuu 1; IRow 1 9 9 true false; IRow 0 0 2 false false]] = Some s
  /\ retired s = [1] /\ cwbuf s = [ICuu 1] /\ screen s = [IRow 1 9 9 true false; IRow 0 0 2 false false].
Proof. eexists. vm_compute. repeat split. Qed.

Example C18_nonvacuous :
  exists s, run (init_cst true true false)
    [CT_OP; CT_ADD 0 0 0 2 None None false false true 0 false; HM_PUSH 0 true 0 false 0;
     CT_OP; CT_ADD 1 1 1 9 None None false false true 0 false; HM_PUSH 1 true 1 true 0;
     CL_OP 1 (IncrInt64 9); BAR_OP 1 9 9 0 true false false 0;
     (* frame 1: bar 1 shown completed *)
     CT_RENDERBEGIN; HM_SYNC 2 true 0; HM_ITERREQ true 2; CT_RENDERSIZE 80 24;
     BAR_RENDER 0 0 2 0 false false 0; BAR_OP 0 0 2 0 true false false 0;
     BAR_RENDER 1 9 9 0 false true 0; BAR_OP 1 9 9 0 true false false 1;
     HM_POP 1 1; HM_POP 0 0;
     CT_FLUSHBAR 1 0 1 false false false; CT_FLUSHBAR 0 0 1 false false false; CT_FRAME 2 0;
     OUT [IRow 0 0 2 false false; IRow 1 9 9 true false];
     HM_PUSH 1 false 0 false 2; HM_PUSH 0 false 1 false 2;
     (* frame 2: shutdown = 1, bar 1 gets the pop priority *)
     CT_RENDERBEGIN; HM_SYNC 2 false 2; HM_ITERREQ true 2; CT_RENDERSIZE 80 24;
     BAR_RENDER 0 0 2 0 false false 0; BAR_OP 0 0 2 0 true false false 0;
     BAR_RENDER 1 9 9 0 false true 1; BAR_OP 1 9 9 0 true false false 2;
     HM_POP 1 1; HM_POP 0 0;
     CT_FLUSHBAR 1 1 1 false false false; CT_FLUSHBAR 0 0 1 false false false; CT_FRAME 2 0;
     OUT [ICuu 2; IRow 0 0 2 false false; IRow 1 9 9 true false];
     HM_PUSH 1 false 0 false 2; HM_PUSH 0 false 1 false 2;
     (* frame 3: bar 1 is on top and leaves *)
     CT_RENDERBEGIN; HM_SYNC 2 false 2; HM_ITERREQ true 2; CT_RENDERSIZE 80 24;
     BAR_RENDER 0 0 2 0 false false 0; BAR_OP 0 0 2 0 true false false 0;
     BAR_RENDER 1 9 9 0 false true 2;
     HM_POP 0 0; HM_POP 1 (-2147483648);
     CT_FLUSHBAR 0 0 1 false false false; CT_FLUSHBAR 1 2 1 false false false; CT_FRAME 2 1;
     OUT [ICuu 2; IRow 1 9 9 true false; IRow 0 0 2 false false]] = Some s
  /\ retired s = [1] /\ cwbuf s = [ICuu 1] /\ screen s = [IRow 1 9 9 true false; IRow 0 0 2 false false].
Proof. eexists. vm_compute. repeat split. Qed.
