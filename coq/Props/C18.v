(* C18 placeholder *)
From MPB Require Import Base.
