(* C04 — Frames redraw in place: the terminal never shows stale or duplicated rows.
   The screen is the line-level terminal of Term.v applied to the Write calls of the
   acceptor (Container.step); proofs in ContainerOut.v and Term.v.
   Columns ("each frame fits in columns") are C09/C07's width theorems.
   The byte level (cwriter's CSI sequences and line feeds) is Vt.v: a terminal that reads
   the encoded bytes gets the frames back, and its screen is Term's.  Outside the model:
   bytes inside a row that are themselves control sequences (user decorators may emit
   colours; the harness's parser strips them) and line wrapping (excluded by C07/C09's
   width bounds). *)
From MPB Require Import Base BaseProofs BarState Container ContainerProofs ContainerOut Term GenTerm Vt VtProofs.
From MPB.gen Require Import GenApi.

(* every frame replaces exactly the live rows of the frame before it: what is above them
   (text, popped-out bars) is untouched, nothing of the old rows is left over, and the
   next frame's cursor-up equals this frame's live rows *)
Theorem C04_frame_redraws_in_place : forall p a d evs s n pc s',
  run (init_cst p a d) evs = Some s -> step s (CT_FRAME n pc) = Some s' -> delayed s = false -> outframes s' <> outframes s ->
  exists hist lv txt rows,
    screen s = hist ++ lv /\ all_text txt = true /\ all_row rows = true /\ Z.of_nat (length rows) = n /\
    screen s' = hist ++ txt ++ rows /\
    cwbuf s' = cuu_items (Z.max 0 (n - pc)) /\ 0 <= pc <= n.
Proof. exact frame_redraws_in_place. Qed.
Print Assumptions C04_frame_redraws_in_place.

(* the cursor-up count at the head of the writer's buffer always equals the live region *)
Theorem C04_cursor_up_matches_live_rows : forall p a d evs s,
  run (init_cst p a d) evs = Some s ->
  exists k txt, 0 <= k /\ cwbuf s = cuu_items k ++ txt /\ all_text txt = true /\
     (delayed s = false -> exists hist lv, screen s = hist ++ lv /\ Z.of_nat (length lv) = k).
Proof. intros p a d evs s R. exact (out_buf _ (oi_out _ (reachable_OInv _ _ _ _ _ R))). Qed.
Print Assumptions C04_cursor_up_matches_live_rows.

Theorem C04_frame_fits_rows : forall p a d evs s wd ht rows n pc pu,
  run (init_cst p a d) evs = Some s -> ph s = Rendering wd ht rows n pc pu ->
  n = Z.of_nat (length rows) /\ 0 <= pc <= n /\ n - pc <= Z.max 0 ht.
Proof. exact frame_fits_rows. Qed.
Print Assumptions C04_frame_fits_rows.

Theorem C04_nothing_before_delay_ends : forall p a d evs s,
  run (init_cst p a d) evs = Some s -> delayed s = true -> outframes s = [].
Proof. exact nothing_before_delay_ends. Qed.
Print Assumptions C04_nothing_before_delay_ends.

(* on a terminal of h rows the redraw is exact whenever the live region leaves one row spare *)
Theorem C04_redraw_on_a_window : forall h hist lv k body,
  Z.of_nat (length lv) = k -> k <= h - 1 -> forallb (fun i => negb (is_cuu i)) body = true ->
  apply_frame_h h (hist ++ lv) (cuu_items k ++ body) = hist ++ body.
Proof. exact redraw_in_place_h. Qed.
Print Assumptions C04_redraw_on_a_window.

(* ... and not otherwise: a live region as tall as the window leaves its top row behind.  This was the pinned
   tree's behaviour on a terminal (flush kept [height] rows); /repo "fix: a frame as tall as the terminal no
   longer leaves stale rows behind" makes render hand flush height - 1, which the translator re-reads from the
   source on every run ([C04_terminal_keeps_a_spare_row]); with [C04_frame_fits_rows] the hypothesis of
   [C04_redraw_on_a_window] then holds for every frame.  The pty family replays the real bytes on a terminal of
   the real size. *)
Theorem C04_redraw_needs_a_spare_row :
  exists h lv body, Z.of_nat (length lv) = h /\
    apply_frame_h h lv (cuu_items h ++ body) <> body.
Proof.
  exists 2, [IRow 0 1 5 false false; IRow 1 1 5 false false], [IRow 0 2 5 false false; IRow 1 2 5 false false].
  split; [reflexivity|]. vm_compute. discriminate.
Qed.
Print Assumptions C04_redraw_needs_a_spare_row.

Theorem C04_terminal_keeps_a_spare_row : gen_terminal_height_adjust = (-1)%Z.
Proof. exact terminal_keeps_a_spare_row. Qed.
Print Assumptions C04_terminal_keeps_a_spare_row.

(* every frame written while the flush height is h - 1 redraws exactly on a window of h rows: the cursor-up written behind a frame is
   n - popcount, the rows that are not popped out *)
Theorem C04_frames_redraw_on_the_terminal : forall p a d evs s wd h rows n pc pu hist lv body,
  run (init_cst p a d) evs = Some s -> ph s = Rendering wd (h + gen_terminal_height_adjust) rows n pc pu -> 1 <= h ->
  Z.of_nat (length lv) = n - pc -> forallb (fun i => negb (is_cuu i)) body = true ->
  apply_frame_h h (hist ++ lv) (cuu_items (n - pc) ++ body) = hist ++ body.
Proof.
  intros p a d evs s wd h rows n pc pu hist lv body R P H L B.
  destruct (frame_fits_rows _ _ _ _ _ _ _ _ _ _ _ R P) as (_ & _ & F). rewrite terminal_keeps_a_spare_row in F.
  apply redraw_in_place_h; auto. lia.
Qed.
Print Assumptions C04_frames_redraw_on_the_terminal.

(* ---- down to bytes: cwriter's encoding (lines ended by LF; ESC [ n A ESC [ J in front of the next frame) and the
   terminal's reading of it (Vt.v; the extracted reader also replays the real bytes of the pty family) ---- *)

(* a terminal reads back exactly the frames that were encoded *)
Theorem C04_terminal_reads_back_frames : forall f,
  Forall wf_item f -> lex (LGround []) (encode f) = Some (LGround [], flat_map toks_of f).
Proof. exact lex_encode. Qed.
Print Assumptions C04_terminal_reads_back_frames.

(* and the screen it is left with is the one Term.apply_frame_h computes on items, whatever the bytes of the lines *)
Theorem C04_bytes_to_screen : forall (bytes : item -> list Z) h scr f,
  Forall wf_item (map (render bytes) f) ->
  exists toks, lex (LGround []) (encode (map (render bytes) f)) = Some (LGround [], toks) /\
               fold_left (tok_step h) toks (map bytes scr, []) = (map bytes (apply_frame_h h scr f), []).
Proof. exact bytes_to_screen. Qed.
Print Assumptions C04_bytes_to_screen.

(* "cursor up 0" would not be "stay where you are": a terminal executes a zero parameter as one line up, and with ESC [ J behind it
   the line above the cursor — a persisted line, when no live row is on the screen — is erased *)
Theorem C04_cursor_up_zero_erases_a_persisted_line : forall h above l, 2 <= h ->
  exists toks, lex (LGround []) (encode_item (VCuu 0)) = Some (LGround [], toks) /\
               fold_left (tok_step h) toks (above ++ [l], []) = (above, []).
Proof. exact cuu_zero_erases_a_line. Qed.
Print Assumptions C04_cursor_up_zero_erases_a_persisted_line.

(* which is why a frame that leaves no live row behind is followed by no cursor control at all *)
Theorem C04_no_cursor_up_without_live_rows : forall k, k <= 0 -> cuu_items k = [].
Proof. exact no_cursor_up_without_live_rows. Qed.
Print Assumptions C04_no_cursor_up_without_live_rows.

Example C04_nonvacuous :
  exists s, run (init_cst false true false)
    [CT_OP; CT_ADD 0 0 0 5 None None false false true 0 false; HM_PUSH 0 true 0 false 0;
     CL_WRITE 7 0 1; CT_IO;
     CT_RENDERBEGIN; HM_SYNC 1 true 0; HM_ITERREQ true 1; CT_RENDERSIZE 80 24;
     BAR_RENDER 0 0 5 0 false false 0; BAR_OP 0 0 5 0 true false false 0; HM_POP 0 0;
     CT_FLUSHBAR 0 0 1 false false false; CT_FRAME 1 0; OUT [IText 7 0 0; IRow 0 0 5 false false];
     HM_PUSH 0 false 0 false 1;
     CT_RENDERBEGIN; HM_SYNC 1 false 1; HM_ITERREQ true 1; CT_RENDERSIZE 80 24;
     BAR_RENDER 0 0 5 0 false false 0; BAR_OP 0 0 5 0 true false false 0; HM_POP 0 0;
     CT_FLUSHBAR 0 0 1 false false false; CT_FRAME 1 0; OUT [ICuu 1; IRow 0 0 5 false false]] = Some s
  /\ screen s = [IText 7 0 0; IRow 0 0 5 false false].
Proof. eexists. vm_compute. repeat split. Qed.
