(* C04 placeholder *)
From MPB Require Import Base.
