(* C06 — Bars are laid out by priority, and priority changes take effect as documented.
   Statements over every accepted event list; proofs in ContainerProofs.v.
   A frame's rows are written in reverse pop order (Container.step, CT_FRAME:
   [List.rev rows]); flush receives the bars in pop order. *)
From Coq Require Import Sorted.
From Coq Require Import Permutation.
From MPB Require Import Base BaseProofs BarState Container ContainerProofs PQueue PQueueProofs ContainerQueue.

(* pops of a cycle whose heap was in order come in non-increasing priority:
   rows from top to bottom are in non-decreasing priority value *)
Theorem C06_pops_sorted : forall p a d evs s,
  run (init_cst p a d) evs = Some s -> iter_dirty s = false ->
  StronglySorted ge_rel (map snd (cycle_pops s)).
Proof. exact pops_sorted. Qed.
Print Assumptions C06_pops_sorted.

Theorem C06_flush_in_pop_order : forall p a d evs s,
  run (init_cst p a d) evs = Some s -> cycle_flushed s ++ popped s = map fst (cycle_pops s).
Proof. exact flush_in_pop_order. Qed.
Print Assumptions C06_flush_in_pop_order.

(* a lazy priority change marks the heap out of order; an immediate one changes the priority at once and leaves the order mark as
   it was — except that it clears it when the mark is due to a lazy change of the same bar made just before on an ordered heap
   (C06_lazy_then_immediate_restores_order below is why) *)
Theorem C06_fix : forall s b p lazy idx hl s',
  step s (HM_FIX b p lazy idx hl) = Some s' -> 0 <= idx ->
  hdirty s' = (if lazy then true else hdirty s && negb (eqo (last_lazy s) (Some b))) /\ prio_of s' b = p /\
  last_lazy s' = (if lazy && negb (hdirty s) then Some b else None).
Proof. exact fix_dirty. Qed.
Print Assumptions C06_fix.

(* the single unspecified frame: an iteration records whether it began out of order ... *)
Theorem C06_iteration_records_order : forall s hl s',
  step s (HM_ITERREQ true hl) = Some s' -> iter_dirty s' = hdirty s /\ cycle_pops s' = [] /\ iter_heap s' = heap s.
Proof. exact iterreq_records_dirty. Qed.
Print Assumptions C06_iteration_records_order.

(* ... and every completed iteration leaves the heap in order again, so the frame after next is sorted *)
Theorem C06_iteration_restores_order : forall s b p s',
  step s (HM_POP b p) = Some s' -> heap s' = [] -> hdirty s' = false /\ iterating s' = false.
Proof. exact last_pop_cleans. Qed.
Print Assumptions C06_iteration_restores_order.

(* ---- the priority queue itself: priority_queue.go under container/heap's Push / Pop / Fix (PQueue.v, tied to the
   code by the differential pq family: identical slice order and index fields after every operation) ---- *)

(* every run of pushes (of bars not in the queue), pops and immediate fixes keeps the heap order, the bars' index
   fields and the bookkeeping of departed bars *)
Theorem C06_queue_invariant : forall ops q seen,
  QInv q seen -> run_ok q ops -> QInv (fst (qrun q ops)) (fold_left seen_after ops seen).
Proof. exact qrun_inv. Qed.
Print Assumptions C06_queue_invariant.

(* Pop removes a bar of the greatest priority and keeps the rest *)
Theorem C06_pop_returns_a_maximum : forall q x q',
  hp (arr q) (length (arr q)) -> pop q = Some (x, q') ->
  hp (arr q') (length (arr q')) /\ Permutation (arr q) (x :: arr q') /\ (forall y, In y (arr q) -> (snd y <= snd x)%Z).
Proof. exact pop_ok. Qed.
Print Assumptions C06_pop_returns_a_maximum.

(* the ordered iteration of a cycle: all the bars, in non-increasing priority — rows top to bottom in non-decreasing
   priority value *)
Theorem C06_ordered_iteration_is_sorted : forall fuel q,
  hp (arr q) (length (arr q)) -> (length (arr q) <= fuel)%nat ->
  Permutation (drain fuel q) (arr q) /\ Sorted.StronglySorted (fun x y => (snd y <= snd x)%Z) (drain fuel q).
Proof. exact drain_sorted. Qed.
Print Assumptions C06_ordered_iteration_is_sorted.

(* an immediate priority change restores the heap order whatever the new priority is *)
Theorem C06_fix_restores_order : forall q0 i p,
  hp (arr q0) (length (arr q0)) -> (i < length (arr q0))%nat ->
  let q := set_priority q0 i p in
  hp (arr (fix_at q i)) (length (arr q0)) /\ Permutation (arr (fix_at q i)) (arr q) /\
  length (arr (fix_at q i)) = length (arr q0).
Proof. exact fix_ok. Qed.
Print Assumptions C06_fix_restores_order.

(* a lazy change of a bar in an ordered heap followed by an immediate change of the same bar: heap.Fix at that bar restores the
   whole order (the bar is the only element out of place), so the next frame is in priority order again *)
Theorem C06_lazy_then_immediate_restores_order : forall q0 i p p',
  hp (arr q0) (length (arr q0)) -> (i < length (arr q0))%nat ->
  let q := set_priority (set_priority q0 i p) i p' in
  hp (arr (fix_at q i)) (length (arr q0)) /\ Permutation (arr (fix_at q i)) (arr q) /\
  length (arr (fix_at q i)) = length (arr q0).
Proof. exact lazy_then_immediate_restores_order. Qed.
Print Assumptions C06_lazy_then_immediate_restores_order.

(* the two models agree: the pop the verified queue makes is one the container acceptor accepts (its HM_POP rule allows
   any bar of greatest priority), and the queue keeps holding the acceptor's heap *)
Theorem C06_queue_pop_is_accepted : forall s q b p q',
  holds s q -> hp (arr q) (length (arr q)) -> iterating s = true -> ended s = false ->
  pop q = Some ((b, p), q') ->
  exists s', step s (HM_POP b p) = Some s' /\ Permutation (ids (arr q')) (heap s') /\
             (forall b1 p1, In (b1, p1) (arr q') -> exists r, lookup b1 (bars s') = Some r /\ br_prio r = p1).
Proof. exact pop_is_accepted. Qed.
Print Assumptions C06_queue_pop_is_accepted.

Example C06_nonvacuous_priority_change :
  exists s, run (init_cst false true false)
    [CT_OP; CT_ADD 0 0 0 5 None None false false true 0 false; HM_PUSH 0 true 0 false 0;
     CT_OP; CT_ADD 1 1 1 7 None None false false true 0 false; HM_PUSH 1 true 1 true 0;
     CL_PRIO 1 (-3) false; CT_OP; HM_FIX 1 (-3) false 1 2;
     CT_RENDERBEGIN; HM_SYNC 2 true 0; HM_ITERREQ true 2; CT_RENDERSIZE 80 80;
     BAR_RENDER 0 0 5 0 false false 0; BAR_RENDER 1 0 7 0 false false 0;
     HM_POP 0 0; HM_POP 1 (-3)] = Some s
  /\ cycle_pops s = [(0, 0); (1, -3)] /\ iter_dirty s = false.
Proof. eexists. vm_compute. repeat split. Qed.
