(* C02 — No panic and no hang for any schedule or order of valid API calls.
   Proved: (a) from the select statements regenerated from the source on every run
   (gen/GenApi.v): every public call that hands work to the container or to a bar has a
   done branch, so a call made after the receiver is gone cannot block, takes that
   branch, and returns what the property says (Add: nil, ErrDone; Write: 0, ErrDone;
   mutators: nothing; getters: the published state); (b) over BarState: an exited bar
   ignores mutators and its getters keep returning the final values; (c) over
   Container.step: nothing is ever sent to the heap manager after it was told to end
   (the pinned tree's "send on closed channel" panic), and after the container returned
   no closure of a client is executed.
   Not provable in a model: the absence of run-time panics in general (nil
   dereference, index out of range, close of closed channel) — the harness runs every
   family with panics fatal, including calls racing with and following Wait / Shutdown /
   cancellation ("late" family). *)
From MPB Require Import Base BaseProofs BarState BarStateProofs Container ContainerProofs ContainerLife ContainerProgress GenChecks PQueue PQueueProofs.
From MPB.gen Require Import GenApi.
From Coq Require Import String.
Open Scope string_scope.
Open Scope Z_scope.

Theorem C02_all_selects_guarded : forallb guarded selects = true.
Proof. exact all_selects_guarded. Qed.
Print Assumptions C02_all_selects_guarded.

Theorem C02_late_call_cannot_block : forall g, In g selects -> has_send g = true -> can_proceed late g = true.
Proof. exact late_call_cannot_block. Qed.
Print Assumptions C02_late_call_cannot_block.

Theorem C02_late_call_takes_done_branch : forall g k, In k (g_clauses g) -> ready late k = true -> is_send k = false.
Proof. exact late_call_takes_done_branch. Qed.
Print Assumptions C02_late_call_takes_done_branch.

Theorem C02_late_results :
  done_ret "Progress" "Add" = Some "nil, ErrDone"%string /\
  done_ret "Progress" "Write" = Some "0, ErrDone"%string /\
  done_ret "Bar" "Current" = Some "b.bs.current"%string /\
  done_ret "Bar" "Completed" = Some "b.bs.completed()"%string /\
  done_ret "Bar" "Aborted" = Some "b.bs.aborted"%string /\
  done_ret "Bar" "IsRunning" = Some "false"%string /\
  forallb (fun m => match done_ret "Bar" m with Some ""%string => true | _ => false end)
    ["SetRefill"; "EnableTriggerComplete"; "SetTotal"; "SetCurrent"; "IncrInt64"; "EwmaIncrInt64"; "EwmaSetCurrent"; "Abort"]%string = true /\
  done_ret "Progress" "UpdateBarPriority" = Some ""%string /\
  done_ret "Progress" "traverseBars" = Some ""%string.
Proof. exact late_results. Qed.
Print Assumptions C02_late_results.

(* an exited bar: mutators change nothing, getters keep returning the final values, whatever is called *)
Theorem C02_exited_bar_is_frozen : forall s e s',
  exited s = true -> bev_step s e = Some s' -> exited s' = true /\ obs s' = obs s.
Proof. exact exited_frozen. Qed.
Print Assumptions C02_exited_bar_is_frozen.

(* nothing is sent to the heap manager after it was told to end (its channel is closed) *)
Theorem C02_no_send_after_end : forall p a d evs s,
  run (init_cst p a d) evs = Some s -> ended s = true -> fifo s = [].
Proof. intros p a d evs s R. exact (fl_endq _ (pi_flow _ (reachable_PInv _ _ _ _ _ R))). Qed.
Print Assumptions C02_no_send_after_end.

(* after the container returned no client closure runs and no frame is written *)
Theorem C02_container_inert_after_return : forall s s1 evs s2,
  step s CT_EXIT = Some s1 -> run s1 evs = Some s2 ->
  Quiet s2 /\ step s2 CT_OP = None /\ step s2 CT_IO = None /\ step s2 CT_RENDERBEGIN = None.
Proof.
  intros s s1 evs s2 E R. destruct (exit_quiet _ _ E) as (Q & _). destruct (quiet_forever _ _ _ R Q) as (Q2 & _).
  assert (X : ct_exited s2 = true).
  { assert (X1 : ct_exited s1 = true) by (unfold step in E; destruct (_ && _); [inversion E; reflexivity|discriminate]).
    clear - X1 R. revert s1 X1 R. induction evs as [|e evs IH]; intros s1 X1; unfold run; cbn.
    - intros E; inversion E; subst; assumption.
    - destruct (step s1 e) as [s3|] eqn:E; [|discriminate]. intros R. apply (IH s3); [|exact R].
      clear - E X1. destruct e; break_step E; use_fifo_pop; simp_state; try assumption; try reflexivity;
        repeat match goal with |- context [if ?c then _ else _] => destruct c end; simp_state; assumption. }
  split; [exact Q2|]. destruct Q2 as (P & O & _).
  unfold step, serving, is_idle. rewrite P, X. cbn. auto.
Qed.
Print Assumptions C02_container_inert_after_return.

(* the heap's index bookkeeping (the heap manager indexes its slice with bar.index): in every state of every valid run
   each bar in the queue carries its own position, a bar that was popped carries -1 and a bar never pushed 0, so a late
   priority change on a departed bar is ignored and never indexes the slice out of range *)
Theorem C02_queue_indices_consistent : forall ops q seen,
  QInv q seen -> run_ok q ops ->
  let q' := fst (qrun q ops) in
  (forall k, (k < List.length (arr q'))%nat -> idx q' (fst (PQueue.get (arr q') k)) = Z.of_nat k) /\
  (forall b, ~ In b (ids (arr q')) -> In b (fold_left seen_after ops seen) -> idx q' b = (-1)%Z).
Proof.
  intros ops q seen I V. destruct (qrun_inv ops q seen I V) as [_ [_ Ik] O _]. split; [exact Ik|].
  intros b Hb Hs. apply (O b Hb). exact Hs.
Qed.
Print Assumptions C02_queue_indices_consistent.

Theorem C02_popped_bar_index_is_reset : forall q x q',
  IdxOk q -> pop q = Some (x, q') -> IdxOk q' /\ idx q' (fst x) = (-1)%Z /\ ~ In (fst x) (ids (arr q')) /\
  (forall c, ~ In c (ids (arr q)) -> idx q' c = idx q c).
Proof. exact pop_idx. Qed.
Print Assumptions C02_popped_bar_index_is_reset.

Example C02_nonvacuous :
  exists g, In g selects /\ has_send g = true /\ g_method g = "Add"%string /\ can_proceed late g = true
            /\ can_proceed (mkW false false) g = false.
Proof.
  (* found by name in the regenerated table, wherever it stands *)
  destruct (find (fun g => String.eqb (g_method g) "Add" && has_send g) selects) as [g|] eqn:E; [|vm_compute in E; discriminate].
  exists g. destruct (find_some _ _ E) as [I _]. split; [exact I|].
  vm_compute in E. injection E as <-. vm_compute. repeat split.
Qed.
