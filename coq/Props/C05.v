(* C05 — Every bar in the container is drawn exactly once per frame.
   Statements over EVERY event list accepted by the container/heap-manager
   acceptor (Container.step); proofs in ContainerProofs.v.
   History: on the pinned tree a heap push could be detached into a goroutine
   and be overtaken by the next cycle's sync/iter (a bar missing from a frame)
   or by end (send on closed channel); /repo "fix: heap pushes never overtaken
   by a render cycle or by shutdown" made every request a blocking send of the
   container goroutine, which is what the fifo of this model describes. *)
From Coq Require Import Permutation Sorted.
From MPB Require Import Base BaseProofs BarState Container ContainerProofs ContainerCover GenConst.
From MPB.gen Require Import GenApi.
From Coq Require Import String.

(* a bar is in exactly one of: heap, request queue, flush's push list, popped
   awaiting flush, parked behind a predecessor — or it has left for good; it
   is never in two places and never returns after leaving *)
Theorem C05_bar_in_one_place : forall p a d evs s,
  run (init_cst p a d) evs = Some s -> NoDup (places s).
Proof. exact places_nodup. Qed.
Print Assumptions C05_bar_in_one_place.

Theorem C05_invariants_hold_on_every_accepted_trace : forall p a d evs s,
  run (init_cst p a d) evs = Some s -> Inv s.
Proof. exact reachable_Inv. Qed.
Print Assumptions C05_invariants_hold_on_every_accepted_trace.

(* the bars flushed into a frame are exactly the bars that were in the heap when
   that cycle's ordered iteration began (as multisets), hence each exactly once *)
Theorem C05_frame_is_heap_at_iteration : forall p a d evs s n pc s',
  run (init_cst p a d) evs = Some s -> step s (CT_FRAME n pc) = Some s' ->
  forall x, cnt x (cycle_flushed s) = cnt x (iter_heap s).
Proof. exact frame_bars_are_iter_heap. Qed.
Print Assumptions C05_frame_is_heap_at_iteration.

(* nothing is sent behind a cycle's sync/iter requests until the frame is written:
   a push (Add, or flush of the previous frame) sent before the cycle began is
   received before that cycle's iteration *)
Theorem C05_requests_in_order : forall p a d evs s,
  run (init_cst p a d) evs = Some s -> QShape s.
Proof. intros p a d evs s H. exact (inv_qshape s (reachable_Inv _ _ _ _ _ H)). Qed.
Print Assumptions C05_requests_in_order.

(* from the source, regenerated on every run: every request to the heap manager is one blocking send by the
   calling goroutine — no detached sender can be overtaken by a later request (the pinned tree's defect) *)
Theorem C05_heap_requests_are_blocking_sends :
  forallb (fun m => String.eqb (snd m) "send") hm_methods = true /\
  map fst hm_methods = ["sync"; "push"; "iter"; "fix"; "state"; "end"]%string.
Proof. exact heap_requests_are_blocking_sends. Qed.
Print Assumptions C05_heap_requests_are_blocking_sends.

(* no bar is ever lost: every bar that was added is in exactly one place (heap, request queue, flush's push list, popped
   awaiting flush, parked behind a predecessor, or gone for good) in every state of every accepted trace *)
Theorem C05_bar_in_exactly_one_place : forall p a d evs s x,
  run (init_cst p a d) evs = Some s -> lookup x (bars s) <> None -> cnt x (places s) = 1%nat.
Proof. exact bar_in_exactly_one_place. Qed.
Print Assumptions C05_bar_in_exactly_one_place.

(* when a cycle's ordered iteration begins nothing is in flight: the request queue is empty, nothing is popped, flush holds
   no push *)
Theorem C05_nothing_in_flight_when_iteration_begins : forall p a d evs s hl s',
  run (init_cst p a d) evs = Some s -> step s (HM_ITERREQ true hl) = Some s' ->
  fifo s' = [] /\ popped s' = [] /\ ph_pushes (ph s') = [] /\ iter_heap s' = heap s' /\ queue s' = queue s /\
  retired s' = retired s /\ bars s' = bars s.
Proof. exact iteration_begins_with_nothing_in_flight. Qed.
Print Assumptions C05_nothing_in_flight_when_iteration_begins.

(* ... so every bar added before the cycle began is in the heap the iteration runs over (and, by
   C05_frame_is_heap_at_iteration, in the frame exactly once) unless it is waiting behind another bar or has left for good *)
Theorem C05_iteration_covers_every_bar : forall p a d evs s hl s',
  run (init_cst p a d) evs = Some s -> step s (HM_ITERREQ true hl) = Some s' ->
  forall x, lookup x (bars s) <> None ->
  In x (iter_heap s') \/ In x (map snd (queue s')) \/ In x (retired s').
Proof. exact iteration_covers_every_bar. Qed.
Print Assumptions C05_iteration_covers_every_bar.

(* ... in this and in every later cycle: a bar that is not parked never vanishes for a frame and comes back *)
Theorem C05_bar_in_every_later_iteration : forall p a d evs s x evs' s1 hl s2,
  run (init_cst p a d) evs = Some s -> lookup x (bars s) <> None -> ~ In x (map snd (queue s)) ->
  run s evs' = Some s1 -> step s1 (HM_ITERREQ true hl) = Some s2 ->
  In x (iter_heap s2) \/ In x (retired s2).
Proof. exact unparked_bar_is_in_every_later_iteration. Qed.
Print Assumptions C05_bar_in_every_later_iteration.

(* non-vacuity: a two-bar run with a completion is accepted *)
Example C05_nonvacuous :
  exists s, run (init_cst false true false)
    [CT_OP; CT_ADD 0 0 0 5 None None false false true 0 false; HM_PUSH 0 true 0 false 0;
     CT_OP; CT_ADD 1 1 1 7 None None false false true 0 false; HM_PUSH 1 true 1 true 0;
     CT_RENDERBEGIN; HM_SYNC 2 true 0; HM_ITERREQ true 2; CT_RENDERSIZE 80 80;
     BAR_RENDER 0 0 5 0 false false 0; BAR_RENDER 1 0 7 0 false false 0;
     HM_POP 1 1; HM_POP 0 0; CT_FLUSHBAR 1 0 1 false false false; CT_FLUSHBAR 0 0 1 false false false;
     CT_FRAME 2 0;
     OUT [IRow 0 0 5 false false; IRow 1 0 7 false false]] = Some s
  /\ fifo s = [QPush 1 false; QPush 0 false] /\ cycle_flushed s = [1; 0].
Proof. eexists. vm_compute. repeat split. Qed.
