(* ContainerProgress.v — a render cycle cannot wedge (C01): in every reachable state in
   which the container goroutine is inside a cycle, some goroutine of the library has a
   step it can take.  Everything is over Container.step. *)
From MPB Require Import Base BaseProofs BarState BarStateProofs Container ContainerProofs ContainerLife.

(* ---------- how requests, pops and errors are sequenced within a cycle ---------- *)
Record Flow (s : cst) : Prop := {
  fl_iter : iterating s = true -> fifo s = [] /\ rendering s = true;
  fl_pop : popped s <> [] -> fifo s = [] /\ rendering s = true;
  fl_pre : fifo s <> [] -> rendering s = true -> cycle_err s = false;
  fl_err : cycle_err s = true -> rendering s = true -> iterating s = true \/ popped s <> [];
  fl_end : rendering s = true -> ended s = false;
  fl_endq : ended s = true -> fifo s = [];     (* nothing is sent to the heap manager once it was told to end *)
  fl_noerr : idle_ph s = false -> errored s = false   (* a latched error belongs to an idle container *)
}.

Lemma Flow_init p a d : Flow (init_cst p a d).
Proof. constructor; cbn; intros; try discriminate; try congruence; auto. Qed.

Lemma rendering_idle s : ph s = Idle -> rendering s = false.
Proof. unfold rendering. intros ->. reflexivity. Qed.
Lemma rendering_failed s : ph s = Failed -> rendering s = false.
Proof. unfold rendering. intros ->. reflexivity. Qed.

Lemma qiter_head_alone s rest : QShape s -> fifo s = QIter :: rest -> rest = [] /\ rendering s = true.
Proof.
  unfold QShape. destruct (rendering s) eqn:R.
  - intros [(pre & P & E)|[E|E]] F; rewrite F in E.
    + destruct pre as [|q pre]; cbn in E; [discriminate|]. inversion E; subst. cbn in P. discriminate.
    + inversion E; auto.
    + discriminate.
  - intros P F. rewrite F in P. cbn in P. discriminate.
Qed.

Lemma app_not_nil {A} (l : list A) x : l ++ [x] <> [].
Proof. destruct l; discriminate. Qed.

Lemma Flow_same s s' :
  iterating s' = iterating s -> fifo s' = fifo s -> popped s' = popped s -> cycle_err s' = cycle_err s ->
  ended s' = ended s -> rendering s' = rendering s -> idle_ph s' = idle_ph s -> errored s' = errored s -> Flow s -> Flow s'.
Proof. intros A B C D E F G H [F1 F2 F3 F4 F5 F6 F7]. constructor; rewrite ?A, ?B, ?C, ?D, ?E, ?F, ?G, ?H; assumption. Qed.

Lemma idle_quiet s : Flow s -> ph s = Idle -> iterating s = false /\ popped s = [].
Proof.
  intros [F1 F2 _ _ _ _ _] P. pose proof (rendering_idle _ P) as R. split.
  - destruct (iterating s) eqn:E; [|reflexivity]. destruct (F1 eq_refl) as [_ R']. congruence.
  - destruct (popped s) eqn:E; [reflexivity|]. destruct F2 as [_ R']; [congruence|congruence].
Qed.

Ltac flow_same s := apply (Flow_same s); unfold rendering, idle_ph; simp_state; try reflexivity;
  repeat match goal with E : ph _ = _ |- _ => rewrite E end; try reflexivity.

Ltac facts :=
  repeat match goal with
    | Hi : is_idle _ = true |- _ => apply is_idle_facts in Hi; destruct Hi as (? & ? & ?)
    | Hi : _ && _ = true |- _ => apply andb_prop in Hi as [? ?]
    | Hi : negb _ = true |- _ => apply negb_true_iff in Hi
    | Hi : negb _ = false |- _ => apply negb_false_iff in Hi
    | Hi : _ || _ = false |- _ => apply orb_false_iff in Hi as [? ?]
    | Hi : nil_b ?l = true |- _ => apply nil_b_true in Hi
  end.

Lemma step_Flow s e s' : step s e = Some s' -> QShape s -> Flow s -> Flow s'.
Proof.
  intros H Q F.
  destruct e; break_step H; use_fifo_pop; try (flow_same s; assumption).
  all: try (repeat match goal with |- context [if ?c then _ else _] => destruct c end; flow_same s; assumption).
  all: facts.
  all: try (match goal with P : ph ?s0 = Idle, F0 : Flow ?s0 |- _ => destruct (idle_quiet s0 F0 P) as [It Po] end).
  all: match goal with F0 : Flow _ |- _ => destruct F0 as [F1 F2 F3 F4 F5 F6 F7] end; constructor; unfold rendering, idle_ph in *; simp_state;
     repeat match goal with E : ph _ = _ |- _ => rewrite E in * end; simp_state; intros.
  all: try discriminate; try congruence; try (split; congruence); auto.
  all: try (match goal with Hm : match popped ?s0 with [] => false | _ :: _ => _ end = true |- _ =>
       assert (Pne : popped s0 <> []) by (destruct (popped s0); [discriminate Hm|discriminate]) end).
  all: repeat match goal with
    | Hp : popped ?s0 <> [], G2 : popped ?s0 <> [] -> _ |- _ => destruct (G2 Hp) as [? ?]; clear G2
    | Hi : iterating ?s0 = true, G1 : iterating ?s0 = true -> _ |- _ => destruct (G1 Hi) as [? ?]; clear G1
    end.
  all: try congruence; try (split; congruence).
  all: try (match goal with Hf : fifo ?s0 = _ :: _, G3 : fifo ?s0 <> [] -> _ -> cycle_err ?s0 = false |- _ =>
        assert (Ce : cycle_err s0 = false) by (apply G3; [congruence|assumption]) end; congruence).
  all: try (match goal with Ho : nil_b (tl (popped ?s0)) && negb (iterating ?s0) && nil_b (fifo ?s0) = false, Ff : fifo ?s0 = [] |- _ =>
        rewrite Ff in Ho; cbn in Ho; rewrite andb_true_r in Ho; apply andb_false_iff in Ho;
        destruct Ho as [Ho|Ho]; [right; destruct (tl (popped s0)); [discriminate Ho|discriminate]|left; apply negb_false_iff in Ho; exact Ho] end).
  all: try (right; apply app_not_nil).
  all: try (match goal with Hw : is_q 1 ?q = true, Hf : fifo ?s0 = ?q :: ?rest, Q0 : QShape ?s0 |- _ =>
        destruct q; cbn in Hw; try discriminate Hw; destruct (qiter_head_alone s0 rest Q0 Hf) as [Er Rr];
        unfold rendering in Rr; split; assumption end).
  all: try (match goal with |- true = false => destruct (ph _); discriminate end).
  all: try (match goal with He : ended ?s0 = true, G6 : ended ?s0 = true -> fifo ?s0 = [], Hr : replace_last_op (fifo ?s0) _ = Some _ |- _ =>
              rewrite (G6 He) in Hr; discriminate Hr end).
  all: match goal with He : ended ?s0 = true, G5 : true = true -> ended ?s0 = false |- _ => rewrite (G5 eq_refl) in He; discriminate He end.
Qed.

Record PInv (s : cst) : Prop := { pi_inv : Inv s; pi_flow : Flow s }.

Theorem reachable_PInv p a d evs s : run (init_cst p a d) evs = Some s -> PInv s.
Proof.
  assert (G : forall s0, PInv s0 -> run s0 evs = Some s -> PInv s).
  { induction evs as [|e evs IH]; intros s0 I; unfold run; cbn.
    - intros E; inversion E; subst; exact I.
    - destruct (step s0 e) as [s1|] eqn:E; [|discriminate]. intros R. apply (IH s1); [|exact R].
      destruct I as [I1 I2]. constructor; [eapply step_Inv; eauto|eapply step_Flow; eauto; apply I1]. }
  apply G. constructor; [apply Inv_init|apply Flow_init].
Qed.

(* ---------- progress ---------- *)
Definition enabled (s : cst) (e : ev) : Prop := step s e <> None.

Lemma max_prio_mono bs l p q : max_prio bs l p = true -> p <= q -> max_prio bs l q = true.
Proof.
  induction l as [|m l IH]; cbn; [reflexivity|]. destruct (lookup m bs) as [r|]; [|discriminate].
  intros H L. apply andb_prop in H as [H1 H2]. apply Z.leb_le in H1. rewrite (IH H2 L).
  assert (br_prio r <=? q = true) as -> by (apply Z.leb_le; lia). reflexivity.
Qed.

Lemma max_prio_exists bs : forall members, members <> [] -> (forall m, In m members -> lookup m bs <> None) ->
  exists b r, In b members /\ lookup b bs = Some r /\ max_prio bs members (br_prio r) = true.
Proof.
  induction members as [|m l IH]; [congruence|]. intros _ K.
  destruct (lookup m bs) as [rm|] eqn:Lm; [|exfalso; apply (K m); [left; reflexivity|exact Lm]].
  destruct l as [|m2 l2].
  - exists m, rm. repeat split; [left; reflexivity|exact Lm|]. cbn. rewrite Lm, Z.leb_refl. reflexivity.
  - destruct IH as (b & r & Hin & Lb & Mx); [discriminate|intros x Hx; apply K; right; exact Hx|].
    destruct (Z.le_gt_cases (br_prio rm) (br_prio r)) as [Le|Gt].
    + exists b, r. repeat split; [right; exact Hin|exact Lb|]. cbn [max_prio]. rewrite Lm.
      assert (br_prio rm <=? br_prio r = true) as -> by (apply Z.leb_le; lia). exact Mx.
    + exists m, rm. repeat split; [left; reflexivity|exact Lm|]. cbn [max_prio]. rewrite Lm, Z.leb_refl.
      apply (max_prio_mono _ _ _ _ Mx). lia.
Qed.

Lemma known_of s x : Known s -> In x (places s) -> exists r, lookup x (bars s) = Some r.
Proof. intros K I. specialize (K x I). destruct (lookup x (bars s)) as [r|]; [eauto|congruence]. Qed.

Lemma in_queue_values (q : list (Z * Z)) a x : lookup a q = Some x -> In x (map snd q).
Proof.
  induction q as [|[k v] q IH]; cbn; [discriminate|]. destruct (a =? k); [intros E; inversion E; auto|auto].
Qed.

(* inside a cycle some goroutine of the library can always take a step: the heap manager takes the next
   request or pops the next bar, a popped bar renders, flush receives the next frame, or the container
   writes the frame / reports the error *)
Theorem cycle_progress p a d evs s :
  run (init_cst p a d) evs = Some s -> ph s <> Idle ->
  exists e, client_event e = false /\ enabled s e.
Proof.
  intros R NI. destruct (reachable_PInv _ _ _ _ _ R) as [[U K Q C S] [F1 F2 F3 F4 F5 F6 F7]].
  destruct (ph s) as [|wd ht rows n pc pushes|] eqn:P; [congruence| |].
  2: { exists CT_RENDERERR. split; [reflexivity|]. unfold enabled, step. rewrite P.
       rewrite F7 by (unfold idle_ph; rewrite P; reflexivity). discriminate. }
  assert (Rn : rendering s = true) by (unfold rendering; rewrite P; reflexivity).
  pose proof (F5 Rn) as En.
  destruct (fifo s) as [|q rest] eqn:Ff.
  - destruct (iterating s) eqn:It.
    + (* the heap manager pops the bar with the highest priority *)
      assert (Hne : heap s <> []).
      { intros E. destruct C as [_ _ C3 _]. assert (W : in_window s = true) by (unfold in_window; rewrite Rn, Ff; reflexivity).
        apply (C3 W) in E. congruence. }
      destruct (max_prio_exists (bars s) (heap s) Hne) as (b & r & Hin & Lb & Mx).
      { intros m Hm. apply K. unfold places. apply in_or_app. left. exact Hm. }
      exists (HM_POP b (br_prio r)). split; [reflexivity|]. unfold enabled, step. rewrite Lb, En, It.
      apply memZ_In in Hin. rewrite Hin, Z.eqb_refl, Mx, orb_true_r. cbn. discriminate.
    + destruct (popped s) as [|b prest] eqn:Pp.
      * (* everything popped has been flushed: the frame is written *)
        assert (Ce : cycle_err s = false).
        { destruct (cycle_err s) eqn:E; [|reflexivity]. destruct (F4 eq_refl Rn) as [X|X]; congruence. }
        exists (CT_FRAME n pc). split; [reflexivity|]. unfold enabled, step. rewrite P, !Z.eqb_refl, Pp, It, Ff, Ce. cbn.
        destruct (delayed s); [discriminate|]. destruct (cwbuf s ++ rev rows); discriminate.
      * destruct (known_of s b K) as (r & Lb).
        { unfold places. rewrite Pp. do 3 (apply in_or_app; right). apply in_or_app. left. left. reflexivity. }
        destruct (br_frame r) as [fi|] eqn:Fr.
        -- (* flush receives the frame of the oldest popped bar *)
           destruct (cycle_err s) eqn:Ce.
           ++ exists (CT_FLUSHBAR b 0 0 false false false). split; [reflexivity|]. unfold enabled, step.
              rewrite P, Lb, Fr, Pp, Z.eqb_refl, Ce. cbn. discriminate.
           ++ exists (CT_FLUSHBAR b (fi_shutdown fi) (1 + br_xrows r) (fi_rm fi) (fi_nopop fi) false). split; [reflexivity|].
              unfold enabled, step. rewrite P, Lb, Fr, Pp, Z.eqb_refl, Ce, !Z.eqb_refl, !eqb_reflx. cbn [negb andb].
              destruct (flush_take _ _ _ _) as [taken used]. simp_state.
              destruct (fi_shutdown fi =? 1).
              ** destruct (successors b (queue s)) as [|qb qbs] eqn:Lq.
                 --- destruct (pop_mode s && negb (fi_nopop fi)); [discriminate|]. destruct (negb (fi_rm fi)); discriminate.
                 --- discriminate.
              ** destruct (_ && _); discriminate.
        -- (* the bar renders (on its actor, or by the container goroutine once the actor has exited) *)
           set (st := br_st r).
           exists (BAR_RENDER b (current st) (total st) (refill st) (aborted st) (completed st) (shutdown st)).
           split; [reflexivity|]. unfold enabled, step. rewrite Lb, Rn, andb_false_r. fold st.
           assert (NoMark : aborted st && negb (aborted st) && negb (completed st) && negb (exited st)
                            && (cancelled s || BarState.cancelled st) = false) by (destruct (aborted st); reflexivity).
           rewrite NoMark. unfold bar_render. fold st.
           rewrite !Z.eqb_refl, !eqb_reflx, Fr. cbn [andb]. destruct (brender st). discriminate.
  - (* the heap manager takes the next request *)
    assert (It : iterating s = false).
    { destruct (iterating s) eqn:E; [|reflexivity]. destruct (F1 eq_refl) as [X _]. congruence. }
    destruct q as [b sy| | |].
    + exists (HM_PUSH b sy (Z.of_nat (length (heap s))) (hsync s) (hlen s)). split; [reflexivity|].
      unfold enabled, step. rewrite En, It, !Z.eqb_refl, eqb_reflx.
      assert (Nm : memZ b (heap s) = false).
      { apply memZ_false. intros Hin. pose proof (U b) as Ub. rewrite places_cnt, Ff in Ub. cbn [fifo_pushes cnt] in Ub.
        rewrite Z.eqb_refl in Ub. apply cnt_In in Hin. lia. }
      rewrite Nm. cbn [negb andb]. unfold fifo_pop. rewrite Ff. cbn [is_push]. rewrite Z.eqb_refl, eqb_reflx. cbn. discriminate.
    + exists (HM_SYNC (Z.of_nat (length (heap s))) (hsync s) (hlen s)). split; [reflexivity|].
      unfold enabled, step. rewrite En, It, !Z.eqb_refl, eqb_reflx. cbn [negb andb]. unfold fifo_pop. rewrite Ff. cbn [is_q].
      destruct (hsync s || negb (hlen s =? Z.of_nat (length (heap s)))); discriminate.
    + exists (HM_ITERREQ true (Z.of_nat (length (heap s)))). split; [reflexivity|].
      unfold enabled, step. rewrite En, It, !Z.eqb_refl. cbn [negb andb]. unfold fifo_pop. rewrite Ff. cbn [is_q]. discriminate.
    + exists (HM_ITERREQ false (Z.of_nat (length (heap s)))). split; [reflexivity|].
      unfold enabled, step. rewrite En, It, !Z.eqb_refl. cbn [negb andb]. unfold fifo_pop. rewrite Ff. cbn [is_q]. discriminate.
Qed.

(* between cycles: a frame handed to the writer is written; a cancelled bar's actor can exit; once done
   has been seen the container can return *)
Lemma pending_frame_is_written s : out_pending s = true -> outframes s <> [] -> exists f, enabled s (OUT f).
Proof.
  intros O N. destruct (outframes s) as [|f fs] eqn:E; [congruence|]. exists f. unfold enabled, step. rewrite E, O.
  assert (items_eqb f f = true) as ->; [|discriminate].
  clear. induction f as [|x f IH]; cbn; [reflexivity|]. rewrite IH, andb_true_r.
  destruct x; cbn; rewrite ?Z.eqb_refl, ?eqb_reflx; reflexivity.
Qed.

Lemma cancelled_actor_exits s b r :
  lookup b (bars s) = Some r -> exited (br_st r) = false -> (cancelled s = true \/ BarState.cancelled (br_st r) = true) ->
  exists cur tot ab, enabled s (BAR_EXIT b cur tot ab).
Proof.
  intros L X C. set (st1 := if cancelled s then set_cancelled (br_st r) else br_st r).
  assert (C1 : BarState.cancelled st1 = true) by (unfold st1; destruct (cancelled s); [reflexivity|destruct C; [discriminate|assumption]]).
  assert (X1 : exited st1 = false) by (unfold st1; destruct (cancelled s); exact X).
  exists (current (bexit st1)), (total (bexit st1)), (aborted (bexit st1)). unfold enabled, step. rewrite L. fold st1.
  cbn [bev_step]. rewrite C1, X1. cbn [negb andb]. rewrite !Z.eqb_refl, eqb_reflx. discriminate.
Qed.

Lemma done_container_returns s : done_seen s = true -> is_idle s = true ->
  (auto_mode s = false \/ final_done s = true \/ errored s = true) -> enabled s CT_EXIT.
Proof.
  intros D I H. unfold enabled, step. rewrite D, I.
  destruct H as [H|[H|H]]; rewrite H; cbn; rewrite ?orb_true_r; discriminate.
Qed.
