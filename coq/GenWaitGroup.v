(* GenWaitGroup.v — the shape of bar_wait_group.go regenerated from /repo (C01). *)
From Coq Require Import String List ZArith Bool.
From MPB Require Import Base BarState Container.
From MPB.gen Require Import GenApi.
Import ListNotations.
Open Scope string_scope.

(* ---------- the wait group (bar_wait_group.go) ---------- *)
(* what WaitGroup.v's atomic steps rest on: Add and Wait run under the mutex, Add broadcasts exactly when the count has become
   zero (and somebody may be waiting), and Wait re-checks the count in a loop around cond.Wait *)
Theorem wait_group_as_modelled :
  gen_wait_group = [("Add first", "g.mu.Lock()"); ("Wait first", "g.mu.Lock()");
                    ("Add Broadcast", "if g.n == 0 && g.zero != nil"); ("Wait Wait", "for g.n != 0")].
Proof. reflexivity. Qed.
