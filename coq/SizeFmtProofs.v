(* SizeFmtProofs.v — the printed numbers read back to the true value (C20). *)
From Coq Require Import ZArith Lia Reals Lra.
From Flocq Require Import Core.Core IEEE754.BinarySingleNaN.
From MPB Require Import Base BaseProofs F64 Percent PercentProofs SizeFmt.
Open Scope Z_scope.

(* ---------- decimal rendering: nearest, ties to even ---------- *)
Lemma round_half_even_spec a b :
  0 < b -> 0 <= a ->
  let q := round_half_even a b in
  2 * Z.abs (q * b - a) <= b /\ 0 <= q.
Proof.
  intros Hb Ha. unfold round_half_even.
  pose proof (Z.div_mod a b ltac:(lia)) as DM. pose proof (Z.mod_pos_bound a b Hb) as MB.
  assert (Hq : 0 <= a / b) by (apply Z.div_pos; lia).
  set (q := a / b) in *. set (r := a mod b) in *.
  assert (E0 : q * b - a = - r) by lia.
  assert (E1 : (q + 1) * b - a = b - r) by lia.
  destruct (Z.ltb_spec (2 * r) b).
  - rewrite E0, Z.abs_neq by lia. lia.
  - destruct (Z.ltb_spec b (2 * r)).
    + rewrite E1, Z.abs_eq by lia. lia.
    + destruct (Z.even q).
      * rewrite E0, Z.abs_neq by lia. lia.
      * rewrite E1, Z.abs_eq by lia. lia.
Qed.

(* the printed number times 10^p is within one half of the exact value of the float times 10^p *)
Theorem fmt_fixed_nearest s m e H p n :
  0 <= p -> fixed_scaled (B754_finite s m e H) p = Some (s, n) ->
  (0 <= e -> n = Z.pos m * 2 ^ e * 10 ^ p) /\
  (e < 0 -> 2 * Z.abs (n * 2 ^ (- e) - Z.pos m * 10 ^ p) <= 2 ^ (- e)).
Proof.
  intros Hp. unfold fixed_scaled. destruct (Z.leb_spec 0 e); intros E; injection E as E; subst n; split; intros; try lia.
  - reflexivity.
  - apply round_half_even_spec; [apply Z.pow_pos_nonneg; lia|].
    apply Z.mul_nonneg_nonneg; [lia|]. apply Z.pow_nonneg. lia.
Qed.

Theorem fmt_fixed_parts x p sg ip fp :
  0 <= p -> fmt_fixed x p = Some (sg, ip, fp) -> 0 <= fp < 10 ^ p.
Proof.
  intros Hp. unfold fmt_fixed. destruct (fixed_scaled x p) as [[s n]|]; [|discriminate].
  intros E; inversion E; subst. apply Z.mod_pos_bound. apply Z.pow_pos_nonneg; lia.
Qed.

(* never NaN or infinity: a finite float always renders *)
Theorem fmt_fixed_total x p : is_finite x = true -> fmt_fixed x p <> None.
Proof.
  destruct x; cbn; try discriminate; intros _; unfold fmt_fixed, fixed_scaled; try discriminate.
  destruct (0 <=? e); discriminate.
Qed.

(* ---------- the largest unit that fits ---------- *)
Theorem unit_is_largest_fitting_1024 s :
  0 <= s ->
  let i := pick_unit units1024 s in
  let u := nth i units1024 1 in
  (i = 0%nat \/ u <= s) /\ (i = 4%nat \/ s < nth (S i) units1024 1).
Proof.
  intros Hs. unfold pick_unit, units1024. cbn [nth].
  repeat match goal with |- context [Z.ltb ?a ?b] => destruct (Z.ltb_spec a b) end; cbn [nth]; split; auto; try (right; lia).
Qed.

Theorem unit_is_largest_fitting_1000 s :
  0 <= s ->
  let i := pick_unit units1000 s in
  let u := nth i units1000 1 in
  (i = 0%nat \/ u <= s) /\ (i = 4%nat \/ s < nth (S i) units1000 1).
Proof.
  intros Hs. unfold pick_unit, units1000. cbn [nth].
  repeat match goal with |- context [Z.ltb ?a ?b] => destruct (Z.ltb_spec a b) end; cbn [nth]; split; auto; try (right; lia).
Qed.

(* the quotient is a finite float (never NaN / Inf) for every non-negative int64 *)
Theorem size_quotient_finite us s :
  (us = units1024 \/ us = units1000) -> 0 <= s < 2^63 -> is_finite (size_quotient us s) = true.
Proof.
  intros Hu Hs. unfold size_quotient.
  assert (Hn : 1 <= nth (pick_unit us s) us 1 < 2^63).
  { destruct Hu as [-> | ->]; unfold pick_unit, units1024, units1000;
    repeat match goal with |- context [Z.ltb ?a ?b] => destruct (Z.ltb_spec a b) end; cbn [nth]; lia. }
  set (u := nth (pick_unit us s) us 1) in *.
  destruct (of_Z_spec s) as [Rs Fs]; [lia|]. destruct (of_Z_spec u) as [Ru Fu]; [lia|].
  assert (U1 : (1 <= rnd (IZR u))%R) by (apply rnd_ge_1, IZR_le; lia).
  assert (Hy : B2R (of_Z u) <> 0%R) by (rewrite Ru; lra).
  pose proof (Bdiv_correct prec emax _ _ mode_NE (of_Z s) (of_Z u) Hy) as D.
  simpl round_mode in D. rewrite Rs, Ru in D.
  destruct (rnd_int_bounds s Hs) as [S0 S1].
  assert (Q0 : (0 <= rnd (IZR s) / rnd (IZR u))%R).
  { apply Rmult_le_pos; [exact S0|]. apply Rlt_le, Rinv_0_lt_compat. lra. }
  assert (Q1 : (rnd (IZR s) / rnd (IZR u) <= bpow radix2 63)%R).
  { apply Rle_trans with (2 := S1). unfold Rdiv. rewrite <- (Rmult_1_r (rnd (IZR s))) at 2.
    apply Rmult_le_compat_l; [exact S0|]. rewrite <- Rinv_1. apply Rinv_le_contravar; lra. }
  assert (Db : (Rabs (rnd (rnd (IZR s) / rnd (IZR u))) < bpow radix2 emax)%R).
  { rewrite Rabs_pos_eq by (apply rnd_nonneg; exact Q0).
    apply Rle_lt_trans with (bpow radix2 63); [|apply bpow_lt; reflexivity].
    apply rnd_le_bpow; [lia|exact Q1]. }
  rewrite (Rlt_bool_true _ _ Db) in D. destruct D as (_ & D2 & _). unfold fdiv. rewrite D2. exact Fs.
Qed.

(* ---------- time producers ---------- *)
Theorem hhmmss_exact d :
  0 <= d < 60 * ns_hour ->
  let '(h, m, s) := hms d in
  0 <= h < 60 /\ 0 <= m < 60 /\ 0 <= s < 60 /\ (h * 3600 + m * 60 + s) = d / ns_sec.
Proof.
  intros Hd. unfold hms, ns_hour, ns_min, ns_sec in *.
  rewrite !Z.quot_div_nonneg by lia.
  pose proof (Z.mod_pos_bound (d / 3600000000000) 60 ltac:(lia)).
  pose proof (Z.mod_pos_bound (d / 60000000000) 60 ltac:(lia)).
  pose proof (Z.mod_pos_bound (d / 1000000000) 60 ltac:(lia)).
  repeat split; try lia.
  (* with S = d / 1e9 seconds: hours = S / 3600 (< 60), minutes = (S / 60) mod 60, seconds = S mod 60 *)
  replace (d / 3600000000000) with (d / 1000000000 / 3600) by (rewrite Z.div_div by lia; reflexivity).
  replace (d / 60000000000) with (d / 1000000000 / 60) by (rewrite Z.div_div by lia; reflexivity).
  set (S := d / 1000000000).
  assert (HS : 0 <= S < 216000).
  { unfold S. split; [apply Z.div_pos; lia|apply Z.div_lt_upper_bound; lia]. }
  assert (S / 3600 < 60) by (apply Z.div_lt_upper_bound; lia).
  rewrite (Z.mod_small (S / 3600) 60) by (split; [apply Z.div_pos; lia|lia]).
  pose proof (Z.div_mod S 60 ltac:(lia)). pose proof (Z.div_mod (S / 60) 60 ltac:(lia)).
  replace (S / 3600) with (S / 60 / 60) by (rewrite Z.div_div by lia; reflexivity). lia.
Qed.

(* ---------- estimators conserve time ---------- *)
(* the integer numerator a delivered sample is computed from *)
Definition carry_step (zdur n dur : Z) : Z * option Z :=
  if n <=? 0 then (zdur + dur, None) else (0, Some (zdur + dur)).

Fixpoint carry_run (zdur : Z) (samples : list (Z * Z)) : Z * list Z :=
  match samples with
  | [] => (zdur, [])
  | (n, dur) :: r =>
      let '(z, d) := carry_step zdur n dur in
      let '(zf, ds) := carry_run z r in
      (zf, match d with Some x => x :: ds | None => ds end)
  end.

(* every nanosecond handed in is either delivered to the average or still carried *)
Theorem zdur_conserves_time samples : forall zdur,
  let '(zf, ds) := carry_run zdur samples in zf + sumZ ds = zdur + sumZ (map snd samples).
Proof.
  induction samples as [|[n dur] r IH]; intros zdur; cbn [carry_run map snd sumZ]; [lia|].
  unfold carry_step. destruct (n <=? 0).
  - specialize (IH (zdur + dur)). destruct (carry_run (zdur + dur) r) as [zf ds]. lia.
  - specialize (IH 0). destruct (carry_run 0 r) as [zf ds]. cbn [sumZ]. lia.
Qed.

(* a sample without progress is carried, never divided by *)
Theorem zero_progress_never_divides zdur n dur :
  n <= 0 -> ewma_update zdur n dur = (wrap64 (zdur + dur), None).
Proof. intros H. unfold ewma_update. destruct (Z.leb_spec n 0); [reflexivity|lia]. Qed.

(* a sample with progress is always delivered (the Inf/NaN branch is dead for int64 inputs) *)
Theorem positive_sample_always_delivered zdur n dur :
  1 <= n < 2^63 -> 0 <= zdur + dur < 2^63 ->
  exists q, ewma_update zdur n dur = (0, Some q) /\ is_finite q = true /\ q = fdiv (of_Z (zdur + dur)) (of_Z n).
Proof.
  intros Hn Hd. unfold ewma_update. destruct (Z.leb_spec n 0); [lia|].
  rewrite wrap64_id by (unfold in_i64, min_i64, max_i64, two63; lia).
  set (a := zdur + dur) in *.
  assert (F : is_finite (fdiv (of_Z a) (of_Z n)) = true).
  { destruct (of_Z_spec a) as [Ra Fa]; [lia|]. destruct (of_Z_spec n) as [Rn Fn]; [lia|].
    assert (N1 : (1 <= rnd (IZR n))%R) by (apply rnd_ge_1, IZR_le; lia).
    assert (Hy : B2R (of_Z n) <> 0%R) by (rewrite Rn; lra).
    pose proof (Bdiv_correct prec emax _ _ mode_NE (of_Z a) (of_Z n) Hy) as D.
    simpl round_mode in D. rewrite Ra, Rn in D.
    destruct (rnd_int_bounds a Hd) as [A0 A1].
    assert (Q0 : (0 <= rnd (IZR a) / rnd (IZR n))%R).
    { apply Rmult_le_pos; [exact A0|]. apply Rlt_le, Rinv_0_lt_compat. lra. }
    assert (Q1 : (rnd (IZR a) / rnd (IZR n) <= bpow radix2 63)%R).
    { apply Rle_trans with (2 := A1). unfold Rdiv. rewrite <- (Rmult_1_r (rnd (IZR a))) at 2.
      apply Rmult_le_compat_l; [exact A0|]. rewrite <- Rinv_1. apply Rinv_le_contravar; lra. }
    assert (Db : (Rabs (rnd (rnd (IZR a) / rnd (IZR n))) < bpow radix2 emax)%R).
    { rewrite Rabs_pos_eq by (apply rnd_nonneg; exact Q0).
      apply Rle_lt_trans with (bpow radix2 63); [|apply bpow_lt; reflexivity].
      apply rnd_le_bpow; [lia|exact Q1]. }
    rewrite (Rlt_bool_true _ _ Db) in D. destruct D as (_ & D2 & _). unfold fdiv. rewrite D2. exact Fa. }
  exists (fdiv (of_Z a) (of_Z n)). destruct (fdiv (of_Z a) (of_Z n)) eqn:E; cbn in F; try discriminate; auto.
Qed.
