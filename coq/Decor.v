(* Decor.v — decor.WC.Format, the wrapper decorators (on_complete.go,
   on_abort.go, meta.go) and bState.draw (bar.go) over display widths.
   A text is a list of segments; a grapheme cluster is a segment with cnt = 1. *)
From MPB Require Import Base F64 Percent Filler.

Definition text := list seg.

Record wc := mkWC { wcW : Z; extra : bool; indent_right : bool; wsync : bool }.

(* decor/decorator.go WC.Format, first half: the width this decorator needs *)
Definition need_width (c : wc) (t : text) : Z :=
  let tw := segs_width t in
  if tw <? wcW c then wcW c else if extra c then tw + 1 else tw.

(* second half: pad to [width] (the column maximum when synchronised);
   runewidth.FillLeft / FillRight add spaces only when the text is narrower *)
Definition pad_to (c : wc) (t : text) (width : Z) : text :=
  let pad := width - segs_width t in
  if indent_right c then t ++ nonempty [mkSeg cSp pad 1] else nonempty [mkSeg cSp pad 1] ++ t.

Inductive dec :=
| DBase (c : wc) (t : text)                  (* decor.Any / Name / built-ins: Format(fn(stat)) *)
| DOnComplete (d : dec) (msg : text)
| DOnAbort (d : dec) (msg : text)
| DMeta (d : dec)
| DOnCompleteMeta (d : dec)
| DOnAbortMeta (d : dec).

Fixpoint dwc (d : dec) : wc :=
  match d with
  | DBase c _ => c
  | DOnComplete d _ | DOnAbort d _ | DMeta d | DOnCompleteMeta d | DOnAbortMeta d => dwc d
  end.

(* the text handed to the innermost Format for given flags; every branch of
   every wrapper ends in exactly one Format call of the innermost WC *)
Fixpoint dtext (d : dec) (completed aborted : bool) : text :=
  match d with
  | DBase _ t => t
  | DOnComplete d m => if completed then m else dtext d completed aborted
  | DOnAbort d m => if aborted then m else dtext d completed aborted
  | DMeta d | DOnCompleteMeta d | DOnAbortMeta d => dtext d completed aborted
  end.

(* number of Format calls (= width exchanges when synchronised) per Decor call *)
Fixpoint dformats (d : dec) (completed aborted : bool) : nat :=
  match d with
  | DBase _ _ => 1
  | DOnComplete d _ => if completed then 1 else dformats d completed aborted
  | DOnAbort d _ => if aborted then 1 else dformats d completed aborted
  | DMeta d | DOnCompleteMeta d | DOnAbortMeta d => dformats d completed aborted
  end.

(* Decor for an unsynchronised decorator (or a column of one) *)
Definition decor_plain (d : dec) (completed aborted : bool) : text * Z :=
  let t := dtext d completed aborted in
  let w := need_width (dwc d) t in
  (pad_to (dwc d) t w, w).

(* runewidth.Truncate(s, w, "…") on grapheme clusters *)
Fixpoint take_width (l : text) (wd : Z) : text :=
  match l with
  | [] => []
  | s :: rest =>
      if w s <=? 0 then s :: take_width rest wd
      else let k := Z.min (cnt s) (wd / w s) in
           if k <? cnt s then nonempty [mkSeg (cls s) k (w s)]
           else s :: take_width rest (wd - cnt s * w s)
  end.

Definition truncate (t : text) (wd : Z) : text :=
  if segs_width t <=? wd then t else take_width t (wd - 1) ++ [mkSeg cEll 1 1].

(* the decorFiller closure of bState.draw: ds = Decor results (text, reported width) *)
Fixpoint decor_fill (ds : list (text * Z)) (av : Z) : text * Z :=
  match ds with
  | [] => ([], av)
  | (t, rw) :: rest =>
      if 0 <=? av - rw then let '(o, a) := decor_fill rest (av - rw) in (t ++ o, a)
      else if 0 <? av then let '(o, a) := decor_fill rest 0 in (truncate t av ++ o, a)
      else decor_fill rest av
  end.

(* bState.draw: prepend decorators, append decorators, the two optional
   spaces, the filler; row = prepend · space · filler · space · append.
   The filler may carry state (tip / spinner frame counter) of type A. *)
Definition draw {A} (tw : Z) (pre app : list (text * Z)) (trim : bool)
           (filler : Z -> option (text * A)) : option (text * A) :=
  let '(p, a1) := decor_fill pre tw in
  let '(q, a2) := decor_fill app a1 in
  let '(sp, a3) := if trim || (a2 <? 2) then ([], a2) else ([mkSeg cSp 1 1], a2 - 2) in
  match filler a3 with
  | None => None
  | Some (f, st) => Some (p ++ sp ++ f ++ sp ++ q, st)
  end.

Inductive filler_kind :=
| FBar (st : bar_style)
| FSpin (st : spin_style)
| FNop.

(* one row of a bar: statistics as newStatistics builds them *)
Definition draw_row (fk : filler_kind) (count : Z) (tw reqw : Z) (trim : bool)
           (pre app : list dec) (total current refill : Z) (completed aborted : bool)
  : option (text * Z) :=
  let ds := map (fun d => decor_plain d completed aborted) in
  draw tw (ds pre) (ds app) trim
    (fun a =>
       let s := mkStat a reqw total current refill completed aborted in
       match fk with
       | FBar st => fill_bar st count s
       | FSpin st => Some (fill_spinner st count s)
       | FNop => Some ([], count)
       end).

(* canonical form used when comparing with the implementation's parsed output:
   zero-width and empty segments dropped, adjacent segments of one class merged *)
Fixpoint canon (l : text) : text :=
  match l with
  | [] => []
  | s :: rest =>
      if (cnt s <=? 0) || (w s <=? 0) then canon rest else
      match canon rest with
      | s' :: r' => if (cls s =? cls s') && (w s =? w s') then mkSeg (cls s) (cnt s + cnt s') (w s) :: r'
                    else s :: s' :: r'
      | [] => [s]
      end
  end.
