(* Vt.v — the bytes the container writes, and how a terminal reads them (C04).
   cwriter.Writer.Flush writes the buffered lines and then buffers
   "ESC [ <n> A ESC [ J" (cursor up n lines, erase to end of screen) in front of the next
   frame.  [encode] produces those bytes from the items of Term.v / Container.v; [lex] is
   the terminal's reading of a byte stream in the fragment the library emits: whole lines
   ended by LF, CSI n A, CSI J.  Theorem (VtProofs.v): lex (encode f) gives back f. *)
From MPB Require Import Base.

Definition ESC : Z := 27.
Definition LBR : Z := 91.   (* [ *)
Definition CHA : Z := 65.   (* A *)
Definition CHJ : Z := 74.   (* J *)
Definition LF : Z := 10.

(* what a frame is made of at this level: a cursor-up-and-erase, or one line of payload bytes *)
Inductive vitem :=
| VCuu (n : Z)
| VLine (l : list Z).

(* strconv.AppendInt(b, n, 10) for n > 0 *)
Fixpoint dec_digits (fuel : nat) (n : Z) (acc : list Z) : list Z :=
  match fuel with
  | O => acc
  | S f => if n <? 10 then (48 + n) :: acc else dec_digits f (n / 10) ((48 + n mod 10) :: acc)
  end.
Definition dec (n : Z) : list Z := dec_digits 20 n [].

Definition encode_item (i : vitem) : list Z :=
  match i with
  | VCuu n => [ESC; LBR] ++ dec n ++ [CHA; ESC; LBR; CHJ]
  | VLine l => l ++ [LF]
  end.
Definition encode (f : list vitem) : list Z := concat (map encode_item f).

(* the terminal's reader *)
Inductive tok :=
| TUp (n : Z)      (* CSI n A *)
| TErase           (* CSI J *)
| TLine (l : list Z).

Inductive lstate :=
| LGround (cur : list Z)          (* bytes of the line being read, latest first *)
| LEsc
| LCsi (arg : option Z).          (* digits read so far *)

Definition is_digit (b : Z) : bool := (48 <=? b) && (b <=? 57).

(* one byte; None: outside the fragment the library emits *)
Definition lex_step (st : lstate) (b : Z) : option (lstate * list tok) :=
  match st with
  | LGround cur =>
      if b =? LF then Some (LGround [], [TLine (List.rev cur)])
      else if b =? ESC then (match cur with [] => Some (LEsc, []) | _ => None end)
      else Some (LGround (b :: cur), [])
  | LEsc => if b =? LBR then Some (LCsi None, []) else None
  | LCsi arg =>
      if is_digit b then Some (LCsi (Some (match arg with Some v => v * 10 + (b - 48) | None => b - 48 end)), [])
      (* ECMA-48: a zero parameter means the default, 1 — "cursor up 0" moves one line up *)
      else if b =? CHA then (match arg with Some v => Some (LGround [], [TUp (Z.max 1 v)]) | None => Some (LGround [], [TUp 1]) end)
      else if b =? CHJ then (match arg with None => Some (LGround [], [TErase]) | Some _ => None end)
      else None
  end.

Fixpoint lex (st : lstate) (bs : list Z) : option (lstate * list tok) :=
  match bs with
  | [] => Some (st, [])
  | b :: r =>
      match lex_step st b with
      | Some (st1, t1) => match lex st1 r with Some (st2, t2) => Some (st2, t1 ++ t2) | None => None end
      | None => None
      end
  end.

Definition toks_of (i : vitem) : list tok :=
  match i with VCuu n => [TUp n; TErase] | VLine l => [TLine l] end.

(* ---------- what the tokens do to a screen of lines ---------- *)
(* lines above the cursor, and lines from the cursor down (the cursor is always at a line start here) *)
Definition vscreen := (list (list Z) * list (list Z))%type.

Definition tok_step (h : Z) (s : vscreen) (t : tok) : vscreen :=
  let '(above, below) := s in
  match t with
  | TUp n =>
      let k := Z.to_nat (Z.min n (Z.max 0 (h - 1))) in
      let keep := (length above - k)%nat in
      (firstn keep above, skipn keep above ++ below)
  | TErase => (above, [])
  | TLine l => (above ++ [l], match below with [] => [] | _ :: r => r end)
  end.

Definition vt_frame (h : Z) (scr : list (list Z)) (f : list vitem) : vscreen :=
  fold_left (tok_step h) (flat_map toks_of f) (scr, []).

(* the same at the level of items (Term.apply_item_h, with lines as bytes) *)
Definition vapply_item_h (h : Z) (scr : list (list Z)) (i : vitem) : list (list Z) :=
  match i with
  | VCuu n => firstn (length scr - Z.to_nat (Z.min n (Z.max 0 (h - 1)))) scr
  | VLine l => scr ++ [l]
  end.
