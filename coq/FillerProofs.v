(* FillerProofs.v — termination and exact width of the bar filler and spinner (C07). *)
From MPB Require Import Base BaseProofs F64 Percent Filler.

(* ---- the loop ---- *)
Lemma loop_spec fuel : forall cw lim fc count,
  Z.max 0 (lim - fc) < Z.of_nat fuel ->
  exists n fc', loop fuel cw lim fc count = Some (n, fc')
    /\ count <= n /\ fc' = fc + (n - count) * cw /\ fc <= fc'
    /\ (fc <= lim -> fc' <= lim) /\ (lim < fc -> fc' = fc)
    /\ (0 < cw -> lim - fc' < cw).
Proof.
  induction fuel as [|f IH]; intros cw lim fc count Hf.
  - exfalso. cbn in Hf. lia.
  - cbn [loop]. destruct (Z.ltb_spec 0 cw) as [Hc|Hc]; cbn [andb].
    + destruct (Z.leb_spec cw (lim - fc)) as [Hl|Hl].
      * destruct (IH cw lim (fc + cw) (count + 1)) as (n & fc' & E & A & B & C & D & F & G); [lia|].
        exists n, fc'. rewrite E. repeat split; lia.
      * exists count, fc. repeat split; try lia.
    + exists count, fc. repeat split; try lia.
Qed.

Lemma run_loop_spec cw lim fc :
  exists n fc', run_loop cw lim fc = Some (n, fc')
    /\ 0 <= n /\ fc' = fc + n * cw /\ fc <= fc'
    /\ (fc <= lim -> fc' <= lim) /\ (lim < fc -> fc' = fc)
    /\ (0 < cw -> lim - fc' < cw).
Proof.
  unfold run_loop, loop_fuel.
  destruct (loop_spec (Z.to_nat (Z.max 0 (lim - fc)) + 2) cw lim fc 0) as (n & fc' & E & A & B & C & D & F & G).
  { rewrite Nat2Z.inj_add, Z2Nat.id by lia. lia. }
  exists n, fc'. rewrite E. repeat split; try lia.
Qed.

Lemma run_loop_total cw lim fc : run_loop cw lim fc <> None.
Proof. destruct (run_loop_spec cw lim fc) as (n & fc' & E & _). rewrite E. discriminate. Qed.

(* ---- widths of segment lists ---- *)
Lemma segs_width_app a b : segs_width (a ++ b) = segs_width a + segs_width b.
Proof. unfold segs_width. rewrite map_app, sumZ_app. reflexivity. Qed.

Lemma segs_width_cons s l : segs_width (s :: l) = cnt s * w s + segs_width l.
Proof. reflexivity. Qed.

Lemma segs_width_nil : segs_width [] = 0. Proof. reflexivity. Qed.

Definition nonneg_counts (l : list seg) : Prop := Forall (fun s => 0 <= cnt s) l.

Lemma segs_width_nonempty l : nonneg_counts l -> segs_width (nonempty l) = segs_width l.
Proof.
  induction l as [|s l IH]; intros H; [reflexivity|].
  inversion H as [|? ? Hs Hl]; subst. cbn [nonempty filter].
  destruct (Z.ltb_spec 0 (cnt s)).
  - rewrite !segs_width_cons. fold (nonempty l). rewrite IH by assumption. reflexivity.
  - fold (nonempty l). rewrite segs_width_cons, IH by assumption. assert (cnt s = 0) by lia. nia.
Qed.

Lemma segs_width_concat_rev (ls : list (list seg)) :
  segs_width (concat (List.rev ls)) = segs_width (concat ls).
Proof.
  induction ls as [|a ls IH]; [reflexivity|].
  cbn [List.rev concat]. rewrite concat_app, !segs_width_app. cbn [concat].
  rewrite app_nil_r, IH. lia.
Qed.

Lemma nonneg_counts_concat_rev (ls : list (list seg)) :
  nonneg_counts (concat ls) -> nonneg_counts (concat (List.rev ls)).
Proof.
  unfold nonneg_counts. rewrite !Forall_forall. intros H x Hx.
  apply H. apply in_concat in Hx as (l & Hl & Hx). apply in_concat. exists l. split; [|assumption].
  apply in_rev. assumption.
Qed.

(* ---- the bar filler ---- *)
Definition inner_width (st : bar_style) (s : stat) : Z :=
  check_requested_width (req s) (avail s) - (lb st + rb st).

Lemma fill_counts_spec st width curw refw fc0 docur :
  0 <= fc0 <= width -> curw <= width -> refw <= width ->
  exists nf nr np ne, fill_counts st width curw refw fc0 docur = Some (nf, nr, np, ne)
    /\ 0 <= nf /\ 0 <= nr /\ 0 <= np /\ 0 <= ne
    /\ fc0 + nf * fw st + nr * rw st + np * pw st + ne = width
    /\ (docur = false -> nf = 0 /\ nr = 0)
    /\ (fc0 + nf * fw st <= Z.max fc0 curw)
    /\ (fc0 + nf * fw st + nr * rw st <= Z.max (Z.max fc0 curw) refw).
Proof.
  intros H0 Hc Hr. unfold fill_counts.
  assert (S1 : exists nf fc1, (if docur then run_loop (fw st) curw fc0 else Some (0, fc0)) = Some (nf, fc1)
            /\ 0 <= nf /\ fc1 = fc0 + nf * fw st /\ fc0 <= fc1 <= width /\ (docur = false -> nf = 0)
            /\ fc1 <= Z.max fc0 curw).
  { destruct docur.
    - destruct (run_loop_spec (fw st) curw fc0) as (n & f & E & A & B & C & D & F & G).
      exists n, f. rewrite E.
      assert (f <= Z.max fc0 curw)
        by (destruct (Z.le_gt_cases fc0 curw); [specialize (D ltac:(lia))|specialize (F ltac:(lia))]; lia).
      repeat split; try lia; try discriminate.
    - exists 0, fc0. repeat split; lia. }
  destruct S1 as (nf & fc1 & E1 & N1 & F1 & R1 & D1 & M1). rewrite E1.
  assert (S2 : exists nr fc2, (if docur then run_loop (rw st) refw fc1 else Some (0, fc1)) = Some (nr, fc2)
            /\ 0 <= nr /\ fc2 = fc1 + nr * rw st /\ fc1 <= fc2 <= width /\ (docur = false -> nr = 0)
            /\ fc2 <= Z.max fc1 refw).
  { destruct docur.
    - destruct (run_loop_spec (rw st) refw fc1) as (n & f & E & A & B & C & D & F & G).
      exists n, f. rewrite E.
      assert (f <= Z.max fc1 refw)
        by (destruct (Z.le_gt_cases fc1 refw); [specialize (D ltac:(lia))|specialize (F ltac:(lia))]; lia).
      repeat split; try lia; try discriminate.
    - exists 0, fc1. repeat split; lia. }
  destruct S2 as (nr & fc2 & E2 & N2 & F2 & R2 & D2 & M2). rewrite E2.
  destruct (run_loop_spec (pw st) width fc2) as (np & fc3 & E3 & N3 & F3 & C3 & D3 & _ & _). rewrite E3.
  destruct (run_loop_spec 1 width fc3) as (ne & fc4 & E4 & N4 & F4 & C4 & D4 & _ & G4). rewrite E4.
  specialize (D3 ltac:(lia)). specialize (D4 ltac:(lia)). specialize (G4 ltac:(lia)).
  exists nf, nr, np, ne. split; [reflexivity|].
  repeat (split; [lia|]). split; [intros Hd; split; [apply D1|apply D2]; exact Hd|]. split; lia.
Qed.

Theorem fill_bar_terminates st tc s : fill_bar st tc s <> None.
Proof.
  unfold fill_bar.
  destruct (_ <? 0); [discriminate|]. destruct (_ =? 0); [discriminate|].
  destruct (choose_tip _ _ _ _ _) as [[tipseg tipw] tcn]. destruct (cur_ref _ _ _) as [curw refw].
  unfold fill_counts.
  repeat match goal with
  | |- context [run_loop ?a ?b ?c] =>
      let n := fresh "n" in let f := fresh "fc" in let E := fresh "E" in
      destruct (run_loop_spec a b c) as (n & f & E & _); rewrite E
  | |- context [if ?c then _ else _] => destruct c
  end; discriminate.
Qed.

Theorem fill_bar_nothing_when_too_narrow st tc s :
  inner_width st s < 0 -> fill_bar st tc s = Some ([], tc).
Proof.
  unfold fill_bar, inner_width. intros H.
  destruct (Z.ltb_spec (check_requested_width (req s) (avail s) - (lb st + rb st)) 0); [reflexivity|lia].
Qed.

Lemma choose_tip_spec st tc width cur comp :
  0 <= width -> Forall (fun t => 0 <= t) (tips st) ->
  let '(tipseg, tipw, tcn) := choose_tip st tc width cur comp in
  segs_width tipseg = tipw /\ 0 <= tipw <= width /\ nonneg_counts tipseg /\ (cur = 0 -> tipw = 0)
  /\ (tcn = tc \/ tcn = tc + 1).
Proof.
  intros Hw Htips. unfold choose_tip.
  destruct (Z.eqb_spec cur 0) as [C0|C0]; cbn [negb andb].
  - repeat split; try lia; auto. constructor.
  - destruct (negb comp || tip_on_complete st).
    + destruct (nth_tip st tc) as [i tw] eqn:En.
      assert (0 <= tw).
      { unfold nth_tip in En. inversion En; subst.
        destruct (nth_in_or_default (Z.to_nat (tc mod Z.of_nat (length (tips st)))) (tips st) 0) as [Hin|Hd].
        - rewrite Forall_forall in Htips. apply Htips. assumption.
        - rewrite Hd. lia. }
      destruct (Z.leb_spec tw width).
      * repeat split; try lia; auto.
        -- rewrite segs_width_cons, segs_width_nil. cbn [cnt w]. lia.
        -- repeat constructor. cbn [cnt]. lia.
      * repeat split; try lia; auto. constructor.
    + repeat split; try lia; auto. constructor.
Qed.

(* exact width: needs only that the numbers of filled / refilled cells are within
   the inner width (PercentProofs.cells_range) and that tip widths are not negative *)
Theorem fill_bar_width st tc s out tc' :
  0 <= inner_width st s ->
  0 <= cells (s_total s) (s_current s) (inner_width st s) <= inner_width st s ->
  0 <= cells (s_total s) (s_refill s) (inner_width st s) ->
  Forall (fun t => 0 <= t) (tips st) ->
  fill_bar st tc s = Some (out, tc') ->
  segs_width out = lb st + inner_width st s + rb st.
Proof.
  unfold fill_bar, inner_width. set (width := check_requested_width (req s) (avail s) - (lb st + rb st)).
  intros Hw Hc Hr Htips.
  destruct (Z.ltb_spec width 0); [lia|].
  destruct (Z.eqb_spec width 0) as [W0|W0].
  { intros E; inversion E; subst. rewrite !segs_width_cons, segs_width_nil. cbn [cnt w]. lia. }
  set (cur := cells (s_total s) (s_current s) width) in *.
  pose proof (choose_tip_spec st tc width cur (s_completed s) Hw Htips) as Ht.
  destruct (choose_tip st tc width cur (s_completed s)) as [[tipseg tipw] tcn].
  destruct Ht as (Wt & Rt & Nt & Zt & _).
  assert (Hcr : let '(curw, refw) := cur_ref s width cur in curw <= width /\ refw <= width).
  { unfold cur_ref. destruct (cur =? 0); [lia|]. destruct (negb (s_refill s =? 0)); lia. }
  destruct (cur_ref s width cur) as [curw refw]. destruct Hcr as [Hcw Hrw].
  destruct (fill_counts_spec st width curw refw tipw (negb (cur =? 0)) Rt Hcw Hrw)
    as (nf & nr & np & ne & E & N1 & N2 & N3 & N4 & Sum & _).
  assert (NN : forall l, nonneg_counts l ->
     segs_width (mkSeg cL 1 (lb st) :: nonempty l ++ [mkSeg cR 1 (rb st)]) = lb st + segs_width l + rb st).
  { intros l Hl. rewrite segs_width_cons, segs_width_app, segs_width_nonempty by assumption.
    rewrite segs_width_cons, segs_width_nil. cbn [cnt w]. lia. }
  rewrite E. intros Eo. injection Eo as Eo _. subst out. rewrite NN.
  - destruct (reverse st); cbn [List.rev concat app];
      repeat rewrite ?segs_width_app, ?segs_width_cons, ?segs_width_nil; cbn [cnt w]; lia.
  - unfold nonneg_counts in *.
    destruct (reverse st); cbn [List.rev concat app];
      repeat first [exact Nt | apply Forall_nil | apply Forall_cons | apply Forall_app; split | (cbn [cnt]; lia)].
Qed.

(* the tip counter advances by at most one per call *)
Lemma fill_bar_tipcount st tc s out tc' :
  fill_bar st tc s = Some (out, tc') -> tc' = tc \/ tc' = tc + 1.
Proof.
  unfold fill_bar. destruct (_ <? 0); [intros E; inversion E; auto|].
  destruct (_ =? 0); [intros E; inversion E; auto|].
  unfold choose_tip.
  destruct (negb _ && _); [destruct (nth_tip st tc) as [i tw]; destruct (tw <=? _)|];
  destruct (cur_ref _ _ _); destruct (fill_counts _ _ _ _ _ _) as [[[[? ?] ?] ?]|];
  intros E; inversion E; auto.
Qed.

(* ---- the spinner ---- *)
Theorem fill_spinner_width st count s :
  Forall (fun t => 0 <= t) (frames st) ->
  let width := check_requested_width (req s) (avail s) in
  let out := fst (fill_spinner st count s) in
  segs_width out = 0 \/ segs_width out = width.
Proof.
  intros Hf. cbn zeta. unfold fill_spinner.
  set (width := check_requested_width (req s) (avail s)).
  set (i := count mod Z.of_nat (length (frames st))).
  set (fwid := nth (Z.to_nat i) (frames st) 0).
  assert (0 <= fwid).
  { unfold fwid. destruct (nth_in_or_default (Z.to_nat i) (frames st) 0) as [Hin|Hd].
    - rewrite Forall_forall in Hf. apply Hf. assumption.
    - rewrite Hd. lia. }
  destruct (Z.ltb_spec width fwid); [left; reflexivity|]. right. cbn [fst].
  assert (Hp : 0 <= width - fwid) by lia.
  pose proof (Z.div_mod (width - fwid) 2 ltac:(lia)) as DM.
  pose proof (Z.mod_pos_bound (width - fwid) 2 ltac:(lia)) as MB.
  assert (0 <= (width - fwid) / 2) by (apply Z.div_pos; lia).
  destruct (position st =? 1); [|destruct (position st =? 2)];
    rewrite segs_width_nonempty by (repeat constructor; cbn; lia);
    rewrite !segs_width_cons, segs_width_nil; cbn [cnt w]; lia.
Qed.
