(* Actor.v — concurrent clients of one bar (C10).
   bar.go: every public method hands a closure to the bar's actor goroutine over an
   unbuffered channel (or, once the bar's context is done, may take the ctx.Done / bsOk
   branch instead); the actor runs closures one at a time.  The sequential rules are
   BarState.bapply; this file defines what it means for a concurrent history of calls
   to be explained by them, and an executable certificate checker. *)
From MPB Require Import Base BarState.

(* one completed call of a history: who, when (positions in the global event order), what, and
   what it returned (ONone for methods without a result) *)
Inductive hkind :=
| HOp (o : bop)
| HShutdown.       (* Progress.Shutdown / context cancellation followed by Wait: returns after the bar exited *)

Record hop := mkHop { h_client : Z; h_inv : Z; h_ret : Z; h_kind : hkind; h_out : bout }.

(* a linearization: the calls in the order they take effect, with the actor's own steps in between *)
Inductive litem :=
| LOp (i : nat) (dropped : bool)   (* call number i takes effect here; dropped: it took the ctx.Done branch *)
| LCancel                          (* flush cancels a bar it has shown finished *)
| LExit                            (* the actor returns: aborted := !completed, state published *)
| LRender.                         (* a render closure: counts terminal frames *)

Definition bout_eqb (a b : bout) : bool :=
  match a, b with
  | ONone, ONone => true
  | OInt x, OInt y => x =? y
  | OBool x, OBool y => Bool.eqb x y
  | OSample a1 a2, OSample b1 b2 => (a1 =? b1) && (a2 =? b2)
  | _, _ => false
  end.

(* the sequential object: a live bar executes the closure; a bar whose context is done may execute
   or skip a mutator (both select branches are ready) and still serves getters; an exited bar
   ignores mutators and answers getters from the published state *)
Definition spec_op (s : bst) (o : bop) (dropped : bool) : option (bst * bout) :=
  if exited s then
    if dropped then (if is_getter o then None else Some (s, ONone))
    else (if is_getter o then Some (bapply s o) else None)
  else if cancelled s then
    if dropped then (if is_getter o then None else Some (s, ONone))
    else Some (bapply s o)
  else
    if dropped then None else Some (bapply s o).

(* only getters have a result the client can see *)
Definition out_ok (o : bop) (spec obs : bout) : bool :=
  if is_getter o then bout_eqb spec obs else true.

Definition spec_call (s : bst) (k : hkind) (dropped : bool) (obs : bout) : option bst :=
  match k with
  | HOp o =>
      match spec_op s o dropped with
      | Some (s', out) => if out_ok o out obs then Some s' else None
      | None => None
      end
  | HShutdown =>
      if dropped then None
      else if exited s then Some s
      else Some (bexit (set_cancelled s))
  end.

Fixpoint memn (i : nat) (l : list nat) : bool :=
  match l with [] => false | x :: r => Nat.eqb i x || memn i r end.

(* replay a certificate; [used] collects the calls linearized so far, latest first *)
Fixpoint replay (h : list hop) (s : bst) (used : list nat) (cert : list litem) : option (bst * list nat) :=
  match cert with
  | [] => Some (s, used)
  | LOp i d :: r =>
      match nth_error h i with
      | Some c =>
          if memn i used then None else
          match spec_call s (h_kind c) d (h_out c) with
          | Some s' => replay h s' (i :: used) r
          | None => None
          end
      | None => None
      end
  | LCancel :: r => if terminal s && negb (exited s) then replay h (set_cancelled s) used r else None
  | LExit :: r => if cancelled s && negb (exited s) then replay h (bexit s) used r else None
  | LRender :: r => replay h (fst (brender s)) used r
  end.

(* real time: a call that returned before another was invoked takes effect first *)
Definition before (h : list hop) (a b : nat) : bool :=
  match nth_error h a, nth_error h b with
  | Some x, Some y => h_ret x <? h_inv y
  | _, _ => false
  end.

(* [ord]: linearization order, earliest first.  No later element returned before an earlier one was invoked *)
Fixpoint rt_ok (h : list hop) (ord : list nat) : bool :=
  match ord with
  | [] => true
  | a :: r => forallb (fun b => negb (before h b a)) r && rt_ok h r
  end.

Definition check_lin (h : list hop) (s0 : bst) (cert : list litem) : bool :=
  match replay h s0 [] cert with
  | Some (_, used) => Nat.eqb (length used) (length h) && rt_ok h (rev used)
  | None => false
  end.
