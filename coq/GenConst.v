(* GenConst.v — obligations over the constants and the heap manager's request methods regenerated from /repo (split from
   GenChecks.v so that a property depends only on the tables it uses). *)
From Coq Require Import String List ZArith Bool.
From MPB Require Import Base BarState Container.
From MPB.gen Require Import GenApi.
Import ListNotations.
Open Scope string_scope.

(* ---------- constants ---------- *)
Theorem pop_priority_matches_model : forall p a d, pop_prio (init_cst p a d) = gen_pop_priority_init.
Proof. intros. reflexivity. Qed.

(* ---------- the heap manager's request methods ---------- *)
(* each is one blocking send on the manager's channel issued by the calling goroutine: this is what makes
   the request queue of the model (Container.fifo: requests are received in the order the container goroutine
   sent them) a description of the code.  On the pinned tree push could detach its send into a goroutine. *)
Theorem heap_requests_are_blocking_sends :
  forallb (fun m => String.eqb (snd m) "send") hm_methods = true /\
  map fst hm_methods = ["sync"; "push"; "iter"; "fix"; "state"; "end"].
Proof. vm_compute. split; reflexivity. Qed.

