(* PercentProofs.v — the number of filled cells (C08): guards, range,
   monotonicity in current, through Flocq's correctness theorems for the
   binary64 operations that Percent.v executes. *)
From Coq Require Import ZArith Reals Lia Lra Psatz.
From Flocq Require Import Core.Core IEEE754.BinarySingleNaN Relative.
From MPB Require Import Base BaseProofs F64 Percent.
Open Scope Z_scope.

Notation fexp := (SpecFloat.fexp prec emax).
Notation rnd := (round radix2 fexp ZnearestE).
Notation ZnearestA := (Znearest (Zle_bool 0)).

Lemma fexp_valid : Valid_exp fexp. Proof. apply fexp_correct; reflexivity. Qed.
#[local] Existing Instance fexp_valid.

Lemma rnd_le x y : (x <= y)%R -> (rnd x <= rnd y)%R.
Proof. apply round_le; [apply fexp_valid | apply valid_rnd_N]. Qed.

Lemma format_bpow e : (-1074 <= e <= 1023)%Z -> generic_format radix2 fexp (bpow radix2 e).
Proof.
  intros H. apply generic_format_bpow. unfold fexp, SpecFloat.fexp, SpecFloat.emin, prec, emax. lia.
Qed.

Lemma rnd_0 : rnd 0 = 0%R. Proof. apply round_0. apply valid_rnd_N. Qed.

Lemma rnd_nonneg x : (0 <= x)%R -> (0 <= rnd x)%R.
Proof. intros Hx. rewrite <- rnd_0. apply rnd_le. exact Hx. Qed.

Lemma rnd_bpow e : (-1074 <= e <= 1023)%Z -> rnd (bpow radix2 e) = bpow radix2 e.
Proof. intros He. apply round_generic; [apply valid_rnd_N|apply format_bpow; exact He]. Qed.

Lemma rnd_le_bpow x e : (-1074 <= e <= 1023)%Z -> (x <= bpow radix2 e)%R -> (rnd x <= bpow radix2 e)%R.
Proof. intros He Hx. rewrite <- (rnd_bpow e He). apply rnd_le. exact Hx. Qed.

Lemma rnd_ge_1 x : (1 <= x)%R -> (1 <= rnd x)%R.
Proof. intros Hx. change 1%R with (bpow radix2 0). rewrite <- (rnd_bpow 0) by lia. apply rnd_le. exact Hx. Qed.

Definition eps : R := (/ IZR (2^53))%R.
Lemma eps_pos : (0 < eps)%R. Proof. unfold eps. apply Rinv_0_lt_compat. apply IZR_lt. lia. Qed.

(* relative error of one rounding, away from the subnormal range *)
Lemma rnd_rel x : (/4 <= x)%R -> exists e, (Rabs e <= eps)%R /\ rnd x = (x * (1 + e))%R.
Proof.
  intros Hx.
  destruct (@relative_error_N_FLT_ex radix2 (SpecFloat.emin prec emax) prec Hprec (fun z => negb (Z.even z)) x) as (e & He & Hr).
  - apply Rle_trans with (/4)%R.
    + change (/4)%R with (bpow radix2 (-2)). apply bpow_le. unfold SpecFloat.emin, prec, emax. lia.
    + rewrite Rabs_pos_eq; lra.
  - exists e. split; [|exact Hr].
    replace eps with (/2 * bpow radix2 (- prec + 1))%R; [exact He|].
    unfold eps, prec. change (bpow radix2 (- (53) + 1)) with (/ IZR 4503599627370496)%R.
    change (2^53) with 9007199254740992. field.
Qed.

(* float64(z) for 0 <= z < 2^64 *)
Lemma of_Z_spec z : 0 <= z < 2^64 -> B2R (of_Z z) = rnd (IZR z) /\ is_finite (of_Z z) = true.
Proof.
  intros Hz. unfold of_Z.
  pose proof (binary_normalize_correct prec emax _ _ mode_NE z 0 false) as H. cbv zeta in H.
  assert (Hx : F2R (Float radix2 z 0) = IZR z) by (unfold F2R; simpl; lra).
  rewrite Hx in H.
  assert (Hb : (Rabs (rnd (IZR z)) < bpow radix2 emax)%R).
  { apply Rle_lt_trans with (bpow radix2 64); [|apply bpow_lt; reflexivity].
    rewrite Rabs_pos_eq by (apply rnd_nonneg, IZR_le; lia).
    apply rnd_le_bpow; [lia|]. change (bpow radix2 64) with (IZR (2^64)). apply IZR_le. lia. }
  simpl round_mode in H. rewrite (Rlt_bool_true _ _ Hb) in H.
  destruct H as (H1 & H2 & _). split; assumption.
Qed.

(* the real number computed by float64(w)*float64(c)/float64(t) *)
Definition quot (t c w : Z) : R := rnd (rnd (rnd (IZR w) * rnd (IZR c)) / rnd (IZR t)).

Lemma rnd_int_bounds z : 0 <= z < 2^63 -> (0 <= rnd (IZR z) <= bpow radix2 63)%R.
Proof.
  intros Hz. split; [apply rnd_nonneg, IZR_le; lia|].
  apply rnd_le_bpow; [lia|]. change (bpow radix2 63) with (IZR (2^63)). apply IZR_le. lia.
Qed.

Lemma prod_bounds w c : 0 <= w < 2^63 -> 0 <= c < 2^63 ->
  (0 <= rnd (rnd (IZR w) * rnd (IZR c)) <= bpow radix2 126)%R.
Proof.
  intros Hw Hc. destruct (rnd_int_bounds w Hw) as [W0 W1]. destruct (rnd_int_bounds c Hc) as [C0 C1].
  split; [apply rnd_nonneg; nra|]. apply rnd_le_bpow; [lia|].
  replace (bpow radix2 126) with (bpow radix2 63 * bpow radix2 63)%R by (rewrite <- bpow_plus; reflexivity).
  pose proof (bpow_ge_0 radix2 63). nra.
Qed.

Lemma fmul_fdiv_spec t c w : 1 <= t < 2^63 -> 0 <= c < 2^63 -> 0 <= w < 2^63 ->
  B2R (fdiv (fmul (of_Z w) (of_Z c)) (of_Z t)) = quot t c w /\
  is_finite (fdiv (fmul (of_Z w) (of_Z c)) (of_Z t)) = true.
Proof.
  intros Ht Hc Hw.
  destruct (of_Z_spec w) as [Rw Fw]; [lia|]. destruct (of_Z_spec c) as [Rc Fc]; [lia|].
  destruct (of_Z_spec t) as [Rt Ft]; [lia|].
  destruct (prod_bounds w c Hw Hc) as [P0 P1].
  (* the product *)
  pose proof (Bmult_correct prec emax _ _ mode_NE (of_Z w) (of_Z c)) as M.
  simpl round_mode in M. rewrite Rw, Rc in M.
  assert (Mb : (Rabs (rnd (rnd (IZR w) * rnd (IZR c))) < bpow radix2 emax)%R).
  { rewrite Rabs_pos_eq by exact P0. apply Rle_lt_trans with (1 := P1). apply bpow_lt. reflexivity. }
  rewrite (Rlt_bool_true _ _ Mb) in M. destruct M as (M1 & M2 & _). rewrite Fw, Fc in M2.
  (* the quotient *)
  assert (T1 : (1 <= rnd (IZR t))%R) by (apply rnd_ge_1, IZR_le; lia).
  assert (Hy : B2R (of_Z t) <> 0%R) by (rewrite Rt; lra).
  pose proof (Bdiv_correct prec emax _ _ mode_NE (fmul (of_Z w) (of_Z c)) (of_Z t) Hy) as D.
  assert (M1' : B2R (fmul (of_Z w) (of_Z c)) = rnd (rnd (IZR w) * rnd (IZR c))) by exact M1.
  assert (M2' : is_finite (fmul (of_Z w) (of_Z c)) = true) by exact M2.
  simpl round_mode in D. rewrite M1', Rt in D.
  assert (Q0 : (0 <= rnd (rnd (IZR w) * rnd (IZR c)) / rnd (IZR t))%R).
  { apply Rmult_le_pos; [exact P0|]. apply Rlt_le, Rinv_0_lt_compat. lra. }
  assert (Q1 : (rnd (rnd (IZR w) * rnd (IZR c)) / rnd (IZR t) <= bpow radix2 126)%R).
  { apply Rle_trans with (2 := P1). unfold Rdiv.
    rewrite <- (Rmult_1_r (rnd (rnd (IZR w) * rnd (IZR c)))) at 2.
    apply Rmult_le_compat_l; [exact P0|]. rewrite <- Rinv_1. apply Rinv_le_contravar; lra. }
  assert (Db : (Rabs (rnd (rnd (rnd (IZR w) * rnd (IZR c)) / rnd (IZR t))) < bpow radix2 emax)%R).
  { rewrite Rabs_pos_eq by (apply rnd_nonneg; exact Q0).
    apply Rle_lt_trans with (bpow radix2 126); [|apply bpow_lt; reflexivity].
    apply rnd_le_bpow; [lia|exact Q1]. }
  rewrite (Rlt_bool_true _ _ Db) in D. destruct D as (D1 & D2 & _).
  split; [exact D1|]. unfold fdiv. rewrite D2. exact M2'.
Qed.

(* math.Round followed by int() *)
Lemma round_to_Z x : IZR (to_Z (fround x)) = IZR (ZnearestA (B2R x)).
Proof.
  unfold to_Z, fround. rewrite Btrunc_correct.
  destruct (Bnearbyint_correct prec emax _ mode_NA x) as (H1 & _). rewrite H1.
  simpl round_mode. rewrite !round_FIX_IZR. rewrite Ztrunc_IZR. reflexivity. exact Hmax.
Qed.

Lemma round_to_Z_eq x : to_Z (fround x) = ZnearestA (B2R x).
Proof. apply eq_IZR. apply round_to_Z. Qed.

Lemma ZnearestA_le x y : (x <= y)%R -> ZnearestA x <= ZnearestA y.
Proof. intros H. apply (@Zrnd_le _ (valid_rnd_N (Zle_bool 0))). exact H. Qed.

Lemma ZnearestA_IZR z : ZnearestA (IZR z) = z.
Proof. apply (@Zrnd_IZR _ (valid_rnd_N (Zle_bool 0))). Qed.

(* ---------- the cell count in the three regimes ---------- *)
Definition wU (z : Z) := wrapU64 z.

Lemma wrapU64_id z : 0 <= z < 2^64 -> wrapU64 z = z.
Proof. intros H. unfold wrapU64, two64. apply Z.mod_small. lia. Qed.

Theorem cells_negative t c w : (t < 0 \/ c < 0) -> cells t c w = 0.
Proof.
  intros H. unfold cells, percentage_round.
  assert (E : (t <? 0) || (c <? 0) = true).
  { destruct H as [H|H]; [apply Z.ltb_lt in H; rewrite H; reflexivity|].
    apply Z.ltb_lt in H; rewrite H; apply orb_true_r. }
  rewrite E. reflexivity.
Qed.

Theorem cells_zero_total c w : cells 0 c w = 0.
Proof.
  unfold cells, percentage_round. destruct (c <? 0); [reflexivity|].
  cbn [orb Z.ltb Z.compare]. unfold percentage. cbn. reflexivity.
Qed.

Lemma cells_guards t c : 0 <= t < 2^63 -> 0 <= c < 2^63 ->
  (t <? 0) || (c <? 0) = false /\ wrapU64 t = t /\ wrapU64 c = c.
Proof.
  intros Ht Hc. repeat split; [|apply wrapU64_id; lia|apply wrapU64_id; lia].
  destruct (Z.ltb_spec t 0); [lia|]. destruct (Z.ltb_spec c 0); [lia|]. reflexivity.
Qed.

Theorem cells_full t c w : 1 <= t < 2^63 -> t <= c < 2^63 -> 0 <= w < 2^53 -> cells t c w = w.
Proof.
  intros Ht Hc Hw. unfold cells, percentage_round.
  destruct (cells_guards t c ltac:(lia) ltac:(lia)) as (G & Ut & Uc). rewrite G, Ut, Uc.
  unfold percentage. destruct (Z.eqb_spec t 0); [lia|]. destruct (Z.leb_spec t c); [|lia].
  rewrite round_to_Z_eq. destruct (of_Z_spec w) as [Rw _]; [lia|]. rewrite Rw.
  (* w < 2^53 is a binary64 number *)
  rewrite round_generic; [apply ZnearestA_IZR|apply valid_rnd_N|].
  replace (IZR w) with (F2R (Float radix2 w 0)) by (unfold F2R; simpl; ring).
  apply generic_format_F2R. intros Hnz. unfold cexp, fexp, SpecFloat.fexp, SpecFloat.emin, prec, emax. simpl.
  apply Z.max_lub; [|lia].
  assert (mag radix2 (F2R (Float radix2 w 0)) <= 53)%Z; [|lia].
  apply mag_le_bpow; [apply F2R_neq_0; exact Hnz|].
  rewrite <- F2R_Zabs. unfold F2R. simpl. rewrite Rmult_1_r.
  change (bpow radix2 53) with (IZR (2^53)). apply IZR_lt. lia.
Qed.

Lemma cells_eq_quot t c w : 1 <= t < 2^63 -> 0 <= c < t -> 0 <= w < 2^63 ->
  cells t c w = ZnearestA (quot t c w).
Proof.
  intros Ht Hc Hw. unfold cells, percentage_round.
  destruct (cells_guards t c ltac:(lia) ltac:(lia)) as (G & Ut & Uc). rewrite G, Ut, Uc.
  unfold percentage. destruct (Z.eqb_spec t 0); [lia|]. destruct (Z.leb_spec t c); [lia|].
  rewrite round_to_Z_eq. destruct (fmul_fdiv_spec t c w) as [E _]; try lia. rewrite E. reflexivity.
Qed.

Theorem cells_zero_current t w : 1 <= t < 2^63 -> 0 <= w < 2^63 -> cells t 0 w = 0.
Proof.
  intros Ht Hw. rewrite cells_eq_quot by lia. unfold quot.
  rewrite rnd_0, Rmult_0_r, rnd_0. unfold Rdiv. rewrite Rmult_0_l, rnd_0.
  change 0%R with (IZR 0). apply ZnearestA_IZR.
Qed.

Lemma quot_mono t c1 c2 w : 1 <= t < 2^63 -> 0 <= c1 <= c2 -> c2 < 2^63 -> 0 <= w < 2^63 ->
  (quot t c1 w <= quot t c2 w)%R.
Proof.
  intros Ht Hc Hc2 Hw. unfold quot.
  assert (T1 : (1 <= rnd (IZR t))%R) by (apply rnd_ge_1, IZR_le; lia).
  destruct (rnd_int_bounds w Hw) as [W0 _].
  apply rnd_le. unfold Rdiv. apply Rmult_le_compat_r; [apply Rlt_le, Rinv_0_lt_compat; lra|].
  apply rnd_le. apply Rmult_le_compat_l; [exact W0|]. apply rnd_le, IZR_le. lia.
Qed.

Lemma quot_nonneg t c w : 1 <= t < 2^63 -> 0 <= c < 2^63 -> 0 <= w < 2^63 -> (0 <= quot t c w)%R.
Proof.
  intros Ht Hc Hw. unfold quot. destruct (prod_bounds w c Hw Hc) as [P0 _].
  assert (T1 : (1 <= rnd (IZR t))%R) by (apply rnd_ge_1, IZR_le; lia).
  apply rnd_nonneg. apply Rmult_le_pos; [exact P0|]. apply Rlt_le, Rinv_0_lt_compat. lra.
Qed.

(* upper bound: three roundings inflate width by at most (1+eps)^3 *)
Lemma eps_small : (eps <= / 1000000)%R.
Proof. unfold eps. apply Rinv_le_contravar; [lra|]. change (2^53) with 9007199254740992. lra. Qed.

Lemma abs_le_split e b : (Rabs e <= b)%R -> (- b <= e <= b)%R.
Proof. intros H. split; [apply Ropp_le_cancel; rewrite Ropp_involutive; apply Rle_trans with (2 := H); rewrite <- Rabs_Ropp; apply RRle_abs|apply Rle_trans with (2 := H); apply RRle_abs]. Qed.

Lemma quot_upper t c w : 1 <= t < 2^63 -> 0 <= c <= t -> 0 <= w < 2^31 ->
  (quot t c w <= IZR w + /4)%R.
Proof.
  intros Ht Hc Hw. unfold quot.
  assert (T1 : (1 <= rnd (IZR t))%R) by (apply rnd_ge_1, IZR_le; lia).
  assert (CT : (rnd (IZR c) <= rnd (IZR t))%R) by (apply rnd_le, IZR_le; lia).
  assert (C0 : (0 <= rnd (IZR c))%R) by (apply rnd_nonneg, IZR_le; lia).
  destruct (Z.eq_dec w 0) as [W0|W0].
  { subst w. rewrite rnd_0, Rmult_0_l, rnd_0. unfold Rdiv. rewrite Rmult_0_l, rnd_0. lra. }
  assert (Hw1 : (1 <= IZR w)%R) by (apply IZR_le; lia).
  assert (Hw31 : (IZR w <= 2147483648)%R) by (apply IZR_le; lia).
  destruct (rnd_rel (IZR w)) as (e0 & E0 & R0); [lra|].
  pose proof eps_small as ES. pose proof eps_pos as EP.
  apply abs_le_split in E0.
  set (W := rnd (IZR w)) in *.
  assert (W1 : (1 - eps <= W)%R) by (rewrite R0; nra).
  assert (WT1 : (/4 <= W * rnd (IZR t))%R) by nra.
  destruct (rnd_rel (W * rnd (IZR t))) as (e1 & E1 & R1); [exact WT1|]. apply abs_le_split in E1.
  assert (P : (rnd (W * rnd (IZR c)) <= W * rnd (IZR t) * (1 + e1))%R).
  { rewrite <- R1. apply rnd_le. apply Rmult_le_compat_l; [lra|exact CT]. }
  assert (PT : (rnd (W * rnd (IZR c)) / rnd (IZR t) <= W * (1 + e1))%R).
  { apply Rle_trans with (W * rnd (IZR t) * (1 + e1) / rnd (IZR t))%R.
    - unfold Rdiv. apply Rmult_le_compat_r; [apply Rlt_le, Rinv_0_lt_compat; lra|exact P].
    - right. field. lra. }
  assert (W2 : (/4 <= W * (1 + e1))%R) by nra.
  destruct (rnd_rel (W * (1 + e1))) as (e2 & E2 & R2); [exact W2|]. apply abs_le_split in E2.
  apply Rle_trans with (rnd (W * (1 + e1))); [apply rnd_le; exact PT|].
  rewrite R2, R0.
  (* w (1+e0)(1+e1)(1+e2) <= w (1+eps)^3 <= w (1 + 4 eps) <= w + 2^31 * 4 * 2^-53 *)
  assert (A01 : (0 <= (1 + e0) * (1 + e1) <= (1 + eps) * (1 + eps))%R).
  { split; [apply Rmult_le_pos; lra|apply Rmult_le_compat; lra]. }
  assert (A012 : (0 <= (1 + e0) * (1 + e1) * (1 + e2) <= (1 + eps) * (1 + eps) * (1 + eps))%R).
  { split; [apply Rmult_le_pos; lra|apply Rmult_le_compat; lra]. }
  assert (E3 : ((1 + eps) * (1 + eps) * (1 + eps) <= 1 + 4 * eps)%R) by nra.
  assert (B : ((1 + e0) * (1 + e1) * (1 + e2) <= 1 + 4 * eps)%R) by lra.
  assert (B0 : (0 <= (1 + e0) * (1 + e1) * (1 + e2))%R) by lra.
  apply Rle_trans with (IZR w * (1 + 4 * eps))%R.
  { replace (IZR w * (1 + e0) * (1 + e1) * (1 + e2))%R with (IZR w * ((1 + e0) * (1 + e1) * (1 + e2)))%R by ring.
    apply Rmult_le_compat_l; lra. }
  assert (IZR w * (4 * eps) <= /4)%R; [|lra].
  apply Rle_trans with (2147483648 * (4 * eps))%R; [nra|].
  unfold eps. change (2^53) with 9007199254740992. lra.
Qed.

Theorem cells_range t c w : 0 <= w < 2^31 -> 0 <= cells t c w <= w.
Proof.
  intros Hw.
  destruct (Z.lt_ge_cases t 0) as [Tn|Tp]; [rewrite cells_negative by lia; lia|].
  destruct (Z.lt_ge_cases c 0) as [Cn|Cp]; [rewrite cells_negative by lia; lia|].
  (* arguments of Go's int64 type *)
Abort.

Theorem cells_range t c w : 0 <= t < 2^63 -> 0 <= c < 2^63 -> 0 <= w < 2^31 -> 0 <= cells t c w <= w.
Proof.
  intros Ht Hc Hw.
  destruct (Z.eq_dec t 0) as [->|T0]; [rewrite cells_zero_total; lia|].
  destruct (Z.le_gt_cases t c) as [Full|Part]; [rewrite cells_full by lia; lia|].
  rewrite cells_eq_quot by lia. split.
  - apply Z.le_trans with (ZnearestA (IZR 0)); [rewrite ZnearestA_IZR; lia|].
    apply ZnearestA_le. apply quot_nonneg; lia.
  - apply Z.le_trans with (ZnearestA (IZR w + /4)).
    + apply ZnearestA_le. apply quot_upper; lia.
    + apply Z.eq_le_incl. apply Znearest_imp.
      replace (IZR w + /4 - IZR w)%R with (/4)%R by ring. rewrite Rabs_pos_eq; lra.
Qed.

(* monotone in current, for every total and width, across the current >= total guard too *)
Theorem cells_monotone t c1 c2 w :
  0 <= t < 2^63 -> 0 <= c1 <= c2 -> c2 < 2^63 -> 0 <= w < 2^31 ->
  cells t c1 w <= cells t c2 w.
Proof.
  intros Ht Hc Hc2 Hw.
  destruct (Z.eq_dec t 0) as [->|T0]; [rewrite !cells_zero_total; lia|].
  destruct (Z.le_gt_cases t c2) as [Full|Part].
  - rewrite (cells_full t c2 w) by lia. apply cells_range; lia.
  - rewrite !cells_eq_quot by lia. apply ZnearestA_le. apply quot_mono; lia.
Qed.

(* the refill segment never exceeds the filled segment as long as refill <= current *)
Corollary refill_le_filled t c r w :
  0 <= t < 2^63 -> 0 <= r <= c -> c < 2^63 -> 0 <= w < 2^31 -> cells t r w <= cells t c w.
Proof. intros. apply cells_monotone; lia. Qed.

(* ---------- the filled part is the nearest cell count of the exact quotient ---------- *)

(* relative error of one rounding anywhere in the normal range *)
Lemma rnd_rel_n x : (bpow radix2 (-1022) <= x)%R -> exists e, (Rabs e <= eps)%R /\ rnd x = (x * (1 + e))%R.
Proof.
  intros Hx.
  destruct (@relative_error_N_FLT_ex radix2 (SpecFloat.emin prec emax) prec Hprec (fun z => negb (Z.even z)) x) as (e & He & Hr).
  - assert (0 < bpow radix2 (-1022))%R by apply bpow_gt_0.
    rewrite Rabs_pos_eq by lra. exact Hx.
  - exists e. split; [|exact Hr].
    replace eps with (/2 * bpow radix2 (- prec + 1))%R; [exact He|].
    unfold eps, prec. change (bpow radix2 (- (53) + 1)) with (/ IZR 4503599627370496)%R.
    change (2^53) with 9007199254740992. field.
Qed.

Lemma mul_near a b al be : (Rabs (a - 1) <= al -> Rabs (b - 1) <= be -> Rabs (a * b - 1) <= al + be + al * be)%R.
Proof.
  intros Ha Hb. replace (a * b - 1)%R with ((a - 1) * (b - 1) + (a - 1) + (b - 1))%R by ring.
  eapply Rle_trans; [apply Rabs_triang|]. eapply Rle_trans; [apply Rplus_le_compat_r, Rabs_triang|].
  rewrite Rabs_mult. pose proof (Rabs_pos (a - 1)). pose proof (Rabs_pos (b - 1)). nra.
Qed.

Lemma inv_near e : (Rabs e <= eps -> Rabs (/ (1 + e) - 1) <= 2 * eps)%R.
Proof.
  intros H. apply abs_le_split in H. pose proof eps_pos. pose proof eps_small.
  assert (P : (0 < 1 + e)%R) by lra.
  replace (/ (1 + e) - 1)%R with (- e * / (1 + e))%R by (field; lra).
  pose proof (Rinv_0_lt_compat _ P) as IP.
  assert (I1 : (/ (1 + e) <= 2)%R).
  { rewrite <- (Rinv_involutive 2) by lra. apply Rinv_le_contravar; lra. }
  apply Rabs_le. split; nra.
Qed.

Lemma five_roundings e0 e1 e2 e3 e4 :
  (Rabs e0 <= eps -> Rabs e1 <= eps -> Rabs e2 <= eps -> Rabs e3 <= eps -> Rabs e4 <= eps ->
   Rabs ((1 + e0) * (1 + e1) * (1 + e3) * (1 + e4) / (1 + e2) - 1) <= 7 * eps)%R.
Proof.
  intros H0 H1 H2 H3 H4. pose proof eps_pos. pose proof eps_small.
  assert (A0 : (Rabs ((1 + e0) - 1) <= eps)%R) by (replace (1 + e0 - 1)%R with e0 by ring; exact H0).
  assert (A1 : (Rabs ((1 + e1) - 1) <= eps)%R) by (replace (1 + e1 - 1)%R with e1 by ring; exact H1).
  assert (A3 : (Rabs ((1 + e3) - 1) <= eps)%R) by (replace (1 + e3 - 1)%R with e3 by ring; exact H3).
  assert (A4 : (Rabs ((1 + e4) - 1) <= eps)%R) by (replace (1 + e4 - 1)%R with e4 by ring; exact H4).
  pose proof (mul_near _ _ _ _ A0 A1) as B1.
  pose proof (mul_near _ _ _ _ B1 A3) as B2.
  pose proof (mul_near _ _ _ _ B2 A4) as B3.
  pose proof (mul_near _ _ _ _ B3 (inv_near e2 H2)) as B4.
  unfold Rdiv. eapply Rle_trans; [exact B4|]. nra.
Qed.

Lemma small_normal x : (bpow radix2 (-63) <= x)%R -> (bpow radix2 (-1022) <= x)%R.
Proof. intros H. apply Rle_trans with (2 := H). apply bpow_le. lia. Qed.

(* what float64(w)*float64(c)/float64(t) is, relative to the exact quotient *)
Lemma quot_rel t c w : 1 <= t < 2^63 -> 1 <= c < 2^63 -> 1 <= w < 2^63 ->
  exists d, (Rabs d <= 7 * eps)%R /\ quot t c w = (IZR w * IZR c / IZR t * (1 + d))%R.
Proof.
  intros Ht Hc Hw. unfold quot.
  assert (W1 : (1 <= IZR w)%R) by (apply IZR_le; lia).
  assert (C1 : (1 <= IZR c)%R) by (apply IZR_le; lia).
  assert (T1 : (1 <= IZR t)%R) by (apply IZR_le; lia).
  pose proof (bpow_gt_0 radix2 (-63)) as B63.
  assert (Bs : (bpow radix2 (-63) <= 1)%R) by (change 1%R with (bpow radix2 0); apply bpow_le; lia).
  destruct (rnd_rel_n (IZR w)) as (e0 & E0 & R0); [apply small_normal; lra|].
  destruct (rnd_rel_n (IZR c)) as (e1 & E1 & R1); [apply small_normal; lra|].
  destruct (rnd_rel_n (IZR t)) as (e2 & E2 & R2); [apply small_normal; lra|].
  assert (RW : (1 <= rnd (IZR w))%R) by (apply rnd_ge_1; exact W1).
  assert (RC : (1 <= rnd (IZR c))%R) by (apply rnd_ge_1; exact C1).
  assert (RT : (1 <= rnd (IZR t))%R) by (apply rnd_ge_1; exact T1).
  destruct (rnd_rel_n (rnd (IZR w) * rnd (IZR c))) as (e3 & E3 & R3); [apply small_normal; nra|].
  assert (RP : (1 <= rnd (rnd (IZR w) * rnd (IZR c)))%R) by (apply rnd_ge_1; nra).
  destruct (rnd_int_bounds t ltac:(lia)) as [_ TU].
  assert (Qlow : (bpow radix2 (-63) <= rnd (rnd (IZR w) * rnd (IZR c)) / rnd (IZR t))%R).
  { unfold Rdiv. apply Rle_trans with (1 * / bpow radix2 63)%R.
    - rewrite Rmult_1_l, <- bpow_opp. apply Rle_refl.
    - apply Rmult_le_compat; try lra.
      + apply Rlt_le, Rinv_0_lt_compat, bpow_gt_0.
      + apply Rinv_le_contravar; lra. }
  destruct (rnd_rel_n (rnd (rnd (IZR w) * rnd (IZR c)) / rnd (IZR t))) as (e4 & E4 & R4); [apply small_normal; exact Qlow|].
  exists ((1 + e0) * (1 + e1) * (1 + e3) * (1 + e4) / (1 + e2) - 1)%R. split; [apply five_roundings; assumption|].
  rewrite R4, R3, R0, R1, R2.
  assert (N2 : (1 + e2 <> 0)%R).
  { pose proof eps_small. apply abs_le_split in E2. lra. }
  field. split; [exact N2|lra].
Qed.

(* the cell count is the nearest integer to width*current/total, up to the accumulated rounding of five
   float64 operations: within 1/2 + 7*2^-53 of the exact value, relative to it *)
Theorem cells_nearest t c w : 1 <= t < 2^63 -> 0 <= c < t -> 0 <= w < 2^31 ->
  (Rabs (IZR (cells t c w) - IZR w * IZR c / IZR t) <= /2 + IZR w * IZR c / IZR t * (7 * eps))%R.
Proof.
  intros Ht Hc Hw.
  assert (T1 : (1 <= IZR t)%R) by (apply IZR_le; lia).
  assert (W0 : (0 <= IZR w)%R) by (apply IZR_le; lia).
  assert (C0 : (0 <= IZR c)%R) by (apply IZR_le; lia).
  assert (Q0 : (0 <= IZR w * IZR c / IZR t)%R).
  { apply Rmult_le_pos; [nra|]. apply Rlt_le, Rinv_0_lt_compat. lra. }
  pose proof eps_pos as EP.
  rewrite cells_eq_quot by lia.
  destruct (Z.eq_dec c 0) as [->|Nc].
  { (* nothing done yet *)
    unfold quot. rewrite Rmult_0_r. replace (rnd 0) with 0%R by (symmetry; apply rnd_0).
    rewrite Rmult_0_r, rnd_0. unfold Rdiv. rewrite !Rmult_0_l, rnd_0.
    replace 0%R with (IZR 0) at 1 by reflexivity. rewrite ZnearestA_IZR. rewrite Rminus_0_r, Rabs_R0. lra. }
  destruct (Z.eq_dec w 0) as [->|Nw].
  { unfold quot. replace (rnd (IZR 0)) with 0%R by (symmetry; apply rnd_0).
    rewrite Rmult_0_l, rnd_0. unfold Rdiv. rewrite !Rmult_0_l, rnd_0.
    replace 0%R with (IZR 0) at 1 by reflexivity. rewrite ZnearestA_IZR. rewrite Rminus_0_r, Rabs_R0. lra. }
  destruct (quot_rel t c w) as (d & D & E); try lia.
  set (q := (IZR w * IZR c / IZR t)%R) in *.
  pose proof (Znearest_half (Zle_bool 0) (quot t c w)) as Hh.
  replace (IZR (ZnearestA (quot t c w)) - q)%R with (- (quot t c w - IZR (ZnearestA (quot t c w))) + (quot t c w - q))%R by ring.
  eapply Rle_trans; [apply Rabs_triang|]. rewrite Rabs_Ropp.
  apply Rplus_le_compat; [exact Hh|].
  rewrite E. replace (q * (1 + d) - q)%R with (q * d)%R by ring.
  rewrite Rabs_mult, (Rabs_pos_eq q Q0). apply Rmult_le_compat_l; assumption.
Qed.

(* in absolute terms: within half a cell plus less than two millionths of a cell *)
Corollary cells_nearest_abs t c w : 1 <= t < 2^63 -> 0 <= c < t -> 0 <= w < 2^31 ->
  (Rabs (IZR (cells t c w) - IZR w * IZR c / IZR t) <= /2 + / 500000)%R.
Proof.
  intros Ht Hc Hw. eapply Rle_trans; [apply cells_nearest; assumption|].
  apply Rplus_le_compat_l.
  assert (T1 : (1 <= IZR t)%R) by (apply IZR_le; lia).
  assert (Q1 : (IZR w * IZR c / IZR t <= IZR (2^31))%R).
  { apply Rle_trans with (IZR w).
    - unfold Rdiv. rewrite Rmult_assoc. rewrite <- (Rmult_1_r (IZR w)) at 2.
      apply Rmult_le_compat_l; [apply IZR_le; lia|].
      apply (Rmult_le_reg_r (IZR t)); [lra|]. rewrite Rmult_assoc, Rinv_l by lra. rewrite Rmult_1_r, Rmult_1_l.
      apply IZR_le. lia.
    - apply IZR_le. lia. }
  assert (Q0 : (0 <= IZR w * IZR c / IZR t)%R).
  { apply Rmult_le_pos; [apply Rmult_le_pos; apply IZR_le; lia|]. apply Rlt_le, Rinv_0_lt_compat. lra. }
  unfold eps. change (2^53) with 9007199254740992. change (2^31) with 2147483648 in Q1.
  apply Rle_trans with (2147483648 * (7 * / 9007199254740992))%R.
  - apply Rmult_le_compat_r; [lra|exact Q1].
  - lra.
Qed.
