(* F64.v — IEEE-754 binary64 as Go's float64, on top of Flocq's executable
   BinarySingleNaN formalisation. Only what mpb's arithmetic needs:
   float64(intN), *, /, math.Round, int(float64). *)
From Coq Require Import ZArith.
From Flocq Require Import Core.Core IEEE754.BinarySingleNaN.
Open Scope Z_scope.

Definition prec : Z := 53.
Definition emax : Z := 1024.
#[export] Instance Hprec : Prec_gt_0 prec. Proof. reflexivity. Qed.
#[export] Instance Hmax : Prec_lt_emax prec emax. Proof. reflexivity. Qed.

Definition f64 := binary_float prec emax.

(* Go: float64(z) for an integer z (round to nearest even) *)
Definition of_Z (z : Z) : f64 := binary_normalize prec emax _ _ mode_NE z 0 false.
Definition fmul (x y : f64) : f64 := Bmult mode_NE x y.
Definition fdiv (x y : f64) : f64 := Bdiv mode_NE x y.
(* Go: math.Round — nearest integer, halves away from zero *)
Definition fround (x : f64) : f64 := Bnearbyint mode_NA x.
(* Go: int(x) for a finite x inside the int64 range (truncation) *)
Definition to_Z (x : f64) : Z := Btrunc x.
