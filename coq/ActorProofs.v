(* ActorProofs.v — soundness of the certificate checker, and the value at quiescence (C10). *)
From Coq Require Import Permutation.
From MPB Require Import Base BaseProofs BarState BarStateProofs Actor Proxy ProxyProofs.

(* a history is linearizable from s0 when its calls can be put in a total order that contains every
   call exactly once, respects real time, and is a run of the sequential object *)
Definition rt_respected (h : list hop) (ord : list nat) : Prop :=
  forall j k a b x y, (j < k)%nat -> nth_error ord j = Some a -> nth_error ord k = Some b ->
    nth_error h a = Some x -> nth_error h b = Some y -> ~ (h_ret y < h_inv x).

Definition linearizable (h : list hop) (s0 : bst) : Prop :=
  exists cert s used,
    replay h s0 [] cert = Some (s, used) /\
    Permutation used (seq 0 (length h)) /\
    rt_respected h (rev used).

Lemma memn_In i l : memn i l = true <-> In i l.
Proof.
  induction l as [|x l IH]; cbn; [split; [discriminate|tauto]|].
  rewrite orb_true_iff, IH, Nat.eqb_eq. split; intros [H|H]; auto.
Qed.

Lemma replay_used h : forall cert s used s' used',
  replay h s used cert = Some (s', used') ->
  NoDup used -> (forall i, In i used -> (i < length h)%nat) ->
  NoDup used' /\ (forall i, In i used' -> (i < length h)%nat).
Proof.
  induction cert as [|it cert IH]; intros s used s' used'; cbn [replay].
  - intros E; inversion E; subst; auto.
  - destruct it as [i d| | |].
    + destruct (nth_error h i) as [c|] eqn:N; [|discriminate].
      destruct (memn i used) eqn:M; [discriminate|].
      destruct (spec_call s (h_kind c) d (h_out c)) as [s1|]; [|discriminate].
      intros E ND B. apply (IH _ _ _ _ E).
      * constructor; [|exact ND]. intros Hin. apply memn_In in Hin. congruence.
      * intros j [<-|Hj]; [|auto]. apply nth_error_Some. congruence.
    + destruct (_ && _); [|discriminate]. apply IH.
    + destruct (_ && _); [|discriminate]. apply IH.
    + apply IH.
Qed.

Lemma rt_ok_spec h ord : rt_ok h ord = true -> rt_respected h ord.
Proof.
  induction ord as [|a0 ord IH]; intros H j k a b x y Hjk Ja Kb Hx Hy.
  - destruct j; discriminate.
  - cbn in H. apply andb_prop in H as [H1 H2]. destruct j as [|j].
    + cbn in Ja. inversion Ja; subst a0. destruct k as [|k]; [lia|]. cbn in Kb.
      rewrite forallb_forall in H1. specialize (H1 b (nth_error_In _ _ Kb)).
      unfold before in H1. rewrite Hx, Hy in H1. apply negb_true_iff, Z.ltb_ge in H1. lia.
    + destruct k as [|k]; [lia|]. cbn in Ja, Kb. apply (IH H2 j k a b x y); auto. lia.
Qed.

Theorem check_lin_sound h s0 cert : check_lin h s0 cert = true -> linearizable h s0.
Proof.
  unfold check_lin. destruct (replay h s0 [] cert) as [[s used]|] eqn:R; [|discriminate].
  intros H. apply andb_prop in H as [L T]. apply Nat.eqb_eq in L.
  destruct (replay_used h cert s0 [] s used R (NoDup_nil _)) as (ND & B); [intros i []|].
  exists cert, s, used. split; [exact R|]. split; [|apply rt_ok_spec; exact T].
  apply NoDup_Permutation_bis; [exact ND|rewrite seq_length; lia|].
  intros i Hi. apply in_seq. specialize (B i Hi). lia.
Qed.

(* ---------- the value at quiescence ---------- *)
Lemma sumZ_perm a b : Permutation a b -> sumZ a = sumZ b.
Proof. induction 1; cbn; lia. Qed.

Lemma Forall_perm {A} (P : A -> Prop) a b : Permutation a b -> Forall P a -> Forall P b.
Proof. intros Hp F. rewrite Forall_forall in *. intros x Hx. apply F. eapply Permutation_in; [symmetry; exact Hp|exact Hx]. Qed.

(* whatever order the actor receives the increments in, Current ends at the capped sum *)
Theorem quiescent_current_is_capped_sum ns ns' s :
  Permutation ns ns' ->
  Forall (fun n => 0 <= n) ns -> in_i64 (current s + sumZ ns) -> 0 <= current s ->
  aborted s = false -> capped s ->
  let s' := fold_left (fun st n => fst (bapply st (IncrInt64 n))) ns' s in
  current s' = (if trig s then Z.min (total s) (current s + sumZ ns) else current s + sumZ ns) /\
  total s' = total s /\ trig s' = trig s.
Proof.
  intros Hp F R C A K. rewrite (sumZ_perm _ _ Hp) in *.
  apply bar_advances_by_bytes; auto. eapply Forall_perm; eauto.
Qed.

(* a live bar never skips a call: with no cancellation every linearized call is executed *)
Lemma spec_op_live s o d s' out :
  spec_op s o d = Some (s', out) -> exited s = false -> cancelled s = false -> d = false /\ (s', out) = bapply s o.
Proof.
  unfold spec_op. intros H X C. rewrite X, C in H. destruct d; [discriminate|]. inversion H; auto.
Qed.
