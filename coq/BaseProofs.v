From MPB Require Import Base.

Lemma wrap64_id z : in_i64 z -> wrap64 z = z.
Proof.
  unfold in_i64, wrap64, min_i64, max_i64, two63, two64. intros H.
  rewrite Z.mod_small; lia.
Qed.

Lemma wrap64_range z : in_i64 (wrap64 z).
Proof.
  unfold in_i64, wrap64, min_i64, max_i64, two63, two64.
  pose proof (Z.mod_pos_bound (z + 9223372036854775808) 18446744073709551616 ltac:(lia)). lia.
Qed.

Lemma in_i64b_spec z : in_i64b z = true <-> in_i64 z.
Proof. unfold in_i64b, in_i64. rewrite andb_true_iff, !Z.leb_le. tauto. Qed.

Lemma sumZ_app a b : sumZ (a ++ b) = sumZ a + sumZ b.
Proof. induction a as [|x a IH]; simpl; lia. Qed.

Lemma fold_left_opt_app {A B} (f : A -> B -> option A) l1 l2 a :
  fold_left_opt f (l1 ++ l2) a =
  match fold_left_opt f l1 a with Some a' => fold_left_opt f l2 a' | None => None end.
Proof.
  revert a; induction l1 as [|x l1 IH]; simpl; intros a; [reflexivity|].
  destruct (f a x); [apply IH|reflexivity].
Qed.
