(* ContainerOut.v — what reaches the output: text written through the container is
   emitted once, in order, above the rows (C13); each frame replaces exactly the live
   rows of the frame before it (C04); a frame never holds more rows than the terminal. *)
From MPB Require Import Base BaseProofs BarState BarStateProofs Container ContainerProofs ContainerFlush Term.

Definition texts (l : list item) : list item := filter is_text l.
Definition no_cuu (l : list item) : bool := forallb (fun i => negb (is_cuu i)) l.
Definition all_text (l : list item) : bool := forallb is_text l.
Definition all_row (l : list item) : bool := forallb is_row l.

Lemma texts_app a b : texts (a ++ b) = texts a ++ texts b.
Proof. apply filter_app. Qed.
Lemma texts_all_text l : all_text l = true -> texts l = l.
Proof. unfold texts, all_text. induction l as [|x l IH]; cbn; [reflexivity|]. intros H. apply andb_prop in H as [Hx Hl]. rewrite Hx, IH by exact Hl. reflexivity. Qed.
Lemma texts_all_row l : all_row l = true -> texts l = [].
Proof. unfold texts, all_row. induction l as [|x l IH]; cbn; [reflexivity|]. intros H. apply andb_prop in H as [Hx Hl]. destruct x; cbn in *; try discriminate; auto. Qed.
Lemma texts_cuu k : texts (cuu_items k) = [].
Proof. unfold cuu_items. destruct (0 <? k); reflexivity. Qed.
Lemma all_text_app a b : all_text (a ++ b) = all_text a && all_text b.
Proof. apply forallb_app. Qed.
Lemma all_row_app a b : all_row (a ++ b) = all_row a && all_row b.
Proof. apply forallb_app. Qed.
Lemma all_row_rev l : all_row (rev l) = all_row l.
Proof.
  induction l as [|x l IH]; cbn; [reflexivity|]. rewrite all_row_app, IH. cbn. rewrite andb_true_r. apply andb_comm.
Qed.
Lemma all_text_no_cuu l : all_text l = true -> no_cuu l = true.
Proof. induction l as [|x l IH]; cbn; [reflexivity|]. intros H. apply andb_prop in H as [Hx Hl]. destruct x; cbn in *; try discriminate; auto. Qed.
Lemma all_row_no_cuu l : all_row l = true -> no_cuu l = true.
Proof. induction l as [|x l IH]; cbn; [reflexivity|]. intros H. apply andb_prop in H as [Hx Hl]. destruct x; cbn in *; try discriminate; auto. Qed.
Lemma text_items_all_text w q l n : all_text (text_items w q l n) = true.
Proof. revert l. induction n as [|n IH]; intros l; cbn; [reflexivity|apply IH]. Qed.
Lemma xrows_all_row b j n : all_row (xrows_from b j n) = true.
Proof. revert j. induction n as [|n IH]; intros j; cbn; [reflexivity|apply IH]. Qed.
Lemma bar_rows_all_row b r fi : all_row (bar_rows b r fi) = true.
Proof.
  unfold bar_rows. destruct (br_xrev r); [rewrite all_row_rev|]; cbn; apply xrows_all_row.
Qed.
Lemma all_row_sub l l' : (forall x, In x l' -> In x l) -> all_row l = true -> all_row l' = true.
Proof.
  intros S H. unfold all_row in *. rewrite forallb_forall in *. auto.
Qed.

(* ---------- the rows collected by flush ---------- *)
Definition RI (p : phase) : Prop :=
  match p with
  | Rendering _ ht rows n pc _ =>
      (* the rows that will be redrawn (all but the popped-out ones) fit the height *)
      n = Z.of_nat (length rows) /\ 0 <= pc <= n /\ all_row rows = true /\ n - pc <= Z.max 0 ht
  | _ => True
  end.

Lemma take_rows_le l : forall held ht taken used, take_rows l held ht = (taken, used) -> held <= Z.max 0 ht -> held + used <= Z.max 0 ht.
Proof.
  induction l as [|x l IH]; intros held ht taken used; cbn [take_rows].
  - intros E; inversion E; subst. lia.
  - destruct (Z.ltb_spec held ht).
    + destruct (take_rows l (held + 1) ht) as [l1 n1] eqn:E1. intros E; inversion E; subst. intros.
      assert (held + 1 + n1 <= Z.max 0 ht) by (eapply IH; [eassumption|lia]). lia.
    + intros E Hh. eapply IH; eauto.
Qed.

Lemma step_RI s e s' : step s e = Some s' -> RI (ph s) -> RI (ph s').
Proof.
  intros H I. destruct e; try (break_step H; use_fifo_pop; simp_state; try assumption; try exact Logic.I;
                   match goal with E : ph _ = _ |- _ => rewrite E end; assumption).
  - (* CT_RENDERBEGIN *) break_step H. simp_state. cbn. repeat split; lia.
  - (* CT_RENDERSIZE *) break_step H. simp_state. cbn. repeat split; lia.
  - (* CT_FLUSHBAR *)
    unfold step in H.
    destruct (ph s) as [|wd ht rows n pc pushes|] eqn:P; try discriminate H.
    destruct (lookup b (bars s)) as [r|] eqn:L; [|discriminate H].
    destruct (br_frame r) as [fi|] eqn:F; [|discriminate H].
    destruct (negb _); [discriminate H|].
    destruct (cycle_err s).
    { inversion H; subst. destruct (_ && _ && _); simp_state; [exact Logic.I|exact I]. }
    destruct err.
    { inversion H; subst. destruct (_ && _ && _); simp_state; [exact Logic.I|exact I]. }
    destruct (negb _); [discriminate H|].
    destruct (flush_take _ _ _ _) as [taken used] eqn:T.
    destruct (flush_take_sub _ _ _ _ _ _ T) as (Sub & U & Po & _).
    destruct I as (In_ & Ipc & Irow & Iht).
    assert (Le : (shutdown =? 2) && pop_mode s && negb nopop = false -> n + used - pc <= Z.max 0 ht).
    { intros E. rewrite E in T. unfold flush_take in T. pose proof (take_rows_le _ _ _ _ _ T) as Le.
      destruct (Z.le_gt_cases n (Z.max 0 ht)); [specialize (Le H0); lia|].
      (* already above the height (popped-out rows below): nothing more is taken *)
      assert (used = 0); [|lia]. clear - T H0. revert T. generalize (rev (bar_rows b r fi)). intros l. revert taken used.
      induction l as [|x l IH]; intros taken used; cbn [take_rows]; [intros E; inversion E; reflexivity|].
      destruct (Z.ltb_spec n ht); [lia|]. apply IH. }
    assert (R : all_row (rows ++ taken) = true).
    { rewrite all_row_app, Irow. cbn. eapply all_row_sub; [exact Sub|]. rewrite all_row_rev. apply bar_rows_all_row. }
    assert (N : n + used = Z.of_nat (length (rows ++ taken))) by (rewrite app_length; lia).
    assert (U0 : 0 <= used) by lia.
    destruct ((shutdown =? 2) && pop_mode s && negb nopop) eqn:PO.
    + (* popped out: the rows are counted as popped, the part to redraw does not grow *)
      apply andb_prop in PO as [PO1 PO3]. apply andb_prop in PO1 as [PO1 PO2].
      apply Z.eqb_eq in PO1. subst shutdown. cbn [Z.eqb Pos.eqb] in H. simp_state. rewrite PO2, PO3 in H. cbn [andb] in H.
      inversion H; subst; clear H; simp_state; cbn [RI]; repeat split; try assumption; try lia.
    + specialize (Le eq_refl).
      repeat match type of H with
      | context [match ?x with _ => _ end] => destruct x eqn:?
      end; try discriminate; inversion H; subst; clear H; simp_state; cbn [RI]; repeat split; try assumption; try lia.
      all: exfalso; repeat match goal with Hq : (_ =? _) = true |- _ => apply Z.eqb_eq in Hq end; subst; simp_state;
        match goal with Hq : _ && _ = true |- _ => rewrite Hq in PO end; cbn in PO; discriminate.
Qed.

(* ---------- the output ---------- *)
Definition screen (s : cst) : list item := screen_of (rev (outframes s)).

Record Out (s : cst) : Prop := {
  (* the writer's buffer: the cursor-up of the frame before, then only text *)
  out_buf : exists k txt, 0 <= k /\ cwbuf s = cuu_items k ++ txt /\ all_text txt = true /\
            (delayed s = false -> exists hist lv, screen s = hist ++ lv /\ Z.of_nat (length lv) = k);
  (* accepted text = text already written ++ text waiting in the buffer *)
  out_log : delayed s = false -> texts (concat (rev (outframes s))) ++ texts (cwbuf s) = wlog s;
  out_delay : delayed s = true -> outframes s = [] /\ wlog s = [];
  (* every Write call: optional cursor-up, then text, then rows *)
  out_shape : forall f, In f (outframes s) -> exists k txt rws, f = cuu_items k ++ txt ++ rws /\ all_text txt = true /\ all_row rws = true
}.

Lemma Out_init p a d : Out (init_cst p a d).
Proof.
  constructor; cbn.
  - exists 0, []. repeat split; try reflexivity; try lia. intros _. exists [], []. split; reflexivity.
  - reflexivity.
  - auto.
  - tauto.
Qed.

Lemma Out_same s s' :
  cwbuf s' = cwbuf s -> outframes s' = outframes s -> delayed s' = delayed s -> wlog s' = wlog s -> Out s -> Out s'.
Proof.
  intros A B C D [O1 O2 O3 O4]. constructor; unfold screen in *; rewrite ?A, ?B, ?C, ?D; assumption.
Qed.

Lemma screen_cons s f : screen_of (rev (f :: outframes s)) = apply_frame (screen s) f.
Proof. unfold screen, screen_of. cbn [rev]. rewrite fold_left_app. reflexivity. Qed.

Lemma concat_rev_cons (f : list item) fs : concat (rev (f :: fs)) = concat (rev fs) ++ f.
Proof. cbn [rev]. rewrite concat_app. cbn. rewrite app_nil_r. reflexivity. Qed.

Lemma lastn_split {A} (l : list A) (k : nat) : (k <= length l)%nat -> exists a b, l = a ++ b /\ length b = k.
Proof.
  intros H. exists (firstn (length l - k) l), (skipn (length l - k) l). split; [symmetry; apply firstn_skipn|].
  rewrite skipn_length. lia.
Qed.

Lemma step_Out s e s' : step s e = Some s' -> RI (ph s) -> Out s -> Out s'.
Proof.
  intros H I O.
  destruct e; try (apply (Out_same s); [| | | |exact O]; break_step H; use_fifo_pop; simp_state; try reflexivity;
                   repeat match goal with |- context [if ?c then _ else _] => destruct c end; simp_state; reflexivity).
  - (* CT_IO *)
    unfold step in H. destruct (negb (serving s && negb (errored s))); [discriminate|].
    destruct (pend_writes s) as [|[[w seq] lines] rest]; [inversion H; subst; exact O|].
    destruct O as [(k & txt & K & B & T & Sc) O2 O3 O4].
    pose proof (text_items_all_text w seq 0 (Z.to_nat lines)) as TT.
    destruct (delayed s) eqn:D; inversion H; subst; clear H; constructor; simp_state; rewrite ?D; unfold screen in *; simp_state.
    + exists k, (txt ++ text_items w seq 0 (Z.to_nat lines)). rewrite B, all_text_app, T, TT, app_assoc. repeat split; auto; try discriminate.
    + discriminate.
    + assumption.
    + assumption.
    + exists k, (txt ++ text_items w seq 0 (Z.to_nat lines)). rewrite B, all_text_app, T, TT, app_assoc. repeat split; auto.
    + intros _. rewrite texts_app, app_assoc, (O2 eq_refl). rewrite (texts_all_text _ TT). reflexivity.
    + discriminate.
    + assumption.
  - (* CT_DELAYEND *)
    unfold step in H. destruct (delayed s && serving s) eqn:C; [|discriminate]. inversion H; subst; clear H.
    apply andb_prop in C as [D _]. destruct O as [_ _ O3 O4]. destruct (O3 D) as (F0 & W0).
    constructor; simp_state; unfold screen; simp_state; rewrite ?F0, ?W0.
    + exists 0, []. repeat split; try reflexivity; try lia. intros _. exists [], []. split; reflexivity.
    + reflexivity.
    + discriminate.
    + intros f [].
  - (* CT_FRAME *)
    unfold step in H. destruct (ph s) as [|wd ht rows n pc pushes|] eqn:P; try discriminate.
    destruct (_ && _) eqn:G; [|discriminate].
    destruct I as (In_ & Ipc & Irow & _).
    destruct O as [(k & txt & K & B & T & Sc) O2 O3 O4].
    assert (K' : 0 <= Z.max 0 (n - pc)) by lia.
    assert (NB : (if 0 <? n - pc then [ICuu (n - pc)] else []) = cuu_items (Z.max 0 (n - pc)) ++ []).
    { unfold cuu_items. rewrite app_nil_r. destruct (Z.ltb_spec 0 (n - pc)).
      - rewrite Z.max_r by lia. destruct (Z.ltb_spec 0 (n - pc)); [reflexivity|lia].
      - rewrite Z.max_l by lia. reflexivity. }
    destruct (delayed s) eqn:D.
    { injection H as <-. constructor; simp_state; rewrite ?D.
      - exists (Z.max 0 (n - pc)), []. repeat split; auto; try discriminate.
      - discriminate.
      - assumption.
      - assumption. }
    destruct (cwbuf s ++ rev rows) as [|i0 buf0] eqn:EB.
    { (* nothing to write *)
      injection H as <-.
      apply app_eq_nil in EB as [EB1 EB2]. assert (rows = []) by (destruct rows; [reflexivity|cbn in EB2; destruct (rev rows); discriminate]).
      subst rows. cbn in In_. subst n.
      constructor; simp_state; rewrite ?D; unfold screen in *; simp_state.
      - exists 0, []. assert (0 <? 0 - pc = false) as -> by (apply Z.ltb_ge; lia). repeat split; try reflexivity; try lia.
        intros _. destruct (Sc eq_refl) as (hist & lv & E1 & E2). exists (hist ++ lv), []. rewrite app_nil_r. auto.
      - intros _. rewrite <- (O2 eq_refl), EB1.
        assert (0 <? 0 - pc = false) as -> by (apply Z.ltb_ge; lia). reflexivity.
      - discriminate.
      - assumption. }
    injection H as <-. rewrite <- EB in *. clear EB.
    assert (RR : all_row (rev rows) = true) by (rewrite all_row_rev; exact Irow).
    assert (Body : no_cuu (txt ++ rev rows) = true).
    { unfold no_cuu. rewrite forallb_app. fold (no_cuu txt). fold (no_cuu (rev rows)).
      rewrite (all_text_no_cuu _ T), (all_row_no_cuu _ RR). reflexivity. }
    constructor; simp_state; unfold screen in *; simp_state.
    + exists (Z.max 0 (n - pc)), []. rewrite NB. split; [assumption|]. split; [reflexivity|]. split; [reflexivity|].
      intros _. rewrite screen_cons. destruct (Sc eq_refl) as (hist & lv & E1 & E2).
      unfold screen. rewrite E1, B, <- app_assoc.
      rewrite (redraw_in_place hist lv k (txt ++ rev rows) E2 Body).
      destruct (lastn_split (rev rows) (Z.to_nat (Z.max 0 (n - pc)))) as (ra & rb & Er & El).
      { rewrite rev_length. lia. }
      exists (hist ++ txt ++ ra), rb. rewrite Er, <- !app_assoc. split; [reflexivity|]. rewrite El. lia.
    + intros _. rewrite concat_rev_cons, !texts_app, (texts_all_row _ RR), app_nil_r, <- (O2 eq_refl).
      rewrite NB. rewrite app_nil_r, texts_cuu, app_nil_r. reflexivity.
    + rewrite D; discriminate.
    + intros f [<-|Hf]; [|auto]. exists k, txt, (rev rows). rewrite B, <- app_assoc. auto.
  - (* OUT *)
    apply (Out_same s); [| | | |exact O]; break_step H; simp_state; first [reflexivity|assumption].
Qed.

Record OInv (s : cst) : Prop := { oi_ri : RI (ph s); oi_out : Out s }.

Theorem reachable_OInv p a d evs s : run (init_cst p a d) evs = Some s -> OInv s.
Proof.
  assert (G : forall s0, OInv s0 -> run s0 evs = Some s -> OInv s).
  { induction evs as [|e evs IH]; intros s0 I; unfold run; cbn.
    - intros E; inversion E; subst; exact I.
    - destruct (step s0 e) as [s1|] eqn:E; [|discriminate]. intros R. apply (IH s1); [|exact R].
      destruct I as [I1 I2]. constructor; [eapply step_RI; eauto|eapply step_Out; eauto]. }
  apply G. constructor; [exact Logic.I|apply Out_init].
Qed.

(* ---------- C13 ---------- *)
(* once rendering has started: the text accepted so far is exactly the text already written
   followed by the text waiting for the next frame — nothing lost, duplicated or reordered *)
Theorem text_once_in_order p a d evs s :
  run (init_cst p a d) evs = Some s -> delayed s = false ->
  texts (concat (rev (outframes s))) ++ texts (cwbuf s) = wlog s.
Proof. intros R. apply out_log. apply (oi_out _ (reachable_OInv _ _ _ _ _ R)). Qed.

(* every Write call puts the text above the rows: [cursor-up] text* row* *)
Theorem text_above_rows p a d evs s f :
  run (init_cst p a d) evs = Some s -> In f (outframes s) ->
  exists k txt rws, f = cuu_items k ++ txt ++ rws /\ all_text txt = true /\ all_row rws = true.
Proof. intros R. apply out_shape. apply (oi_out _ (reachable_OInv _ _ _ _ _ R)). Qed.

(* a write closure that runs appends whole lines to the log; nothing else touches the log *)
Theorem write_logged s s' w seq lines rest :
  step s CT_IO = Some s' -> pend_writes s = (w, seq, lines) :: rest -> delayed s = false ->
  wlog s' = wlog s ++ text_items w seq 0 (Z.to_nat lines).
Proof.
  unfold step. destruct (negb (serving s && negb (errored s))); [discriminate|]. intros H Pw D. rewrite Pw, D in H. inversion H; subst. reflexivity.
Qed.

(* ---------- C04 ---------- *)
(* every frame replaces exactly the live rows of the frame before it *)
Theorem frame_redraws_in_place p a d evs s n pc s' :
  run (init_cst p a d) evs = Some s -> step s (CT_FRAME n pc) = Some s' -> delayed s = false -> outframes s' <> outframes s ->
  exists hist lv txt rows,
    screen s = hist ++ lv /\ all_text txt = true /\ all_row rows = true /\ Z.of_nat (length rows) = n /\
    screen s' = hist ++ txt ++ rows /\
    cwbuf s' = cuu_items (Z.max 0 (n - pc)) /\ 0 <= pc <= n.
Proof.
  intros R H D Ne. destruct (reachable_OInv _ _ _ _ _ R) as [I [(k & txt & K & B & T & Sc) _ _ _]].
  unfold step in H. destruct (ph s) as [|wd ht rows n0 pc0 pushes|] eqn:P; try discriminate.
  destruct (_ && _) eqn:G; [|discriminate]. rewrite D in H.
  repeat (apply andb_prop in G as [G ?]). apply Z.eqb_eq in G.
  match goal with G2 : (pc0 =? pc) = true |- _ => apply Z.eqb_eq in G2 end. subst n0 pc0.
  destruct I as (In_ & Ipc & Irow & _).
  destruct (cwbuf s ++ rev rows) as [|i0 buf0] eqn:EB; inversion H; subst; clear H; simp_state; [congruence|].
  rewrite <- EB in *. clear EB.
  assert (RR : all_row (rev rows) = true) by (rewrite all_row_rev; exact Irow).
  assert (Body : no_cuu (txt ++ rev rows) = true).
  { unfold no_cuu. rewrite forallb_app. fold (no_cuu txt). fold (no_cuu (rev rows)).
    rewrite (all_text_no_cuu _ T), (all_row_no_cuu _ RR). reflexivity. }
  destruct (Sc D) as (hist & lv & E1 & E2).
  exists hist, lv, txt, (rev rows). repeat split; auto; try lia.
  - rewrite rev_length. reflexivity.
  - unfold screen. simp_state. rewrite screen_cons. fold (screen s). rewrite E1, B, <- app_assoc.
    apply redraw_in_place; assumption.
  - unfold cuu_items. destruct (Z.ltb_spec 0 (Z.of_nat (length rows) - pc)).
    + rewrite Z.max_r by lia. destruct (Z.ltb_spec 0 (Z.of_nat (length rows) - pc)); [reflexivity|lia].
    + rewrite Z.max_l by lia. reflexivity.
Qed.

(* the part of a frame that is redrawn — every row but those of bars popped out in this cycle, which stay for good — never holds
   more rows than the terminal is high *)
Theorem frame_fits_rows p a d evs s wd ht rows n pc pu :
  run (init_cst p a d) evs = Some s -> ph s = Rendering wd ht rows n pc pu ->
  n = Z.of_nat (length rows) /\ 0 <= pc <= n /\ n - pc <= Z.max 0 ht.
Proof.
  intros R P. pose proof (oi_ri _ (reachable_OInv _ _ _ _ _ R)) as I. rewrite P in I. cbn in I. repeat split; lia.
Qed.

(* nothing is written while the render delay is pending *)
Theorem nothing_before_delay_ends p a d evs s :
  run (init_cst p a d) evs = Some s -> delayed s = true -> outframes s = [].
Proof. intros R D. apply (out_delay _ (oi_out _ (reachable_OInv _ _ _ _ _ R)) D). Qed.

(* ---------- nothing is left in the buffer when the container returns (C13) ---------- *)
Definition FinalText (s : cst) : Prop := final_done s = true -> done_seen s = true /\ texts (cwbuf s) = [].

Lemma FinalText_init p a d : FinalText (init_cst p a d).
Proof. intros H. cbn in H. discriminate. Qed.

Lemma step_FinalText s e s' : step s e = Some s' -> FinalText s -> FinalText s'.
Proof.
  intros H I. unfold FinalText in *.
  destruct e; break_step H; use_fifo_pop; simp_state; try assumption;
    repeat match goal with |- context [if ?c then _ else _] => destruct c end; simp_state; try assumption.
  all: repeat match goal with
    | Hi : _ && _ = true |- _ => apply andb_prop in Hi as [? ?]
    | Hi : negb _ = true |- _ => apply negb_true_iff in Hi
    | Hi : negb _ = false |- _ => apply negb_false_iff in Hi
    end.
  (* a write closure or the end of the delay cannot run once done was seen *)
  all: try (intros F; destruct (I F) as [D _]; congruence).
  (* CT_DONE *)
  all: try (intros F; destruct (I F) as [D T]; split; [reflexivity|exact T]).
  (* CT_FRAME: the buffer is left with the cursor-up only *)
  all: intros F; split;
       [ apply orb_true_iff in F as [F|F]; [destruct (I F); assumption|exact F]
       | try reflexivity ].
Qed.

Theorem reachable_FinalText p a d evs s : run (init_cst p a d) evs = Some s -> FinalText s.
Proof.
  unfold run. generalize (FinalText_init p a d). generalize (init_cst p a d).
  induction evs as [|e evs IH]; cbn; intros s0 I H.
  - inversion H; subst; exact I.
  - destruct (step s0 e) as [s1|] eqn:E; [|discriminate]. apply (IH s1); auto. eapply step_FinalText; eauto.
Qed.

(* auto refresh, no render error: when the container goroutine returns, every line it accepted has been written *)
Theorem all_text_written_at_exit p a d evs s s' :
  run (init_cst p a d) evs = Some s -> step s CT_EXIT = Some s' ->
  auto_mode s = true -> errored s = false -> delayed s = false ->
  texts (concat (rev (outframes s'))) = wlog s' /\ texts (cwbuf s') = [].
Proof.
  intros R E A Er D. unfold step in E. destruct (done_seen s && is_idle s && _) eqn:G; [|discriminate].
  inversion E; subst; clear E. simp_state.
  apply andb_prop in G as [_ G]. rewrite A, Er in G. cbn in G. rewrite orb_false_r in G.
  destruct (reachable_FinalText _ _ _ _ _ R G) as [_ T].
  pose proof (text_once_in_order _ _ _ _ _ R D) as W. rewrite T, app_nil_r in W. auto.
Qed.
