(* driver.ml — runs the extracted model on the case files the harness wrote and
   prints the model's observation lines in the harness's format. *)
open Mpb_model
open Glue

(* ---------------- family "bar" ---------------- *)
let bar_family (dir : string) =
  let lines = read_lines (Filename.concat dir "cases.txt") in
  let oc = open_out (Filename.concat dir "model.txt") in
  let k = ref 0 and step = ref 0 in
  let st = ref None in   (* None: model refused an earlier event of this case *)
  let emit s extra =
    let ((cur, comp), ab) = obs s in
    Printf.fprintf oc "%d %d %s %s %s%s\n" !k !step (zs cur) (bs comp) (bs ab) extra;
    incr step in
  let refuse why = Printf.fprintf oc "%d %d REFUSED %s\n" !k !step why; incr step; st := None in
  let ewma = ref false in
  let pending = ref "" in
  List.iter (fun line ->
    match tokens line with
    | ["case"; kk; mode; total; wraps; _side] ->
        k := int_of_string kk; step := 0;
        ewma := wraps <> "-"; pending := "";
        st := Some (binit (cz total) (mode = "0") false false)
    | "o" :: rest ->
        (match !st with None -> () | Some s ->
          let op = match rest with
            | ["Incr"; n] -> Some (IncrInt64 (cz n))
            | ["EIncr"; n; d] -> Some (EwmaIncrInt64 (cz n, cz d))
            | ["SetCur"; c] -> Some (SetCurrent (cz c))
            | ["ESetCur"; c; d] -> Some (EwmaSetCurrent (cz c, cz d))
            | ["SetTotal"; t; c] -> Some (SetTotal (cz t, sb c))
            | ["Enable"] -> Some EnableTriggerComplete
            | ["SetRefill"; a] -> Some (SetRefill (cz a))
            | ["Abort"; d] -> Some (Abort (sb d))
            | ["Nop"] -> None
            | _ -> failwith ("bad op line: " ^ line) in
          (match op with
           | None -> emit s ""
           | Some o ->
             (match bstep s o with
              | None -> refuse "call while ctx done and actor not exited"
              | Some (s', out) ->
                  st := Some s';
                  let extra = match out with
                    | OSample (n, d) when !ewma -> Printf.sprintf " S %s %s" (zs n) (zs d)
                    | _ -> "" in
                  (* ctx done, actor not yet exited: getters race, nothing is observed;
                     the samples are carried to the observation after Exit *)
                  if s'.cancelled && not s'.exited then pending := extra
                  else emit s' extra)))
    | ["e"; "Render"] ->
        (match !st with None -> () | Some s ->
          let stat = Printf.sprintf " R %s %s %s %s %s" (zs s.refill) (zs s.current)
              (zs s.total) (bs (completed s)) (bs s.aborted) in
          let (s', _) = brender s in
          st := Some s'; emit s' stat)
    | ["e"; "Cancel"] ->
        (match !st with None -> () | Some s ->
          (match bev_step s CtxCancel with Some s' -> st := Some s' | None -> refuse "cancel"))
    | ["e"; "Exit"] ->
        (match !st with None -> () | Some s ->
          (match bev_step s Exit with
           | Some s' -> st := Some s'; let e = !pending in pending := ""; emit s' e
           | None -> refuse "bar goroutine exited although the model's ctx is not done"))
    | ["end"] ->
        (match !st with
         | Some s when not s.exited -> refuse "case ended with the actor alive"
         | _ -> ())
    | [] -> ()
    | _ -> failwith ("bad line: " ^ line)) lines;
  close_out oc


(* ---------------- family "fill" ---------------- *)
let zlist (s : string) : Mpb_model.z list =
  if s = "-" || s = "" then [] else List.map cz (String.split_on_char ',' s)

let runs_of (t : seg list) : string =
  (* class:total-width runs, zero-width dropped, adjacent classes merged *)
  let rec go acc = function
    | [] -> List.rev acc
    | sg :: rest ->
        let wd = zi sg.cnt * zi sg.w in
        if wd <= 0 then go acc rest else
        let c = zi sg.cls in
        (match acc with
         | (c', w') :: tl when c' = c -> go ((c, w' + wd) :: tl) rest
         | _ -> go ((c, wd) :: acc) rest) in
  String.concat "" (List.map (fun (c, w) -> Printf.sprintf " %d:%d" c w) (go [] t))

let obs_line k i (t : seg list) =
  Printf.sprintf "%d %d T%s | W %s U 1" k i (runs_of t) (zs (segs_width t))

let style_of = function
  | [l; r; f; rf; p; toc; rv; tips] ->
      { lb = cz l; rb = cz r; fw = cz f; rw = cz rf; pw = cz p; tips = zlist tips;
        tip_on_complete = sb toc; reverse = sb rv }
  | _ -> failwith "bad style"

let text_of idx (ws : string) : seg list =
  List.map (fun w -> { cls = czi (1000 + idx); cnt = czi 1; w = w }) (zlist ws)

let dec_of idx = function
  | [_side; w; ex; ri; wraps; t; cm; am] ->
      let base = DBase ({ wcW = cz w; extra = sb ex; indent_right = sb ri; wsync = false }, text_of idx t) in
      let d = ref base in
      if wraps <> "-" then
        for i = String.length wraps - 1 downto 0 do
          d := (match wraps.[i] with
            | 'C' -> DOnComplete (!d, text_of idx cm)
            | 'A' -> DOnAbort (!d, text_of idx am)
            | 'M' -> DMeta !d
            | 'c' -> DOnCompleteMeta !d
            | 'a' -> DOnAbortMeta !d
            | _ -> failwith "bad wrapper")
        done;
      !d
  | _ -> failwith "bad decorator line"

let fill_family (dir : string) =
  let lines = read_lines (Filename.concat dir "cases.txt") in
  let oc = open_out (Filename.concat dir "model.txt") in
  let k = ref 0 and i = ref 0 in
  let kind = ref ' ' in
  let style = ref None and spin = ref None in
  let count = ref Z0 in
  let dead = ref false in
  let dhdr = ref [] and pre = ref [] and app = ref [] and nd = ref 0 in
  List.iter (fun line ->
    match tokens line with
    | "F" :: kk :: rest -> k := int_of_string kk; i := 0; kind := 'F'; style := Some (style_of rest);
        count := Z0; dead := false
    | ["S"; kk; pos; fr] -> k := int_of_string kk; i := 0; kind := 'S';
        spin := Some { frames = zlist fr; position = cz pos }; count := Z0
    | "D" :: kk :: rest -> k := int_of_string kk; i := 0; kind := 'D'; dhdr := rest;
        pre := []; app := []; nd := 0; count := Z0; dead := false
    | "d" :: rest ->
        let d = dec_of !nd rest in
        (if List.hd rest = "0" then pre := !pre @ [d] else app := !app @ [d]); incr nd
    | ["c"; a; r; t; c; rf; comp] when !kind = 'F' ->
        if not !dead then begin
          let st = match !style with Some s -> s | None -> failwith "no style" in
          let s = { avail = cz a; req = cz r; s_total = cz t; s_current = cz c; s_refill = cz rf;
                    s_completed = sb comp; s_aborted = false } in
          (match fill_bar st !count s with
           | None -> Printf.fprintf oc "%d %d HANG\n" !k !i; dead := true
           | Some (t, c') -> count := c'; Printf.fprintf oc "%s\n" (obs_line !k !i t));
          incr i end
    | ["c"; a; r] when !kind = 'S' ->
        let st = match !spin with Some s -> s | None -> failwith "no spin" in
        let s = { avail = cz a; req = cz r; s_total = Z0; s_current = Z0; s_refill = Z0;
                  s_completed = false; s_aborted = false } in
        let (t, c') = fill_spinner st !count s in
        count := c'; Printf.fprintf oc "%s\n" (obs_line !k !i t); incr i
    | ["f"; t; c; rf; comp; ab] ->
        if not !dead then begin
          (match !dhdr with
           | tw :: bw :: trim :: fk :: rest ->
               let fkv = (match fk with
                 | "B" -> FBar (style_of rest)
                 | "S" -> (match rest with [pos; fw] -> FSpin { frames = [cz fw]; position = cz pos } | _ -> failwith "bad S")
                 | _ -> FNop) in
               let reqw = if int_of_string bw > 0 then cz bw else cz tw in
               (match draw_row fkv !count (cz tw) reqw (sb trim) !pre !app (cz t) (cz c) (cz rf) (sb comp) (sb ab) with
                | None -> Printf.fprintf oc "%d %d HANG\n" !k !i; dead := true
                | Some (row, c') -> count := c'; Printf.fprintf oc "%s\n" (obs_line !k !i row))
           | _ -> failwith "bad D header");
          incr i end
    | ["end"] | [] -> ()
    | _ -> failwith ("bad line: " ^ line)) lines;
  close_out oc

let () =
  match Array.to_list Sys.argv with
  | [_; "bar"; dir] -> bar_family dir
  | [_; "fill"; dir] -> fill_family dir
  | _ -> prerr_endline "usage: mpbmodel <family> <dir>"; exit 2
