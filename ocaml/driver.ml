(* driver.ml — runs the extracted model on the case files the harness wrote and
   prints the model's observation lines in the harness's format. *)
open Mpb_model
open Glue

(* ---------------- family "bar" ---------------- *)
let bar_family (dir : string) =
  let lines = read_lines (Filename.concat dir "cases.txt") in
  let oc = open_out (Filename.concat dir "model.txt") in
  let k = ref 0 and step = ref 0 in
  let st = ref None in   (* None: model refused an earlier event of this case *)
  let emit s extra =
    let ((cur, comp), ab) = obs s in
    Printf.fprintf oc "%d %d %s %s %s%s\n" !k !step (zs cur) (bs comp) (bs ab) extra;
    incr step in
  let refuse why = Printf.fprintf oc "%d %d REFUSED %s\n" !k !step why; incr step; st := None in
  let ewma = ref false in
  let pending = ref "" in
  List.iter (fun line ->
    match tokens line with
    | ["case"; kk; mode; total; wraps; _side] ->
        k := int_of_string kk; step := 0;
        ewma := wraps <> "-"; pending := "";
        st := Some (binit (cz total) (mode = "0") false false)
    | "o" :: rest ->
        (match !st with None -> () | Some s ->
          let op = match rest with
            | ["Incr"; n] -> Some (IncrInt64 (cz n))
            | ["EIncr"; n; d] -> Some (EwmaIncrInt64 (cz n, cz d))
            | ["SetCur"; c] -> Some (SetCurrent (cz c))
            | ["ESetCur"; c; d] -> Some (EwmaSetCurrent (cz c, cz d))
            | ["SetTotal"; t; c] -> Some (SetTotal (cz t, sb c))
            | ["Enable"] -> Some EnableTriggerComplete
            | ["SetRefill"; a] -> Some (SetRefill (cz a))
            | ["Abort"; d] -> Some (Abort (sb d))
            | ["Nop"] -> None
            | _ -> failwith ("bad op line: " ^ line) in
          (match op with
           | None -> emit s ""
           | Some o ->
             (match bstep s o with
              | None -> refuse "call while ctx done and actor not exited"
              | Some (s', out) ->
                  st := Some s';
                  let extra = match out with
                    | OSample (n, d) when !ewma -> Printf.sprintf " S %s %s" (zs n) (zs d)
                    | _ -> "" in
                  (* ctx done, actor not yet exited: getters race, nothing is observed;
                     the samples are carried to the observation after Exit *)
                  if s'.cancelled && not s'.exited then pending := extra
                  else emit s' extra)))
    | ["e"; "Render"] ->
        (match !st with None -> () | Some s ->
          let stat = Printf.sprintf " R %s %s %s %s %s" (zs s.refill) (zs s.current)
              (zs s.total) (bs (completed s)) (bs s.aborted) in
          let (s', _) = brender s in
          st := Some s'; emit s' stat)
    | ["e"; "Cancel"] ->
        (match !st with None -> () | Some s ->
          (match bev_step s CtxCancel with Some s' -> st := Some s' | None -> refuse "cancel"))
    | ["e"; "Exit"] ->
        (match !st with None -> () | Some s ->
          (match bev_step s Exit with
           | Some s' -> st := Some s'; let e = !pending in pending := ""; emit s' e
           | None -> refuse "bar goroutine exited although the model's ctx is not done"))
    | ["end"] ->
        (match !st with
         | Some s when not s.exited -> refuse "case ended with the actor alive"
         | _ -> ())
    | [] -> ()
    | _ -> failwith ("bad line: " ^ line)) lines;
  close_out oc


(* ---------------- family "fill" ---------------- *)
let zlist (s : string) : Mpb_model.z list =
  if s = "-" || s = "" then [] else List.map cz (String.split_on_char ',' s)

let runs_of (t : seg list) : string =
  (* class:total-width runs, zero-width dropped, adjacent classes merged *)
  let rec go acc = function
    | [] -> List.rev acc
    | sg :: rest ->
        let wd = zi sg.cnt * zi sg.w in
        if wd <= 0 then go acc rest else
        let c = zi sg.cls in
        (match acc with
         | (c', w') :: tl when c' = c -> go ((c, w' + wd) :: tl) rest
         | _ -> go ((c, wd) :: acc) rest) in
  String.concat "" (List.map (fun (c, w) -> Printf.sprintf " %d:%d" c w) (go [] t))

let obs_line k i (t : seg list) =
  Printf.sprintf "%d %d T%s | W %s U 1" k i (runs_of t) (zs (segs_width t))

let style_of = function
  | [l; r; f; rf; p; toc; rv; tips] ->
      { lb = cz l; rb = cz r; fw = cz f; rw = cz rf; pw = cz p; tips = zlist tips;
        tip_on_complete = sb toc; reverse = sb rv }
  | _ -> failwith "bad style"

let text_of idx (ws : string) : seg list =
  List.map (fun w -> { cls = czi (1000 + idx); cnt = czi 1; w = w }) (zlist ws)

let dec_of idx = function
  | [_side; w; ex; ri; wraps; t; cm; am] ->
      let base = DBase ({ wcW = cz w; extra = sb ex; indent_right = sb ri; wsync = false }, text_of idx t) in
      let d = ref base in
      if wraps <> "-" then
        for i = String.length wraps - 1 downto 0 do
          d := (match wraps.[i] with
            | 'C' -> DOnComplete (!d, text_of idx cm)
            | 'A' -> DOnAbort (!d, text_of idx am)
            | 'M' -> DMeta !d
            | 'c' -> DOnCompleteMeta !d
            | 'a' -> DOnAbortMeta !d
            | _ -> failwith "bad wrapper")
        done;
      !d
  | _ -> failwith "bad decorator line"

let fill_family (dir : string) =
  let lines = read_lines (Filename.concat dir "cases.txt") in
  let oc = open_out (Filename.concat dir "model.txt") in
  let k = ref 0 and i = ref 0 in
  let kind = ref ' ' in
  let style = ref None and spin = ref None in
  let count = ref Z0 in
  let dead = ref false in
  let dhdr = ref [] and pre = ref [] and app = ref [] and nd = ref 0 in
  List.iter (fun line ->
    match tokens line with
    | "F" :: kk :: rest -> k := int_of_string kk; i := 0; kind := 'F'; style := Some (style_of rest);
        count := Z0; dead := false
    | ["S"; kk; pos; fr] -> k := int_of_string kk; i := 0; kind := 'S';
        spin := Some { frames = zlist fr; position = cz pos }; count := Z0
    | "D" :: kk :: rest -> k := int_of_string kk; i := 0; kind := 'D'; dhdr := rest;
        pre := []; app := []; nd := 0; count := Z0; dead := false
    | "d" :: rest ->
        let d = dec_of !nd rest in
        (if List.hd rest = "0" then pre := !pre @ [d] else app := !app @ [d]); incr nd
    | ["c"; a; r; t; c; rf; comp] when !kind = 'F' ->
        if not !dead then begin
          let st = match !style with Some s -> s | None -> failwith "no style" in
          let s = { avail = cz a; req = cz r; s_total = cz t; s_current = cz c; s_refill = cz rf;
                    s_completed = sb comp; s_aborted = false } in
          (match fill_bar st !count s with
           | None -> Printf.fprintf oc "%d %d HANG\n" !k !i; dead := true
           | Some (t, c') -> count := c'; Printf.fprintf oc "%s\n" (obs_line !k !i t));
          incr i end
    | ["c"; a; r] when !kind = 'S' ->
        let st = match !spin with Some s -> s | None -> failwith "no spin" in
        let s = { avail = cz a; req = cz r; s_total = Z0; s_current = Z0; s_refill = Z0;
                  s_completed = false; s_aborted = false } in
        let (t, c') = fill_spinner st !count s in
        count := c'; Printf.fprintf oc "%s\n" (obs_line !k !i t); incr i
    | ["f"; t; c; rf; comp; ab] ->
        if not !dead then begin
          (match !dhdr with
           | tw :: bw :: trim :: fk :: rest ->
               let fkv = (match fk with
                 | "B" -> FBar (style_of rest)
                 | "S" -> (match rest with [pos; fw] -> FSpin { frames = [cz fw]; position = cz pos } | _ -> failwith "bad S")
                 | _ -> FNop) in
               let reqw = if int_of_string bw > 0 then cz bw else cz tw in
               (match draw_row fkv !count (cz tw) reqw (sb trim) !pre !app (cz t) (cz c) (cz rf) (sb comp) (sb ab) with
                | None -> Printf.fprintf oc "%d %d HANG\n" !k !i; dead := true
                | Some (row, c') -> count := c'; Printf.fprintf oc "%s\n" (obs_line !k !i row))
           | _ -> failwith "bad D header");
          incr i end
    | ["end"] | [] -> ()
    | _ -> failwith ("bad line: " ^ line)) lines;
  close_out oc

(* ---------------- family "frames": trace acceptance ---------------- *)
let bar_of (tok : string) : Mpb_model.z =   (* "b3" -> 3 *)
  cz (String.sub tok 1 (String.length tok - 1))

let parse_item (tok : string) : item list =
  let bad = [IText (czi (-1), czi 0, czi 0)] in
  match String.split_on_char ':' tok with
  | ["r"; i; cur; total; flag; deco; _w] ->
      let ok = (flag = "R" && deco = "run") || (flag = "C" && deco = "DONE") || (flag = "A" && deco = "ABRT") in
      if ok then [IRow (cz i, cz cur, cz total, flag = "C", flag = "A")] else bad
  | ["x"; i; j] -> [IXRow (cz i, cz j)]
  | ["t"; w; sq; l] -> [IText (cz w, cz sq, cz l)]
  | _ ->
      if String.length tok > 4 && String.sub tok 0 4 = "cuu=" then
        let n = int_of_string (String.sub tok 4 (String.length tok - 4)) in
        if n > 0 then [ICuu (czi n)] else []
      else bad

type barcfg = { c_prio : Mpb_model.z option; c_xrows : Mpb_model.z; c_xrev : bool }

let frames_family (dir : string) =
  let lines = read_lines (Filename.concat dir "cases.txt") in
  let oc = open_out (Filename.concat dir "model.txt") in
  let k = ref 0 in
  let st = ref None in
  let cfgs : (int, barcfg) Hashtbl.t = Hashtbl.create 16 in
  let nev = ref 0 and nframes = ref 0 in
  let rejected = ref false in
  let late_ok = ref true in
  let finish () =
    (match !st with
     | None -> ()
     | Some _ ->
         if not !rejected then
           Printf.fprintf oc "%d %s events=%d frames=%d\n" !k (if !late_ok then "ACCEPT" else "LATEBAD") !nev !nframes);
    st := None in
  let feed seq (e : ev) (line : string) =
    match !st with
    | None -> ()
    | Some s when not !rejected ->
        incr nev;
        (match step s e with
         | Some s' -> st := Some s'
         | None ->
             rejected := true;
             let fifo = String.concat "," (List.map (function
               | QPush (b, sy) -> Printf.sprintf "push(b%s,%s)" (zs b) (bs sy)
               | QSync -> "sync" | QIter -> "iter" | QOp -> "op") s.fifo) in
             let heap = String.concat "," (List.map zs s.heap) in
             let popped = String.concat "," (List.map zs s.popped) in
             let ph = (match s.ph with Idle -> "idle" | Failed -> "failed" | Rendering (_, _, rows, n, pc, pu) ->
               Printf.sprintf "rendering(rows=%s,pop=%s,pushes=%d)" (zs n) (zs pc) (List.length pu)) in
             (* for a frame that differs from the model's: what differs *)
             let sub = (match e, s.outframes with
               | OUT items, exp :: _ ->
                   let rows l = List.filter_map (function IRow (b, _, _, _, _) -> Some (zi b, -1) | IXRow (b, j) -> Some (zi b, zi j) | _ -> None) l in
                   let texts l = List.filter (function IText _ -> true | _ -> false) l in
                   let cuu l = List.filter (function ICuu _ -> true | _ -> false) l in
                   let ra = rows items and re = rows exp in
                   if List.sort compare ra <> List.sort compare re then "OUT_ROWS"
                   else if ra <> re then "OUT_ORDER"
                   else if texts items <> texts exp then "OUT_TEXT"
                   else if cuu items <> cuu exp then "OUT_CUU"
                   else "OUT_CONTENT"
               | OUT _, [] -> "OUT_UNEXPECTED"
               | _ -> "") in
             Printf.fprintf oc "%d REJECT seq=%s sub=%s line=[%s] heap=[%s] fifo=[%s] popped=[%s] phase=%s hsync=%s hlen=%s dirty=%s\n"
               !k seq sub line heap fifo popped ph (bs s.hsync) (zs s.hlen) (bs s.hdirty))
    | Some _ -> () in
  List.iter (fun line ->
    match tokens line with
    | "case" :: kk :: mode :: _q :: _width :: pop :: delay :: _ ->
        finish ();
        k := int_of_string kk; nev := 0; nframes := 0; rejected := false; late_ok := true;
        Hashtbl.reset cfgs;
        st := Some (init_cst (sb pop) (mode = "auto") (sb delay))
    | "bar" :: i :: _total :: prio :: _rm :: _nopop :: _after :: xrows :: xrev :: _ ->
        Hashtbl.replace cfgs (int_of_string i)
          { c_prio = (if prio = "-1000000" then None else Some (cz prio)); c_xrows = cz xrows; c_xrev = sb xrev }
    | ["end"] -> finish ()
    | "t" :: seq :: kind :: rest ->
        let f e = feed seq e line in
        (match kind, rest with
         | "CL_OP", [b; "Incr"; n] -> f (CL_OP (bar_of b, IncrInt64 (cz n)))
         | "CL_OP", [b; "SetTotal"; t; c] -> f (CL_OP (bar_of b, SetTotal (cz t, sb c)))
         | "CL_OP", [b; "Abort"; d] -> f (CL_OP (bar_of b, Abort (sb d)))
         | "CL_OP", [b; "SetCur"; c] -> f (CL_OP (bar_of b, SetCurrent (cz c)))
         | "CL_OP", [b; "SetRefill"; c] -> f (CL_OP (bar_of b, SetRefill (cz c)))
         | "CL_OP", [b; "Enable"] -> f (CL_OP (bar_of b, EnableTriggerComplete))
         | "RET_OP", [b; cur; comp; ab] -> f (RET_GET (bar_of b, cz cur, sb comp, sb ab))
         | "CL_PRIO", [b; p; lazy_] -> f (CL_PRIO (bar_of b, cz p, sb lazy_))
         | "CL_WRITE", [w; sq; nl] -> f (CL_WRITE (cz w, cz sq, cz nl))
         | "CL_CANCEL", [] -> f CL_CANCEL
         | "CT_OP", [] -> f CT_OP
         | "CT_ADD", [b; after; id; prio; total; rm; nopop; trig] ->
             let bi = int_of_string (String.sub b 1 (String.length b - 1)) in
             let cfg = (try Hashtbl.find cfgs bi with Not_found -> { c_prio = None; c_xrows = Z0; c_xrev = false }) in
             let a = int_of_string (String.sub after 6 (String.length after - 6)) in
             f (CT_ADD (czi bi, cz id, cz prio, cz total, cfg.c_prio, (if a < 0 then None else Some (czi a)),
                        sb rm, sb nopop, sb trig, cfg.c_xrows, cfg.c_xrev))
         | "CT_IO", [] -> f CT_IO
         | "CT_DELAYEND", [] -> f CT_DELAYEND
         | "CT_RENDERBEGIN", [] -> f CT_RENDERBEGIN
         | "CT_RENDERSIZE", [w; h; _tty; _err] -> f (CT_RENDERSIZE (cz w, cz h))
         | "CT_FLUSHBAR", [b; sh; nrows; rm; nopop; err] -> f (CT_FLUSHBAR (bar_of b, cz sh, cz nrows, sb rm, sb nopop, sb err))
         | "CT_RENDERERR", _ -> f CT_RENDERERR
         | "FAULT", ["fill"; b; _] -> f (BAR_DRAWERR (bar_of b))
         | "CT_FRAME", [n; pc] -> f (CT_FRAME (cz n, cz pc))
         | "OUT", items -> incr nframes; f (OUT (List.concat_map parse_item items))
         | "CT_DONE", _ -> f CT_DONE
         | "CT_EXIT", [] -> f CT_EXIT
         | "HM_REQ", [b; "1"; dsync; hl; cs; cl] -> f (HM_PUSH (bar_of b, sb dsync, cz hl, sb cs, cz cl))
         | "HM_REQ", ["0"; hl; cs; cl] -> f (HM_SYNC (cz hl, sb cs, cz cl))
         | "HM_REQ", ["2"; haspop; hl; _; _] -> f (HM_ITERREQ (sb haspop, cz hl))
         | "HM_REQ", [b; "3"; p; lazy_; idx; hl; _; _] -> f (HM_FIX (bar_of b, cz p, sb lazy_, cz idx, cz hl))
         | "HM_REQ", ["4"; hl; cs; cl] -> f (HM_STATE (cz hl, sb cs, cz cl))
         | "HM_REQ", ["5"; hl; _; _] -> f (HM_END (cz hl))
         | "HM_POP", [b; p] -> f (HM_POP (bar_of b, cz p))
         | "BAR_OP", [b; cur; tot; rf; tr; ab; rm; sh] -> f (BAR_OP (bar_of b, cz cur, cz tot, cz rf, sb tr, sb ab, sb rm, cz sh))
         | "BAR_RENDER", [b; cur; tot; rf; ab; comp; sh; _w] -> f (BAR_RENDER (bar_of b, cz cur, cz tot, cz rf, sb ab, sb comp, cz sh))
         | "BAR_EXIT", [b; cur; tot; ab] -> f (BAR_EXIT (bar_of b, cz cur, cz tot, sb ab))
         | "FINAL", [b; cur; comp; ab; run] -> f (FINAL (bar_of b, cz cur, sb comp, sb ab, sb run))
         | "NOTIFY", [] -> f (NOTIFY [])
         | "NOTIFY", [ids] -> f (NOTIFY (List.map cz (String.split_on_char ',' ids)))
         | "LATE_WRITE", [n; e] -> if not (n = "0" && e = "1") then late_ok := false
         | "LATE_ADD", [n; e] -> if not (n = "1" && e = "1") then late_ok := false
         | "HANG", _ -> if not !rejected then (rejected := true; Printf.fprintf oc "%d HANG %s\n" !k (String.concat " " rest))
         | ("CL_ADD" | "RET_ADD" | "RET_PRIO" | "RET_WRITE" | "CL_TICK" | "RET_TICK" | "CL_DELAYEND" | "CL_WAIT"
           | "RET_WAIT" | "LS_DONE" | "HM_ITER" | "HM_ITERDROP" | "HM_POPDROP" | "BAR_TRIGGER" | "EARLY_DECIDE"
           | "EARLY_REQ" | "EARLY_EXIT" | "WC_SENT" | "WC_GOT" | "DIST_COLLECTED" | "DIST_DROP" | "DIST_DONE"
           | "DBG" | "END" | "OUTERR" | "SHUTDOWN" | "LEAK" | "FAULT" | "RET_SHUTDOWN" | "CL_HOLD" | "CL_RELEASE"), _ -> ()
         | _ -> failwith ("frames: unknown trace line: " ^ line))
    | [] -> ()
    | _ -> failwith ("bad line: " ^ line)) lines;
  finish ();
  close_out oc

(* ---------------- family "proxy" ---------------- *)
let proxy_family (dir : string) =
  let lines = read_lines (Filename.concat dir "cases.txt") in
  let oc = open_out (Filename.concat dir "model.txt") in
  let k = ref 0 and i = ref 0 in
  let cfg = ref None and st = ref None in
  List.iter (fun line ->
    match tokens line with
    | ["P"; kk; rd; cl; fa; ew; total] ->
        k := int_of_string kk; i := 0;
        let c = { is_reader = sb rd; has_close = sb cl; has_fast = sb fa; has_ewma = int_of_string ew >= 0 } in
        cfg := Some c; st := Some (binit (cz total) true false false);
        Printf.fprintf oc "%d -1 offers %s\n" !k (bs (offers_fast c))
    | "c" :: rest ->
        (match !cfg, !st with
         | Some c, Some s ->
             let (call, r) = (match rest with
               | ["T"; fast; n; e] -> (PTransfer (sb fast), { rn = cz n; rerr = cz e })
               | ["C"; e] -> (PClose, { rn = Z0; rerr = cz e })
               | _ -> failwith "bad proxy call") in
             (match pstep c s call r with
              | Some (s', o) ->
                  st := Some s';
                  let smp = (match o.osample with Some n -> " S " ^ zs n | None -> "") in
                  Printf.fprintf oc "%d %d %s %s %s %s 1%s\n" !k !i (zs o.on) (zs o.oerr) (bs o.oforwarded) (zs s'.current) smp
              | None -> Printf.fprintf oc "%d %d REFUSED\n" !k !i);
             incr i
         | _ -> ())
    | ["end"] | [] -> ()
    | _ -> failwith ("bad line: " ^ line)) lines;
  close_out oc

(* ---------------- family "fmt" ---------------- *)
let render_fixed (neg, ip, fp, p) : string =
  let ips = zs ip in
  let pn = zi p in
  let body = if pn > 0 then
      let f = zs fp in
      ips ^ "." ^ String.make (pn - String.length f) '0' ^ f
    else ips in
  (if neg then "-" else "") ^ body

let go_quote (s : string) : string = "\"" ^ String.escaped s ^ "\""

let fmt_family (dir : string) =
  let lines = read_lines (Filename.concat dir "cases.txt") in
  let oc = open_out (Filename.concat dir "model.txt") in
  let k = ref 0 and i = ref 0 and zdur = ref Z0 in
  let names base idx =
    let l = if base = "1024" then ["b"; "KiB"; "MiB"; "GiB"; "TiB"] else ["b"; "KB"; "MB"; "GB"; "TB"] in
    List.nth l idx in
  let prec_of p = if p = "-1" then None else Some (cz p) in
  let size_string base v cls prec space suffix =
    let us = if base = "1024" then units1024 else units1000 in
    match size_format us (cz v) (cz cls) (prec_of prec) (sb space) with
    | Some (((((neg, ip), fp), p), idx), sp) ->
        Some (render_fixed (neg, ip, fp, p) ^ (if sp then " " else "") ^ names base (inat idx) ^ suffix)
    | None -> None in
  List.iter (fun line ->
    match tokens line with
    | ["Z"; kk; base; v; cls; prec; space; _verb] ->
        (match size_string base v cls prec space "" with
         | Some s -> Printf.fprintf oc "%s 0 %s\n" kk (go_quote s)
         | None ->
             let us = if base = "1024" then units1024 else units1000 in
             ignore us;
             (* other float verbs: only the unit is predicted *)
             let idx = (match size_format us (cz v) (czi 2) None false with
               | Some (((((_, _), _), _), idx), _) -> inat idx | None -> -1) in
             Printf.fprintf oc "%s 0 OTHER %d 1\n" kk idx)
    | ["Q"; kk; total; cur; cls; prec; space; _verb] ->
        (match percent_format (cz total) (cz cur) (cz cls) (prec_of prec) with
         | Some (((neg, ip), fp), p) ->
             Printf.fprintf oc "%s 0 %s w0\n" kk (go_quote (render_fixed (neg, ip, fp, p) ^ (if sb space then " %" else "%")))
         | None -> Printf.fprintf oc "%s 0 OTHER 1 w0\n" kk)
    | ["T"; kk; style; rem] ->
        let fs = time_fields (cz style) (cz rem) in
        let s = String.concat ":" (List.map (fun f -> Printf.sprintf "%02d" (zi f)) fs) in
        Printf.fprintf oc "%s 0 %s\n" kk (go_quote s)
    | ["V"; kk; base; v; cls; prec; space; _verb; den] ->
        if base = "0" || cls = "1" then Printf.fprintf oc "%s 0 OTHER 1\n" kk
        else
          let sp = speed_of_avg_q (cz v) (cz den) in
          (match size_string base (zs sp) cls prec space "/s" with
           | Some s -> Printf.fprintf oc "%s 0 %s\n" kk (go_quote s)
           | None -> Printf.fprintf oc "%s 0 OTHER 1\n" kk)
    | ["E"; kk; _which] -> k := int_of_string kk; i := 0; zdur := Z0
    | ["s"; n; dur] ->
        let (z', smp) = ewma_update !zdur (cz n) (cz dur) in
        zdur := z';
        (match smp with
         | Some q ->
             (match float_bits q with
              | Some ((neg, m), e) -> Printf.fprintf oc "%d %d A %s%sp%s%s\n" !k !i (if neg then "-" else "") (zs m)
                                         (if zi e >= 0 then "+" else "") (zs e)
              | None -> Printf.fprintf oc "%d %d A ?\n" !k !i)
         | None -> Printf.fprintf oc "%d %d -\n" !k !i);
        incr i
    | ["end"] | [] -> ()
    | _ -> failwith ("bad line: " ^ line)) lines;
  close_out oc


(* ---------------- family "conc" ---------------- *)
(* The search for a linearization is plain OCaml and untrusted: whatever it finds is
   validated by the extracted Actor.check_lin before ACCEPT is printed. *)
let conc_family (dir : string) =
  let lines = read_lines (Filename.concat dir "cases.txt") in
  let oc = open_out (Filename.concat dir "model.txt") in
  let k = ref 0 and s0 = ref None and hist = ref [] and hung = ref false in
  let parse_op (toks : string list) : hkind =
    match toks with
    | ["Incr"; n] -> HOp (IncrInt64 (cz n))
    | ["EIncr"; n; d] -> HOp (EwmaIncrInt64 (cz n, cz d))
    | ["SetCur"; c] -> HOp (SetCurrent (cz c))
    | ["ESetCur"; c; d] -> HOp (EwmaSetCurrent (cz c, cz d))
    | ["SetTotal"; t; c] -> HOp (SetTotal (cz t, sb c))
    | ["Enable"] -> HOp EnableTriggerComplete
    | ["SetRefill"; a] -> HOp (SetRefill (cz a))
    | ["Abort"; d] -> HOp (Abort (sb d))
    | ["GetCur"] -> HOp GetCurrent
    | ["GetComp"] -> HOp GetCompleted
    | ["GetAb"] -> HOp GetAborted
    | ["Shutdown"] -> HShutdown
    | _ -> failwith ("bad op: " ^ String.concat " " toks) in
  let parse_out = function
    | ["-"] -> ONone
    | ["I"; n] -> OInt (cz n)
    | ["B"; b] -> OBool (sb b)
    | l -> failwith ("bad out: " ^ String.concat " " l) in
  let rec split_eq acc = function
    | "=" :: rest -> (List.rev acc, rest)
    | x :: rest -> split_eq (x :: acc) rest
    | [] -> failwith "no = in h line" in
  let key (s : bst) =
    String.concat "," [zs s.total; zs s.current; zs s.refill; bs s.trig; bs s.aborted; bs s.rm; bs s.cancelled; bs s.exited] in
  let solve (s0 : bst) (h : hop array) : litem list option =
    let n = Array.length h in
    let inv = Array.map (fun c -> zi c.h_inv) h and ret = Array.map (fun c -> zi c.h_ret) h in
    let dead = Hashtbl.create 1024 in
    let rec go (mask : int) (s : bst) : litem list option =
      if mask = (1 lsl n) - 1 then Some [] else
      let kk = (mask, key s) in
      if Hashtbl.mem dead kk then None else begin
        let res = ref None in
        (* minimal calls: no unused call returned before this one was invoked *)
        let i = ref 0 in
        while !res = None && !i < n do
          let ii = !i in
          if mask land (1 lsl ii) = 0 then begin
            let minimal = ref true in
            for j = 0 to n - 1 do
              if j <> ii && mask land (1 lsl j) = 0 && ret.(j) < inv.(ii) then minimal := false
            done;
            if !minimal then
              List.iter (fun d ->
                if !res = None then
                  match spec_call s h.(ii).h_kind d h.(ii).h_out with
                  | Some s' ->
                      (match go (mask lor (1 lsl ii)) s' with
                       | Some rest -> res := Some (LOp (cnat ii, d) :: rest)
                       | None -> ())
                  | None -> ()) [false; true]
          end;
          incr i
        done;
        if !res = None && terminal s && not s.exited && not s.cancelled then
          (match go mask { s with cancelled = true } with
           | Some rest -> res := Some (LCancel :: rest) | None -> ());
        if !res = None && s.cancelled && not s.exited then
          (match go mask (bexit s) with
           | Some rest -> res := Some (LExit :: rest) | None -> ());
        if !res = None then Hashtbl.replace dead kk ();
        !res
      end in
    go 0 s0 in
  let finish () =
    (match !s0 with
     | None -> ()
     | Some s ->
       let h = Array.of_list (List.rev !hist) in
       if !hung then Printf.fprintf oc "%d REJECT hang\n" !k
       else if Array.length h > 60 then Printf.fprintf oc "%d REJECT history-too-long\n" !k
       else
         (match solve s h with
          | Some cert ->
              if check_lin (Array.to_list h) s cert then Printf.fprintf oc "%d ACCEPT %d %d\n" !k (Array.length h) (List.length cert)
              else Printf.fprintf oc "%d REJECT certificate-refused-by-checker\n" !k
          | None -> Printf.fprintf oc "%d REJECT no-linearization\n" !k));
    s0 := None; hist := []; hung := false in
  List.iter (fun line ->
    match tokens line with
    | ["case"; kk; mode; total; _n] ->
        k := int_of_string kk; hist := []; hung := false;
        s0 := Some (binit (cz total) (mode = "0") false false)
    | "p" :: _ -> ()
    | "h" :: client :: inv :: ret :: rest ->
        let (op, out) = split_eq [] rest in
        hist := { h_client = cz client; h_inv = cz inv; h_ret = cz ret; h_kind = parse_op op; h_out = parse_out out } :: !hist
    | "HANG" :: _ -> hung := true
    | ["end"] -> finish ()
    | [] -> ()
    | _ -> failwith ("bad line: " ^ line)) lines;
  close_out oc


(* ---------------- family "pq" ---------------- *)
let pq_family (dir : string) =
  let lines = read_lines (Filename.concat dir "cases.txt") in
  let oc = open_out (Filename.concat dir "model.txt") in
  let k = ref 0 and nb = ref 0 and step = ref 0 and q = ref init_pq in
  List.iter (fun line ->
    match tokens line with
    | ["case"; kk; n] -> k := int_of_string kk; nb := int_of_string n; step := 0; q := init_pq
    | "o" :: rest ->
        let op = match rest with
          | ["push"; b; p] -> QOPush (cz b, cz p)
          | ["pop"] -> QOPop
          | ["fix"; b; p; l] -> QOFix (cz b, cz p, sb l)
          | _ -> failwith ("bad pq op: " ^ line) in
        let (q1, out) = qstep !q op in
        q := q1;
        let outs = match out with Some (b, p) -> zs b ^ ":" ^ zs p | None -> "-" in
        let buf = Buffer.create 256 in
        Buffer.add_string buf (Printf.sprintf "%d %d out=%s arr=" !k !step outs);
        List.iter (fun (b, p) -> Buffer.add_string buf (zs b ^ ":" ^ zs p ^ ",")) q1.arr;
        Buffer.add_string buf " idx=";
        for i = 0 to !nb - 1 do
          Buffer.add_string buf (Printf.sprintf "%d:%s," i (zs (q1.idx (czi i))))
        done;
        Printf.fprintf oc "%s\n" (Buffer.contents buf);
        incr step
    | ["end"] | [] -> ()
    | _ -> failwith ("bad line: " ^ line)) lines;
  close_out oc


(* ---------------- family "wg" ---------------- *)
(* bar_wait_group.go: after every call, the waiters that have returned once the notified ones have run (sorted) *)
let wg_family (dir : string) =
  let lines = read_lines (Filename.concat dir "cases.txt") in
  let oc = open_out (Filename.concat dir "model.txt") in
  let k = ref 0 and ops = ref [] in
  let flush_case () =
    let obs = wg_observe wg_init (List.rev !ops) in
    List.iteri (fun step ret ->
      let ids = List.sort compare (List.map (fun z -> int_of_string (zs z)) ret) in
      let buf = Buffer.create 64 in
      Buffer.add_string buf (Printf.sprintf "%d %d ret=" !k step);
      List.iter (fun i -> Buffer.add_string buf (string_of_int i ^ ",")) ids;
      Printf.fprintf oc "%s\n" (Buffer.contents buf)) obs;
    ops := [] in
  List.iter (fun line ->
    match tokens line with
    | ["case"; kk] -> k := int_of_string kk; ops := []
    | ["o"; "add"; d] -> ops := WAdd (cz d) :: !ops
    | ["o"; "done"] -> ops := WAdd (cz "-1") :: !ops
    | ["o"; "wait"; t] -> ops := WWait (cz t) :: !ops
    | ["end"] -> flush_case ()
    | [] -> ()
    | _ -> failwith ("bad line: " ^ line)) lines;
  close_out oc


(* ---------------- family "pty" ---------------- *)
(* the bytes a pseudo terminal received, read by the proved lexer (Vt.lex) and applied to a screen of the
   terminal's height (Vt.tok_step); prints the lines left on the terminal (scrollback included), top first *)
let pty_family (dir : string) =
  let lines = read_lines (Filename.concat dir "cases.txt") in
  let oc = open_out (Filename.concat dir "model.txt") in
  let k = ref 0 and h = ref 0 in
  List.iter (fun line ->
    match tokens line with
    | "case" :: kk :: rows :: _ -> k := int_of_string kk; h := int_of_string rows
    | ["raw"; csv] ->
        let bs = List.map cz (List.filter (fun x -> x <> "") (String.split_on_char ',' csv)) in
        (match lex (LGround []) bs with
         | None -> Printf.fprintf oc "%d OUTSIDE\n" !k
         | Some (st, toks) ->
             let (above, below) = List.fold_left (fun s t -> tok_step (czi !h) s t) ([], []) toks in
             let pr l = String.concat "," (List.map zs l) in
             (match st with
              | LGround [] -> ()
              | _ -> Printf.fprintf oc "%d PARTIAL\n" !k);
             List.iter (fun l -> Printf.fprintf oc "%d L %s\n" !k (pr l)) above;
             List.iter (fun l -> Printf.fprintf oc "%d B %s\n" !k (pr l)) below;
             Printf.fprintf oc "%d END\n" !k)
    | ["raw"] -> Printf.fprintf oc "%d END\n" !k
    | _ -> ()) lines;
  close_out oc

let () =
  match Array.to_list Sys.argv with
  | [_; "bar"; dir] -> bar_family dir
  | [_; "fill"; dir] -> fill_family dir
  | [_; "frames"; dir] -> frames_family dir
  | [_; "proxy"; dir] -> proxy_family dir
  | [_; "fmt"; dir] -> fmt_family dir
  | [_; "conc"; dir] -> conc_family dir
  | [_; "pq"; dir] -> pq_family dir
  | [_; "wg"; dir] -> wg_family dir
  | [_; "pty"; dir] -> pty_family dir
  | _ -> prerr_endline "usage: mpbmodel <family> <dir>"; exit 2
