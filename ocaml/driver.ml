(* driver.ml — runs the extracted model on the case files the harness wrote and
   prints the model's observation lines in the harness's format. *)
open Mpb_model
open Glue

(* ---------------- family "bar" ---------------- *)
let bar_family (dir : string) =
  let lines = read_lines (Filename.concat dir "cases.txt") in
  let oc = open_out (Filename.concat dir "model.txt") in
  let k = ref 0 and step = ref 0 in
  let st = ref None in   (* None: model refused an earlier event of this case *)
  let emit s extra =
    let ((cur, comp), ab) = obs s in
    Printf.fprintf oc "%d %d %s %s %s%s\n" !k !step (zs cur) (bs comp) (bs ab) extra;
    incr step in
  let refuse why = Printf.fprintf oc "%d %d REFUSED %s\n" !k !step why; incr step; st := None in
  let ewma = ref false in
  let pending = ref "" in
  List.iter (fun line ->
    match tokens line with
    | ["case"; kk; mode; total; wraps; _side] ->
        k := int_of_string kk; step := 0;
        ewma := wraps <> "-"; pending := "";
        st := Some (binit (cz total) (mode = "0") false false)
    | "o" :: rest ->
        (match !st with None -> () | Some s ->
          let op = match rest with
            | ["Incr"; n] -> Some (IncrInt64 (cz n))
            | ["EIncr"; n; d] -> Some (EwmaIncrInt64 (cz n, cz d))
            | ["SetCur"; c] -> Some (SetCurrent (cz c))
            | ["ESetCur"; c; d] -> Some (EwmaSetCurrent (cz c, cz d))
            | ["SetTotal"; t; c] -> Some (SetTotal (cz t, sb c))
            | ["Enable"] -> Some EnableTriggerComplete
            | ["SetRefill"; a] -> Some (SetRefill (cz a))
            | ["Abort"; d] -> Some (Abort (sb d))
            | ["Nop"] -> None
            | _ -> failwith ("bad op line: " ^ line) in
          (match op with
           | None -> emit s ""
           | Some o ->
             (match bstep s o with
              | None -> refuse "call while ctx done and actor not exited"
              | Some (s', out) ->
                  st := Some s';
                  let extra = match out with
                    | OSample (n, d) when !ewma -> Printf.sprintf " S %s %s" (zs n) (zs d)
                    | _ -> "" in
                  (* ctx done, actor not yet exited: getters race, nothing is observed;
                     the samples are carried to the observation after Exit *)
                  if s'.cancelled && not s'.exited then pending := extra
                  else emit s' extra)))
    | ["e"; "Render"] ->
        (match !st with None -> () | Some s ->
          let stat = Printf.sprintf " R %s %s %s %s %s" (zs s.refill) (zs s.current)
              (zs s.total) (bs (completed s)) (bs s.aborted) in
          let (s', _) = brender s in
          st := Some s'; emit s' stat)
    | ["e"; "Cancel"] ->
        (match !st with None -> () | Some s ->
          (match bev_step s CtxCancel with Some s' -> st := Some s' | None -> refuse "cancel"))
    | ["e"; "Exit"] ->
        (match !st with None -> () | Some s ->
          (match bev_step s Exit with
           | Some s' -> st := Some s'; let e = !pending in pending := ""; emit s' e
           | None -> refuse "bar goroutine exited although the model's ctx is not done"))
    | ["end"] ->
        (match !st with
         | Some s when not s.exited -> refuse "case ended with the actor alive"
         | _ -> ())
    | [] -> ()
    | _ -> failwith ("bad line: " ^ line)) lines;
  close_out oc

let () =
  match Array.to_list Sys.argv with
  | [_; "bar"; dir] -> bar_family dir
  | _ -> prerr_endline "usage: mpbmodel <family> <dir>"; exit 2
