(* glue.ml — trusted glue between text lines and the extracted model:
   conversions between decimal strings and the extracted inductive Z
   (via zarith, used for I/O only), tokenising, printing. *)
module BZ = Z
open Mpb_model

let rec pos_of_z (z : BZ.t) : positive =
  if BZ.equal z BZ.one then XH
  else if BZ.is_even z then XO (pos_of_z (BZ.shift_right z 1))
  else XI (pos_of_z (BZ.shift_right z 1))

let cz_of_z (z : BZ.t) : Mpb_model.z =
  if BZ.sign z = 0 then Z0
  else if BZ.sign z > 0 then Zpos (pos_of_z z)
  else Zneg (pos_of_z (BZ.neg z))

let rec z_of_pos (p : positive) : BZ.t =
  match p with
  | XH -> BZ.one
  | XO q -> BZ.shift_left (z_of_pos q) 1
  | XI q -> BZ.succ (BZ.shift_left (z_of_pos q) 1)

let z_of_cz (c : Mpb_model.z) : BZ.t =
  match c with Z0 -> BZ.zero | Zpos p -> z_of_pos p | Zneg p -> BZ.neg (z_of_pos p)

let cz (s : string) : Mpb_model.z = cz_of_z (BZ.of_string s)
let czi (i : int) : Mpb_model.z = cz_of_z (BZ.of_int i)
let zs (c : Mpb_model.z) : string = BZ.to_string (z_of_cz c)
let zi (c : Mpb_model.z) : int = BZ.to_int (z_of_cz c)
let bs (b : bool) : string = if b then "1" else "0"
let sb (s : string) : bool = s <> "0"

let rec cnat (i : int) : Mpb_model.nat = if i <= 0 then O else S (cnat (i - 1))
let rec inat (n : Mpb_model.nat) : int = match n with O -> 0 | S m -> 1 + inat m

let tokens (line : string) : string list =
  List.filter (fun s -> s <> "") (String.split_on_char ' ' (String.trim line))

let read_lines (path : string) : string list =
  let ic = open_in path in
  let rec go acc = match input_line ic with
    | l -> go (l :: acc)
    | exception End_of_file -> close_in ic; List.rev acc in
  go []
