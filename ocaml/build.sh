#!/bin/sh
# Extract the model and build bin/mpbmodel. Run after `make -C ../coq`.
set -e
cd "$(dirname "$0")"
coqc -Q ../coq MPB ../coq/Extract.v >/dev/null 2>extract.log || { cat extract.log; exit 1; }
mkdir -p ../bin
ocamlfind ocamlopt -w -a -package zarith -linkpkg mpb_model.mli mpb_model.ml glue.ml driver.ml -o ../bin/mpbmodel
rm -f *.cmi *.cmx *.o
