#!/bin/sh
# setup: clean full build of the Coq theory, extraction, model binary; warm the Go build cache.
set -e
cd "$(dirname "$0")"
export GOFLAGS=-mod=mod GOPROXY=off GOSUMDB=off GOTOOLCHAIN=local
REPO=${VERIF_REPO:-/repo}
if [ -f translator/main.go ]; then (cd translator && go run . -repo $REPO -out ../coq/gen); fi
(cd coq && coq_makefile -f _CoqProject -o Makefile >/dev/null && make clean >/dev/null 2>&1 || true; timeout 3000 make -j16)
./ocaml/build.sh
cp $REPO/go.sum harness/go.sum
if [ "$REPO" = /repo ]; then (cd harness && go build -tags verif -o /dev/null ./cmd/mpbh); fi
echo setup done
