package main

// Family "wg": bar_wait_group.go (the counter Progress.Wait blocks on), driven
// through the verif-tagged VerifBWG.  A case is a sequence of calls made one
// at a time: add <delta>, done, wait <t> (a new goroutine t calls Wait).
// After every call the harness waits for quiescence and prints which waiters
// have returned.  Quiescence: the harness sums its own deltas; when the sum is
// zero every waiter started so far must return (it waits for that, a hang is an
// error); otherwise it waits a short time and reads the flags — a waiter that
// returns late although the count is not zero shows up in a later observation.
// The extracted model (WaitGroup.wg_observe) prints the same.

import (
	"fmt"
	"sort"
	"strconv"
	"strings"
	"sync/atomic"
	"time"

	"github.com/vbauerster/mpb/v8"
)

func init() { families["wg"] = runWGFamily }

func runWGFamily(c *runCtx) error {
	cases, doneC := c.create("cases.txt")
	impl, doneI := c.create("impl.txt")
	defer doneC()
	defer doneI()
	type tc struct {
		k   int
		ops []string
	}
	var list []*tc
	if c.extra != "" {
		lines, err := readLines(c.extra)
		if err != nil {
			return err
		}
		var cur *tc
		for _, ln := range lines {
			f := strings.Fields(ln)
			if len(f) == 0 {
				continue
			}
			switch f[0] {
			case "case":
				cur = &tc{}
				cur.k, _ = strconv.Atoi(f[1])
				list = append(list, cur)
			case "o":
				cur.ops = append(cur.ops, ln)
			}
		}
	} else {
		root := newRng(c.seed)
		for k := 0; k < c.n; k++ {
			r := root.fork()
			maxO := 30
			if c.tier == "thorough" {
				maxO = 120
			}
			t := &tc{k: k}
			count, nw := 0, 0
			for i, n := 0, 4+r.intn(maxO); i < n; i++ {
				switch op := r.intn(10); {
				case op < 3:
					d := 1 + r.intn(3)
					count += d
					t.ops = append(t.ops, fmt.Sprintf("o add %d", d))
				case op < 7 && (count > 0 || r.chance(1, 12)): // rarely below zero: Wait then blocks until the count is back at zero
					count--
					t.ops = append(t.ops, "o done")
				case op < 8 && count != 0:
					// straight to zero (or up from a negative count)
					t.ops = append(t.ops, fmt.Sprintf("o add %d", -count))
					count = 0
				default:
					t.ops = append(t.ops, fmt.Sprintf("o wait %d", nw))
					nw++
				}
			}
			// end at zero so that no goroutine is left behind
			if count != 0 {
				t.ops = append(t.ops, fmt.Sprintf("o add %d", -count))
			}
			list = append(list, t)
		}
	}
	for _, t := range list {
		cases.WriteString(fmt.Sprintf("case %d\n", t.k))
		for _, o := range t.ops {
			cases.WriteString(o + "\n")
		}
		cases.WriteString("end\n")
		if err := applyWG(t.k, t.ops, impl); err != nil {
			return err
		}
		c.count(fmt.Sprintf("ops_%03d", len(t.ops)/10*10))
		for _, o := range t.ops {
			c.count("op_" + strings.Fields(o)[1])
		}
	}
	return nil
}

func applyWG(k int, ops []string, impl lineW) error {
	g := mpb.NewVerifBWG()
	var flags []*int32
	var ids []int
	count := 0
	for step, o := range ops {
		f := strings.Fields(o)
		switch f[1] {
		case "add":
			d, _ := strconv.Atoi(f[2])
			count += d
			g.Add(d)
		case "done":
			count--
			g.Done()
		case "wait":
			fl := new(int32)
			id, _ := strconv.Atoi(f[2])
			flags = append(flags, fl)
			ids = append(ids, id)
			started := make(chan struct{})
			go func() {
				close(started)
				g.Wait()
				atomic.StoreInt32(fl, 1)
			}()
			<-started
		}
		if count == 0 {
			deadline := time.Now().Add(hangTimeout)
			for {
				all := true
				for _, fl := range flags {
					if atomic.LoadInt32(fl) == 0 {
						all = false
					}
				}
				if all {
					break
				}
				if time.Now().After(deadline) {
					return fmt.Errorf("case %d: hang: wg waiter not released at count zero (step %d)", k, step)
				}
				time.Sleep(50 * time.Microsecond)
			}
		} else {
			time.Sleep(300 * time.Microsecond)
		}
		var ret []int
		for i, fl := range flags {
			if atomic.LoadInt32(fl) == 1 {
				ret = append(ret, ids[i])
			}
		}
		sort.Ints(ret)
		var sb strings.Builder
		fmt.Fprintf(&sb, "%d %d ret=", k, step)
		for _, i := range ret {
			fmt.Fprintf(&sb, "%d,", i)
		}
		impl.WriteString(sb.String() + "\n")
	}
	return nil
}
