// mpbh — harness that runs the implementation built from /repo's working tree
// on generated inputs and prints canonical observation lines, one family per
// subcommand. The extracted Coq model (bin/mpbmodel) recomputes the same lines.
package main

import (
	"bufio"
	"flag"
	"fmt"
	"os"
	"path/filepath"
	"sort"
)

type family struct {
	name string
	run  func(ctx *runCtx) error
}

type runCtx struct {
	family string
	seed   uint64
	n      int
	tier   string
	outDir string
	extra  string
	stats  map[string]int // histogram written to stats.txt
}

func (c *runCtx) count(key string) { c.stats[key]++ }

func (c *runCtx) create(name string) (*bufio.Writer, func()) {
	f, err := os.Create(filepath.Join(c.outDir, name))
	if err != nil {
		fmt.Fprintln(os.Stderr, "create:", err)
		os.Exit(2)
	}
	w := bufio.NewWriterSize(f, 1<<20)
	return w, func() { w.Flush(); f.Close() }
}

func readLines(path string) ([]string, error) {
	f, err := os.Open(path)
	if err != nil {
		return nil, err
	}
	defer f.Close()
	var out []string
	sc := bufio.NewScanner(f)
	sc.Buffer(make([]byte, 1<<20), 1<<26)
	for sc.Scan() {
		out = append(out, sc.Text())
	}
	return out, sc.Err()
}

var families = map[string]func(*runCtx) error{}

func main() {
	if len(os.Args) < 2 {
		fmt.Fprintln(os.Stderr, "usage: mpbh <family> [flags]")
		os.Exit(2)
	}
	fam := os.Args[1]
	fs := flag.NewFlagSet(fam, flag.ExitOnError)
	seed := fs.Uint64("seed", 1, "PRNG seed")
	n := fs.Int("n", 100, "number of cases")
	tier := fs.String("tier", "quick", "quick|thorough")
	out := fs.String("out", ".", "output directory")
	extra := fs.String("extra", "", "family specific argument (e.g. a replay file)")
	_ = fs.Parse(os.Args[2:])
	run, ok := families[fam]
	if !ok {
		fmt.Fprintln(os.Stderr, "unknown family", fam)
		os.Exit(2)
	}
	ctx := &runCtx{family: fam, seed: *seed, n: *n, tier: *tier, outDir: *out, extra: *extra, stats: map[string]int{}}
	if err := os.MkdirAll(*out, 0o755); err != nil {
		fmt.Fprintln(os.Stderr, err)
		os.Exit(2)
	}
	if err := run(ctx); err != nil {
		fmt.Fprintln(os.Stderr, "harness error:", err)
		os.Exit(3)
	}
	w, done := ctx.create("stats.txt")
	keys := make([]string, 0, len(ctx.stats))
	for k := range ctx.stats {
		keys = append(keys, k)
	}
	sort.Strings(keys)
	for _, k := range keys {
		fmt.Fprintf(w, "%s %d\n", k, ctx.stats[k])
	}
	done()
}
