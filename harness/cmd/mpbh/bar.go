package main

// Family "bar": operation sequences on one bar (C09, C11, parts of C19/C20).
// A case is a script: header + client operations (+ optional Render
// directives in manual mode). The executor runs the public API of the library
// and writes (a) the event list it actually performed (cases.txt: the script
// plus Exit / Cancel markers whose position is decided by the implementation's
// own behaviour) and (b) what the getters returned after every event
// (impl.txt). The model replays cases.txt.

import (
	"fmt"
	"io"
	"math"
	"os"
	"strconv"
	"strings"
	"sync"
	"time"

	"github.com/vbauerster/mpb/v8"
	"github.com/vbauerster/mpb/v8/decor"
)

func init() { families["bar"] = runBarFamily }

type sample struct{ n, d int64 }

// ewmaRec is a user decorator that records every EwmaUpdate it receives.
type ewmaRec struct {
	decor.WC
	mu      sync.Mutex
	samples []sample
}

func (e *ewmaRec) Decor(decor.Statistics) (string, int) { return e.Format("") }
func (e *ewmaRec) EwmaUpdate(n int64, d time.Duration) {
	e.mu.Lock()
	e.samples = append(e.samples, sample{n, int64(d)})
	e.mu.Unlock()
}
func (e *ewmaRec) take() []sample {
	e.mu.Lock()
	defer e.mu.Unlock()
	s := e.samples
	e.samples = nil
	return s
}

type sigWriter struct{ ch chan struct{} }

func (w *sigWriter) Write(p []byte) (int, error) {
	select {
	case w.ch <- struct{}{}:
	default:
	}
	return len(p), nil
}

func boundaryI64(r *rng, total, cur int64) int64 {
	switch r.intn(16) {
	case 0:
		return r.pickI64([]int64{0, 1, -1, 2, -2})
	case 1:
		return r.pickI64([]int64{math.MaxInt64, math.MinInt64, math.MaxInt64 - 1, math.MinInt64 + 1})
	case 2:
		return r.pickI64([]int64{total, total - 1, total + 1, total - cur, total - cur - 1, total - cur + 1})
	case 3:
		return r.pickI64([]int64{cur, cur - 1, cur + 1, -cur})
	case 4:
		return r.pickI64([]int64{1 << 31, 1 << 32, 1 << 53, (1 << 53) + 1, 1 << 62, -(1 << 62)})
	case 5:
		return int64(r.u64())
	default:
		return int64(r.intn(9)) - 2
	}
}

func wrapOne(kind int, d decor.Decorator) decor.Decorator {
	switch kind {
	case 0:
		return decor.OnComplete(d, "done")
	case 1:
		return decor.OnAbort(d, "abrt")
	case 2:
		return decor.Meta(d, func(s string) string { return s })
	case 3:
		return decor.OnCompleteMeta(d, func(s string) string { return s })
	default:
		return decor.OnAbortMeta(d, func(s string) string { return s })
	}
}

func b2i(b bool) int {
	if b {
		return 1
	}
	return 0
}

// hangTimeout bounds every wait of the harness on the library; MPBH_HANG_MS shortens it
// for directed witnesses that are expected to hang.
var hangTimeout = func() time.Duration {
	if v, err := strconv.Atoi(os.Getenv("MPBH_HANG_MS")); err == nil && v > 0 {
		return time.Duration(v) * time.Millisecond
	}
	return 60 * time.Second
}()

// barCase is a script for one bar.
type barCase struct {
	k       int
	mode    int   // 0 auto container (quiet ticker, a second running bar); 1 non-refreshing; 2 manual refresh
	total   int64
	wraps   []int // nil: no EWMA recorder; else wrapper kinds around it, innermost first
	prepend bool
	steps   []string // "o <op> args" or "e Render"
}

func (bc *barCase) header() string {
	w := "-"
	if bc.wraps != nil {
		w = "w"
		for _, k := range bc.wraps {
			w += strconv.Itoa(k)
		}
	}
	return fmt.Sprintf("case %d %d %d %s %d", bc.k, bc.mode, bc.total, w, b2i(bc.prepend))
}

func parseBarCases(path string) ([]*barCase, error) {
	lines, err := readLines(path)
	if err != nil {
		return nil, err
	}
	var out []*barCase
	var cur *barCase
	for _, ln := range lines {
		f := strings.Fields(ln)
		if len(f) == 0 {
			continue
		}
		switch f[0] {
		case "case":
			if len(f) != 6 {
				return nil, fmt.Errorf("bad case header %q", ln)
			}
			cur = &barCase{}
			cur.k, _ = strconv.Atoi(f[1])
			cur.mode, _ = strconv.Atoi(f[2])
			cur.total, _ = strconv.ParseInt(f[3], 10, 64)
			if f[4] != "-" {
				cur.wraps = []int{}
				for _, ch := range f[4][1:] {
					cur.wraps = append(cur.wraps, int(ch-'0'))
				}
			}
			cur.prepend = f[5] == "1"
			out = append(out, cur)
		case "o":
			cur.steps = append(cur.steps, ln)
		case "e":
			if len(f) == 2 && f[1] == "Render" {
				cur.steps = append(cur.steps, ln)
			} // Exit / Cancel markers are outputs of a run, not directives
		case "end":
		default:
			return nil, fmt.Errorf("bad line %q", ln)
		}
	}
	return out, nil
}

func genBarCase(c *runCtx, r *rng, k, maxLen int) *barCase {
	bc := &barCase{k: k, mode: r.intn(3), prepend: r.bool()}
	switch r.intn(8) {
	case 0:
		bc.total = 0
	case 1:
		bc.total = -int64(r.intn(5)) - 1
	case 2:
		bc.total = r.pickI64([]int64{math.MaxInt64, math.MinInt64, math.MaxInt64 - 1, 1 << 53, 1})
	default:
		bc.total = int64(r.intn(60)) + 1
	}
	if r.chance(2, 5) {
		bc.wraps = []int{}
		for i, n := 0, r.intn(4); i < n; i++ {
			bc.wraps = append(bc.wraps, r.intn(5))
		}
	}
	// the generator tracks a rough current value only to aim boundary values
	var cur int64
	nops := 1 + r.intn(maxLen)
	for i := 0; i < nops; i++ {
		switch op := r.intn(20); {
		case op < 5:
			n := boundaryI64(r, bc.total, cur)
			if r.chance(1, 3) {
				n = 1
			}
			cur += n
			bc.steps = append(bc.steps, fmt.Sprintf("o Incr %d", n))
		case op < 8:
			n, d := boundaryI64(r, bc.total, cur), boundaryI64(r, 1000, 0)
			cur += n
			bc.steps = append(bc.steps, fmt.Sprintf("o EIncr %d %d", n, d))
		case op < 10:
			v := boundaryI64(r, bc.total, cur)
			if v >= 0 {
				cur = v
			}
			bc.steps = append(bc.steps, fmt.Sprintf("o SetCur %d", v))
		case op < 12:
			v, d := boundaryI64(r, bc.total, cur), boundaryI64(r, 1000, 0)
			if v >= 0 {
				cur = v
			}
			bc.steps = append(bc.steps, fmt.Sprintf("o ESetCur %d %d", v, d))
		case op < 14:
			v, comp := boundaryI64(r, bc.total, cur), r.chance(1, 5)
			if r.chance(1, 2) {
				v = cur + int64(r.intn(30))
			}
			bc.steps = append(bc.steps, fmt.Sprintf("o SetTotal %d %d", v, b2i(comp)))
		case op < 15:
			bc.steps = append(bc.steps, "o Enable")
		case op < 17:
			bc.steps = append(bc.steps, fmt.Sprintf("o SetRefill %d", boundaryI64(r, bc.total, cur)))
		case op < 18:
			bc.steps = append(bc.steps, fmt.Sprintf("o Abort %d", b2i(r.bool())))
		default:
			bc.steps = append(bc.steps, "o Nop")
		}
		if bc.mode == 2 && r.chance(1, 2) {
			bc.steps = append(bc.steps, "e Render")
		}
	}
	return bc
}

func runBarFamily(c *runCtx) error {
	cases, doneC := c.create("cases.txt")
	impl, doneI := c.create("impl.txt")
	defer doneC()
	defer doneI()
	var list []*barCase
	if c.extra != "" {
		var err error
		if list, err = parseBarCases(c.extra); err != nil {
			return err
		}
	} else {
		root := newRng(c.seed)
		maxLen := 12
		if c.tier == "thorough" {
			maxLen = 40
		}
		for k := 0; k < c.n; k++ {
			list = append(list, genBarCase(c, root.fork(), k, maxLen))
		}
	}
	for _, bc := range list {
		if err := execBarCase(c, bc, cases, impl); err != nil {
			return err
		}
	}
	return nil
}

type lineW interface {
	WriteString(string) (int, error)
}

func execBarCase(c *runCtx, bc *barCase, cases, impl lineW) error {
	k, mode, total := bc.k, bc.mode, bc.total
	c.count(fmt.Sprintf("mode_%d", mode))
	c.count("total_class_" + classI64(total))
	if bc.wraps == nil {
		c.count("ewma_none")
	} else {
		c.count(fmt.Sprintf("ewma_depth_%d", len(bc.wraps)))
	}

	var p *mpb.Progress
	var manual chan interface{}
	sw := &sigWriter{ch: make(chan struct{}, 1)}
	switch mode {
	case 0:
		p = mpb.New(mpb.WithOutput(io.Discard), mpb.WithAutoRefresh(), mpb.WithRefreshRate(time.Hour))
	case 1:
		p = mpb.New(mpb.WithOutput(io.Discard))
	default:
		manual = make(chan interface{})
		p = mpb.New(mpb.WithOutput(sw), mpb.WithManualRefresh(manual), mpb.WithWidth(40))
	}
	var dummy *mpb.Bar
	if mode == 0 {
		dummy = p.AddBar(1)
	}
	var rec *ewmaRec
	var stat decor.Statistics
	var statCalls int
	var opts []mpb.BarOption
	var ds []decor.Decorator
	if bc.wraps != nil {
		rec = &ewmaRec{}
		rec.WC = (&decor.WC{}).Init()
		var d decor.Decorator = rec
		for _, kind := range bc.wraps {
			d = wrapOne(kind, d)
		}
		ds = append(ds, d)
	}
	if mode == 2 {
		ds = append(ds, decor.Any(func(s decor.Statistics) string {
			stat = s
			statCalls++
			return ""
		}))
	}
	if len(ds) > 0 {
		if bc.prepend {
			opts = append(opts, mpb.PrependDecorators(ds...))
		} else {
			opts = append(opts, mpb.AppendDecorators(ds...))
		}
	}
	b := p.AddBar(total, opts...)
	cases.WriteString(bc.header() + "\n")

	step := 0
	exited := false
	observe := func(withStat bool) {
		cur, comp, ab := b.Current(), b.Completed(), b.Aborted()
		line := fmt.Sprintf("%d %d %d %d %d", k, step, cur, b2i(comp), b2i(ab))
		if rec != nil {
			for _, s := range rec.take() {
				line += fmt.Sprintf(" S %d %d", s.n, s.d)
			}
		}
		if withStat {
			line += fmt.Sprintf(" R %d %d %d %d %d", stat.Refill, stat.Current, stat.Total, b2i(stat.Completed), b2i(stat.Aborted))
		}
		impl.WriteString(line + "\n")
		step++
	}
	hang := func(what string) error {
		impl.WriteString(fmt.Sprintf("%d %d HANG %s\n", k, step, what))
		cases.WriteString("end\n")
		return fmt.Errorf("case %d: hang: %s", k, what)
	}
	tick := func() error {
		select {
		case manual <- time.Now():
		case <-time.After(hangTimeout):
			return hang("tick-send")
		}
		select {
		case <-sw.ch:
		case <-time.After(hangTimeout):
			return hang("frame")
		}
		return nil
	}
	waitExit := func() error {
		done := make(chan struct{})
		go func() { b.Wait(); close(done) }()
		select {
		case <-done:
			return nil
		case <-time.After(hangTimeout):
			return hang("bar-wait")
		}
	}

	for _, st := range bc.steps {
		f := strings.Fields(st)
		if f[0] == "e" { // Render directive
			if mode != 2 || exited {
				continue
			}
			before := statCalls
			if err := tick(); err != nil {
				return err
			}
			if statCalls != before+1 {
				impl.WriteString(fmt.Sprintf("%d %d BADRENDER probe-calls=%d\n", k, step, statCalls-before))
			}
			cases.WriteString("e Render\n")
			observe(true)
			c.count("render_mid_sequence")
			continue
		}
		b.Current() // synchronises with the previous closure
		arg := func(i int) int64 { v, _ := strconv.ParseInt(f[i], 10, 64); return v }
		switch f[1] {
		case "Incr":
			n := arg(2)
			switch {
			case n == 1 && k%3 == 0:
				b.Increment()
				c.count("api_Increment")
			case k%2 == 0:
				b.IncrBy(int(n))
				c.count("api_IncrBy")
			default:
				b.IncrInt64(n)
				c.count("api_IncrInt64")
			}
		case "EIncr":
			n, d := arg(2), time.Duration(arg(3))
			switch {
			case n == 1 && k%3 == 0:
				b.EwmaIncrement(d)
				c.count("api_EwmaIncrement")
			case k%2 == 0:
				b.EwmaIncrBy(int(n), d)
				c.count("api_EwmaIncrBy")
			default:
				b.EwmaIncrInt64(n, d)
				c.count("api_EwmaIncrInt64")
			}
		case "SetCur":
			b.SetCurrent(arg(2))
			c.count("api_SetCurrent")
		case "ESetCur":
			b.EwmaSetCurrent(arg(2), time.Duration(arg(3)))
			c.count("api_EwmaSetCurrent")
		case "SetTotal":
			b.SetTotal(arg(2), f[3] == "1")
			c.count("api_SetTotal")
		case "Enable":
			b.EnableTriggerComplete()
			c.count("api_EnableTriggerComplete")
		case "SetRefill":
			b.SetRefill(arg(2))
			c.count("api_SetRefill")
		case "Abort":
			b.Abort(f[2] == "1")
			c.count("api_Abort")
		case "Nop":
			c.count("api_getters_only")
		default:
			return fmt.Errorf("bad step %q", st)
		}
		cases.WriteString(st + "\n")
		b.Current() // the closure has been executed when this returns
		// The position of the bar goroutine's exit is decided by the
		// implementation. Between ctx cancellation and exit a getter may be
		// served by either select branch, so nothing is observed in that window.
		if !exited && !b.IsRunning() {
			if err := waitExit(); err != nil {
				return err
			}
			exited = true
			cases.WriteString("e Exit\n")
			c.count("exit_mid_sequence")
		}
		observe(false)
	}
	// end of case: cancel the container, wait for everything
	if dummy != nil {
		dummy.Abort(true)
	}
	shut := make(chan struct{})
	go func() { p.Shutdown(); close(shut) }()
	select {
	case <-shut:
	case <-time.After(hangTimeout):
		return hang("shutdown")
	}
	if !exited {
		if err := waitExit(); err != nil {
			return err
		}
		cases.WriteString("e Cancel\ne Exit\n")
		observe(false) // one observation for the Cancel;Exit pair (getters read the published state)
	}
	if b.Completed() {
		c.count("final_completed")
	}
	if b.Aborted() {
		c.count("final_aborted")
	}
	cases.WriteString("end\n")
	return nil
}

func classI64(v int64) string {
	switch {
	case v == 0:
		return "zero"
	case v < 0 && v > -1000:
		return "small_neg"
	case v < 0:
		return "big_neg"
	case v < 1000:
		return "small_pos"
	default:
		return "big_pos"
	}
}
