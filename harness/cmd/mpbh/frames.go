package main

// Family "frames": container-level scenarios with a sequential client
// (C03-C06, C13, C17, C18 and, with n>q, C01/C02/C05). The library is built
// with the verif tag; every hook event, client call/return and output write is
// logged into one sequence (trace) that the model's acceptor replays.

import (
	"bytes"
	"context"
	"fmt"
	"io"
	"math"
	"os"
	"regexp"
	"runtime"
	"strconv"
	"strings"
	"sync"
	"sync/atomic"
	"time"

	"github.com/mattn/go-runewidth"
	"github.com/vbauerster/mpb/v8"
	"github.com/vbauerster/mpb/v8/decor"
)

func init() {
	families["frames"] = runFramesFamily
	families["sched"] = runFramesFamily  // same scenarios under scheduling perturbation at the hook points
	families["faults"] = runFramesFamily // same scenarios with one injected render error
}

type barSpec struct {
	total  int64
	prio   int // -1000000: default
	rm     bool
	noPop  bool
	after  int // script index of the predecessor or -1
	xrows  int
	xrev   bool
	syncW  int // >0: the marker decorator is width-synchronised with minimum width syncW
	shut   int // >=0: a shutdown-listening decorator wrapped shut levels deep (-1: none)
	shutSide int // 0 prepend, 1 append
	nsp, nsa int // extra width-synchronised decorators on the prepend / append side
}

const noPrio = -1000000

type scenario struct {
	k        int
	mode     string // auto | manual
	q        int    // heap manager queue length, -1 default
	width    int
	pop      bool
	delay    bool
	notifier bool
	bars     []barSpec
	steps    []string
	fault    string // "", "fill:i:k", "ext:i:k", "out:k": the k-th call (1-based) returns an error
	perturb  uint64 // seed of the scheduling perturbation at the hook points (0: none)
}

func (sc *scenario) header() []string {
	fault := sc.fault
	if fault == "" {
		fault = "-"
	}
	out := []string{fmt.Sprintf("case %d %s %d %d %d %d %d %s %d", sc.k, sc.mode, sc.q, sc.width, b2i(sc.pop), b2i(sc.delay), b2i(sc.notifier), fault, sc.perturb)}
	for i, b := range sc.bars {
		out = append(out, fmt.Sprintf("bar %d %d %d %d %d %d %d %d %d %d %d %d %d", i, b.total, b.prio, b2i(b.rm), b2i(b.noPop), b.after, b.xrows, b2i(b.xrev), b.syncW, b.shut, b.shutSide, b.nsp, b.nsa))
	}
	return out
}

func parseScenarios(path string) ([]*scenario, error) {
	lines, err := readLines(path)
	if err != nil {
		return nil, err
	}
	var out []*scenario
	var cur *scenario
	atoi := func(s string) int { v, _ := strconv.Atoi(s); return v }
	for _, ln := range lines {
		f := strings.Fields(ln)
		if len(f) == 0 {
			continue
		}
		switch f[0] {
		case "case":
			cur = &scenario{k: atoi(f[1]), mode: f[2], q: atoi(f[3]), width: atoi(f[4]), pop: f[5] == "1", delay: f[6] == "1", notifier: f[7] == "1"}
			if len(f) > 8 && f[8] != "-" {
				cur.fault = f[8]
			}
			if len(f) > 9 {
				pv, _ := strconv.ParseUint(f[9], 10, 64)
				cur.perturb = pv
			}
			out = append(out, cur)
		case "bar":
			t, _ := strconv.ParseInt(f[2], 10, 64)
			bsp := barSpec{total: t, prio: atoi(f[3]), rm: f[4] == "1", noPop: f[5] == "1", after: atoi(f[6]), xrows: atoi(f[7]), xrev: f[8] == "1", syncW: atoi(f[9]), shut: -1}
			if len(f) > 11 {
				bsp.shut, bsp.shutSide = atoi(f[10]), atoi(f[11])
			}
			if len(f) > 13 {
				bsp.nsp, bsp.nsa = atoi(f[12]), atoi(f[13])
			}
			cur.bars = append(cur.bars, bsp)
		case "s":
			cur.steps = append(cur.steps, strings.Join(f[1:], " "))
		}
	}
	return out, nil
}

func genScenario(r *rng, k int, tier string) *scenario {
	sc := &scenario{k: k, mode: "auto", q: -1, width: 30 + r.intn(40)}
	if r.chance(1, 3) {
		sc.mode = "manual"
	}
	tall := r.chance(1, 7) // non-terminal output: height = width; more rows than that get clipped
	if tall {
		sc.width = 20 + r.intn(8)
	}
	maxBars := 5
	if tier == "thorough" {
		maxBars = 12
	}
	n := 1 + r.intn(maxBars)
	if tall {
		n = 8 + r.intn(5)
	}
	switch r.intn(5) {
	case 0:
		sc.q = r.pickInt([]int{0, 1, 2})
	case 1:
		sc.q = r.pickInt([]int{n - 1, n, n + 1})
		if sc.q < 0 {
			sc.q = 0
		}
	}
	// MPBH_FOCUS biases the generator towards the mechanism a check is about (the other half of the cases stays generic)
	focus := ""
	if r.chance(1, 2) {
		focus = os.Getenv("MPBH_FOCUS")
	}
	sc.pop = r.chance(1, 4) || focus == "pop"
	sc.delay = r.chance(1, 8)
	sc.notifier = r.chance(1, 3)
	// bars and the order in which they are created
	for i := 0; i < n; i++ {
		b := barSpec{total: int64(1 + r.intn(20)), prio: noPrio, after: -1, shut: -1}
		if r.chance(1, 8) {
			b.total = 0
		}
		if r.chance(1, 4) {
			b.prio = r.intn(8) - 2
			if r.chance(1, 6) {
				b.prio = r.pickInt([]int{math.MaxInt64, math.MaxInt64 - 1, math.MaxInt32, 1 << 40})
			}
		}
		b.rm = r.chance(1, 5)
		b.noPop = sc.pop && r.chance(1, 4)
		if i > 0 && (r.chance(1, 5) || (focus == "queue" && r.chance(1, 2))) {
			b.after = r.intn(i)
		}
		if r.chance(1, 5) || tall {
			b.xrows = 1 + r.intn(2)
			if tall {
				b.xrows = 2
			}
			b.xrev = r.bool()
		}
		if r.chance(1, 3) || focus == "sync" {
			b.syncW = 1 + r.intn(12)
		}
		b.shut = -1
		if r.chance(1, 3) {
			b.shut, b.shutSide = r.intn(5), r.intn(2)
		}
		if r.chance(1, 3) || (focus == "sync" && r.chance(1, 2)) {
			b.nsp, b.nsa = r.intn(3), r.intn(3)
		}
		sc.bars = append(sc.bars, b)
	}
	added := 0
	live := map[int]bool{}
	terminalOp := map[int]bool{} // a terminal operation has been scripted for this bar
	ticksSince := map[int]int{}  // refreshes scripted since the bar's first possibly terminal operation
	steps := 6 + r.intn(14)
	delayEnded := !sc.delay
	add := func(s string) {
		sc.steps = append(sc.steps, s)
		if s == "tick" {
			for b := range terminalOp {
				ticksSince[b]++
			}
		}
	}
	for s := 0; s < steps || added < n; s++ {
		if added < n && (added == 0 || r.chance(1, 3)) {
			// a successor may be created at any time — before or after its predecessor's final state has been
			// flushed — and a predecessor may have any number of successors (D7, repaired in /repo)
			add(fmt.Sprintf("add %d", added))
			live[added] = true
			if a := sc.bars[added].after; a >= 0 && !sc.pop && r.chance(1, 2) {
				// the predecessor moves after the successor was queued: the successor must take over the
				// position the predecessor has when it hands over, not the one it had at queueing time
				add(fmt.Sprintf("prio %d %d 0 %d", a, 20+r.intn(10), b2i(r.chance(1, 2))))
			}
			added++
			continue
		}
		pick := func() int { return r.intn(added) }
		switch op := r.intn(20); {
		case op < 6:
			add("tick")
		case op < 10:
			i := pick()
			add(fmt.Sprintf("incr %d %d", i, 1+r.intn(8)))
			terminalOp[i] = true // conservatively: small increments may reach the total
		case op < 11:
			i := pick()
			add(fmt.Sprintf("incr %d %d", i, sc.bars[i].total+1)) // completes when triggering is on
			terminalOp[i] = true
		case op < 12:
			i := pick()
			comp := r.chance(1, 2)
			add(fmt.Sprintf("settotal %d %d %d", i, int64(r.intn(10))-1, b2i(comp)))
			terminalOp[i] = true // conservatively: a SetTotal may complete the bar
		case op < 14:
			i := pick()
			add(fmt.Sprintf("abort %d %d", i, b2i(r.chance(1, 3))))
			terminalOp[i] = true
		case op < 16:
			i := pick()
			pv := r.intn(10) - 3
			if r.chance(1, 8) {
				// (in pop mode user priorities stay above the pop priorities, which start at MinInt32)
				if sc.pop {
					pv = r.pickInt([]int{math.MaxInt64, math.MaxInt64 - 1, 1 << 40})
				} else {
					pv = r.pickInt([]int{math.MinInt64, math.MinInt64 + 1, math.MaxInt64, -(1 << 40)})
				}
			}
			lazy := r.chance(1, 2)
			add(fmt.Sprintf("prio %d %d %d %d", i, pv, b2i(lazy), b2i(!lazy && r.chance(1, 2))))
			if lazy && r.chance(1, 3) {
				// a lazy change followed at once by an immediate change of the same bar (to the same value half of the time):
				// the next frame must be in order again
				pv2 := pv
				if r.chance(1, 2) {
					pv2 = r.intn(10) - 3
				}
				add(fmt.Sprintf("prio %d %d 0 %d", i, pv2, b2i(r.chance(1, 2))))
			}
		case op < 18:
			add(fmt.Sprintf("write %d %d", r.intn(3), 1+r.intn(2)))
		case op < 19:
			if !delayEnded {
				add("delayend")
				delayEnded = true
			} else {
				add("tick")
			}
		default:
			add("tick")
		}
	}
	if !delayEnded && r.chance(2, 3) {
		add("delayend")
	}
	// make every bar terminal (or cancel the container) so that Wait can return
	if r.chance(1, 6) {
		// half of the time the cancellation lands while some bar's actor is busy (a slow decorator or callback in
		// real life): the shutdown frame's render request and ctx.Done are then both ready when it comes back
		if n > 0 && r.chance(1, 2) {
			hb := r.intn(n)
			add(fmt.Sprintf("hold %d", hb))
			add("cancel")
			add(fmt.Sprintf("release %d", hb))
		} else {
			add("cancel")
		}
	} else {
		for i := 0; i < n; i++ {
			switch r.intn(3) {
			case 0:
				add(fmt.Sprintf("abort %d %d", i, b2i(r.chance(1, 3))))
			case 1:
				add(fmt.Sprintf("settotal %d -1 1", i))
				add(fmt.Sprintf("abort %d 0", i)) // no effect if the bar completed
			default:
				add(fmt.Sprintf("incr %d %d", i, sc.bars[i].total+30))
				add(fmt.Sprintf("abort %d 0", i))
			}
			if r.chance(1, 3) {
				add("tick")
			}
		}
	}
	add("wait")
	return sc
}

func (r *rng) pickInt(xs []int) int { return xs[r.intn(len(xs))] }

func runFramesFamily(c *runCtx) error {
	cases, doneC := c.create("cases.txt")
	defer doneC()
	installSink()
	var list []*scenario
	if c.extra != "" {
		var err error
		if list, err = parseScenarios(c.extra); err != nil {
			return err
		}
	} else {
		root := newRng(c.seed)
		for k := 0; k < c.n; k++ {
			r := root.fork()
			sc := genScenario(r, k, c.tier)
			switch c.family {
			case "sched":
				sc.perturb = r.u64() | 1
				if r.chance(1, 2) {
					sc.q = r.pickInt([]int{0, 1, 2})
				}
			case "faults":
				nb := len(sc.bars)
				switch r.intn(3) {
				case 0:
					sc.fault = fmt.Sprintf("fill:%d:%d", r.intn(nb), 1+r.intn(4))
				case 1:
					// an extender fault needs a bar with extender rows
					i := r.intn(nb)
					if sc.bars[i].xrows == 0 {
						sc.bars[i].xrows = 1
					}
					sc.fault = fmt.Sprintf("ext:%d:%d", i, 1+r.intn(4))
				default:
					sc.fault = fmt.Sprintf("out:%d", 1+r.intn(4))
				}
				if r.chance(1, 2) {
					sc.perturb = r.u64() | 1
				}
			}
			list = append(list, sc)
		}
	}
	// the complete script of every scenario, written before it runs: a scenario that hangs or panics leaves only the
	// steps it got through in cases.txt, and a replay needs all of them
	scripts, doneS := c.create("scripts.txt")
	defer doneS()
	for _, sc := range list {
		for _, l := range sc.header() {
			scripts.WriteString(l + "\n")
		}
		for _, st := range sc.steps {
			scripts.WriteString("s " + st + "\n")
		}
		scripts.WriteString("end\n")
		_ = scripts.Flush()
		lines, err := execScenario(c, sc, nil)
		for _, l := range lines {
			cases.WriteString(l + "\n")
		}
		cases.WriteString("end\n")
		if err != nil {
			return err
		}
	}
	return nil
}

// ---- output parsing ----

var reCUU = regexp.MustCompile(`^\x1b\[(\d+)A\x1b\[J`)

type outWriter struct {
	t      *traceLog
	failAt int // fail the k-th Write (1-based), 0 never
	n      int
}

func parseOut(p []byte) string {
	s := string(p)
	var sb strings.Builder
	cuu, explicit := 0, false
	if m := reCUU.FindStringSubmatch(s); m != nil {
		cuu, _ = strconv.Atoi(m[1])
		explicit = true
		s = s[len(m[0]):]
	}
	fmt.Fprintf(&sb, "cuu=%d", cuu)
	if explicit && cuu == 0 {
		// "cursor up 0" is not "no cursor movement": ECMA-48 terminals execute it as "cursor up 1"
		sb.WriteString(" ?cuu0")
	}
	if strings.Contains(s, "\x1b[") {
		sb.WriteString(" ?esc")
	}
	partial := !strings.HasSuffix(s, "\n") && s != ""
	for _, ln := range strings.Split(strings.TrimSuffix(s, "\n"), "\n") {
		if ln == "" && s == "" {
			continue
		}
		switch {
		case strings.HasPrefix(ln, "#"):
			// #i:cur/total:flag:deco| rest of the row
			head := ln[1:]
			if j := strings.Index(head, "|"); j >= 0 {
				head = head[:j]
			}
			head = strings.Replace(head, " ", "", -1) // padding of a width-synchronised marker
			head = strings.Replace(head, "/", ":", 1)
			fmt.Fprintf(&sb, " r:%s:w%d", head, runewidth.StringWidth(ln))
		case strings.HasPrefix(ln, "x"):
			fmt.Fprintf(&sb, " x:%s", strings.TrimSpace(strings.Replace(ln[1:], ".", ":", 1)))
		case strings.HasPrefix(ln, "T"):
			fmt.Fprintf(&sb, " t:%s", strings.Replace(strings.TrimSpace(ln[1:]), ".", ":", -1))
		default:
			fmt.Fprintf(&sb, " ?%q", ln)
		}
	}
	if partial {
		sb.WriteString(" ?partial")
	}
	return sb.String()
}

func (w *outWriter) Write(p []byte) (int, error) {
	w.n++
	if w.failAt > 0 && w.n == w.failAt {
		w.t.add(0, "OUTERR %d", w.n)
		return 0, fmt.Errorf("injected output error")
	}
	w.t.add(0, "OUT %s", parseOut(p))
	return len(p), nil
}

// ---- execution ----

type execOpts struct {
	perturbSeed uint64
}

func flagOf(s decor.Statistics) string {
	switch {
	case s.Completed && s.Aborted:
		return "B"
	case s.Completed:
		return "C"
	case s.Aborted:
		return "A"
	}
	return "R"
}

func execScenario(c *runCtx, sc *scenario, eo *execOpts) ([]string, error) {
	t := newTraceLog()
	setTrace(t)
	defer setTrace(nil)
	hdr := sc.header()
	if sc.perturb != 0 {
		pr := newRng(sc.perturb)
		var pmu sync.Mutex
		t.perturb = func(point int) {
			pmu.Lock()
			v := pr.intn(20)
			pmu.Unlock()
			switch {
			case v < 6:
				runtime.Gosched()
			case v < 8:
				time.Sleep(time.Duration(50+v*20) * time.Microsecond)
			}
		}
	}
	c.count("mode_" + sc.mode)
	c.count(fmt.Sprintf("bars_%02d", len(sc.bars)))
	if sc.q >= 0 && sc.q < len(sc.bars) {
		c.count("q_less_than_n")
	}
	if sc.pop {
		c.count("pop_mode")
	}

	out := &outWriter{t: t}
	faultKind, faultBar, faultK := "", -1, 0
	if sc.fault != "" {
		ff := strings.Split(sc.fault, ":")
		faultKind = ff[0]
		if faultKind == "out" {
			faultK, _ = strconv.Atoi(ff[1])
			out.failAt = faultK
		} else {
			faultBar, _ = strconv.Atoi(ff[1])
			faultK, _ = strconv.Atoi(ff[2])
		}
		c.count("fault_" + faultKind)
	}
	shutCounts := make([]*int32, len(sc.bars))
	selfs := make([]*atomic.Value, len(sc.bars))
	ctx, cancel := context.WithCancel(context.Background())
	defer cancel()
	opts := []mpb.ContainerOption{mpb.WithOutput(out), mpb.WithWidth(sc.width), mpb.WithDebugOutput(&dbgWriter{t: t})}
	tick := make(chan time.Time)
	manual := make(chan interface{})
	if sc.mode == "manual" {
		// a manual refresh channel wins over WithAutoRefresh, whichever comes first: the container is in manual mode
		switch sc.k % 3 {
		case 1:
			opts = append(opts, mpb.WithAutoRefresh(), mpb.WithManualRefresh(manual))
			c.count("manual_with_auto_option")
		case 2:
			opts = append(opts, mpb.WithManualRefresh(manual), mpb.WithAutoRefresh())
			c.count("manual_with_auto_option")
		default:
			opts = append(opts, mpb.WithManualRefresh(manual))
		}
	} else {
		mpb.VerifSetTick(tick)
		opts = append(opts, mpb.WithAutoRefresh(), mpb.WithRefreshRate(time.Hour))
	}
	if sc.q >= 0 {
		opts = append(opts, mpb.WithQueueLen(sc.q))
	}
	if sc.pop {
		opts = append(opts, mpb.PopCompletedMode())
	}
	delayCh := make(chan struct{})
	if sc.delay {
		opts = append(opts, mpb.WithRenderDelay(delayCh))
	}
	notify := make(chan interface{}, 1)
	if sc.notifier {
		opts = append(opts, mpb.WithShutdownNotifier(notify))
	}
	p := mpb.NewWithContext(ctx, opts...)
	bars := make([]*mpb.Bar, len(sc.bars))
	writeSeq := map[int]int{}
	holds := map[int]chan struct{}{}
	scratch := make([]byte, 0, 256) // one buffer for every Write: the caller owns it again as soon as Write returns

	hang := func(what string) ([]string, error) {
		buf := make([]byte, 1<<20)
		n := runtime.Stack(buf, true)
		t.add(0, "HANG %s", what)
		lines := append(hdr, t.snapshot()...)
		_ = os.WriteFile(fmt.Sprintf("%s/hang_%d.stacks", c.outDir, sc.k), buf[:n], 0o644)
		return lines, fmt.Errorf("case %d: hang: %s", sc.k, what)
	}
	withTimeout := func(f func()) bool {
		done := make(chan struct{})
		go func() { f(); close(done) }()
		select {
		case <-done:
			return true
		case <-time.After(hangTimeout):
			return false
		}
	}
	barrier := func() bool { // a no-op closure through the container goroutine
		return withTimeout(func() { _, _ = p.Write(nil) })
	}
	containerDown := func() bool { // the container cancelled itself (render error) or is done
		t.mu.Lock()
		defer t.mu.Unlock()
		for _, pt := range t.points {
			if pt == pCtRenderErr || pt == pCtDone || pt == pCtExit {
				return true
			}
		}
		return false
	}
	doTick := func() bool {
		s0 := t.length()
		sent := false
		ok := withTimeout(func() {
			for !sent && ctx.Err() == nil && !containerDown() {
				if sc.mode == "manual" {
					select {
					case manual <- time.Now():
						sent = true
						if sc.fault != "" {
							// a second request arrives while the cycle is running: the listener is then
							// blocked forwarding it when a render error stops the container
							go func() {
								select {
								case manual <- time.Now():
								case <-time.After(50 * time.Millisecond):
								}
							}()
						}
					case <-time.After(10 * time.Millisecond):
					}
				} else {
					select {
					case tick <- time.Now():
						sent = true
					case <-time.After(10 * time.Millisecond):
					}
				}
			}
		})
		if !ok {
			return false
		}
		if !sent {
			return barrier()
		}
		// wait until a render cycle that began after the tick has ended
		ok = t.waitFor(hangTimeout, func(points []int) bool {
			began := false
			for i := s0; i < len(points); i++ {
				switch points[i] {
				case pCtRenderBegin:
					began = true
				case pCtFrame, pCtRenderErr:
					if began {
						return true
					}
				case pCtExit, pCtDone:
					return true
				}
			}
			return ctx.Err() != nil
		})
		if !ok {
			return false
		}
		return barrier()
	}

	for _, st := range sc.steps {
		if t.length() > 300000 {
			return hang("livelock: more than 300000 events")
		}
		f := strings.Fields(st)
		ai := func(i int) int { v, _ := strconv.Atoi(f[i]); return v }
		a64 := func(i int) int64 { v, _ := strconv.ParseInt(f[i], 10, 64); return v }
		c.count("step_" + f[0])
		switch f[0] {
		case "add":
			i := ai(1)
			bs := sc.bars[i]
			var bopts []mpb.BarOption
			wcs := decor.WC{}
			if bs.syncW > 0 {
				wcs = decor.WC{W: bs.syncW, C: decor.DSyncWidthR}
			}
			marker := decor.Any(func(s decor.Statistics) string {
				return fmt.Sprintf("#%d:%d/%d:%s", i, s.Current, s.Total, flagOf(s))
			}, wcs)
			deco := decor.OnComplete(decor.OnAbort(decor.Name(":run|"), ":ABRT|"), ":DONE|")
			bopts = append(bopts, mpb.PrependDecorators(marker, deco))
			if bs.prio != noPrio {
				bopts = append(bopts, mpb.BarPriority(bs.prio))
			}
			if bs.rm {
				bopts = append(bopts, mpb.BarRemoveOnComplete())
			}
			if bs.noPop {
				bopts = append(bopts, mpb.BarNoPop())
			}
			if bs.after >= 0 && bars[bs.after] != nil {
				bopts = append(bopts, mpb.BarQueueAfter(bars[bs.after]))
			}
			if bs.xrows > 0 {
				nx := bs.xrows
				ncall := 0
				bopts = append(bopts, mpb.BarExtender(mpb.BarFillerFunc(func(w io.Writer, _ decor.Statistics) error {
					ncall++
					if faultKind == "ext" && faultBar == i && ncall == faultK {
						t.add(0, "FAULT ext b%d %d", i, ncall)
						return fmt.Errorf("injected extender error b%d", i)
					}
					for j := 0; j < nx; j++ {
						fmt.Fprintf(w, "x%d.%d\n", i, j)
					}
					return nil
				}), bs.xrev))
			}
			pre := []decor.Decorator{marker, deco}
			var app []decor.Decorator
			mkSync := func(side string, k int) decor.Decorator {
				cflags := decor.DSyncWidth
				if (i+k)%2 == 0 {
					cflags |= decor.DindentRight
				}
				if (i+k)%3 == 0 {
					cflags |= decor.DextraSpace
				}
				var d decor.Decorator = decor.Any(func(s decor.Statistics) string {
					return fmt.Sprintf("<%d.%s.%d:%s>", i, side, k, strings.Repeat("x", int((s.Current+int64(k))%5)))
				}, decor.WC{W: (i*3 + k*5) % 13, C: cflags})
				// wrappers still perform exactly one width exchange per render
				switch (i + k) % 4 {
				case 1:
					d = decor.OnComplete(d, fmt.Sprintf("<%d.%s.%d:done>", i, side, k))
				case 2:
					d = decor.OnAbort(decor.Meta(d, func(s string) string { return s }), fmt.Sprintf("<%d.%s.%d:ab>", i, side, k))
				case 3:
					d = decor.OnCompleteMeta(d, func(s string) string { return s })
				}
				return d
			}
			for k := 0; k < bs.nsp; k++ {
				pre = append(pre, mkSync("p", k))
			}
			for k := 0; k < bs.nsa; k++ {
				app = append(app, mkSync("a", k))
			}
			if bs.nsp > 0 || bs.nsa > 0 {
				bopts = append(bopts, mpb.PrependDecorators(pre...), mpb.AppendDecorators(app...))
			}
			if bs.shut >= 0 {
				cnt := new(int32)
				shutCounts[i] = cnt
				selfs[i] = new(atomic.Value)
				var sd decor.Decorator = &shutListener{WC: (&decor.WC{}).Init(), n: cnt, self: selfs[i]}
				if i%2 == 1 { // a listener that is a moving-average decorator as well
					sd = &shutEwmaListener{shutListener{WC: (&decor.WC{}).Init(), n: cnt, self: selfs[i]}}
				}
				for j := 0; j < bs.shut; j++ {
					sd = wrapOne((i+j)%5, sd)
				}
				if bs.shutSide == 0 {
					bopts = append(bopts, mpb.PrependDecorators(append(pre, sd)...))
				} else {
					bopts = append(bopts, mpb.AppendDecorators(append(app, sd)...))
				}
			}
			var filler mpb.BarFiller = mpb.BarStyle().Build()
			if faultKind == "fill" && faultBar == i {
				base := filler
				ncall := 0
				filler = mpb.BarFillerFunc(func(w io.Writer, st decor.Statistics) error {
					ncall++
					if ncall == faultK {
						t.add(0, "FAULT fill b%d %d", i, ncall)
						return fmt.Errorf("injected filler error b%d", i)
					}
					return base.Fill(w, st)
				})
			}
			t.mu.Lock()
			t.pending = i
			t.mu.Unlock()
			t.add(0, "CL_ADD b%d", i)
			var b *mpb.Bar
			var err error
			if !withTimeout(func() { b, err = p.Add(bs.total, filler, bopts...) }) {
				return hang("add")
			}
			t.mu.Lock()
			t.pending = -1
			if b != nil {
				if _, ok := t.bars[b]; !ok {
					t.bars[b] = i
				}
			}
			t.mu.Unlock()
			bars[i] = b
			if selfs[i] != nil && b != nil {
				selfs[i].Store(b)
			}
			t.add(0, "RET_ADD b%d %d", i, b2i(err == nil))
		case "incr", "settotal", "abort":
			i := ai(1)
			b := bars[i]
			if b == nil {
				continue
			}
			switch f[0] {
			case "incr":
				t.add(0, "CL_OP b%d Incr %d", i, a64(2))
				b.IncrInt64(a64(2))
			case "settotal":
				t.add(0, "CL_OP b%d SetTotal %d %d", i, a64(2), ai(3))
				b.SetTotal(a64(2), ai(3) == 1)
			case "abort":
				t.add(0, "CL_OP b%d Abort %d", i, ai(2))
				b.Abort(ai(2) == 1)
			}
			var cur int64
			var comp, ab bool
			if !withTimeout(func() { cur, comp, ab = b.Current(), b.Completed(), b.Aborted() }) {
				return hang("getter")
			}
			t.add(0, "RET_OP b%d %d %d %d", i, cur, b2i(comp), b2i(ab))
		case "prio":
			i := ai(1)
			if bars[i] == nil {
				continue
			}
			t.add(0, "CL_PRIO b%d %d %d", i, ai(2), ai(3))
			// an immediate change goes through Bar.SetPriority when the step says so (5th field), else through
			// Progress.UpdateBarPriority: both entry points are part of the API
			via := len(f) > 4 && f[4] == "1" && ai(3) != 1
			if !withTimeout(func() {
				if via {
					bars[i].SetPriority(ai(2))
				} else {
					p.UpdateBarPriority(bars[i], ai(2), ai(3) == 1)
				}
			}) {
				return hang("prio")
			}
			t.add(0, "RET_PRIO b%d", i)
		case "write":
			w, nl := ai(1), ai(2)
			seq := writeSeq[w]
			writeSeq[w]++
			sb := bytes.NewBuffer(scratch[:0])
			for l := 0; l < nl; l++ {
				fmt.Fprintf(sb, "T%d.%d.%d\n", w, seq, l)
			}
			t.add(0, "CL_WRITE %d %d %d", w, seq, nl)
			var n int
			var err error
			msg := sb.Bytes()
			if !withTimeout(func() { n, err = p.Write(msg) }) {
				return hang("write")
			}
			for j := range msg { // io.Writer: the slice is the caller's again
				msg[j] = '#'
			}
			t.add(0, "RET_WRITE %d %d %d %d", w, seq, n, b2i(err == nil))
		case "hold": // keep the actor of bar i busy inside a TraverseDecorators callback until "release i"
			i := ai(1)
			if bars[i] == nil || holds[i] != nil {
				continue
			}
			gate, entered := make(chan struct{}), make(chan struct{}, 1)
			holds[i] = gate
			b := bars[i]
			go func() {
				first := true
				b.TraverseDecorators(func(decor.Decorator) {
					if first {
						first = false
						entered <- struct{}{}
						<-gate
					}
				})
			}()
			select {
			case <-entered:
				t.add(0, "CL_HOLD b%d", i)
			case <-time.After(200 * time.Millisecond): // the bar has stopped already: nothing to hold
				close(gate)
				delete(holds, i)
			}
		case "release":
			i := ai(1)
			if g := holds[i]; g != nil {
				time.Sleep(2 * time.Millisecond) // whatever was sent to the busy actor meanwhile is waiting now
				close(g)
				delete(holds, i)
				t.add(0, "CL_RELEASE b%d", i)
				time.Sleep(time.Millisecond)
			}
		case "tick":
			t.add(0, "CL_TICK")
			if !doTick() {
				return hang("tick")
			}
			t.add(0, "RET_TICK")
		case "delayend":
			t.add(0, "CL_DELAYEND")
			close(delayCh)
			if !t.waitFor(hangTimeout, func(points []int) bool {
				for _, pt := range points {
					if pt == pCtDelayEnd || pt == pCtExit {
						return true
					}
				}
				return false
			}) {
				return hang("delayend")
			}
			if !barrier() {
				return hang("delayend-barrier")
			}
		case "cancel":
			t.add(0, "CL_CANCEL")
			cancel()
		case "shutdown":
			for i, g := range holds {
				close(g)
				delete(holds, i)
			}
			t.add(0, "CL_CANCEL")
			if !withTimeout(p.Shutdown) {
				return hang("shutdown")
			}
			t.add(0, "RET_SHUTDOWN")
		case "wait":
			for i, g := range holds {
				close(g)
				delete(holds, i)
			}
			t.add(0, "CL_WAIT")
			// The real ticker is silenced (one hour): while Wait is pending the
			// harness plays the ticker's part, as wall-clock time would.
			waitDone := make(chan struct{})
			go func() { p.Wait(); close(waitDone) }()
			deadline := time.After(hangTimeout)
			nt := 0
		waiting:
			for {
				select {
				case <-waitDone:
					break waiting
				case <-deadline:
					return hang("wait")
				case <-time.After(time.Millisecond):
				}
				if sc.mode != "manual" {
					select {
					case tick <- time.Now():
						nt++
					case <-waitDone:
						break waiting
					case <-time.After(5 * time.Millisecond):
					}
				}
			}
			t.add(0, "RET_WAIT %d", nt)
			c.stats["ticks_during_wait"] += nt
		}
	}
	// after Wait: notifier, final getter values, late calls
	if sc.notifier {
		select {
		case v := <-notify:
			var ids []string
			if bs, ok := v.([]*mpb.Bar); ok {
				t.mu.Lock()
				for _, b := range bs {
					ids = append(ids, strconv.Itoa(t.barIdx(b)))
				}
				t.mu.Unlock()
			}
			t.add(0, "NOTIFY %s", strings.Join(ids, ","))
		case <-time.After(hangTimeout):
			return hang("notifier")
		}
	}
	for i, b := range bars {
		if b == nil {
			continue
		}
		var cur int64
		var comp, ab, run bool
		if !withTimeout(func() { cur, comp, ab, run = b.Current(), b.Completed(), b.Aborted(), b.IsRunning() }) {
			return hang("final-getter")
		}
		t.add(0, "FINAL b%d %d %d %d %d", i, cur, b2i(comp), b2i(ab), b2i(run))
	}
	var lerr error
	var ln int
	if !withTimeout(func() { ln, lerr = p.Write([]byte("Tlate\n")) }) {
		return hang("late-write")
	}
	t.add(0, "LATE_WRITE %d %d", ln, b2i(lerr == mpb.ErrDone))
	var lb *mpb.Bar
	if !withTimeout(func() { lb, lerr = p.Add(1, nil) }) {
		return hang("late-add")
	}
	t.add(0, "LATE_ADD %d %d", b2i(lb == nil), b2i(lerr == mpb.ErrDone))
	for i, cnt := range shutCounts {
		if cnt != nil {
			t.add(0, "SHUTDOWN b%d %d", i, atomic.LoadInt32(cnt))
		}
	}
	// leak probe: every goroutine with a library frame must be gone after a settle period
	leaked := -1
	var stacks string
	for try := 0; try < 200; try++ {
		leaked, stacks = libraryGoroutines()
		if leaked == 0 {
			break
		}
		time.Sleep(5 * time.Millisecond)
	}
	t.add(0, "LEAK %d", leaked)
	if leaked > 0 {
		_ = os.WriteFile(fmt.Sprintf("%s/leak_%d.stacks", c.outDir, sc.k), []byte(stacks), 0o644)
	}
	t.add(0, "END")
	for name, n := range t.hits {
		c.stats["hit_"+name] += n
	}
	return append(hdr, t.snapshot()...), nil
}

type dbgWriter struct{ t *traceLog }

func (w *dbgWriter) Write(p []byte) (int, error) {
	w.t.add(0, "DBG %q", strings.TrimSpace(string(p)))
	return len(p), nil
}

type shutListener struct {
	decor.WC
	n    *int32
	self *atomic.Value // the listener's own bar (*mpb.Bar)
}

func (d *shutListener) Decor(decor.Statistics) (string, int) { return d.Format("") }

// OnShutdown reads its own bar, as a listener that reports a final value does: the getters never block, neither on a bar that
// is shutting down nor afterwards.
func (d *shutListener) OnShutdown() {
	if d.self != nil {
		if b, ok := d.self.Load().(*mpb.Bar); ok && b != nil {
			_ = b.Current()
			_ = b.Completed()
		}
	}
	atomic.AddInt32(d.n, 1)
}

type shutEwmaListener struct{ shutListener }

func (d *shutEwmaListener) EwmaUpdate(int64, time.Duration) {}

// libraryGoroutines counts goroutines that have a frame of the library on their stack
func libraryGoroutines() (int, string) {
	buf := make([]byte, 4<<20)
	n := runtime.Stack(buf, true)
	var leaked []string
	for _, g := range strings.Split(string(buf[:n]), "\n\n") {
		if strings.Contains(g, "github.com/vbauerster/mpb/v8.") || strings.Contains(g, "github.com/vbauerster/mpb/v8/decor.") ||
			strings.Contains(g, "/repo/") {
			if strings.Contains(g, "main.libraryGoroutines") {
				continue
			}
			leaked = append(leaked, g)
		}
	}
	return len(leaked), strings.Join(leaked, "\n\n")
}
