package main

// Family "pty": the container writes to a real pseudo terminal of a given size, so the
// library takes its terminal path (IsTerminal, GetTermSize).  The bytes that arrive on
// the master side are recorded per case; the checker interprets them as a terminal of
// that size would (lib/monitors.py pty_replay).

import (
	"fmt"
	"io"
	"os"
	"strconv"
	"strings"
	"sync"
	"time"
	"unsafe"

	"golang.org/x/sys/unix"

	"github.com/vbauerster/mpb/v8"
	"github.com/vbauerster/mpb/v8/decor"
)

func init() { families["pty"] = runPtyFamily }

type ptyCase struct {
	k, rows, cols, nbars, xrows, ticks int
	pop                              bool
	writes                           int
}

func (pc *ptyCase) header() string {
	return fmt.Sprintf("case %d %d %d %d %d %d %d %d", pc.k, pc.rows, pc.cols, pc.nbars, pc.xrows, pc.ticks, b2i(pc.pop), pc.writes)
}

func openPty(rows, cols int) (master, slave *os.File, err error) {
	m, err := os.OpenFile("/dev/ptmx", os.O_RDWR|unix.O_NOCTTY, 0)
	if err != nil {
		return nil, nil, err
	}
	var unlock int32
	if _, _, e := unix.Syscall(unix.SYS_IOCTL, m.Fd(), unix.TIOCSPTLCK, uintptr(unsafe.Pointer(&unlock))); e != 0 {
		m.Close()
		return nil, nil, e
	}
	n, err := unix.IoctlGetInt(int(m.Fd()), unix.TIOCGPTN)
	if err != nil {
		m.Close()
		return nil, nil, err
	}
	s, err := os.OpenFile(fmt.Sprintf("/dev/pts/%d", n), os.O_RDWR|unix.O_NOCTTY, 0)
	if err != nil {
		m.Close()
		return nil, nil, err
	}
	ws := &unix.Winsize{Row: uint16(rows), Col: uint16(cols)}
	if err := unix.IoctlSetWinsize(int(m.Fd()), unix.TIOCSWINSZ, ws); err != nil {
		m.Close()
		s.Close()
		return nil, nil, err
	}
	return m, s, nil
}

func runPtyFamily(c *runCtx) error {
	cases, doneC := c.create("cases.txt")
	defer doneC()
	root := newRng(c.seed)
	var list []*ptyCase
	if c.extra != "" {
		lines, err := readLines(c.extra)
		if err != nil {
			return err
		}
		for _, ln := range lines {
			pc := &ptyCase{}
			var pop int
			if n, _ := fmt.Sscanf(ln, "case %d %d %d %d %d %d %d %d", &pc.k, &pc.rows, &pc.cols, &pc.nbars, &pc.xrows, &pc.ticks, &pop, &pc.writes); n == 8 {
				pc.pop = pop == 1
				list = append(list, pc)
			}
		}
	} else {
		for k := 0; k < c.n; k++ {
			r := root.fork()
			pc := &ptyCase{k: k, rows: 4 + r.intn(8), cols: 40 + r.intn(40), ticks: 3 + r.intn(5), pop: r.chance(1, 4), writes: r.intn(3)}
			// around the window height: fewer, one fewer, exactly as many, more row groups than rows
			pc.xrows = r.intn(2)
			per := 1 + pc.xrows
			switch r.intn(5) {
			case 0:
				pc.nbars = 1 + r.intn(2)
			case 1:
				pc.nbars = (pc.rows - 1) / per
			case 2:
				pc.nbars = (pc.rows + per - 1) / per
			case 3:
				pc.nbars = pc.rows/per + 1 + r.intn(3)
			default:
				pc.nbars = 1 + r.intn(pc.rows)
			}
			if pc.nbars < 1 {
				pc.nbars = 1
			}
			list = append(list, pc)
		}
	}
	for _, pc := range list {
		if err := execPtyCase(c, pc, cases); err != nil {
			return err
		}
	}
	return nil
}

func execPtyCase(c *runCtx, pc *ptyCase, cases lineW) error {
	cases.WriteString(pc.header() + "\n")
	// every third case: the window has another size when the container is created and gets its size before the first
	// frame — the user resized the terminal; every frame has to fit the terminal as it is when the frame is drawn
	resize := pc.k%3 == 1
	r0, c0 := pc.rows, pc.cols
	if resize {
		r0, c0 = pc.rows+7, pc.cols+23
	}
	master, slave, err := openPty(r0, c0)
	if err != nil {
		cases.WriteString(fmt.Sprintf("NOPTY %v\nend\n", err))
		c.count("nopty")
		return nil
	}
	defer master.Close()
	// reader of the master side
	var mu sync.Mutex
	var got []byte
	stopRead := make(chan struct{})
	readDone := make(chan struct{})
	go func() {
		defer close(readDone)
		buf := make([]byte, 1<<16)
		fds := []unix.PollFd{{Fd: int32(master.Fd()), Events: unix.POLLIN}}
		for {
			select {
			case <-stopRead:
				return
			default:
			}
			n, _ := unix.Poll(fds, 20)
			if n > 0 && fds[0].Revents&unix.POLLIN != 0 {
				k, err := unix.Read(int(master.Fd()), buf)
				if k > 0 {
					mu.Lock()
					got = append(got, buf[:k]...)
					mu.Unlock()
				}
				if err != nil && k <= 0 {
					return
				}
			} else if n > 0 && fds[0].Revents&(unix.POLLHUP|unix.POLLERR|unix.POLLNVAL) != 0 {
				return // the slave side is closed and the buffer is empty
			}
		}
	}()
	mark := func(s string) { // frame separators are recorded out of band, with the byte offset so far
		time.Sleep(3 * time.Millisecond) // let the reader drain what was written
		mu.Lock()
		off := len(got)
		mu.Unlock()
		cases.WriteString(fmt.Sprintf("mark %d %s\n", off, s))
	}

	tick := make(chan time.Time)
	mpb.VerifSetTick(tick)
	defer mpb.VerifSetTick(nil)
	opts := []mpb.ContainerOption{mpb.WithOutput(slave), mpb.WithAutoRefresh(), mpb.WithRefreshRate(time.Hour)}
	if pc.pop {
		opts = append(opts, mpb.PopCompletedMode())
	}
	p := mpb.New(opts...)
	if resize {
		ws := &unix.Winsize{Row: uint16(pc.rows), Col: uint16(pc.cols)}
		if err := unix.IoctlSetWinsize(int(master.Fd()), unix.TIOCSWINSZ, ws); err != nil {
			return fmt.Errorf("case %d: resize: %v", pc.k, err)
		}
		c.count("resized_after_new")
	}
	bars := make([]*mpb.Bar, pc.nbars)
	for i := range bars {
		i := i
		bo := []mpb.BarOption{mpb.PrependDecorators(decor.Name(fmt.Sprintf("<B%02d>", i))), mpb.AppendDecorators(decor.CountersNoUnit("%d/%d"))}
		if pc.xrows > 0 {
			bo = append(bo, mpb.BarExtender(mpb.BarFillerFunc(func(w io.Writer, st decor.Statistics) error {
				_, err := fmt.Fprintf(w, "<X%02d>", i)
				return err
			}), false))
		}
		bars[i] = p.AddBar(100, bo...)
	}
	doTick := func(label string) bool {
		select {
		case tick <- time.Now():
		case <-time.After(hangTimeout):
			return false
		}
		time.Sleep(2 * time.Millisecond)
		mark(label)
		return true
	}
	for t := 0; t < pc.ticks; t++ {
		for i, b := range bars {
			b.IncrBy(1 + (i+t)%3)
		}
		if t < pc.writes {
			fmt.Fprintf(p, "<T%02d>\n", t)
		}
		if pc.pop && t == 1 && len(bars) > 1 {
			// one bar finishes and is popped out: the top one, or (odd cases) the bottom one, which has to travel to the top
			// — past the terminal's height when the frame is taller than the terminal
			if pc.k%2 == 1 {
				bars[len(bars)-1].SetCurrent(100)
			} else {
				bars[0].SetCurrent(100)
			}
		}
		if !doTick(fmt.Sprintf("tick %d", t)) {
			cases.WriteString("HANG tick\nend\n")
			return fmt.Errorf("case %d: hang: pty-tick", pc.k)
		}
	}
	for _, b := range bars {
		b.Abort(false)
	}
	wd := make(chan struct{})
	go func() { p.Wait(); close(wd) }()
	func() {
		for {
			select {
			case <-wd:
				return
			case tick <- time.Now():
			case <-time.After(hangTimeout):
				return
			}
		}
	}()
	mark("wait")
	// Wait has returned: everything has been written.  Close the slave side and let the reader drain the terminal's buffer
	// until the master reports the hang-up, however slow the machine is
	slave.Close()
	select {
	case <-readDone:
	case <-time.After(5 * time.Second):
		close(stopRead)
		<-readDone
	}
	mu.Lock()
	data := append([]byte(nil), got...)
	mu.Unlock()
	norm := strings.ReplaceAll(string(data), "\r\n", "\n") // the tty driver's ONLCR
	cases.WriteString("bytes " + fmt.Sprintf("%q", norm) + "\n")
	var rb strings.Builder
	rb.WriteString("raw ")
	for i := 0; i < len(norm); i++ {
		if i > 0 {
			rb.WriteByte(',')
		}
		rb.WriteString(strconv.Itoa(int(norm[i])))
	}
	cases.WriteString(rb.String() + "\nend\n")
	c.count(fmt.Sprintf("groups_vs_rows_%s", cmpClass(pc.nbars*(1+pc.xrows), pc.rows)))
	return nil
}

func cmpClass(a, b int) string {
	switch {
	case a < b-1:
		return "well_below"
	case a == b-1:
		return "one_below"
	case a == b:
		return "equal"
	default:
		return "above"
	}
}
