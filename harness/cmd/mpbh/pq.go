package main

// Family "pq": the heap manager's priority queue (priority_queue.go under
// container/heap), driven through the verif-tagged VerifPQ: random pushes of
// bars that are not in the queue, pops (also on an empty queue) and fixes
// (immediate and lazy; of bars in the queue, popped earlier, or never pushed).
// After every operation the slice order and every bar's index field are
// printed; the extracted model (PQueue.qstep) prints the same.

import (
	"fmt"
	"strconv"
	"strings"

	"github.com/vbauerster/mpb/v8"
)

func init() { families["pq"] = runPQFamily }

func runPQFamily(c *runCtx) error {
	cases, doneC := c.create("cases.txt")
	impl, doneI := c.create("impl.txt")
	defer doneC()
	defer doneI()
	type tc struct {
		k, nb int
		ops   []string
	}
	var list []*tc
	if c.extra != "" {
		lines, err := readLines(c.extra)
		if err != nil {
			return err
		}
		var cur *tc
		for _, ln := range lines {
			f := strings.Fields(ln)
			if len(f) == 0 {
				continue
			}
			switch f[0] {
			case "case":
				cur = &tc{}
				cur.k, _ = strconv.Atoi(f[1])
				cur.nb, _ = strconv.Atoi(f[2])
				list = append(list, cur)
			case "o":
				cur.ops = append(cur.ops, ln)
			}
		}
	} else {
		root := newRng(c.seed)
		for k := 0; k < c.n; k++ {
			r := root.fork()
			maxB, maxO := 12, 40
			if c.tier == "thorough" {
				maxB, maxO = 40, 200
			}
			t := &tc{k: k, nb: 1 + r.intn(maxB)}
			in := map[int]bool{}
			prio := func() int {
				switch r.intn(10) {
				case 0:
					return -2147483648 + r.intn(3)
				case 1:
					return 2147483647 - r.intn(3)
				default:
					return r.intn(10) - 3 // few values: many ties
				}
			}
			for i, n := 0, 5+r.intn(maxO); i < n; i++ {
				b := r.intn(t.nb)
				switch op := r.intn(10); {
				case op < 4 && !in[b]:
					in[b] = true
					t.ops = append(t.ops, fmt.Sprintf("o push %d %d", b, prio()))
				case op < 7:
					t.ops = append(t.ops, "o pop") // which bar leaves is for the queue to decide: membership is re-read below
					in = nil
				default:
					t.ops = append(t.ops, fmt.Sprintf("o fix %d %d %d", b, prio(), b2i(r.chance(1, 4))))
				}
				if in == nil { // after a pop the generator no longer knows the members: replay to find out
					in = map[int]bool{}
					v := mpb.NewVerifPQ()
					applyPQ(v, t.ops, nil, 0, 0)
					ids, _, _ := v.Snapshot(nil)
					for _, id := range ids {
						in[id] = true
					}
				}
			}
			list = append(list, t)
		}
	}
	for _, t := range list {
		cases.WriteString(fmt.Sprintf("case %d %d\n", t.k, t.nb))
		for _, o := range t.ops {
			cases.WriteString(o + "\n")
		}
		cases.WriteString("end\n")
		v := mpb.NewVerifPQ()
		applyPQ(v, t.ops, impl, t.k, t.nb)
		c.count(fmt.Sprintf("bars_%02d", t.nb))
		for _, o := range t.ops {
			c.count("op_" + strings.Fields(o)[1])
		}
	}
	return nil
}

func applyPQ(v *mpb.VerifPQ, ops []string, impl lineW, k, nb int) {
	all := make([]int, nb)
	for i := range all {
		all[i] = i
	}
	for step, o := range ops {
		f := strings.Fields(o)
		ai := func(i int) int { x, _ := strconv.Atoi(f[i]); return x }
		out := "-"
		switch f[1] {
		case "push":
			v.Push(ai(2), ai(3))
		case "pop":
			if id, p, ok := v.Pop(); ok {
				out = fmt.Sprintf("%d:%d", id, p)
			}
		case "fix":
			v.Fix(ai(2), ai(3), f[4] == "1")
		}
		if impl == nil {
			continue
		}
		ids, prios, idx := v.Snapshot(all)
		var sb strings.Builder
		fmt.Fprintf(&sb, "%d %d out=%s arr=", k, step, out)
		for i := range ids {
			fmt.Fprintf(&sb, "%d:%d,", ids[i], prios[i])
		}
		sb.WriteString(" idx=")
		for i, x := range idx {
			fmt.Fprintf(&sb, "%d:%d,", all[i], x)
		}
		impl.WriteString(sb.String() + "\n")
	}
}
