package main

// splitmix64: every random choice of the harness derives from one seed.
type rng struct{ s uint64 }

// newRng scrambles the seed first: the state advances by a constant per draw, so without this
// the stream of seed n+1 would be the stream of seed n shifted by one draw (and a sweep over
// consecutive seeds would repeat the same cases).
func newRng(seed uint64) *rng {
	z := seed + 0x9E3779B97F4A7C15
	z = (z ^ (z >> 30)) * 0xBF58476D1CE4E5B9
	z = (z ^ (z >> 27)) * 0x94D049BB133111EB
	z ^= z >> 31
	return &rng{s: z*0x9E3779B97F4A7C15 + 0x1234567}
}

func (r *rng) u64() uint64 {
	r.s += 0x9E3779B97F4A7C15
	z := r.s
	z = (z ^ (z >> 30)) * 0xBF58476D1CE4E5B9
	z = (z ^ (z >> 27)) * 0x94D049BB133111EB
	return z ^ (z >> 31)
}

// intn returns a value in [0,n)
func (r *rng) intn(n int) int {
	if n <= 0 {
		return 0
	}
	return int(r.u64() % uint64(n))
}

func (r *rng) bool() bool { return r.u64()&1 == 1 }

// chance p/q
func (r *rng) chance(p, q int) bool { return r.intn(q) < p }

func (r *rng) pickI64(xs []int64) int64 { return xs[r.intn(len(xs))] }

func (r *rng) fork() *rng { return newRng(r.u64()) }
