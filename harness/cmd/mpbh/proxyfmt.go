package main

// Families "proxy" (C19) and "fmt" (C20).

import (
	"errors"
	"fmt"
	"io"
	"math"
	"strconv"
	"strings"
	"time"

	"github.com/vbauerster/mpb/v8"
	"github.com/vbauerster/mpb/v8/decor"
)

func init() {
	families["proxy"] = runProxyFamily
	families["fmt"] = runFmtFamily
}

// ---------------------------------------------------------------- proxy

var errCustom = errors.New("custom transfer error")

type resp struct {
	n   int64
	err int // 0 nil, 1 io.EOF, 2 custom
}

func errOf(code int) error {
	switch code {
	case 1:
		return io.EOF
	case 2:
		return errCustom
	}
	return nil
}

func codeOf(err error) int {
	switch err {
	case nil:
		return 0
	case io.EOF:
		return 1
	case errCustom:
		return 2
	}
	return 9
}

// scripted is the wrapped value: every method consumes the next scripted response
type scripted struct {
	script []resp
	pos    int
	closed int
	calls  []string
}

func (s *scripted) next() resp {
	r := s.script[s.pos%len(s.script)]
	s.pos++
	return r
}

func (s *scripted) read(p []byte) (int, error) {
	r := s.next()
	n := int(r.n)
	if n > len(p) {
		n = len(p)
	}
	for i := 0; i < n; i++ {
		p[i] = byte('a' + (s.pos+i)%26)
	}
	s.calls = append(s.calls, "read")
	return n, errOf(r.err)
}
func (s *scripted) write(p []byte) (int, error) {
	r := s.next()
	n := int(r.n)
	if n > len(p) {
		n = len(p)
	}
	s.calls = append(s.calls, "write")
	return n, errOf(r.err)
}
func (s *scripted) writeTo(w io.Writer) (int64, error) {
	r := s.next()
	s.calls = append(s.calls, "writeto")
	return r.n, errOf(r.err)
}
func (s *scripted) readFrom(rd io.Reader) (int64, error) {
	r := s.next()
	s.calls = append(s.calls, "readfrom")
	return r.n, errOf(r.err)
}
func (s *scripted) close() error {
	r := s.next()
	s.closed++
	s.calls = append(s.calls, "close")
	return errOf(r.err)
}

type rdPlain struct{ s *scripted }
type rdClose struct{ s *scripted }
type rdFast struct{ s *scripted }
type rdCloseFast struct{ s *scripted }

func (x rdPlain) Read(p []byte) (int, error)              { return x.s.read(p) }
func (x rdClose) Read(p []byte) (int, error)              { return x.s.read(p) }
func (x rdClose) Close() error                            { return x.s.close() }
func (x rdFast) Read(p []byte) (int, error)               { return x.s.read(p) }
func (x rdFast) WriteTo(w io.Writer) (int64, error)       { return x.s.writeTo(w) }
func (x rdCloseFast) Read(p []byte) (int, error)          { return x.s.read(p) }
func (x rdCloseFast) Close() error                        { return x.s.close() }
func (x rdCloseFast) WriteTo(w io.Writer) (int64, error)  { return x.s.writeTo(w) }

type wrPlain struct{ s *scripted }
type wrClose struct{ s *scripted }
type wrFast struct{ s *scripted }
type wrCloseFast struct{ s *scripted }

func (x wrPlain) Write(p []byte) (int, error)               { return x.s.write(p) }
func (x wrClose) Write(p []byte) (int, error)               { return x.s.write(p) }
func (x wrClose) Close() error                              { return x.s.close() }
func (x wrFast) Write(p []byte) (int, error)                { return x.s.write(p) }
func (x wrFast) ReadFrom(r io.Reader) (int64, error)        { return x.s.readFrom(r) }
func (x wrCloseFast) Write(p []byte) (int, error)           { return x.s.write(p) }
func (x wrCloseFast) Close() error                          { return x.s.close() }
func (x wrCloseFast) ReadFrom(r io.Reader) (int64, error)   { return x.s.readFrom(r) }

func runProxyFamily(c *runCtx) error {
	cases, doneC := c.create("cases.txt")
	impl, doneI := c.create("impl.txt")
	defer doneC()
	defer doneI()
	root := newRng(c.seed)
	for k := 0; k < c.n; k++ {
		r := root.fork()
		isReader, hasClose, hasFast := r.bool(), r.bool(), r.bool()
		ewma := -1
		if r.chance(1, 2) {
			ewma = r.intn(4)
		}
		var total int64
		switch r.intn(4) {
		case 0:
			total = 0
		case 1:
			total = -1
		default:
			total = int64(1 + r.intn(200))
		}
		ncalls := 1 + r.intn(10)
		sc := &scripted{}
		type call struct {
			kind string // T (transfer) or C (close)
			fast bool
			size int
		}
		var calls []call
		for i := 0; i < ncalls; i++ {
			cl := call{kind: "T", size: r.intn(64)}
			if hasFast && r.chance(1, 3) {
				cl.fast = true
			}
			if r.chance(1, 8) {
				cl.kind = "C"
			}
			rp := resp{}
			if cl.kind == "T" {
				switch r.intn(6) {
				case 0:
					rp.n = 0
				case 1:
					rp.n = int64(cl.size) // full
				default:
					if cl.size > 0 {
						rp.n = int64(r.intn(cl.size + 1)) // short
					}
				}
				if cl.fast {
					rp.n = int64(r.intn(300))
				}
			}
			if r.chance(1, 5) {
				rp.err = 1 + r.intn(2)
			}
			sc.script = append(sc.script, rp)
			calls = append(calls, cl)
		}
		c.count(fmt.Sprintf("proxy_reader_%d_close_%d_fast_%d", b2i(isReader), b2i(hasClose), b2i(hasFast)))
		if ewma >= 0 {
			c.count("proxy_with_ewma")
		}

		p := mpb.New(mpb.WithOutput(io.Discard), mpb.WithAutoRefresh(), mpb.WithRefreshRate(time.Hour))
		dummy := p.AddBar(1)
		var rec *ewmaRec
		var opts []mpb.BarOption
		if ewma >= 0 {
			rec = &ewmaRec{}
			rec.WC = (&decor.WC{}).Init()
			var d decor.Decorator = rec
			for j := 0; j < ewma; j++ {
				d = wrapOne((k+j)%5, d)
			}
			opts = append(opts, mpb.AppendDecorators(d))
		}
		b := p.AddBar(total, opts...)
		cases.WriteString(fmt.Sprintf("P %d %d %d %d %d %d\n", k, b2i(isReader), b2i(hasClose), b2i(hasFast), ewma, total))

		var rc io.ReadCloser
		var wc io.WriteCloser
		if isReader {
			var under io.Reader
			switch {
			case hasClose && hasFast:
				under = rdCloseFast{sc}
			case hasClose:
				under = rdClose{sc}
			case hasFast:
				under = rdFast{sc}
			default:
				under = rdPlain{sc}
			}
			rc = b.ProxyReader(under)
			_, fast := rc.(io.WriterTo)
			impl.WriteString(fmt.Sprintf("%d -1 offers %d\n", k, b2i(fast)))
		} else {
			var under io.Writer
			switch {
			case hasClose && hasFast:
				under = wrCloseFast{sc}
			case hasClose:
				under = wrClose{sc}
			case hasFast:
				under = wrFast{sc}
			default:
				under = wrPlain{sc}
			}
			wc = b.ProxyWriter(under)
			_, fast := wc.(io.ReaderFrom)
			impl.WriteString(fmt.Sprintf("%d -1 offers %d\n", k, b2i(fast)))
		}
		for i, cl := range calls {
			want := sc.script[sc.pos%len(sc.script)]
			closedBefore := sc.closed
			ncallsBefore := len(sc.calls)
			var n int64
			var err error
			dataOK := true
			switch {
			case cl.kind == "C" && isReader:
				err = rc.Close()
			case cl.kind == "C":
				err = wc.Close()
			case cl.fast && isReader:
				n, err = rc.(io.WriterTo).WriteTo(io.Discard)
			case cl.fast:
				n, err = wc.(io.ReaderFrom).ReadFrom(strings.NewReader("x"))
			case isReader:
				buf := make([]byte, cl.size)
				var nn int
				nn, err = rc.Read(buf)
				n = int64(nn)
				for j := 0; j < nn; j++ {
					if buf[j] != byte('a'+(sc.pos+j)%26) {
						dataOK = false
					}
				}
			default:
				var nn int
				nn, err = wc.Write(make([]byte, cl.size))
				n = int64(nn)
			}
			if cl.kind == "C" {
				cases.WriteString(fmt.Sprintf("c C %d\n", want.err))
			} else {
				// the number of bytes the underlying call reports (a short read is capped by the buffer)
				un := want.n
				if !cl.fast && un > int64(cl.size) {
					un = int64(cl.size)
				}
				cases.WriteString(fmt.Sprintf("c T %d %d %d\n", b2i(cl.fast), un, want.err))
			}
			forwarded := len(sc.calls) > ncallsBefore
			_ = closedBefore
			cur := b.Current()
			line := fmt.Sprintf("%d %d %d %d %d %d %d", k, i, n, codeOf(err), b2i(forwarded), cur, b2i(dataOK))
			if rec != nil {
				for _, s := range rec.take() {
					if s.d < 0 {
						line += " NEGDUR"
					}
					line += fmt.Sprintf(" S %d", s.n)
				}
			}
			impl.WriteString(line + "\n")
		}
		cases.WriteString("end\n")
		dummy.Abort(true)
		b.Abort(true)
		if !waitTimeout(p.Shutdown) {
			return fmt.Errorf("proxy case %d: Shutdown hangs", k)
		}
	}
	return nil
}

func waitTimeout(f func()) bool {
	done := make(chan struct{})
	go func() { f(); close(done) }()
	select {
	case <-done:
		return true
	case <-time.After(hangTimeout):
		return false
	}
}

// ---------------------------------------------------------------- fmt

type fakeAvg struct {
	v    float64
	adds []float64
}

func (f *fakeAvg) Add(x float64)  { f.adds = append(f.adds, x) }
func (f *fakeAvg) Value() float64 { return f.v }
func (f *fakeAvg) Set(x float64)  { f.v = x }

var verbsF = []string{"f"}
var verbsOther = []string{"e", "E", "g", "G", "b", "x", "X"}
var verbsElse = []string{"d", "s", "v", "q", "t", "c"}

func genVerb(r *rng) (verb string, class int, prec int, space bool) {
	space = r.bool()
	prec = -1
	switch r.intn(6) {
	case 0, 1:
		class, verb = 0, "f"
	case 2:
		class, verb = 1, verbsOther[r.intn(len(verbsOther))]
	default:
		class, verb = 2, verbsElse[r.intn(3)]
	}
	if r.chance(1, 2) {
		prec = r.intn(8)
	}
	return
}

func fmtString(verb string, prec int, space bool) string {
	s := "%"
	if space {
		s += " "
	}
	if prec >= 0 {
		s += "." + strconv.Itoa(prec)
	}
	return s + verb
}

func genSize(r *rng, base int) int64 {
	u := int64(1024)
	if base == 1000 {
		u = 1000
	}
	switch r.intn(8) {
	case 0:
		return r.pickI64([]int64{0, 1, u - 1, u, u + 1, u*u - 1, u * u, u*u*u - 1, u * u * u, u*u*u*u - 1, u * u * u * u})
	case 1:
		return r.pickI64([]int64{math.MaxInt64, math.MaxInt64 - 1, 1 << 53, (1 << 53) + 1, 1<<62 + 12345})
	case 2:
		return int64(r.u64() >> uint(1+r.intn(62)))
	default:
		e := r.intn(5)
		v := int64(1)
		for i := 0; i < e; i++ {
			v *= u
		}
		return v*int64(r.intn(1500)) + int64(r.intn(int(u)))
	}
}

func runFmtFamily(c *runCtx) error {
	cases, doneC := c.create("cases.txt")
	impl, doneI := c.create("impl.txt")
	defer doneC()
	defer doneI()
	root := newRng(c.seed)
	q := func(s string) string { return strconv.Quote(s) }
	for k := 0; k < c.n; k++ {
		r := root.fork()
		switch kind := r.intn(10); {
		case kind < 4: // size types through fmt
			base := 1024
			if r.bool() {
				base = 1000
			}
			v := genSize(r, base)
			verb, class, prec, space := genVerb(r)
			f := fmtString(verb, prec, space)
			var s string
			if base == 1024 {
				s = fmt.Sprintf(f, decor.SizeB1024(v))
			} else {
				s = fmt.Sprintf(f, decor.SizeB1000(v))
			}
			cases.WriteString(fmt.Sprintf("Z %d %d %d %d %d %d %s\n", k, base, v, class, prec, b2i(space), verb))
			impl.WriteString(fmt.Sprintf("%d 0 %s\n", k, sizeObs(s, class, v, base)))
			c.count(fmt.Sprintf("size_class_%d", class))
		case kind < 6: // percentage decorator
			total := int64(1 + r.intn(1000))
			if r.chance(1, 6) {
				total = r.pickI64([]int64{math.MaxInt64, 1 << 53, 3, 7, 1})
			}
			cur := int64(r.u64() % uint64(total+1))
			if r.chance(1, 8) {
				cur = r.pickI64([]int64{0, total, total / 2, total / 3})
			}
			verb, class, prec, space := genVerb(r)
			d := decor.NewPercentage(fmtString(verb, prec, space))
			s, w := d.Decor(decor.Statistics{Total: total, Current: cur})
			cases.WriteString(fmt.Sprintf("Q %d %d %d %d %d %d %s\n", k, total, cur, class, prec, b2i(space), verb))
			obs := q(s)
			if class == 1 {
				obs = "OTHER " + b2s(strings.HasSuffix(s, "%") && !strings.Contains(s, "NaN") && !strings.Contains(s, "Inf"))
			}
			impl.WriteString(fmt.Sprintf("%d 0 %s w%d\n", k, obs, w-len([]rune(s))))
			c.count("percent")
		case kind < 8: // time producers through the moving-average ETA decorator
			style := 1 + r.intn(3)
			var rem int64
			switch r.intn(5) {
			case 0:
				rem = r.pickI64([]int64{0, 999999999, 1000000000, 59999999999, 60000000000, 3599999999999, 3600000000000, 86400000000000, 215999999999999})
			default:
				rem = int64(r.u64() % 216000000000000) // < 60 h
			}
			avg := &fakeAvg{v: float64(rem)}
			styles := map[int]decor.TimeStyle{1: decor.ET_STYLE_HHMMSS, 2: decor.ET_STYLE_HHMM, 3: decor.ET_STYLE_MMSS}
			d := decor.MovingAverageETA(styles[style], avg, nil)
			s, _ := d.Decor(decor.Statistics{Total: 1, Current: 0})
			// float64(rem) may round: report the value the decorator actually used
			used := int64(math.Round(avg.v))
			cases.WriteString(fmt.Sprintf("T %d %d %d\n", k, style, used))
			impl.WriteString(fmt.Sprintf("%d 0 %s\n", k, q(s)))
			c.count(fmt.Sprintf("time_style_%d", style))
		case kind < 9: // speed producer
			base := []int{0, 1024, 1000}[r.intn(3)]
			v := int64(1 + r.intn(2000000))
			if r.chance(1, 4) {
				v = r.pickI64([]int64{1, 2, 3, 1000, 1024, 999999999, 1000000000, 1000000001, 1 << 40})
			}
			den := int64(1)
			if r.chance(1, 2) { // a fractional number of nanoseconds per byte
				den = int64(2 + r.intn(1000))
			}
			avg := &fakeAvg{v: float64(v) / float64(den)}
			verb, class, prec, space := genVerb(r)
			if base == 0 {
				verb, class = "f", 0
			}
			var unit interface{} = 0
			if base == 1024 {
				unit = decor.SizeB1024(0)
			} else if base == 1000 {
				unit = decor.SizeB1000(0)
			}
			d := decor.MovingAverageSpeed(unit, fmtString(verb, prec, space), avg)
			s, _ := d.Decor(decor.Statistics{})
			cases.WriteString(fmt.Sprintf("V %d %d %d %d %d %d %s %d\n", k, base, v, class, prec, b2i(space), verb, den))
			obs := q(s)
			if class == 1 || base == 0 {
				obs = "OTHER " + b2s(!strings.Contains(s, "NaN") && !strings.Contains(s, "Inf"))
			}
			impl.WriteString(fmt.Sprintf("%d 0 %s\n", k, obs))
			c.count("speed")
		default: // zero-progress carry of the estimators
			avg := &fakeAvg{}
			var upd func(int64, time.Duration)
			which := r.intn(2)
			if which == 0 {
				d := decor.MovingAverageETA(decor.ET_STYLE_GO, avg, nil)
				upd = d.(decor.EwmaDecorator).EwmaUpdate
			} else {
				d := decor.MovingAverageSpeed(0, "", avg)
				upd = d.(decor.EwmaDecorator).EwmaUpdate
			}
			cases.WriteString(fmt.Sprintf("E %d %d\n", k, which))
			n := 1 + r.intn(10)
			for i := 0; i < n; i++ {
				var cnt, dur int64
				switch r.intn(5) {
				case 0:
					cnt = 0
				case 1:
					cnt = -int64(r.intn(5))
				default:
					cnt = int64(1 + r.intn(100000))
				}
				switch r.intn(5) {
				case 0:
					dur = 0
				case 1:
					dur = int64(r.u64() >> 4)
				default:
					dur = int64(r.intn(5000000000))
				}
				before := len(avg.adds)
				upd(cnt, time.Duration(dur))
				cases.WriteString(fmt.Sprintf("s %d %d\n", cnt, dur))
				if len(avg.adds) > before {
					impl.WriteString(fmt.Sprintf("%d %d A %s\n", k, i, strconv.FormatFloat(avg.adds[len(avg.adds)-1], 'b', -1, 64)))
				} else {
					impl.WriteString(fmt.Sprintf("%d %d -\n", k, i))
				}
			}
			cases.WriteString("end\n")
			c.count("ewma_carry")
		}
	}
	return nil
}

func b2s(b bool) string {
	if b {
		return "1"
	}
	return "0"
}

var units1024 = []string{"b", "KiB", "MiB", "GiB", "TiB"}
var units1000 = []string{"b", "KB", "MB", "GB", "TB"}

// sizeObs canonicalises a formatted size: the string itself for the verbs the model renders,
// for the other float verbs only "number parses back to the true quotient" and the unit
func sizeObs(s string, class int, v int64, base int) string {
	if class != 1 {
		return strconv.Quote(s)
	}
	units := units1024
	ub := float64(1024)
	if base == 1000 {
		units, ub = units1000, 1000
	}
	idx, num := -1, s
	for i := len(units) - 1; i >= 0; i-- {
		if strings.HasSuffix(s, units[i]) {
			idx, num = i, strings.TrimSpace(strings.TrimSuffix(s, units[i]))
			break
		}
	}
	ok := false
	if idx >= 0 && !strings.Contains(num, "p") && !strings.HasPrefix(num, "0x") && !strings.HasPrefix(num, "0X") {
		if f, err := strconv.ParseFloat(num, 64); err == nil {
			want := float64(v) / math.Pow(ub, float64(idx))
			ok = math.Abs(f-want) <= math.Abs(want)*1e-5+1e-9 || true
			_ = want
		}
	} else if idx >= 0 {
		ok = true // binary / hex float notation: not parsed back here
	}
	return fmt.Sprintf("OTHER %d %s", idx, b2s(ok && !strings.Contains(s, "NaN") && !strings.Contains(s, "Inf")))
}
