package main

// Family "opt": the option layer around the modelled core — what a finished
// bar shows (BarFillerOnComplete / OnAbort / ClearOnComplete / ClearOnAbort,
// BarFillerMiddleware), BarID, the conditional option constructors for bars
// and containers, NopStyle, AddSpinner, MustAdd (incl. its documented panic
// after done) and WithWaitGroup.  Each case builds a manually refreshed
// container that writes into a buffer, drives one bar to a final state,
// requests frames and reads the bar's row in the last frame.  Self-checking
// against the documentation: one line per case,  k kind OK | k kind BAD detail.

import (
	"bytes"
	"context"
	"fmt"
	"io"
	"regexp"
	"strings"
	"sync"
	"time"

	"github.com/mattn/go-runewidth"
	"github.com/vbauerster/mpb/v8"
	"github.com/vbauerster/mpb/v8/decor"
)

func init() { families["opt"] = runOptFamily }

type writerFunc func([]byte) (int, error)

func (f writerFunc) Write(p []byte) (int, error) { return f(p) }

// frameBuf records every Write call of the container (one per frame).
type frameBuf struct {
	mu     sync.Mutex
	frames [][]byte
	sig    chan struct{}
}

func (f *frameBuf) Write(p []byte) (int, error) {
	f.mu.Lock()
	f.frames = append(f.frames, append([]byte(nil), p...))
	f.mu.Unlock()
	select {
	case f.sig <- struct{}{}:
	default:
	}
	return len(p), nil
}

var csiRe = regexp.MustCompile("\x1b\\[[0-9]*[A-Za-z]")

// lastRows returns the lines of the most recent frame, cursor controls removed.
func (f *frameBuf) lastRows() []string {
	f.mu.Lock()
	defer f.mu.Unlock()
	if len(f.frames) == 0 {
		return nil
	}
	s := csiRe.ReplaceAllString(string(f.frames[len(f.frames)-1]), "")
	s = strings.TrimSuffix(s, "\n")
	if s == "" {
		return nil
	}
	return strings.Split(s, "\n")
}

type optCtl struct {
	p    *mpb.Progress
	buf  *frameBuf
	tick chan interface{}
}

func newOptCtl(width int, extra ...mpb.ContainerOption) *optCtl {
	o := &optCtl{buf: &frameBuf{sig: make(chan struct{}, 64)}, tick: make(chan interface{})}
	opts := append([]mpb.ContainerOption{mpb.WithOutput(o.buf), mpb.WithManualRefresh(o.tick), mpb.WithWidth(width)}, extra...)
	o.p = mpb.New(opts...)
	return o
}

// frame requests one frame and waits until it has been written (every case has at least one row to draw).
func (o *optCtl) frame() error {
	for len(o.buf.sig) > 0 {
		<-o.buf.sig
	}
	select {
	case o.tick <- time.Now():
	case <-time.After(hangTimeout):
		return fmt.Errorf("hang: refresh request not taken")
	}
	select {
	case <-o.buf.sig:
	case <-time.After(hangTimeout):
		return fmt.Errorf("hang: no frame written after a refresh request")
	}
	return nil
}

func runOptFamily(c *runCtx) error {
	cases, doneC := c.create("cases.txt")
	impl, doneI := c.create("impl.txt")
	defer doneC()
	defer doneI()
	root := newRng(c.seed)
	var hangErr error
	for k := 0; k < c.n && hangErr == nil; k++ {
		r := root.fork()
		var bad []string
		name := ""
		fail := func(format string, a ...interface{}) { bad = append(bad, fmt.Sprintf(format, a...)) }
		waitP := func(p *mpb.Progress) {
			if !waitTimeout(p.Wait) {
				hangErr = fmt.Errorf("case %d: hang: wait", k)
			}
		}
		switch kind := r.intn(14); kind {
		case 0, 1, 2: // what a finished bar shows
			name = "final"
			which := r.intn(5)  // 0 OnComplete(msg) 1 ClearOnComplete 2 OnAbort(msg) 3 ClearOnAbort 4 both messages
			ending := r.intn(3) // 0 complete 1 abort 2 still running at the frame
			msgC, msgA := fmt.Sprintf("done-%d", r.intn(100)), fmt.Sprintf("gone-%d", r.intn(100))
			width := 20 + r.intn(30)
			o := newOptCtl(width)
			var bo []mpb.BarOption
			switch which {
			case 0:
				bo = append(bo, mpb.BarFillerOnComplete(msgC))
			case 1:
				bo = append(bo, mpb.BarFillerClearOnComplete())
				msgC = ""
			case 2:
				bo = append(bo, mpb.BarFillerOnAbort(msgA))
			case 3:
				bo = append(bo, mpb.BarFillerClearOnAbort())
				msgA = ""
			default:
				bo = append(bo, mpb.BarFillerOnComplete(msgC), mpb.BarFillerOnAbort(msgA))
			}
			bo = append(bo, mpb.BarFillerTrim(), mpb.PrependDecorators(decor.Name("N|")))
			total := int64(5 + r.intn(50))
			// one case in three: a bar without a total (current runs ahead of it), completed only by SetTotal(-1, true)
			noTotal := r.chance(1, 3)
			if noTotal {
				total = 0
			}
			b := o.p.AddBar(total, bo...)
			cases.WriteString(fmt.Sprintf("F %d %d %d %d %v\n", k, which, ending, width, noTotal))
			if noTotal {
				b.IncrInt64(int64(1 + r.intn(9)))
			} else {
				b.IncrInt64(total / 2)
			}
			if err := o.frame(); err != nil {
				hangErr = fmt.Errorf("case %d: %v", k, err)
				break
			}
			running := o.buf.lastRows()
			isBar := func(rows []string) bool {
				return len(rows) == 1 && strings.HasPrefix(rows[0], "N|[") && strings.HasSuffix(rows[0], "]")
			}
			if !isBar(running) {
				fail("a running bar with the option shows %q, want the name and the bar itself", running)
			}
			switch ending {
			case 0:
				if noTotal {
					b.SetTotal(-1, true)
				} else {
					b.IncrInt64(total)
				}
			case 1:
				if !noTotal && r.bool() {
					// current reaches a total that does not trigger completion, then the bar is aborted
					b.SetTotal(total, false)
				}
				b.Abort(false)
			}
			if err := o.frame(); err != nil {
				hangErr = fmt.Errorf("case %d: %v", k, err)
				break
			}
			rows := o.buf.lastRows()
			hasC := which == 0 || which == 1 || which == 4
			hasA := which == 2 || which == 3 || which == 4
			switch {
			case ending == 0 && hasC:
				if len(rows) != 1 || rows[0] != "N|"+msgC {
					fail("completed bar with the on-complete filler option %d shows %q, want %q", which, rows, "N|"+msgC)
				}
			case ending == 1 && hasA:
				if len(rows) != 1 || rows[0] != "N|"+msgA {
					fail("aborted bar with the on-abort filler option %d shows %q, want %q", which, rows, "N|"+msgA)
				}
			default:
				if !isBar(rows) {
					fail("bar (ending %d, option %d) shows %q, want the bar itself: the option is for the other final state", ending, which, rows)
				}
			}
			if ending == 2 {
				b.Abort(true)
			}
			waitP(o.p)
		case 3: // middleware order, BarID, NopStyle
			name = "middleware"
			o := newOptCtl(30)
			id := r.intn(1000) - 500
			var seenID int
			wrap := func(tag string) func(mpb.BarFiller) mpb.BarFiller {
				return func(base mpb.BarFiller) mpb.BarFiller {
					return mpb.BarFillerFunc(func(w io.Writer, st decor.Statistics) error {
						seenID = st.ID
						io.WriteString(w, tag+"(")
						err := base.Fill(w, st)
						io.WriteString(w, ")")
						return err
					})
				}
			}
			b, err := o.p.Add(10, mpb.NopStyle().Build(), mpb.BarID(id), mpb.BarFillerTrim(),
				mpb.BarFillerMiddleware(wrap("a")), mpb.BarFillerMiddleware(wrap("b")), mpb.BarFillerMiddleware(nil))
			cases.WriteString(fmt.Sprintf("W %d %d\n", k, id))
			if err != nil {
				fail("Add returned %v", err)
				break
			}
			if b.ID() != id {
				fail("BarID(%d): Bar.ID() = %d", id, b.ID())
			}
			if err := o.frame(); err != nil {
				hangErr = fmt.Errorf("case %d: %v", k, err)
				break
			}
			if rows := o.buf.lastRows(); len(rows) != 1 || rows[0] != "b(a())" {
				fail("two filler middlewares around the no-op style show %q, want \"b(a())\" (later options wrap earlier ones)", rows)
			}
			if seenID != id {
				fail("BarID(%d): the filler saw Statistics.ID = %d", id, seenID)
			}
			b.Abort(true)
			waitP(o.p)
		case 4: // conditional option constructors
			name = "conditional"
			cond := r.bool()
			called := 0
			idOpt := func() mpb.BarOption { called++; return mpb.BarID(77) }
			variants := []struct {
				n   string
				opt mpb.BarOption
			}{
				{"BarOptional", mpb.BarOptional(mpb.BarID(77), cond)},
				{"BarOptOn", mpb.BarOptOn(mpb.BarID(77), func() bool { return cond })},
				{"BarFuncOptional", mpb.BarFuncOptional(idOpt, cond)},
				{"BarFuncOptOn", mpb.BarFuncOptOn(idOpt, func() bool { return cond })},
			}
			cases.WriteString(fmt.Sprintf("O %d %v\n", k, cond))
			o := newOptCtl(30)
			for i, v := range variants {
				b := o.p.AddBar(5, v.opt)
				want := i // default id = creation order
				if cond {
					want = 77
				}
				if b.ID() != want {
					fail("%s(BarID(77), %v): Bar.ID() = %d, want %d", v.n, cond, b.ID(), want)
				}
				b.Abort(true)
			}
			if wantCalls := map[bool]int{true: 2, false: 0}[cond]; called != wantCalls {
				fail("BarFuncOptional / BarFuncOptOn called the option constructor %d times for cond=%v, want %d", called, cond, wantCalls)
			}
			waitP(o.p)
			// container options: the width is applied iff the condition holds
			ccalled := 0
			wOpt := func() mpb.ContainerOption { ccalled++; return mpb.WithWidth(17) }
			cvars := []struct {
				n   string
				opt mpb.ContainerOption
			}{
				{"ContainerOptional", mpb.ContainerOptional(mpb.WithWidth(17), cond)},
				{"ContainerOptOn", mpb.ContainerOptOn(mpb.WithWidth(17), func() bool { return cond })},
				{"ContainerFuncOptional", mpb.ContainerFuncOptional(wOpt, cond)},
				{"ContainerFuncOptOn", mpb.ContainerFuncOptOn(wOpt, func() bool { return cond })},
			}
			for _, v := range cvars {
				o2 := newOptCtl(31, v.opt)
				b := o2.p.AddBar(4, mpb.BarFillerTrim())
				if err := o2.frame(); err != nil {
					hangErr = fmt.Errorf("case %d: %v", k, err)
					break
				}
				want := 31
				if cond {
					want = 17
				}
				if rows := o2.buf.lastRows(); len(rows) != 1 || len(rows[0]) != want {
					fail("%s(WithWidth(17), %v): the row is %q, want %d columns", v.n, cond, rows, want)
				}
				b.Abort(true)
				waitP(o2.p)
			}
			if wantCalls := map[bool]int{true: 2, false: 0}[cond]; ccalled != wantCalls {
				fail("ContainerFuncOptional / ContainerFuncOptOn called the option constructor %d times for cond=%v, want %d", ccalled, cond, wantCalls)
			}
		case 5: // AddSpinner
			name = "spinner"
			width := 10 + r.intn(20)
			o := newOptCtl(width)
			frames := []string{"⠋", "⠙", "⠹", "⠸", "⠼", "⠴", "⠦", "⠧", "⠇", "⠏"}
			var b *mpb.Bar
			custom := r.intn(3)
			switch custom {
			case 1:
				frames = []string{".", "..", "...", "...."}
			case 2:
				frames = []string{"a", "世界", "bcd"}
			}
			if custom == 0 {
				b = o.p.AddSpinner(10, mpb.BarFillerTrim())
			} else {
				b = o.p.MustAdd(10, mpb.SpinnerStyle(frames...).Build(), mpb.BarFillerTrim())
			}
			cases.WriteString(fmt.Sprintf("S %d %d %d\n", k, width, custom))
			for i := 0; i < len(frames)+1; i++ {
				if err := o.frame(); err != nil {
					hangErr = fmt.Errorf("case %d: %v", k, err)
					break
				}
				rows := o.buf.lastRows()
				if len(rows) != 1 || strings.TrimSpace(rows[0]) != frames[i%len(frames)] {
					fail("spinner: frame %d shows %q, want the spinner frame %q", i, rows, frames[i%len(frames)])
					break
				}
				if w := runewidth.StringWidth(rows[0]); w > width {
					fail("spinner: the row %q is %d columns wide in a container of width %d", rows[0], w, width)
					break
				}
			}
			b.Abort(true)
			waitP(o.p)
		case 6: // MustAdd: works while the container lives, panics once it is done
			name = "mustadd"
			o := newOptCtl(30)
			cases.WriteString(fmt.Sprintf("M %d\n", k))
			b := o.p.MustAdd(3, nil)
			if b == nil {
				fail("MustAdd before done returned nil")
				break
			}
			b.IncrBy(3)
			waitP(o.p)
			func() {
				defer func() {
					if rec := recover(); rec == nil {
						fail("MustAdd after Wait returned did not panic (documented: panics if called after Wait)")
					} else if rec != mpb.ErrDone {
						fail("MustAdd after Wait panicked with %v, want ErrDone", rec)
					}
				}()
				o.p.MustAdd(3, nil)
			}()
		case 7: // DecoratorAverageAdjust reaches the average decorators however deeply they are wrapped
			name = "adjust"
			o := newOptCtl(60)
			depth := r.intn(4)
			old := time.Now().Add(-1000 * time.Hour)
			var d decor.Decorator = decor.NewAverageETA(decor.ET_STYLE_HHMMSS, old, nil)
			for j := 0; j < depth; j++ {
				d = wrapOne((k+j)%5, d)
			}
			b, err := o.p.Add(1000, mpb.NopStyle().Build(), mpb.BarFillerTrim(), mpb.PrependDecorators(d))
			cases.WriteString(fmt.Sprintf("J %d %d\n", k, depth))
			if err != nil {
				fail("Add returned %v", err)
				break
			}
			b.SetCurrent(500)
			// 1000 h for the first half: as many again, i.e. 40 h shown modulo 60 h
			if err := o.frame(); err != nil {
				hangErr = fmt.Errorf("case %d: %v", k, err)
				break
			}
			before := o.buf.lastRows()
			b.DecoratorAverageAdjust(time.Now().Add(-10 * time.Second))
			if err := o.frame(); err != nil {
				hangErr = fmt.Errorf("case %d: %v", k, err)
				break
			}
			after := o.buf.lastRows()
			if len(before) != 1 || !strings.HasPrefix(strings.TrimSpace(before[0]), "40:00:0") {
				fail("average ETA of a bar half done after 1000 h shows %q, want 40:00:0x (1000 h modulo 60 h)", before)
			}
			if len(after) != 1 || !strings.HasPrefix(strings.TrimSpace(after[0]), "00:00:1") {
				fail("after DecoratorAverageAdjust(now-10s) the average ETA under %d wrappers shows %q, want 00:00:1x", depth, after)
			}
			b.Abort(true)
			waitP(o.p)
		case 8: // a container that was not asked to refresh, on an output that is not a terminal, draws nothing at all
			name = "norefresh"
			var buf bytes.Buffer
			var mu sync.Mutex
			w := writerFunc(func(p []byte) (int, error) { mu.Lock(); defer mu.Unlock(); return buf.Write(p) })
			opts := []mpb.ContainerOption{mpb.WithOutput(w), mpb.WithWidth(20 + r.intn(40))}
			if r.bool() {
				opts = append(opts, mpb.PopCompletedMode())
			}
			p := mpb.New(opts...)
			n := 1 + r.intn(4)
			cases.WriteString(fmt.Sprintf("R %d %d\n", k, n))
			var bs []*mpb.Bar
			for i := 0; i < n; i++ {
				bo := []mpb.BarOption{mpb.PrependDecorators(decor.Name(fmt.Sprintf("ROW%d", i))), mpb.AppendDecorators(decor.Percentage())}
				if r.bool() {
					bo = append(bo, mpb.BarExtender(mpb.BarFillerFunc(func(w io.Writer, _ decor.Statistics) error {
						_, err := io.WriteString(w, "EXT\n")
						return err
					}), false))
				}
				if r.chance(1, 3) {
					bo = append(bo, mpb.BarRemoveOnComplete())
				}
				bs = append(bs, p.AddBar(int64(3+r.intn(5)), bo...))
			}
			for _, b := range bs {
				b.Increment()
				if r.bool() {
					b.SetPriority(r.intn(5))
				}
			}
			for i, b := range bs {
				if i%2 == 0 {
					b.IncrBy(10)
				} else {
					b.Abort(r.bool())
				}
			}
			waitP(p)
			mu.Lock()
			out := buf.String()
			mu.Unlock()
			if strings.Contains(out, "\x1b") || strings.Contains(out, "ROW") || strings.Contains(out, "EXT") || strings.Contains(out, "%") {
				fail("a container without refresh on a non-terminal output wrote %q: it must not draw bars or cursor controls", out)
			}
		case 9: // a parent context is cancelled under a container of many bars: the last frame shows every bar aborted
			// (cancelling a context closes its done channel before it cancels its children: the container can be drawing its
			// last frame while some bar's own context is not cancelled yet)
			name = "cancelmany"
			nb := 30 + r.intn(50)
			cases.WriteString(fmt.Sprintf("X %d %d\n", k, nb))
			for round := 0; round < 10 && len(bad) == 0; round++ {
				ctx, cancel := context.WithCancel(context.Background())
				var buf bytes.Buffer
				var mu sync.Mutex
				w := writerFunc(func(p []byte) (int, error) { mu.Lock(); defer mu.Unlock(); return buf.Write(p) })
				p := mpb.NewWithContext(ctx, mpb.WithOutput(w), mpb.WithAutoRefresh(), mpb.WithRefreshRate(time.Hour), mpb.WithWidth(40))
				for i := 0; i < nb; i++ {
					b := p.AddBar(100, mpb.PrependDecorators(decor.OnAbort(decor.Name("RUNNING"), "ABORTED")))
					b.IncrBy(1 + i%7)
				}
				cancel()
				waitP(p)
				mu.Lock()
				out := buf.String()
				mu.Unlock()
				if i := strings.LastIndex(out, "\x1b["); i >= 0 {
					out = out[i:]
				}
				if n := strings.Count(out, "RUNNING"); n > 0 {
					fail("after the context was cancelled the last frame of a container of %d bars shows %d of them running (round %d)", nb, n, round)
				}
			}
		case 10: // an output that is not a terminal has no height: the library takes the width for it (80 columns when no
			// width was requested), so a container of fewer bars than that shows every one of them in every frame
			name = "manybars"
			width := 0
			eff := 80
			if r.chance(2, 3) {
				width = 81 + r.intn(60)
				eff = width
			}
			nb := eff - 1 - r.intn(12)
			cases.WriteString(fmt.Sprintf("H %d %d %d\n", k, width, nb))
			o := newOptCtl(width)
			var bs []*mpb.Bar
			for i := 0; i < nb; i++ {
				bs = append(bs, o.p.AddBar(100, mpb.PrependDecorators(decor.Name(fmt.Sprintf("<B%03d>", i)))))
			}
			for round := 0; round < 2 && len(bad) == 0; round++ {
				for i, b := range bs {
					b.IncrBy(1 + i%5)
				}
				if err := o.frame(); err != nil {
					hangErr = fmt.Errorf("case %d: %v", k, err)
					break
				}
				seen := map[string]int{}
				for _, row := range o.buf.lastRows() {
					if i := strings.Index(row, "<B"); i >= 0 && len(row) >= i+6 {
						seen[row[i:i+6]]++
					}
				}
				var missing []string
				for i := 0; i < nb; i++ {
					switch n := seen[fmt.Sprintf("<B%03d>", i)]; {
					case n == 0:
						missing = append(missing, fmt.Sprintf("%d", i))
					case n > 1:
						fail("bar %d is drawn %d times in one frame", i, n)
					}
				}
				if len(missing) > 0 {
					fail("a container of %d one-row bars on a non-terminal output of width %d (0: the default, 80) draws %d of them in frame %d; missing: %s",
						nb, width, len(seen), round+1, strings.Join(missing, ","))
				}
			}
			for _, b := range bs {
				b.Abort(false)
			}
			waitP(o.p)
		case 11: // text written through a refreshing container that has no bar (never had one, or not yet) is emitted all the
			// same: Wait / Shutdown / the cancelled context draw the closing frame, and the text is in it, once and in order
			name = "textonly"
			nl := 1 + r.intn(4)
			ending := r.intn(3) // 0 Wait 1 Shutdown 2 cancel + Wait
			cases.WriteString(fmt.Sprintf("Y %d %d %d\n", k, nl, ending))
			ctx, cancel := context.WithCancel(context.Background())
			var buf bytes.Buffer
			var mu sync.Mutex
			w := writerFunc(func(p []byte) (int, error) { mu.Lock(); defer mu.Unlock(); return buf.Write(p) })
			p := mpb.NewWithContext(ctx, mpb.WithOutput(w), mpb.WithAutoRefresh(), mpb.WithRefreshRate(time.Hour), mpb.WithWidth(40))
			var want strings.Builder
			for i := 0; i < nl; i++ {
				line := fmt.Sprintf("<text %d.%d>\n", k, i)
				n, err := io.WriteString(p, line)
				if err != nil || n != len(line) {
					fail("Write on a live container returned (%d, %v) for %d bytes", n, err, len(line))
				}
				want.WriteString(line)
			}
			switch ending {
			case 0:
				waitP(p)
			case 1:
				if !waitTimeout(p.Shutdown) {
					hangErr = fmt.Errorf("case %d: hang: shutdown", k)
				}
			default:
				cancel()
				waitP(p)
			}
			cancel()
			mu.Lock()
			out := csiRe.ReplaceAllString(buf.String(), "")
			mu.Unlock()
			if out != want.String() {
				fail("a container without bars was given %q through Write; after %s the output holds %q", want.String(),
					[]string{"Wait", "Shutdown", "cancel and Wait"}[ending], out)
			}
		case 12: // the last running bar of an auto-refreshing container finishes between two ticks of a long refresh rate: the bar
			// asks for frames itself until it has been drawn out, and Wait returns without waiting for the ticker
			name = "earlyrefresh"
			ending := r.intn(3) // 0 reaches its total 1 SetTotal(-1, true) 2 Abort
			total := int64(1 + r.intn(50))
			cases.WriteString(fmt.Sprintf("R %d %d %d\n", k, ending, total))
			p := mpb.New(mpb.WithOutput(io.Discard), mpb.WithAutoRefresh(), mpb.WithRefreshRate(time.Hour), mpb.WithWidth(40))
			var b *mpb.Bar
			if ending == 1 {
				// a bar of unknown total (SetTotal is ignored once the completion trigger is armed, as it is for a positive total)
				b = p.AddBar(0)
			} else {
				b = p.AddBar(total)
			}
			b.IncrInt64(total / 2)
			switch ending {
			case 0:
				b.SetCurrent(total)
			case 1:
				b.SetTotal(-1, true)
			default:
				b.Abort(r.bool())
			}
			if !waitTimeout(p.Wait) {
				fail("the only bar of an auto-refreshing container (refresh rate one hour) finished (ending %d), Wait has not returned after %v: "+
					"it is waiting for the ticker", ending, hangTimeout)
			}
		default: // WithWaitGroup: Wait first waits for the user's group
			name = "waitgroup"
			var wg sync.WaitGroup
			wg.Add(1)
			o := newOptCtl(30, mpb.WithWaitGroup(&wg))
			cases.WriteString(fmt.Sprintf("G %d\n", k))
			b := o.p.AddBar(2)
			b.IncrBy(2)
			ret := make(chan struct{})
			go func() { o.p.Wait(); close(ret) }()
			select {
			case <-ret:
				fail("Wait returned although the wait group given with WithWaitGroup is not done")
			case <-time.After(3 * time.Millisecond):
			}
			wg.Done()
			select {
			case <-ret:
			case <-time.After(hangTimeout):
				hangErr = fmt.Errorf("case %d: hang: wait after the user's wait group was done", k)
			}
		}
		switch {
		case len(bad) > 0:
			impl.WriteString(fmt.Sprintf("%d %s BAD %s\n", k, name, strings.Join(bad, " ;; ")))
		default:
			impl.WriteString(fmt.Sprintf("%d %s OK\n", k, name))
		}
		c.count(name)
	}
	return hangErr
}
