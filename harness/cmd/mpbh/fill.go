package main

// Family "fill": bar fillers, spinner fillers and whole rows (decorators +
// spacing + filler) — C07, C08. Strings are built from class-specific
// alphabets so that the produced bytes can be classified rune by rune; the
// model works on display widths only. Observations are sequences of
// class:width runs plus the measured display width and UTF-8 validity.

import (
	"bytes"
	"fmt"
	"math"
	"strconv"
	"strings"
	"time"
	"unicode/utf8"

	"github.com/acarl005/stripansi"
	"github.com/mattn/go-runewidth"
	"github.com/vbauerster/mpb/v8"
	"github.com/vbauerster/mpb/v8/decor"
)

func init() { families["fill"] = runFillFamily }

const (
	cL      = 0
	cR      = 1
	cRefill = 2
	cFill   = 3
	cPad    = 4
	cEll    = 5
	cSp     = 6
	cFrame  = 7 // + 10*i
	cTip    = 100
	cDec    = 1000
)

var poolL = []string{"[", "【", "", "([", "\u200b", "["}
var poolR = []string{"]", "】", "", "])", "]"}
var poolFill = []string{"=", "＝", "≡≡", "=", "=", "", "\u200c"}
var poolRefill = []string{"+", "＋", "++", "+", "", "+"}
var poolPad = []string{"-", "ー", "--", "-", "-", "", "\u2060"}
var poolTip = [][]string{{">", "》", "}>", "", ">"}, {"<", "《", "<"}, {"^", "＾", "^"}}
var poolSpin = [][]string{{"⠋", "◐◐", "＠"}, {"⠙", "◓", "＃＃"}, {"⠹", "◑", "％"}}
var decLetters = []rune("abcdef")
var decWide = []rune("你好世界中文")

type classifier map[rune]int

func (cl classifier) add(s string, cls int) {
	for _, r := range s {
		cl[r] = cls
	}
}

// classify turns a rendered string into runs "cls:width"; unknown runes -> class -1
func (cl classifier) classify(s string) string {
	type run struct{ cls, w int }
	var runs []run
	for _, r := range s {
		w := runewidth.RuneWidth(r)
		if w == 0 {
			continue
		}
		cls, ok := cl[r]
		if !ok {
			switch r {
			case ' ':
				cls = cSp
			case '…':
				cls = cEll
			default:
				cls = -1
			}
		}
		if n := len(runs); n > 0 && runs[n-1].cls == cls {
			runs[n-1].w += w
		} else {
			runs = append(runs, run{cls, w})
		}
	}
	var sb strings.Builder
	for _, r := range runs {
		fmt.Fprintf(&sb, " %d:%d", r.cls, r.w)
	}
	return sb.String()
}

func obsLine(k, i int, cl classifier, out string) string {
	stripped := stripansi.Strip(out)
	stripped = strings.TrimSuffix(stripped, "\n")
	return fmt.Sprintf("%d %d T%s | W %d U %d", k, i, cl.classify(stripped), runewidth.StringWidth(stripped), b2i(utf8.ValidString(out)))
}

type styleSpec struct {
	l, r, f, rf, p string
	tips          []string
	toc, rev      bool
}

func (s *styleSpec) build() mpb.BarFiller {
	c := mpb.BarStyle().Lbound(s.l).Rbound(s.r).Filler(s.f).Refiller(s.rf).Padding(s.p).Tip(s.tips...)
	if s.toc {
		c = c.TipOnComplete()
	}
	if s.rev {
		c = c.Reverse()
	}
	return c.Build()
}

func (s *styleSpec) classes(cl classifier) {
	cl.add(s.l, cL)
	cl.add(s.r, cR)
	cl.add(s.f, cFill)
	cl.add(s.rf, cRefill)
	cl.add(s.p, cPad)
	for i, t := range s.tips {
		cl.add(t, cTip+i)
	}
}

func sw(s string) int { return runewidth.StringWidth(s) }

func (s *styleSpec) header() string {
	tw := make([]string, len(s.tips))
	for i, t := range s.tips {
		tw[i] = strconv.Itoa(sw(t))
	}
	return fmt.Sprintf("%d %d %d %d %d %d %d %s", sw(s.l), sw(s.r), sw(s.f), sw(s.rf), sw(s.p), b2i(s.toc), b2i(s.rev), strings.Join(tw, ","))
}

func (s *styleSpec) quoted() string {
	return fmt.Sprintf("%q %q %q %q %q %q", s.l, s.r, s.f, s.rf, s.p, s.tips)
}

func genStyle(r *rng, allowZero bool) *styleSpec {
	pick := func(p []string) string {
		for {
			s := p[r.intn(len(p))]
			if allowZero || sw(s) > 0 {
				return s
			}
		}
	}
	st := &styleSpec{l: poolL[r.intn(len(poolL))], r: poolR[r.intn(len(poolR))], f: pick(poolFill), rf: pick(poolRefill), p: pick(poolPad)}
	nt := 1 + r.intn(3)
	if r.chance(2, 3) {
		nt = 1
	}
	for i := 0; i < nt; i++ {
		for {
			t := poolTip[i][r.intn(len(poolTip[i]))]
			if t != "" || (i == 0 && nt == 1 && allowZero) { // Tip("") alone is accepted by the API
				st.tips = append(st.tips, t)
				break
			}
		}
	}
	st.toc = r.chance(1, 3)
	st.rev = r.chance(1, 3)
	return st
}

func genProgress(r *rng) (total, current, refill int64) {
	switch r.intn(10) {
	case 0: // int64 extremes and products beyond 2^64
		total = r.pickI64([]int64{math.MaxInt64, math.MaxInt64 - 1, 1 << 62, (1 << 53) + 1, 1 << 53, 1 << 57})
		switch r.intn(5) {
		case 0:
			current = total / 2
		case 1:
			current = total - 1
		case 2:
			current = total/3 + int64(r.intn(3)) - 1
		case 3:
			current = int64(r.u64() % uint64(total))
		default:
			current = total
		}
	case 1:
		total = int64(r.intn(3)) - 1 // -1, 0, 1
		current = int64(r.intn(5)) - 2
	case 2:
		total = int64(r.intn(200)) + 1
		current = r.pickI64([]int64{0, 1, total - 1, total, total + 1, -1, total / 2})
	default:
		total = int64(r.intn(300)) + 1
		current = int64(r.intn(int(total) + 1))
	}
	switch r.intn(4) {
	case 0:
		if current > 0 {
			refill = int64(r.u64() % uint64(current+1))
		}
	case 1:
		refill = r.pickI64([]int64{current, current + 1, -1, 1, total})
	}
	return
}

func fillWithTimeout(f mpb.BarFiller, st decor.Statistics) (string, bool) {
	type res struct{ s string }
	ch := make(chan res, 1)
	go func() {
		var buf bytes.Buffer
		_ = f.Fill(&buf, st)
		ch <- res{buf.String()}
	}()
	select {
	case r := <-ch:
		return r.s, true
	case <-time.After(5 * time.Second):
		return "", false
	}
}

func runFillFamily(c *runCtx) error {
	cases, doneC := c.create("cases.txt")
	impl, doneI := c.create("impl.txt")
	defer doneC()
	defer doneI()
	if c.extra != "" {
		return fmt.Errorf("fill family: scripts are regenerated from (seed, index); use -seed/-n")
	}
	root := newRng(c.seed)
	hangs := 0
	for k := 0; k < c.n; k++ {
		r := root.fork()
		var err error
		switch kind := r.intn(10); {
		case kind < 5:
			err = fillCaseF(c, r, k, cases, impl, &hangs)
		case kind < 6:
			err = fillCaseS(c, r, k, cases, impl)
		default:
			err = fillCaseD(c, r, k, cases, impl, &hangs)
		}
		if err != nil {
			return err
		}
	}
	return nil
}

// F: direct calls of BarFiller.Fill
func fillCaseF(c *runCtx, r *rng, k int, cases, impl lineW, hangs *int) error {
	zero := r.chance(1, 6) && *hangs < 2 // each non-terminating Fill leaves a spinning goroutine
	st := genStyle(r, zero)
	f := st.build()
	cl := classifier{}
	st.classes(cl)
	cases.WriteString(fmt.Sprintf("F %d %s\n", k, st.header()))
	c.count("F_cases")
	if zero {
		c.count("F_zero_width_components_allowed")
	}
	n := 1 + r.intn(4)
	for i := 0; i < n; i++ {
		total, cur, ref := genProgress(r)
		var avail, req int
		switch r.intn(6) {
		case 0:
			avail = r.intn(6)
		case 1:
			avail = 200 + r.intn(2000)
		default:
			avail = r.intn(100)
		}
		switch r.intn(4) {
		case 0:
			req = r.intn(avail+10) - 2
		case 1:
			req = avail
		}
		completed := cur == total && total > 0 && r.chance(3, 4)
		stt := decor.Statistics{AvailableWidth: avail, RequestedWidth: req, Total: total, Current: cur, Refill: ref, Completed: completed}
		cases.WriteString(fmt.Sprintf("c %d %d %d %d %d %d\n", avail, req, total, cur, ref, b2i(completed)))
		out, ok := fillWithTimeout(f, stt)
		if !ok {
			impl.WriteString(fmt.Sprintf("%d %d HANG\n", k, i))
			*hangs++
			c.count("F_hang")
			// the filler's internal tip counter is in an unknown state: end the case
			break
		}
		impl.WriteString(obsLine(k, i, cl, out) + "\n")
		c.count("F_calls")
		if cur > 0 && total > 0 && float64(avail)*float64(cur) >= math.Exp2(64) {
			c.count("F_product_beyond_2^64")
		}
	}
	cases.WriteString("end\n")
	return nil
}

// S: direct calls of the spinner filler
func fillCaseS(c *runCtx, r *rng, k int, cases, impl lineW) error {
	nf := 1 + r.intn(3)
	var frames []string
	cl := classifier{}
	var ws []string
	for i := 0; i < nf; i++ {
		fr := poolSpin[i][r.intn(len(poolSpin[i]))]
		frames = append(frames, fr)
		cl.add(fr, cFrame+10*i)
		ws = append(ws, strconv.Itoa(sw(fr)))
	}
	pos := r.intn(3)
	sc := mpb.SpinnerStyle(frames...)
	switch pos {
	case 1:
		sc = sc.PositionLeft()
	case 2:
		sc = sc.PositionRight()
	}
	if r.chance(1, 2) {
		// colouring a frame adds no cell: the body keeps its width and position
		sc = sc.Meta(colour)
		c.count("S_meta")
	}
	f := sc.Build()
	cases.WriteString(fmt.Sprintf("S %d %d %s\n", k, pos, strings.Join(ws, ",")))
	c.count("S_cases")
	n := 1 + r.intn(5)
	for i := 0; i < n; i++ {
		avail := r.intn(30)
		req := 0
		if r.chance(1, 3) {
			req = r.intn(avail+5) - 1
		}
		cases.WriteString(fmt.Sprintf("c %d %d\n", avail, req))
		var buf bytes.Buffer
		_ = f.Fill(&buf, decor.Statistics{AvailableWidth: avail, RequestedWidth: req})
		impl.WriteString(obsLine(k, i, cl, buf.String()) + "\n")
	}
	cases.WriteString("end\n")
	return nil
}

type decSpec struct {
	side          int
	W             int
	extra, right  bool
	wraps         string // outermost first: C A M c a
	text, cm, am  []int  // grapheme kinds: 1 ascii, 2 wide, 3 ascii+combining, 0 zero-width
}

func graphemes(idx int, kinds []int) string {
	var sb strings.Builder
	for _, k := range kinds {
		switch k {
		case 1:
			sb.WriteRune(decLetters[idx])
		case 2:
			sb.WriteRune(decWide[idx])
		case 3:
			sb.WriteRune(decLetters[idx])
			sb.WriteRune('\u0301')
		default:
			sb.WriteRune('\u200b')
		}
	}
	return sb.String()
}

func kindWidths(kinds []int) string {
	if len(kinds) == 0 {
		return "-"
	}
	s := make([]string, len(kinds))
	for i, k := range kinds {
		w := 1
		if k == 2 {
			w = 2
		} else if k == 0 {
			w = 0
		}
		s[i] = strconv.Itoa(w)
	}
	return strings.Join(s, ",")
}

func genKinds(r *rng, max int) []int {
	n := r.intn(max + 1)
	out := make([]int, n)
	for i := range out {
		switch r.intn(8) {
		case 0:
			out[i] = 2
		case 1:
			out[i] = 3
		case 2:
			out[i] = 0
		default:
			out[i] = 1
		}
	}
	return out
}

func colour(s string) string { return "\x1b[31m" + s + "\x1b[0m" }

func (d *decSpec) build(idx int) decor.Decorator {
	cflags := 0
	if d.extra {
		cflags |= decor.DextraSpace
	}
	if d.right {
		cflags |= decor.DindentRight
	}
	txt := graphemes(idx, d.text)
	var dd decor.Decorator = decor.Any(func(decor.Statistics) string { return txt }, decor.WC{W: d.W, C: cflags})
	for i := len(d.wraps) - 1; i >= 0; i-- {
		switch d.wraps[i] {
		case 'C':
			dd = decor.OnComplete(dd, graphemes(idx, d.cm))
		case 'A':
			dd = decor.OnAbort(dd, graphemes(idx, d.am))
		case 'M':
			dd = decor.Meta(dd, colour)
		case 'c':
			dd = decor.OnCompleteMeta(dd, colour)
		case 'a':
			dd = decor.OnAbortMeta(dd, colour)
		}
	}
	return dd
}

// D: whole rows through a manually refreshed container of width tw
func fillCaseD(c *runCtx, r *rng, k int, cases, impl lineW, hangs *int) error {
	tw := 1 + r.intn(70)
	if r.chance(1, 6) {
		tw = 1 + r.intn(6)
	}
	bw := 0
	if r.chance(1, 3) {
		bw = r.intn(tw + 6)
	}
	trim := r.chance(1, 3)
	fk := "B"
	switch r.intn(6) {
	case 0:
		fk = "S"
	case 1:
		fk = "N"
	}
	cl := classifier{}
	var filler mpb.BarFiller
	var fhdr string
	switch fk {
	case "B":
		st := genStyle(r, false)
		st.classes(cl)
		filler = st.build()
		fhdr = st.header()
	case "S":
		fr := poolSpin[0][r.intn(len(poolSpin[0]))]
		cl.add(fr, cFrame)
		pos := r.intn(3)
		sc := mpb.SpinnerStyle(fr)
		if pos == 1 {
			sc = sc.PositionLeft()
		} else if pos == 2 {
			sc = sc.PositionRight()
		}
		if r.chance(1, 2) {
			sc = sc.Meta(colour)
		}
		filler = sc.Build()
		fhdr = fmt.Sprintf("%d %d", pos, sw(fr))
	default:
		filler = nil
		fhdr = "-"
	}
	nd := r.intn(5)
	var decs []*decSpec
	var pre, app []decor.Decorator
	for i := 0; i < nd; i++ {
		d := &decSpec{side: r.intn(2), extra: r.chance(1, 3), right: r.chance(1, 3)}
		if r.chance(1, 2) {
			d.W = r.intn(12)
		}
		for j, n := 0, r.intn(4); j < n; j++ {
			d.wraps += string("CAMca"[r.intn(5)])
		}
		d.text, d.cm, d.am = genKinds(r, 10), genKinds(r, 6), genKinds(r, 6)
		decs = append(decs, d)
		for _, rr := range graphemes(i, []int{1, 2}) {
			cl[rr] = cDec + i
		}
		if d.side == 0 {
			pre = append(pre, d.build(i))
		} else {
			app = append(app, d.build(i))
		}
	}
	var stat decor.Statistics
	app = append(app, decor.Any(func(s decor.Statistics) string { stat = s; return "" }))

	total, cur, ref := genProgress(r)
	if total > 1<<40 && r.chance(1, 2) { // keep most rows in the plain range
		total, cur, ref = 100, int64(r.intn(101)), 0
	}
	abort := r.chance(1, 6)

	out := &frameWriter{ch: make(chan string, 16)}
	manual := make(chan interface{})
	p := mpb.New(mpb.WithOutput(out), mpb.WithWidth(tw), mpb.WithManualRefresh(manual))
	opts := []mpb.BarOption{mpb.PrependDecorators(pre...), mpb.AppendDecorators(app...)}
	if bw > 0 {
		opts = append(opts, mpb.BarWidth(bw))
	}
	if trim {
		opts = append(opts, mpb.BarFillerTrim())
	}
	var b *mpb.Bar
	var err error
	if filler == nil {
		b, err = p.Add(total, nil, opts...)
	} else {
		b, err = p.Add(total, filler, opts...)
	}
	if err != nil {
		return err
	}
	if cur >= 0 {
		b.SetCurrent(cur)
	} else {
		b.IncrInt64(cur)
	}
	b.SetRefill(ref)
	if abort {
		b.Abort(false)
	}
	b.Current()

	cases.WriteString(fmt.Sprintf("D %d %d %d %d %s %s\n", k, tw, bw, b2i(trim), fk, fhdr))
	for _, d := range decs {
		w := d.wraps
		if w == "" {
			w = "-"
		}
		cases.WriteString(fmt.Sprintf("d %d %d %d %d %s %s %s %s\n", d.side, d.W, b2i(d.extra), b2i(d.right), w,
			kindWidths(d.text), kindWidths(d.cm), kindWidths(d.am)))
	}
	c.count("D_cases")
	c.count("D_filler_" + fk)
	c.count(fmt.Sprintf("D_decorators_%d", nd))
	nframes := 1 + r.intn(3)
	for i := 0; i < nframes; i++ {
		select {
		case manual <- time.Now():
		case <-time.After(hangTimeout):
			impl.WriteString(fmt.Sprintf("%d %d HANG tick\n", k, i))
			cases.WriteString("end\n")
			*hangs++
			return nil
		}
		var frame string
		select {
		case frame = <-out.ch:
		case <-time.After(hangTimeout):
			impl.WriteString(fmt.Sprintf("%d %d HANG frame\n", k, i))
			cases.WriteString("end\n")
			*hangs++
			return nil
		}
		// drop the cursor-up/erase prefix of later frames, keep the single row
		if j := strings.LastIndex(frame, "\x1b[J"); j >= 0 {
			frame = frame[j+3:]
		}
		cases.WriteString(fmt.Sprintf("f %d %d %d %d %d\n", stat.Total, stat.Current, stat.Refill, b2i(stat.Completed), b2i(stat.Aborted)))
		impl.WriteString(obsLine(k, i, cl, frame) + "\n")
		c.count("D_frames")
		if stat.Completed {
			c.count("D_frames_completed")
		}
		if stat.Aborted {
			c.count("D_frames_aborted")
		}
	}
	cases.WriteString("end\n")
	shut := make(chan struct{})
	go func() { p.Shutdown(); close(shut) }()
	select {
	case <-shut:
	case <-time.After(hangTimeout):
		impl.WriteString(fmt.Sprintf("%d %d HANG shutdown\n", k, nframes))
	}
	return nil
}

type frameWriter struct{ ch chan string }

func (w *frameWriter) Write(p []byte) (int, error) {
	select {
	case w.ch <- string(p):
	default:
	}
	return len(p), nil
}
