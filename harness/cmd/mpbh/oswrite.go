package main

import "os"

func osWriteFile(path string, b []byte) error { return os.WriteFile(path, b, 0o644) }
