package main

// Event log shared by the container-level families: hook events of the
// library (build tag verif), client calls/returns and output writes go into
// one totally ordered sequence.

import (
	"fmt"
	"strings"
	"sync"
	"time"

	"github.com/vbauerster/mpb/v8"
)

// point numbers of internal/verifhook (kept in step by TestPoints in the translator tables)
const (
	pHmReq = iota + 1
	pHmIter
	pHmIterDrop
	pHmPop
	pHmPopDrop
	pCtDelayEnd
	pCtOp
	pCtIO
	pCtRenderErr
	pCtDone
	pCtExit
	pCtAdd
	pCtRenderBegin
	pCtRenderSize
	pCtFlushBar
	pCtFrame
	pLsDone
	pBarOp
	pBarExit
	pBarRender
	pBarTrigger
	pEarlyDecide
	pEarlyReq
	pEarlyExit
	pWcSent
	pWcGot
	pDistCollected
	pDistDrop
	pDistDone
	pPushDirect
	pPushDetached
	pPushSend
)

var pointNames = map[int]string{
	pHmReq: "HM_REQ", pHmIter: "HM_ITER", pHmIterDrop: "HM_ITERDROP", pHmPop: "HM_POP", pHmPopDrop: "HM_POPDROP",
	pCtDelayEnd: "CT_DELAYEND", pCtOp: "CT_OP", pCtIO: "CT_IO", pCtRenderErr: "CT_RENDERERR", pCtDone: "CT_DONE",
	pCtExit: "CT_EXIT", pCtAdd: "CT_ADD", pCtRenderBegin: "CT_RENDERBEGIN", pCtRenderSize: "CT_RENDERSIZE",
	pCtFlushBar: "CT_FLUSHBAR", pCtFrame: "CT_FRAME", pLsDone: "LS_DONE", pBarOp: "BAR_OP", pBarExit: "BAR_EXIT",
	pBarRender: "BAR_RENDER", pBarTrigger: "BAR_TRIGGER", pEarlyDecide: "EARLY_DECIDE", pEarlyReq: "EARLY_REQ",
	pEarlyExit: "EARLY_EXIT", pWcSent: "WC_SENT", pWcGot: "WC_GOT", pDistCollected: "DIST_COLLECTED",
	pDistDrop: "DIST_DROP", pDistDone: "DIST_DONE", pPushDirect: "PUSH_DIRECT", pPushDetached: "PUSH_DETACHED",
	pPushSend: "PUSH_SEND",
}

type traceLog struct {
	mu      sync.Mutex
	cond    *sync.Cond
	lines   []string
	points  []int // hook point of each line (0 for client / output lines)
	bars    map[*mpb.Bar]int
	chans   map[uintptr]int
	pending int // script index of the bar being added (-1: none)
	perturb func(point int) // optional scheduling perturbation, called outside the lock
	hits    map[string]int
}

func newTraceLog() *traceLog {
	t := &traceLog{bars: map[*mpb.Bar]int{}, chans: map[uintptr]int{}, pending: -1, hits: map[string]int{}}
	t.cond = sync.NewCond(&t.mu)
	return t
}

func (t *traceLog) barIdx(b *mpb.Bar) int {
	if b == nil {
		return -1
	}
	if i, ok := t.bars[b]; ok {
		return i
	}
	i := t.pending
	if i < 0 {
		i = 1000 + len(t.bars) // unknown bar: should not happen
	}
	t.bars[b] = i
	return i
}

func (t *traceLog) chanIdx(c uintptr) int {
	if i, ok := t.chans[c]; ok {
		return i
	}
	i := len(t.chans)
	t.chans[c] = i
	return i
}

// add appends a line and returns its sequence number
func (t *traceLog) add(point int, format string, args ...interface{}) int {
	t.mu.Lock()
	seq := len(t.lines)
	t.lines = append(t.lines, fmt.Sprintf("t %d ", seq)+fmt.Sprintf(format, args...))
	t.points = append(t.points, point)
	t.cond.Broadcast()
	t.mu.Unlock()
	return seq
}

// sink receives the library's hook events
func (t *traceLog) sink(ev mpb.VerifEvent) {
	t.mu.Lock()
	name := pointNames[ev.Point]
	var sb strings.Builder
	sb.WriteString(name)
	if ev.Bar != nil || ev.Point == pCtAdd {
		fmt.Fprintf(&sb, " b%d", t.barIdx(ev.Bar))
	}
	if ev.Point == pCtAdd {
		fmt.Fprintf(&sb, " after=%d", t.barIdx(ev.Bar2))
	}
	for _, v := range ev.Ints {
		fmt.Fprintf(&sb, " %d", v)
	}
	if ev.Ch != 0 {
		fmt.Fprintf(&sb, " ch%d", t.chanIdx(ev.Ch))
	}
	if ev.Col != nil {
		sb.WriteString(" col")
		for _, c := range ev.Col {
			fmt.Fprintf(&sb, ",%d", t.chanIdx(c))
		}
	}
	if ev.Str != "" {
		fmt.Fprintf(&sb, " %q", ev.Str)
	}
	seq := len(t.lines)
	t.lines = append(t.lines, fmt.Sprintf("t %d %s", seq, sb.String()))
	t.points = append(t.points, ev.Point)
	t.hits[name]++
	t.cond.Broadcast()
	p := t.perturb
	t.mu.Unlock()
	if p != nil {
		p(ev.Point)
	}
}

// waitFor blocks until pred(points, from) holds or the timeout expires
func (t *traceLog) waitFor(timeout time.Duration, pred func(points []int) bool) bool {
	deadline := time.Now().Add(timeout)
	done := make(chan struct{})
	defer close(done)
	go func() { // wake the waiter up periodically so that the deadline is noticed
		tk := time.NewTicker(50 * time.Millisecond)
		defer tk.Stop()
		for {
			select {
			case <-tk.C:
				t.mu.Lock()
				t.cond.Broadcast()
				t.mu.Unlock()
			case <-done:
				return
			}
		}
	}()
	t.mu.Lock()
	defer t.mu.Unlock()
	for !pred(t.points) {
		if time.Now().After(deadline) {
			return false
		}
		t.cond.Wait()
	}
	return true
}

func (t *traceLog) length() int {
	t.mu.Lock()
	defer t.mu.Unlock()
	return len(t.lines)
}

func (t *traceLog) snapshot() []string {
	t.mu.Lock()
	defer t.mu.Unlock()
	return append([]string(nil), t.lines...)
}

// the process-wide sink dispatches to the log of the scenario being run
var curTrace struct {
	mu sync.Mutex
	t  *traceLog
}

func installSink() {
	mpb.VerifSetSink(func(ev mpb.VerifEvent) {
		curTrace.mu.Lock()
		t := curTrace.t
		curTrace.mu.Unlock()
		if t != nil {
			t.sink(ev)
		}
	})
}

func setTrace(t *traceLog) {
	curTrace.mu.Lock()
	curTrace.t = t
	curTrace.mu.Unlock()
}
