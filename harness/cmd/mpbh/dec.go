package main

// Family "dec": the built-in decorators that the fmt family does not reach
// directly — the counters group (Counters*, Total*, Current*, InvertedCurrent*),
// Elapsed / NewElapsed, AverageSpeed / NewAverageSpeed, AverageETA /
// NewAverageETA, Spinner, Name, the conditional constructors,
// OnCompleteOrOnAbort / OnCompleteMetaOrOnAbortMeta, NewMedian and the time
// normalizers (FixedIntervalTimeNormalizer, MaxTolerateTimeNormalizer).
//
// Each case is self-checking against pieces the fmt family compares with the
// extracted model (the size types under fmt verbs, the time producers, the
// "/s" speed formatter) and against the definitions in the documentation:
//   counters   = the pair format applied to the typed current / total;
//   elapsed    = the time producer applied to now - start, frozen once the
//                bar is completed or aborted;
//   avg speed  = current / (now - start) per second, frozen once completed;
//   avg ETA    = (total - current) * round((now - start) / current);
//   every decorator reports the display width of the text it returns.
// Wall-clock readings are bracketed (before / after the call); a case whose
// expectation differs between the two ends of the bracket is skipped.
// One line per case:  k kind OK | k kind SKIP | k kind BAD V|W detail.

import (
	"bytes"
	"fmt"
	"math"
	"strings"
	"time"

	"github.com/mattn/go-runewidth"
	"github.com/vbauerster/mpb/v8"
	"github.com/vbauerster/mpb/v8/decor"
)

func init() { families["dec"] = runDecFamily }

func runDecFamily(c *runCtx) error {
	cases, doneC := c.create("cases.txt")
	impl, doneI := c.create("impl.txt")
	defer doneC()
	defer doneI()
	root := newRng(c.seed)
	styles := []decor.TimeStyle{decor.ET_STYLE_GO, decor.ET_STYLE_HHMMSS, decor.ET_STYLE_HHMM, decor.ET_STYLE_MMSS}
	producer := func(style decor.TimeStyle, d time.Duration) string {
		// the time producers, as compared with the model by the fmt family (styles 1-3); ET_STYLE_GO is Go's own String
		if style == decor.ET_STYLE_GO {
			return d.Truncate(time.Second).String()
		}
		s, _ := decor.MovingAverageETA(style, &fakeAvg{v: float64(d)}, nil).Decor(decor.Statistics{Total: 1})
		return s
	}
	for k := 0; k < c.n; k++ {
		r := root.fork()
		kind := r.intn(11)
		report := func(name string, bad []string, skip bool) {
			switch {
			case len(bad) > 0:
				impl.WriteString(fmt.Sprintf("%d %s BAD %s\n", k, name, strings.Join(bad, " ;; ")))
			case skip:
				impl.WriteString(fmt.Sprintf("%d %s SKIP\n", k, name))
			default:
				impl.WriteString(fmt.Sprintf("%d %s OK\n", k, name))
			}
			c.count(name)
		}
		width := func(bad *[]string, what, s string, w int) {
			if w != runewidth.StringWidth(s) {
				*bad = append(*bad, fmt.Sprintf("W %s reports width %d for %q of display width %d", what, w, s, runewidth.StringWidth(s)))
			}
		}
		switch {
		case kind < 4: // the counters group
			total := genSize(r, 1024)
			cur := int64(r.u64() % uint64(total+1))
			if r.chance(1, 6) {
				cur = r.pickI64([]int64{0, total, total / 2, 1})
				if cur > total {
					cur = total
				}
			}
			unit := r.intn(3) // 0 no unit, 1 KiB, 2 kB
			verb, _, prec, space := genVerb(r)
			if unit == 0 {
				verb, prec = "d", -1
			}
			f := fmtString(verb, prec, space)
			typed := func(v int64) interface{} {
				switch unit {
				case 1:
					return decor.SizeB1024(v)
				case 2:
					return decor.SizeB1000(v)
				}
				return v
			}
			st := decor.Statistics{Total: total, Current: cur}
			pair := f + " / " + f
			var ds []decor.Decorator
			var wants []string
			var names []string
			add := func(name string, d decor.Decorator, want string) {
				ds, wants, names = append(ds, d), append(wants, want), append(names, name)
			}
			wantPair := fmt.Sprintf(pair, typed(cur), typed(total))
			var unitArg interface{} = 0
			switch unit {
			case 0:
				add("CountersNoUnit", decor.CountersNoUnit(pair), wantPair)
				add("TotalNoUnit", decor.TotalNoUnit(f), fmt.Sprintf(f, typed(total)))
				add("CurrentNoUnit", decor.CurrentNoUnit(f), fmt.Sprintf(f, typed(cur)))
				add("InvertedCurrentNoUnit", decor.InvertedCurrentNoUnit(f), fmt.Sprintf(f, typed(total-cur)))
			case 1:
				unitArg = decor.SizeB1024(0)
				add("CountersKibiByte", decor.CountersKibiByte(pair), wantPair)
				add("TotalKibiByte", decor.TotalKibiByte(f), fmt.Sprintf(f, typed(total)))
				add("CurrentKibiByte", decor.CurrentKibiByte(f), fmt.Sprintf(f, typed(cur)))
				add("InvertedCurrentKibiByte", decor.InvertedCurrentKibiByte(f), fmt.Sprintf(f, typed(total-cur)))
			default:
				unitArg = decor.SizeB1000(0)
				add("CountersKiloByte", decor.CountersKiloByte(pair), wantPair)
				add("TotalKiloByte", decor.TotalKiloByte(f), fmt.Sprintf(f, typed(total)))
				add("CurrentKiloByte", decor.CurrentKiloByte(f), fmt.Sprintf(f, typed(cur)))
				add("InvertedCurrentKiloByte", decor.InvertedCurrentKiloByte(f), fmt.Sprintf(f, typed(total-cur)))
			}
			add("Counters", decor.Counters(unitArg, pair), wantPair)
			add("Total", decor.Total(unitArg, f), fmt.Sprintf(f, typed(total)))
			add("Current", decor.Current(unitArg, f), fmt.Sprintf(f, typed(cur)))
			add("InvertedCurrent", decor.InvertedCurrent(unitArg, f), fmt.Sprintf(f, typed(total-cur)))
			cases.WriteString(fmt.Sprintf("C %d %d %d %d %q\n", k, unit, total, cur, f))
			var bad []string
			for i, d := range ds {
				s, w := d.Decor(st)
				if s != wants[i] {
					bad = append(bad, fmt.Sprintf("V %s(%q) of current %d total %d printed %q, the typed values under that format give %q", names[i], f, cur, total, s, wants[i]))
				}
				width(&bad, names[i], s, w)
			}
			report("counters", bad, false)
		case kind < 6: // elapsed
			style := styles[r.intn(4)]
			d := time.Duration(r.u64()%215990) * time.Second
			if r.chance(1, 5) {
				d = time.Duration(r.pickI64([]int64{0, 59, 60, 3599, 3600, 86399, 86400, 215999})) * time.Second
			}
			d += 400 * time.Millisecond // away from the second boundary
			dec := decor.NewElapsed(style, time.Now().Add(-d))
			cases.WriteString(fmt.Sprintf("L %d %d %d\n", k, style, int64(d)))
			t0 := time.Now()
			s, w := dec.Decor(decor.Statistics{Total: 10, Current: 3})
			lag := time.Since(t0) + 2*time.Millisecond
			lo, hi := producer(style, d), producer(style, d+lag)
			var bad []string
			skip := lo != hi
			if !skip && s != lo {
				bad = append(bad, fmt.Sprintf("V elapsed of %v in style %d printed %q, the time producer gives %q", d, style, s, lo))
			}
			width(&bad, "Elapsed", s, w)
			// frozen once the bar has completed, or was aborted: a second decorator started just short of a second boundary
			// is read, the boundary is crossed, and the finished bar must still show the first reading
			if r.chance(1, 4) {
				for _, fin := range []decor.Statistics{{Total: 10, Current: 10, Completed: true}, {Total: 10, Current: 3, Aborted: true}} {
					d2 := d - 400*time.Millisecond + 985*time.Millisecond
					fz := decor.NewElapsed(style, time.Now().Add(-d2))
					t1 := time.Now()
					s1, _ := fz.Decor(decor.Statistics{Total: 10, Current: 3})
					if time.Since(t1) > 10*time.Millisecond || s1 != producer(style, d2) {
						continue // the first reading was late: nothing to conclude
					}
					time.Sleep(20 * time.Millisecond)
					if style == decor.ET_STYLE_HHMM {
						continue // minutes only: the boundary crossed is not visible
					}
					if s2, _ := fz.Decor(fin); s2 != s1 {
						bad = append(bad, fmt.Sprintf("V elapsed changed from %q to %q after the bar finished (completed=%v aborted=%v)", s1, s2, fin.Completed, fin.Aborted))
					}
				}
			}
			report("elapsed", bad, skip)
		case kind < 8: // average speed
			base := []int{0, 1024, 1000}[r.intn(3)]
			d := time.Duration(1+r.intn(200000))*time.Second + 400*time.Millisecond
			cur := int64(1 + r.intn(2000000000))
			if r.chance(1, 5) {
				cur = r.pickI64([]int64{0, 1, 1023, 1024, 1 << 40, 1 << 50})
			}
			verb, class, prec, space := genVerb(r)
			if base == 0 {
				verb, class = "f", 0
				if prec < 0 {
					prec = 1
				}
			}
			_ = class
			f := fmtString(verb, prec, space)
			var unit interface{} = 0
			want := func(el time.Duration) string {
				speed := float64(cur) / float64(el) * 1e9
				switch base {
				case 1024:
					return fmt.Sprintf(f, decor.FmtAsSpeed(decor.SizeB1024(math.Round(speed))))
				case 1000:
					return fmt.Sprintf(f, decor.FmtAsSpeed(decor.SizeB1000(math.Round(speed))))
				}
				return fmt.Sprintf(f, speed)
			}
			if base == 1024 {
				unit = decor.SizeB1024(0)
			} else if base == 1000 {
				unit = decor.SizeB1000(0)
			}
			dec := decor.NewAverageSpeed(unit, f, time.Now().Add(-d))
			cases.WriteString(fmt.Sprintf("S %d %d %d %d %q\n", k, base, int64(d), cur, f))
			t0 := time.Now()
			s, w := dec.Decor(decor.Statistics{Total: cur * 2, Current: cur})
			lag := time.Since(t0) + 2*time.Millisecond
			lo, hi := want(d), want(d+lag)
			var bad []string
			skip := lo != hi
			if !skip && s != lo {
				bad = append(bad, fmt.Sprintf("V average speed of %d bytes in %v under %q printed %q, want %q", cur, d, f, s, lo))
			}
			if strings.Contains(s, "NaN") || strings.Contains(s, "Inf") {
				bad = append(bad, fmt.Sprintf("V average speed printed %q", s))
			}
			width(&bad, "AverageSpeed", s, w)
			// the same decorator read again with an unchanged Current after its start was moved (AverageAdjust): the text
			// follows the new start
			if ad, ok := dec.(decor.AverageDecorator); ok {
				d2 := d/3 + 400*time.Millisecond
				ad.AverageAdjust(time.Now().Add(-d2))
				t1 := time.Now()
				s3, _ := dec.Decor(decor.Statistics{Total: cur * 2, Current: cur})
				lag2 := time.Since(t1) + 2*time.Millisecond
				if lo2, hi2 := want(d2), want(d2+lag2); lo2 == hi2 && s3 != lo2 {
					bad = append(bad, fmt.Sprintf("V average speed of %d bytes after AverageAdjust to %v under %q printed %q, want %q", cur, d2, f, s3, lo2))
				}
			} else {
				bad = append(bad, "V NewAverageSpeed is not an AverageDecorator")
			}
			// frozen once the bar has completed: a second decorator with a short history, so that a few milliseconds change
			// the quotient visibly
			if r.chance(1, 4) && cur > 1000 {
				fz := decor.NewAverageSpeed(unit, f, time.Now().Add(-40*time.Millisecond))
				s1, _ := fz.Decor(decor.Statistics{Total: cur * 2, Current: cur})
				time.Sleep(15 * time.Millisecond)
				if s2, _ := fz.Decor(decor.Statistics{Total: cur * 2, Current: cur * 2, Completed: true}); s2 != s1 {
					bad = append(bad, fmt.Sprintf("V average speed changed from %q to %q after the bar completed", s1, s2))
				}
			}
			report("avgspeed", bad, skip)
		case kind < 9: // average ETA
			style := styles[r.intn(4)]
			d := time.Duration(1+r.intn(3000))*time.Second + 400*time.Millisecond
			total := int64(2 + r.intn(1000))
			cur := int64(r.intn(int(total) + 1))
			dec := decor.NewAverageETA(style, time.Now().Add(-d), nil)
			cases.WriteString(fmt.Sprintf("A %d %d %d %d %d\n", k, style, int64(d), total, cur))
			want := func(el time.Duration) string {
				var rem time.Duration
				if cur != 0 {
					rem = time.Duration((total - cur) * int64(math.Round(float64(el)/float64(cur))))
				}
				return producer(style, rem)
			}
			t0 := time.Now()
			s, w := dec.Decor(decor.Statistics{Total: total, Current: cur})
			lag := time.Since(t0) + 2*time.Millisecond
			lo, hi := want(d), want(d+lag)
			var bad []string
			skip := lo != hi
			if !skip && s != lo {
				bad = append(bad, fmt.Sprintf("V average ETA (style %d) of %d/%d after %v printed %q, want %q", style, cur, total, d, s, lo))
			}
			width(&bad, "AverageETA", s, w)
			report("avgeta", bad, skip)
		case kind == 9: // the *Meta functions of the bar style decorate exactly their own component and change nothing else
			comp := map[string]string{"L": "[", "R": "]", "F": "=", "E": "+", "P": "-", "T": ">"}
			wrap := func(tag string) func(string) string {
				return func(x string) string { return "<" + tag + ":" + x + "/" + tag + ">" }
			}
			rev := r.bool()
			mk := func(meta bool) mpb.BarFiller {
				st := mpb.BarStyle().Lbound("[").Rbound("]").Filler("=").Refiller("+").Padding("-").Tip(">")
				if meta {
					st = st.LboundMeta(wrap("L")).RboundMeta(wrap("R")).FillerMeta(wrap("F")).RefillerMeta(wrap("E")).PaddingMeta(wrap("P")).TipMeta(wrap("T"))
				}
				if rev {
					st = st.Reverse()
				}
				return st.Build()
			}
			total := int64(10 + r.intn(200))
			cur := int64(r.intn(int(total) + 1))
			ref := int64(0)
			if r.bool() && cur > 0 {
				ref = int64(r.intn(int(cur) + 1))
			}
			width := 3 + r.intn(60)
			st := decor.Statistics{AvailableWidth: width, Total: total, Current: cur, Refill: ref}
			cases.WriteString(fmt.Sprintf("B %d %d %d %d %d %v\n", k, width, total, cur, ref, rev))
			var plain, deco bytes.Buffer
			_ = mk(false).Fill(&plain, st)
			_ = mk(true).Fill(&deco, st)
			var bad []string
			// parse <X:...../X> groups
			rest, stripped := deco.String(), ""
			for rest != "" {
				if len(rest) < 4 || rest[0] != '<' || rest[2] != ':' {
					bad = append(bad, fmt.Sprintf("W a bar style with meta functions on every component printed %q: text outside the decorated components", deco.String()))
					break
				}
				tag := rest[1:2]
				end := strings.Index(rest, "/"+tag+">")
				if end < 0 {
					bad = append(bad, fmt.Sprintf("W a bar style with meta functions printed %q: unterminated component %s", deco.String(), tag))
					break
				}
				body := rest[3:end]
				if strings.Trim(body, comp[tag]) != "" {
					bad = append(bad, fmt.Sprintf("W the meta function of component %s was applied to %q (the component is %q)", tag, body, comp[tag]))
					break
				}
				stripped += body
				rest = rest[end+3:]
			}
			if len(bad) == 0 && stripped != plain.String() {
				bad = append(bad, fmt.Sprintf("W the bar with meta functions, decorations removed, is %q; without meta functions it is %q", stripped, plain.String()))
			}
			report("meta", bad, false)
		default: // spinner, name, conditionals, on-complete-or-on-abort
			var bad []string
			frames := [][]string{nil, {"a", "bb", "ccc"}, {"世", "界"}, {"x"}}[r.intn(4)]
			sp := decor.Spinner(frames)
			eff := frames
			if len(eff) == 0 {
				eff = []string{"⠋", "⠙", "⠹", "⠸", "⠼", "⠴", "⠦", "⠧", "⠇", "⠏"}
			}
			for i := 0; i < 2*len(eff)+1; i++ {
				s, w := sp.Decor(decor.Statistics{})
				if s != eff[i%len(eff)] {
					bad = append(bad, fmt.Sprintf("V spinner call %d printed %q, frame %d of %d is %q", i, s, i%len(eff), len(eff), eff[i%len(eff)]))
					break
				}
				width(&bad, "Spinner", s, w)
			}
			nm := []string{"", "name", "名前", "a b"}[r.intn(4)]
			if s, w := decor.Name(nm).Decor(decor.Statistics{}); s != nm {
				bad = append(bad, fmt.Sprintf("V Name(%q) printed %q", nm, s))
			} else {
				width(&bad, "Name", s, w)
			}
			a, b := decor.Name("A"), decor.Name("B")
			cond := r.bool()
			pick := func(d decor.Decorator) string {
				if d == nil {
					return "<nil>"
				}
				s, _ := d.Decor(decor.Statistics{})
				return s
			}
			wantAB := map[bool]string{true: "A", false: "B"}[cond]
			wantA := map[bool]string{true: "A", false: "<nil>"}[cond]
			if got := pick(decor.Conditional(cond, a, b)); got != wantAB {
				bad = append(bad, fmt.Sprintf("V Conditional(%v, A, B) is %s", cond, got))
			}
			if got := pick(decor.Predicative(func() bool { return cond }, a, b)); got != wantAB {
				bad = append(bad, fmt.Sprintf("V Predicative(%v, A, B) is %s", cond, got))
			}
			if got := pick(decor.OnCondition(a, cond)); got != wantA {
				bad = append(bad, fmt.Sprintf("V OnCondition(A, %v) is %s", cond, got))
			}
			if got := pick(decor.OnPredicate(a, func() bool { return cond })); got != wantA {
				bad = append(bad, fmt.Sprintf("V OnPredicate(A, %v) is %s", cond, got))
			}
			oc := decor.OnCompleteOrOnAbort(decor.Name("run"), "end")
			om := decor.OnCompleteMetaOrOnAbortMeta(decor.Name("run"), func(s string) string { return "<" + s + ">" })
			for _, t := range []struct {
				st         decor.Statistics
				want, meta string
			}{
				{decor.Statistics{}, "run", "run"},
				{decor.Statistics{Completed: true}, "end", "<run>"},
				{decor.Statistics{Aborted: true}, "end", "<run>"},
			} {
				if s, w := oc.Decor(t.st); s != t.want {
					bad = append(bad, fmt.Sprintf("V OnCompleteOrOnAbort printed %q for completed=%v aborted=%v, want %q", s, t.st.Completed, t.st.Aborted, t.want))
				} else {
					width(&bad, "OnCompleteOrOnAbort", s, w)
				}
				if s, w := om.Decor(t.st); s != t.meta {
					bad = append(bad, fmt.Sprintf("V OnCompleteMetaOrOnAbortMeta printed %q for completed=%v aborted=%v, want %q", s, t.st.Completed, t.st.Aborted, t.meta))
				} else if w != 3 {
					// a meta function decorates the text (colour codes): the reported width stays that of the text itself
					bad = append(bad, fmt.Sprintf("W OnCompleteMetaOrOnAbortMeta reports width %d for the text \"run\"", w))
				}
			}
			// NewMedian: the median of the last three samples, whatever is read in between
			med := decor.NewMedian()
			win := [3]float64{}
			for i, n := 0, 4+r.intn(12); i < n; i++ {
				x := float64(r.intn(1000))
				med.Add(x)
				win[0], win[1], win[2] = win[1], win[2], x
				if r.chance(2, 3) {
					a, b, c := win[0], win[1], win[2]
					m := math.Max(math.Min(a, b), math.Min(math.Max(a, b), c))
					if got := med.Value(); got != m {
						bad = append(bad, fmt.Sprintf("V NewMedian: after sample %d the last three samples are %v, Value() = %v, the median is %v", i, win, got, m))
						break
					}
				}
			}
			ts := decor.NewThreadSafeMovingAverage(decor.NewMedian())
			if decor.NewThreadSafeMovingAverage(ts) != ts {
				bad = append(bad, "V NewThreadSafeMovingAverage wraps a thread-safe average again")
			}
			ts.Set(7)
			if ts.Value() != 7 {
				bad = append(bad, fmt.Sprintf("V thread-safe median after Set(7) has value %v", ts.Value()))
			}
			// the time normalizers of the ETA decorators only smooth: what they return is the estimate itself, or their previous
			// answer counted down by the wall time since.  The first estimate and every estimate under a minute pass unchanged;
			// FixedIntervalTimeNormalizer(n) counts down n times, then takes the estimate again; MaxTolerateTimeNormalizer(tol)
			// counts down while the estimate is below its previous answer by at most tol
			{
				fixed := r.bool()
				n := 1 + r.intn(4)
				tol := time.Duration(1+r.intn(120)) * time.Second
				var nz decor.TimeNormalizer
				what := fmt.Sprintf("MaxTolerateTimeNormalizer(%v)", tol)
				if fixed {
					nz = decor.FixedIntervalTimeNormalizer(n)
					what = fmt.Sprintf("FixedIntervalTimeNormalizer(%d)", n)
				} else {
					nz = decor.MaxTolerateTimeNormalizer(tol)
				}
				rem := time.Duration(2+r.intn(50)) * time.Hour
				var prevOut time.Duration
				cnt := 0
				prevStart := time.Now()
				for i := 0; i < 14; i++ {
					sub := false
					switch r.intn(7) {
					case 0:
						rem += time.Duration(r.intn(600)) * time.Second
					case 1:
						rem -= time.Duration(r.intn(3600)) * time.Second
					case 2:
						sub = true // the last minute
					default:
						rem -= time.Duration(r.intn(40)) * time.Second
					}
					if rem < 2*time.Minute {
						rem = 2 * time.Minute
					}
					est := rem
					if sub {
						est = time.Duration(1+r.intn(60000)) * time.Millisecond
					}
					start := time.Now()
					out := nz.Normalize(est)
					upper := time.Since(prevStart) // at least the wall time between the two calls
					prevStart = start
					raw := i == 0 || est < time.Minute
					if fixed {
						if cnt == 0 {
							raw = true
						}
						if raw {
							cnt = n
						} else {
							cnt--
						}
					} else if !raw {
						raw = est >= prevOut || prevOut-est > tol
					}
					switch {
					case raw && out != est:
						bad = append(bad, fmt.Sprintf("V %s: call %d with estimate %v (previous answer %v) returns %v, want the estimate itself", what, i+1, est, prevOut, out))
					case !raw && prevOut-upper <= 0 && out == est:
						// the countdown may have run out: the estimate itself is the answer then
					case !raw && (out > prevOut || out < prevOut-upper):
						bad = append(bad, fmt.Sprintf("V %s: call %d with estimate %v returns %v, want the previous answer %v counted down by the wall time since (at most %v)", what, i+1, est, out, prevOut, upper))
					}
					if len(bad) > 0 {
						break
					}
					prevOut = out
				}
			}
			// the moving-average ETA: remaining = items left x the average duration per item rounded to a whole nanosecond
			// (not cut: an average of 2.6 ns over 4e9 items is 12 s, not 8 s)
			{
				fracs := []float64{0.5, 0.6, 0.75, 0.999, 0.25, 0.0, 0.499}
				v := float64(1+r.intn(6)) + fracs[r.intn(len(fracs))]
				left := int64(1+r.intn(9)) * 1000000000
				cur := int64(r.intn(1000))
				d := decor.MovingAverageETA(decor.ET_STYLE_GO, &fakeAvg{v: v}, nil)
				got, _ := d.Decor(decor.Statistics{Total: cur + left, Current: cur})
				want := time.Duration(left * int64(math.Round(v))).Truncate(time.Second).String()
				if got != want {
					bad = append(bad, fmt.Sprintf("V MovingAverageETA: %d items left at %v ns per item prints %q, want %q", left, v, got, want))
				}
			}
			cases.WriteString(fmt.Sprintf("M %d %d %q %v\n", k, len(frames), nm, cond))
			report("misc", bad, false)
		}
	}
	return nil
}
