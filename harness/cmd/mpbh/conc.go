package main

// Family "conc": several goroutines call the methods of ONE bar concurrently
// while the container renders it.  Every call is recorded with the position of
// its invocation and of its return in one global order; the extracted model
// searches a linearization of the recorded history under BarState.bapply and
// validates it with the Coq checker (Actor.check_lin).  A goroutine that only
// calls getters, and records nothing, runs alongside for the race detector.

import (
	"fmt"
	"io"
	"strconv"
	"strings"
	"sync"
	"sync/atomic"
	"time"

	"github.com/vbauerster/mpb/v8"
	"github.com/vbauerster/mpb/v8/decor"
)

func init() { families["conc"] = runConcFamily }

type concCase struct {
	k     int
	mode  int // 0 auto refresh (ticks injected), 1 not refreshing, 2 manual refresh
	total int64
	progs [][]string // per client: ops in program order
}

func (cc *concCase) header() string {
	return fmt.Sprintf("case %d %d %d %d", cc.k, cc.mode, cc.total, len(cc.progs))
}

func genConcCase(r *rng, k int, thorough bool) *concCase {
	cc := &concCase{k: k, mode: r.intn(3)}
	nclients := 2 + r.intn(3)
	maxOps := 4
	if thorough {
		maxOps = 6
	}
	pure := r.chance(1, 2) // only increments and getters: the quiescent value is the capped sum
	// one case in six: the clients mostly SET the counter (both flavours) to distinct values while others set, add and read — a
	// set that is not one atomic step (read, then add the difference) then leaves values nobody set
	setHeavy := !pure && r.chance(1, 3)
	sum := int64(0)
	for c := 0; c < nclients; c++ {
		var prog []string
		for i, n := 0, 1+r.intn(maxOps); i < n; i++ {
			op := r.intn(20)
			if setHeavy {
				switch {
				case op < 9:
					prog = append(prog, fmt.Sprintf("ESetCur %d %d", 100*(c+1)+r.intn(40), 1+r.intn(1000)))
				case op < 13:
					prog = append(prog, fmt.Sprintf("SetCur %d", 100*(c+1)+50+r.intn(40)))
				case op < 16:
					v := int64(1 + r.intn(9))
					sum += v
					prog = append(prog, fmt.Sprintf("Incr %d", v))
				default:
					prog = append(prog, "GetCur")
				}
				continue
			}
			switch {
			case op < 8 || (pure && op < 14):
				v := int64(1 + r.intn(9))
				sum += v
				if r.chance(1, 4) {
					prog = append(prog, fmt.Sprintf("EIncr %d %d", v, 1+r.intn(1000)))
				} else {
					prog = append(prog, fmt.Sprintf("Incr %d", v))
				}
			case op < 14:
				switch r.intn(6) {
				case 0:
					prog = append(prog, fmt.Sprintf("SetCur %d", r.intn(40)))
				case 1:
					prog = append(prog, fmt.Sprintf("SetTotal %d %d", r.intn(40), b2i(r.chance(1, 4))))
				case 2:
					prog = append(prog, "Enable")
				case 3:
					prog = append(prog, fmt.Sprintf("SetRefill %d", r.intn(20)))
				case 4:
					prog = append(prog, fmt.Sprintf("Abort %d", b2i(r.bool())))
				default:
					prog = append(prog, fmt.Sprintf("ESetCur %d %d", r.intn(40), 1+r.intn(1000)))
				}
			case op < 16:
				prog = append(prog, "GetCur")
			case op < 18:
				prog = append(prog, "GetComp")
			default:
				prog = append(prog, "GetAb")
			}
		}
		cc.progs = append(cc.progs, prog)
	}
	if setHeavy {
		cc.total = 100000 // far away: no capping, no completion
		return cc
	}
	switch r.intn(6) {
	case 0:
		cc.total = 0
	case 1:
		cc.total = -1
	case 2:
		cc.total = sum // completes exactly at the last increment
	case 3:
		cc.total = sum/2 + 1 // completes in the middle: later calls race with the exit
	default:
		cc.total = sum + int64(1+r.intn(50))
	}
	return cc
}

func parseConcCases(path string) ([]*concCase, error) {
	lines, err := readLines(path)
	if err != nil {
		return nil, err
	}
	var out []*concCase
	var cur *concCase
	for _, ln := range lines {
		f := strings.Fields(ln)
		if len(f) == 0 {
			continue
		}
		switch f[0] {
		case "case":
			cur = &concCase{}
			cur.k, _ = strconv.Atoi(f[1])
			cur.mode, _ = strconv.Atoi(f[2])
			cur.total, _ = strconv.ParseInt(f[3], 10, 64)
			n, _ := strconv.Atoi(f[4])
			cur.progs = make([][]string, n)
			out = append(out, cur)
		case "p": // p <client> <op...>
			c, _ := strconv.Atoi(f[1])
			if c >= 0 && c < len(cur.progs) {
				cur.progs[c] = append(cur.progs[c], strings.Join(f[2:], " "))
			}
		case "h", "end":
		default:
			return nil, fmt.Errorf("bad line %q", ln)
		}
	}
	return out, nil
}

func runConcFamily(c *runCtx) error {
	cases, doneC := c.create("cases.txt")
	defer doneC()
	var list []*concCase
	if c.extra != "" {
		var err error
		if list, err = parseConcCases(c.extra); err != nil {
			return err
		}
	} else {
		root := newRng(c.seed)
		for k := 0; k < c.n; k++ {
			list = append(list, genConcCase(root.fork(), k, c.tier == "thorough"))
		}
	}
	for _, cc := range list {
		if err := execConcCase(c, cc, cases); err != nil {
			return err
		}
	}
	return nil
}

type concCall struct {
	client   int
	inv, ret int64
	op       string
	out      string
}

func execConcCase(c *runCtx, cc *concCase, cases lineW) error {
	c.count(fmt.Sprintf("mode_%d", cc.mode))
	c.count(fmt.Sprintf("clients_%d", len(cc.progs)))
	c.count("total_class_" + classI64(cc.total))
	cases.WriteString(cc.header() + "\n")
	for ci, prog := range cc.progs {
		for _, op := range prog {
			cases.WriteString(fmt.Sprintf("p %d %s\n", ci, op))
			c.count("op_" + strings.Fields(op)[0])
		}
	}

	var p *mpb.Progress
	var manual chan interface{}
	tick := make(chan time.Time)
	switch cc.mode {
	case 0:
		mpb.VerifSetTick(tick)
		p = mpb.New(mpb.WithOutput(io.Discard), mpb.WithAutoRefresh(), mpb.WithRefreshRate(time.Hour), mpb.WithWidth(40))
	case 1:
		p = mpb.New(mpb.WithOutput(io.Discard))
	default:
		manual = make(chan interface{})
		p = mpb.New(mpb.WithOutput(io.Discard), mpb.WithManualRefresh(manual), mpb.WithWidth(40))
	}
	if f, ok := cases.(interface{ Flush() error }); ok {
		_ = f.Flush()
	}
	// every other case: moving-average decorators on the bar, so that the Ewma mutators have somebody to update while render
	// cycles read the same decorators (the counters' sequential rules are the same with and without them)
	var b *mpb.Bar
	if cc.k%2 == 1 {
		b = p.AddBar(cc.total,
			mpb.PrependDecorators(decor.EwmaSpeed(decor.SizeB1024(0), "% .1f", 30), decor.Percentage()),
			mpb.AppendDecorators(decor.EwmaETA(decor.ET_STYLE_GO, 30), decor.OnComplete(decor.EwmaETA(decor.ET_STYLE_MMSS, 10), "done")))
	} else {
		b = p.AddBar(cc.total)
	}

	var seq int64
	var mu sync.Mutex
	var hist []concCall
	call := func(client int, op string) {
		f := strings.Fields(op)
		arg := func(i int) int64 { v, _ := strconv.ParseInt(f[i], 10, 64); return v }
		out := "-"
		inv := atomic.AddInt64(&seq, 1)
		switch f[0] {
		case "Incr":
			b.IncrInt64(arg(1))
		case "EIncr":
			b.EwmaIncrInt64(arg(1), time.Duration(arg(2)))
		case "SetCur":
			b.SetCurrent(arg(1))
		case "ESetCur":
			b.EwmaSetCurrent(arg(1), time.Duration(arg(2)))
		case "SetTotal":
			b.SetTotal(arg(1), f[2] == "1")
		case "Enable":
			b.EnableTriggerComplete()
		case "SetRefill":
			b.SetRefill(arg(1))
		case "Abort":
			b.Abort(f[1] == "1")
		case "GetCur":
			out = fmt.Sprintf("I %d", b.Current())
		case "GetComp":
			out = fmt.Sprintf("B %d", b2i(b.Completed()))
		case "GetAb":
			out = fmt.Sprintf("B %d", b2i(b.Aborted()))
		case "Shutdown":
			p.Shutdown()
			b.Wait()
		}
		ret := atomic.AddInt64(&seq, 1)
		mu.Lock()
		hist = append(hist, concCall{client, inv, ret, op, out})
		mu.Unlock()
	}

	stop := make(chan struct{})
	var bg sync.WaitGroup
	// refresh source: keeps the container rendering during and after the calls
	bg.Add(1)
	go func() {
		defer bg.Done()
		for {
			select {
			case <-stop:
				return
			default:
			}
			switch cc.mode {
			case 0:
				select {
				case tick <- time.Now():
				case <-time.After(200 * time.Microsecond):
				}
			case 2:
				select {
				case manual <- time.Now():
				case <-time.After(200 * time.Microsecond):
				}
			default:
				time.Sleep(200 * time.Microsecond)
			}
		}
	}()
	// a reader that records nothing and takes no lock of the harness
	bg.Add(1)
	var sink int64
	go func() {
		defer bg.Done()
		for {
			select {
			case <-stop:
				return
			default:
			}
			sink += b.Current()
			if b.Completed() {
				sink++
			}
			if b.Aborted() {
				sink++
			}
			if b.IsRunning() {
				sink++
			}
		}
	}()

	start := make(chan struct{})
	var wg sync.WaitGroup
	for ci, prog := range cc.progs {
		wg.Add(1)
		go func(ci int, prog []string) {
			defer wg.Done()
			<-start
			for _, op := range prog {
				call(ci, op)
			}
		}(ci, prog)
	}
	close(start)
	fin := make(chan struct{})
	go func() { wg.Wait(); close(fin) }()
	hang := func(what string) error {
		cases.WriteString(fmt.Sprintf("HANG %s\nend\n", what))
		return fmt.Errorf("case %d: hang: %s", cc.k, what)
	}
	select {
	case <-fin:
	case <-time.After(hangTimeout):
		return hang("clients")
	}
	// quiescence: reads after every client call has returned
	quiet := func(client int, ops ...string) error {
		d := make(chan struct{})
		go func() {
			for _, op := range ops {
				call(client, op)
			}
			close(d)
		}()
		select {
		case <-d:
			return nil
		case <-time.After(hangTimeout):
			return hang("quiescent-" + ops[0])
		}
	}
	if err := quiet(90, "GetCur", "GetComp", "GetAb"); err != nil {
		return err
	}
	time.Sleep(2 * time.Millisecond) // a few more renders of a possibly exited bar under the silent reader
	if err := quiet(91, "Shutdown"); err != nil {
		return err
	}
	if err := quiet(92, "GetCur", "GetComp", "GetAb"); err != nil {
		return err
	}
	close(stop)
	bg.Wait()
	if cc.mode == 0 {
		mpb.VerifSetTick(nil)
	}
	for _, h := range hist {
		cases.WriteString(fmt.Sprintf("h %d %d %d %s = %s\n", h.client, h.inv, h.ret, h.op, h.out))
	}
	cases.WriteString("end\n")
	if b.Completed() {
		c.count("final_completed")
	}
	if b.Aborted() {
		c.count("final_aborted")
	}
	_ = sink
	return nil
}
